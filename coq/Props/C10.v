(* Props/C10.v — Requests act only on the addressed unit; broadcast acts on all.
   ONLY statements; proofs are in proofs/Server_proofs.v.  Every theorem is about
   [Server.respond] / [Server.accepts] interpreted on the skeletons and constants that
   gen/gen_server.py regenerates on every run from server/sync.py, server/async_io.py,
   server/asynchronous.py (execute/_execute, send/_send, the unit list built in handle())
   and framer/__init__.py (_validate_unit_id).  [l : units S] is the hosted set: an arbitrary
   association list unit id -> store over an arbitrary store type; unit ids are unbounded Z
   (so 0..255 in particular); [rq_exec] is an arbitrary effect, possibly raising.
   [is_bcast sk cfg rq] = the front-end has the broadcast branch, broadcast_enable is set
   and the request addresses unit 0. *)
From PM.theories Require Import Base Server.
From PM.Generated Require Import GenServer.
From PM.proofs Require Import Server_proofs.
Open Scope list_scope.
Open Scope Z_scope.

(* the set of hosted unit ids never changes *)
Theorem C10_hosted_set_stable : forall S sk, In sk all_fes -> forall cfg (l : units S) (rq : dreq S),
  u_keys S (fst (fst (respond S code sk cfg l rq))) = u_keys S l.
Proof. exact c10_keys. Qed.
Print Assumptions C10_hosted_set_stable.

(* a request to unit u leaves every other unit's store untouched *)
Theorem C10_isolation : forall S sk, In sk all_fes -> forall cfg (l : units S) (rq : dreq S) v,
  cf_single cfg = false -> is_bcast S sk cfg rq = false -> v <> rq_uid rq ->
  u_get S (fst (fst (respond S code sk cfg l rq))) v = u_get S l v.
Proof. exact c10_isolation. Qed.
Print Assumptions C10_isolation.

(* the same over a whole served request list: a unit nobody addresses keeps its store *)
Theorem C10_serve_isolation : forall S sk, In sk all_fes -> forall cfg v, cf_single cfg = false ->
  forall (rqs : list (dreq S)) (l : units S),
  (forall rq, In rq rqs -> is_bcast S sk cfg rq = false /\ rq_uid rq <> v) ->
  u_get S (fst (fst (serve S code sk cfg l rqs))) v = u_get S l v.
Proof. exact c10_serve_isolation. Qed.
Print Assumptions C10_serve_isolation.

Theorem C10_serve_hosted_set_stable : forall S sk, In sk all_fes -> forall cfg (rqs : list (dreq S)) (l : units S),
  u_keys S (fst (fst (serve S code sk cfg l rqs))) = u_keys S l.
Proof. exact c10_serve_keys. Qed.
Print Assumptions C10_serve_hosted_set_stable.

(* … and is executed, once, against the addressed unit's store *)
Theorem C10_addressed : forall S sk, In sk all_fes -> forall cfg (l : units S) (rq : dreq S) s,
  cf_single cfg = false -> is_bcast S sk cfg rq = false -> u_get S l (rq_uid rq) = Some s ->
  u_get S (fst (fst (respond S code sk cfg l rq))) (rq_uid rq) = Some (fst (rq_exec rq s)).
Proof. exact c10_addressed. Qed.
Print Assumptions C10_addressed.

(* absent unit: nothing changes; no answer (ignore_missing_slaves) or exactly gateway exception 0x0B *)
Theorem C10_missing : forall S sk, In sk all_fes -> forall cfg (l : units S) (rq : dreq S),
  cf_single cfg = false -> is_bcast S sk cfg rq = false -> u_get S l (rq_uid rq) = None ->
  respond S code sk cfg l rq = (l, if cf_ignore cfg then [] else [the_out S rq (exc_of S rq 11)], None).
Proof. exact c10_missing. Qed.
Print Assumptions C10_missing.

(* broadcast_enable and unit 0: executed exactly once on every hosted unit, no response
   (hypothesis: request.execute raises on no unit — see C10_broadcast_refuted) *)
Theorem C10_broadcast : forall S sk, In sk bcast_fes -> forall cfg (l : units S) (rq : dreq S),
  cf_bcast cfg = true -> rq_uid rq = 0 -> cf_single cfg = false -> NoDup (u_keys S l) ->
  (forall s, exists r, snd (rq_exec rq s) = Ok r) ->
  respond S code sk cfg l rq = (apply_all S rq l, [], None).
Proof. exact c10_broadcast. Qed.
Print Assumptions C10_broadcast.

(* the exact behaviour, raising datastores included: hosted units are visited in dict order, each at most
   once, request.execute applied to each visited one, and the first failure ends the walk; nothing is sent *)
Theorem C10_broadcast_exact : forall S sk, In sk bcast_fes -> forall cfg (l : units S) (rq : dreq S),
  cf_bcast cfg = true -> rq_uid rq = 0 -> cf_single cfg = false -> NoDup (u_keys S l) ->
  respond S code sk cfg l rq = (bcast_walk S rq l, [], None).
Proof. exact c10_broadcast_exact. Qed.
Print Assumptions C10_broadcast_exact.

Theorem C10_broadcast_single : forall S sk, In sk bcast_fes -> forall cfg s (rq : dreq S),
  cf_bcast cfg = true -> rq_uid rq = 0 -> cf_single cfg = true ->
  respond S code sk cfg [(0, s)] rq = ([(0, fst (rq_exec rq s))], [], None).
Proof. exact c10_broadcast_single. Qed.
Print Assumptions C10_broadcast_single.

(* without the no-raise hypothesis the broadcast statement is false: a datastore failure on one
   unit ends the loop and later units never see the write *)
Definition C10_broadcast_full_statement : Prop :=
  forall S sk, In sk bcast_fes -> forall cfg (l : units S) (rq : dreq S),
  cf_bcast cfg = true -> rq_uid rq = 0 -> cf_single cfg = false -> NoDup (u_keys S l) ->
  fst (fst (respond S code sk cfg l rq)) = apply_all S rq l.

Theorem C10_broadcast_refuted : ~ C10_broadcast_full_statement.
Proof. exact c10_broadcast_refuted. Qed.
Print Assumptions C10_broadcast_refuted.

(* broadcast disabled — or a front-end (Twisted) that has no such option: unit 0 is not a broadcast,
   so C10_isolation / C10_addressed / C10_missing / C09_responds apply to it like to any id *)
Theorem C10_unit0_ordinary : forall S sk cfg (rq : dreq S),
  cf_bcast cfg = false \/ In sk nobcast_fes -> is_bcast S sk cfg rq = false.
Proof. exact c10_unit0_ordinary. Qed.
Print Assumptions C10_unit0_ordinary.

Theorem C10_nonzero_ordinary : forall S sk cfg (rq : dreq S), rq_uid rq <> 0 -> is_bcast S sk cfg rq = false.
Proof. exact c10_nonzero_ordinary. Qed.
Print Assumptions C10_nonzero_ordinary.

Theorem C10_every_frontend_classified : forall sk, In sk all_fes <-> In sk bcast_fes \/ In sk nobcast_fes.
Proof. exact all_fes_split. Qed.
Print Assumptions C10_every_frontend_classified.

(* single-context mode: every unit id reaches the one context *)
Theorem C10_single : forall S sk, In sk all_fes -> forall cfg s (rq : dreq S),
  cf_single cfg = true -> is_bcast S sk cfg rq = false ->
  fst (fst (respond S code sk cfg [(0, s)] rq)) = [(0, fst (rq_exec rq s))].
Proof. exact c10_single. Qed.
Print Assumptions C10_single.

(* --- the framer's unit filter (_validate_unit_id) on the unit list each handle() builds --- *)

Theorem C10_unit_filter : forall us single uid,
  unit_filter code us single uid = single || zmem 0 us || zmem 255 us || zmem uid us.
Proof. exact unit_filter_spec. Qed.
Print Assumptions C10_unit_filter.

Theorem C10_accepts : forall sk, In sk all_fes -> forall cfg hosted uid,
  accepts code sk cfg hosted uid =
    let ul := unit_list sk cfg hosted in
    Ok (cf_single cfg || zmem 0 ul || zmem 255 ul || zmem uid ul).
Proof. exact c10_accepts_spec. Qed.
Print Assumptions C10_accepts.

(* a frame for a hosted unit (any unit in single mode) is always handed to execute() *)
Theorem C10_hosted_accepted : forall sk, In sk all_fes -> forall cfg hosted uid,
  cf_single cfg = true \/ In uid hosted -> accepts code sk cfg hosted uid = Ok true.
Proof. exact c10_hosted_accepted. Qed.
Print Assumptions C10_hosted_accepted.

(* a frame for a foreign unit is dropped by the framer unless the list contains 0 or 255 *)
Theorem C10_foreign_dropped : forall sk, In sk all_fes -> forall cfg hosted uid,
  cf_single cfg = false ->
  let ul := unit_list sk cfg hosted in
  zmem 0 ul = false -> zmem 255 ul = false -> zmem uid ul = false ->
  accepts code sk cfg hosted uid = Ok false.
Proof. exact c10_foreign_dropped. Qed.
Print Assumptions C10_foreign_dropped.

(* broadcast enabled: unit-0 frames reach execute() even when 0 is not hosted — on EVERY front-end that has
   broadcast_enable (the sync UDP handler too since /repo 168efb6; this was C10_broadcast_accepted_full_statement,
   refuted by sync_udp before that repair) *)
Theorem C10_broadcast_accepted : forall sk, In sk bcast_fes -> forall cfg hosted,
  cf_bcast cfg = true -> accepts code sk cfg hosted 0 = Ok true.
Proof. exact c10_broadcast_accepted. Qed.
Print Assumptions C10_broadcast_accepted.

(* the Twisted front-ends have no broadcast option: the framer gets exactly the hosted ids, so unit 0 is filtered like any id *)
Theorem C10_twisted_accepts : forall sk, In sk nobcast_fes -> forall cfg hosted uid,
  accepts code sk cfg hosted uid = Ok (cf_single cfg || zmem 0 hosted || zmem 255 hosted || zmem uid hosted).
Proof. exact c10_twisted_accepts. Qed.
Print Assumptions C10_twisted_accepts.

(* the Twisted UDP entry point (alive since /repo b36db33; it used to raise TypeError) hands a frame to _execute exactly
   when the asyncio datagram handler without broadcast does *)
Theorem C10_twisted_udp_accepts_like_asyncio_udp : forall cfg hosted uid,
  cf_bcast cfg = false -> accepts code tw_udp cfg hosted uid = accepts code aio_udp cfg hosted uid.
Proof. exact c10_tw_udp_accepts_like_aio_udp. Qed.
Print Assumptions C10_twisted_udp_accepts_like_asyncio_udp.

(* --- non-vacuity: units 1, 2, 247 hosted on the generated asyncio TCP skeleton; a write to unit 2,
   a broadcast, a request to absent unit 9 *)
Example C10_nonvacuous :
  let mk uid := {| rq_tid := 5; rq_uid := uid; rq_fc := 6; rq_dest := 0;
       rq_exec := fun s : Z => (s + 1, Ok {| rs_fc := 6; rs_respond := true; rs_code := None |}) |} in
  let cfg := {| cf_single := false; cf_bcast := true; cf_ignore := true |} in
  let l := [(1, 10); (2, 20); (247, 30)] in
  In aio_tcp all_fes /\ In aio_tcp bcast_fes /\ In tw_udp nobcast_fes /\ NoDup (u_keys Z l) /\
  is_bcast Z aio_tcp cfg (mk 2) = false /\
  fst (fst (respond Z code aio_tcp cfg l (mk 2))) = [(1, 10); (2, 21); (247, 30)] /\
  respond Z code aio_tcp cfg l (mk 0) = ([(1, 11); (2, 21); (247, 31)], [], None) /\
  respond Z code aio_tcp cfg l (mk 9) = (l, [], None) /\
  accepts code aio_tcp cfg [1; 2; 247] 0 = Ok true /\
  accepts code sync_udp cfg [1; 2; 247] 0 = Ok true /\
  accepts code tw_udp cfg [1; 2; 247] 2 = Ok true /\ accepts code tw_udp cfg [1; 2; 247] 0 = Ok false /\
  accepts code aio_tcp {| cf_single := false; cf_bcast := false; cf_ignore := true |} [1; 2; 247] 9 = Ok false.
Proof.
  vm_compute. repeat split; try tauto.
  repeat constructor; cbn; intuition discriminate.
Qed.
