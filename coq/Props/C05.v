(* Props/C05.v — Invalid requests get the right exception and change nothing.
   ONLY statements; see Props/C04.v for the vocabulary.  [spec_outcome] is the decision
   table of the property text (ExecSpec.v): limits 2000 / 125 / 1968 / 123 / 125+121, byte
   count vs quantity, coil word in {0x0000, 0xFF00} -> 03; range not inside the table -> 02;
   unsupported function code -> 01. *)
From PM.theories Require Import Base Expr Store Exec ExecSpec ExecView.
From PM.Generated Require Import GenStore GenExec.
From PM.proofs Require Import Store_proofs Exec_proofs Exec_req_proofs Exec_hist_proofs Exec_fault_proofs.
Open Scope list_scope.
Open Scope Z_scope.

(* the full property: for EVERY wire request the outcome is the decision table's, with
   fc|0x80, and an exception leaves the store untouched *)
Definition C05_full_statement : Prop :=
  forall c w r c' o, inv c -> decode_attrs w = Ok r -> other_ok w ->
  serve XC std c r = (c', o) ->
  exec_outcome o = spec_outcome (abs c) w /\
  (forall code, spec_outcome (abs c) w = Some code -> o = Exc (Z.lor (wfc w) 128) code /\ c' = c).

(* refuted twice by the unchanged code: *)

(* (1) FC5 accepts every value word (the guard is commented out and decode keeps only
   `value == 0xFF00`): word 0x1234 is answered normally and CLEARS the coil *)
Theorem C05_fc5_value_refuted :
  let w := WWriteCoil 0 4660 in
  decode_attrs w = Ok (req_of w) /\
  (let '(c', o) := serve XC std (ctx1 1) (req_of w) in
   vw o = Some (SEcho1 5 0 0) /\ cx_get SC c' 1 0 1 = Ok [0]) /\
  snd (spec_exec (abs (ctx1 1)) w) = SExc 133 3.
Proof. exact fc5_bad_word_accepted. Qed.
Print Assumptions C05_fc5_value_refuted.

(* (2) FC15 tests len(self.values) instead of the wire quantity: quantity 20 with byte
   count 2 is accepted as a 16-coil write and echoed as quantity 16 *)
Theorem C05_fc15_quantity_refuted :
  let w := WWriteCoils 3 20 2 [255; 255] in
  decode_attrs w = Ok (req_of w) /\
  (let '(c', o) := serve XC std (ctx1 0) (req_of w) in
   vw o = Some (SEchoN 15 3 16) /\ cx_get SC c' 1 2 18 = Ok [0; 1; 1; 1; 1; 1; 1; 1; 1; 1; 1; 1; 1; 1; 1; 1; 1; 0]) /\
  snd (spec_exec (abs (ctx1 0)) w) = SExc 143 3.
Proof. exact fc15_short_data_accepted. Qed.
Print Assumptions C05_fc15_quantity_refuted.

Theorem C05_full_statement_refuted : ~ C05_full_statement.
Proof. exact full_classify_statement_refuted. Qed.
Print Assumptions C05_full_statement_refuted.

Theorem C05_full_statement_refuted_fc5 :
  exists c w r, inv c /\ decode_attrs w = Ok r /\ other_ok w /\ ~ step_ok c r w.
Proof. exact fc5_refuted. Qed.
Print Assumptions C05_full_statement_refuted_fc5.

Theorem C05_full_statement_refuted_fc15 :
  exists c w r, inv c /\ decode_attrs w = Ok r /\ other_ok w /\ ~ step_ok c r w.
Proof. exact fc15_refuted. Qed.
Print Assumptions C05_full_statement_refuted_fc15.

(* the strongest true statement: outside the two regions (FC5 word in {0x0000,0xFF00};
   FC15 quantity <= 8*|data|) the outcome is exactly the decision table's, the exception
   carries fc|0x80, and the store is untouched *)
Theorem C05_classify_partial : forall c w r c' o,
  inv c -> decode_attrs w = Ok r -> other_ok w -> in_region w ->
  serve XC std c r = (c', o) ->
  exec_outcome o = spec_outcome (abs c) w /\
  (forall code, spec_outcome (abs c) w = Some code -> o = Exc (Z.lor (wfc w) 128) code /\ c' = c).
Proof. exact classify. Qed.
Print Assumptions C05_classify_partial.

(* an exception response means the store is the very same term: all four tables, every
   block, for EVERY wire request — also inside the two defect regions *)
Theorem C05_exception_frame : forall c w r c' fc code,
  inv c -> decode_attrs w = Ok r -> other_ok w ->
  serve XC std c r = (c', Exc fc code) -> c' = c.
Proof. exact exception_frame. Qed.
Print Assumptions C05_exception_frame.

(* ... and so along any preceding request history (trace = the steps of serve_all) *)
Theorem C05_history_exception_frame : forall ws rs c,
  inv c -> Forall2 (fun w r => decode_attrs w = Ok r) ws rs -> Forall other_ok ws ->
  forall c0 fc code c1, In (c0, Exc fc code, c1) (trace c rs) -> c1 = c0.
Proof. exact history_exception_frame. Qed.
Print Assumptions C05_history_exception_frame.

(* read/write-multiple performs no write unless both of its ranges are valid *)
Theorem C05_rwm_atomic : forall c ra rn wa wn wbc data r c' o,
  inv c -> decode_attrs (WRWM ra rn wa wn wbc data) = Ok r ->
  serve XC std c r = (c', o) ->
  in_range 1 rn 125 = true -> in_range 1 wn 121 = true -> wbc = wn * 2 ->
  range_ok (abs c) Holding wa wn && range_ok (abs c) Holding ra rn = false ->
  c' = c /\ o = Exc (Z.lor 23 128) 2.
Proof. exact rwm_atomic. Qed.
Print Assumptions C05_rwm_atomic.

(* unsupported function codes: everything outside ServerDecoder's function table *)
Theorem C05_unsupported_function : forall c fc,
  supported fc = false -> serve XC std c (req0 fc) = (c, Exc (Z.lor fc 128) 1).
Proof. exact unsupported_function. Qed.
Print Assumptions C05_unsupported_function.

(* datastores that raise: the plan says which datastore call (validate / getValues /
   setValues, counted over the request) raises.  A raised call is answered with exception
   04 carrying fc|0x80; without a raised call the behaviour is the fault-free one; if the
   first datastore call of the request raises, the store is untouched.  (Holds for every
   script: nothing inside execute catches, the server wrapper maps to SlaveFailure.) *)
Theorem C05_datastore_failure : forall c plan r st' o,
  serve XC faulty {| fs_ctx := c; fs_plan := plan |} r = (st', o) ->
  exists used, plan = used ++ fs_plan st' /\
    (any_true used = true -> o = Exc (Z.lor (r_fc r) 128) 4) /\
    (any_true used = false -> serve XC std c r = (fs_ctx st', o)) /\
    (forall p, plan = true :: p -> fs_ctx st' = c).
Proof. exact datastore_failure. Qed.
Print Assumptions C05_datastore_failure.

(* but "exception => nothing changed" fails when the datastore raises in the read-back
   getValues that FC5 / FC6 / FC23 perform AFTER their setValues *)
Theorem C05_failure_after_write_refuted :
  let r := req_of (WWriteCoil 0 0) in
  let '(st', o) := serve XC faulty {| fs_ctx := ctx1 1; fs_plan := [false; false; true] |} r in
  o = Exc 133 4 /\ cx_get SC (ctx1 1) 1 0 1 = Ok [1] /\ cx_get SC (fs_ctx st') 1 0 1 = Ok [0].
Proof. exact failure_after_write_refuted. Qed.
Print Assumptions C05_failure_after_write_refuted.

(* (3) PDUs that never reach execute.  The theorems above assume [decode_attrs w = Ok r]; these two say
   exactly when that holds (FC16: the PDU carries 2*quantity data bytes; FC23: the byte count rounded up to
   words), and the witness shows a PDU outside it whose header fields demand exception 03 (quantity 3, byte
   count 4, four data bytes): decode raises struct.error, nothing is answered.  PDUs with legal, consistent
   header fields but truncated data are malformed frames and are not constrained by this property. *)
Theorem C05_decodable_iff_fc16 : forall a n bc data,
  (exists r, decode_attrs (WWriteRegs a n bc data) = Ok r) <-> (2 * Z.to_nat n <= length data)%nat.
Proof. exact decodable_iff_regs. Qed.
Print Assumptions C05_decodable_iff_fc16.

Theorem C05_decodable_iff_fc23 : forall ra rn wa wn wbc data,
  (exists r, decode_attrs (WRWM ra rn wa wn wbc data) = Ok r) <-> (2 * Z.to_nat ((wbc + 1) / 2) <= length data)%nat.
Proof. exact decodable_iff_rwm. Qed.
Print Assumptions C05_decodable_iff_fc23.

Theorem C05_short_register_data_refuted :
  let w := WWriteRegs 0 3 4 [0; 1; 0; 2] in
  decode_attrs w = Raise StructError /\ forall s, spec_outcome s w = Some 3.
Proof. exact short_register_data_refuted. Qed.
Print Assumptions C05_short_register_data_refuted.

(* a byte count larger than the data carried (5, 6, 255, ... with 4 data bytes) is decoded, reaches
   execute and is answered with exception 03 *)
Theorem C05_byte_count_beyond_data_is_03 : forall bc, bc <> 4 ->
  let w := WWriteRegs 0 2 bc [0; 1; 0; 2] in
  exists r, decode_attrs w = Ok r /\ snd (serve XC std (ctx1 0) r) = Exc 144 3.
Proof. exact byte_count_beyond_data_is_03. Qed.
Print Assumptions C05_byte_count_beyond_data_is_03.

Example C05_nonvacuous :
  inv (ctx1 0) /\
  (* quantity limit: 2000 coils is legal (address error here), 2001 is a value error *)
  exec_outcome (snd (serve XC std (ctx1 0) (req_of (WRead Coils 0 2000)))) = Some 2 /\
  exec_outcome (snd (serve XC std (ctx1 0) (req_of (WRead Coils 0 2001)))) = Some 3 /\
  exec_outcome (snd (serve XC std (ctx1 0) (req_of (WRead Coils 0 32)))) = None /\
  exec_outcome (snd (serve XC std (ctx1 0) (req_of (WRead Coils 1 32)))) = Some 2 /\
  exec_outcome (snd (serve XC std (ctx1 0) (req_of (WWriteRegs 0 1 3 [0; 1; 2])))) = Some 3 /\
  supported 9 = false /\ serve XC std (ctx1 0) (req0 9) = (ctx1 0, Exc 137 1).
Proof. split; [apply ctx1_inv|]. vm_compute. repeat split. Qed.
