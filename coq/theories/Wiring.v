(* Wiring.v — how configuration travels from the documented entry points (the Start*Server
   factories, the server constructors, the Twisted client protocol constructor) to the attributes
   the serving code reads.  Executable model only; proofs are in proofs/Wiring_proofs.v.

   Python facts modelled here (the instances are generated into Generated/GenWiring.v):
   * keyword binding of a call  Cls(a, b, c, k=v, **kwargs)  against the constructor's parameters;
   * `kwargs.pop(key, default)` removes the key before **kwargs is forwarded;
   * `x or d` yields d when x is FALSE — and an instance is false exactly when its class defines
     __bool__ (or __len__) and that method says so; an instance of a class defining neither, and
     every class object (no metaclass), is true. *)
From PM.theories Require Import Base Ladder.
Open Scope string_scope.
Open Scope list_scope.

Record factory := {
  fa_name : string;                      (* "sync.StartTcpServer" *)
  fa_target : string;                    (* "sync.ModbusTcpServer" *)
  fa_params : list string;               (* the factory's own named parameters *)
  fa_popped : list string;               (* keys it removes from **kwargs into a local of that name *)
  fa_bind : list (string * string);      (* constructor parameter <- factory local handed to it *)
  fa_star : bool;                        (* …, **kwargs) forwarded *)
  fa_registers : bool;                   (* for f in custom_functions: server.decoder.register(f) *)
  fa_framer_default : string }.          (* second argument of kwargs.pop('framer', …), "-" if none *)

Fixpoint mem_s (k : string) (l : list string) : bool :=
  match l with [] => false | h :: t => if String.eqb h k then true else mem_s k t end.

Fixpoint assoc_ss (k : string) (l : list (string * string)) : option string :=
  match l with [] => None | (j, v) :: t => if String.eqb j k then Some v else assoc_ss k t end.

(* the keyword of the USER's call of the factory whose value the constructor receives for its
   parameter p (None: the constructor's own default applies) *)
Definition ctor_src (f : factory) (p : string) : option string :=
  match assoc_ss p (fa_bind f) with
  | Some l => if mem_s l (fa_params f) || mem_s l (fa_popped f) then Some l else None
  | None => if fa_star f && negb (mem_s p (fa_params f)) && negb (mem_s p (fa_popped f)) then Some p else None
  end.

(* env: what the user passed to the factory, by name *)
Definition ctor_sees {V} (f : factory) (env : string -> option V) (p : string) : option V :=
  match ctor_src f p with Some k => env k | None => None end.

(* the constructor parameter (or kwargs key) an attribute is computed from *)
Definition wparam (s : wsrc) : option string :=
  match s with
  | WOrDefault p _ | WKwDefault p _ | WUpdate p => Some p
  | WBuilt _ => None
  end.

(* ---- truthiness ------------------------------------------------------------------------------ *)

(* overrides: the value's class (or a base) defines __bool__/__len__ (instances) or has a
   metaclass (class objects); only then can user code make the value false *)
Definition py_truthy {V} (overrides : bool) (user_truth : V -> bool) (v : V) : bool :=
  if overrides then user_truth v else true.

(* [configured] of Ladder.v with Python's `or` taken literally *)
Definition configured_t {V} (s : wsrc) (truthy : V -> bool) (given : option V) (dflt : V) : V :=
  match s with
  | WOrDefault _ _ => match given with Some x => if truthy x then x else dflt | None => dflt end
  | WKwDefault _ _ | WUpdate _ => match given with Some x => x | None => dflt end
  | WBuilt _ => dflt
  end.

(* what travels through the `or` of a role: an instance of a class, or a class object *)
Inductive vkind := VInstance (cls : string) | VClass (classes : list string).

Definition framer_classes : list string :=
  ["ModbusSocketFramer"; "ModbusRtuFramer"; "ModbusAsciiFramer"; "ModbusBinaryFramer"; "ModbusTlsFramer"].

Definition role_kind (role : string) : option vkind :=
  if String.eqb role "context" then Some (VInstance "ModbusServerContext")
  else if String.eqb role "framer" then Some (VClass framer_classes)
  else None.

Fixpoint assoc_sbb (k : string) (l : list (string * (bool * bool))) : option (bool * bool) :=
  match l with [] => None | (j, v) :: t => if String.eqb j k then Some v else assoc_sbb k t end.

(* can a value of this kind be false?  (unknown class: assume it can) *)
Definition kind_overrides (T : list (string * (bool * bool))) (k : vkind) : bool :=
  match k with
  | VInstance c => match assoc_sbb c T with Some (o, _) => o | None => true end
  | VClass cs => existsb (fun c => match assoc_sbb c T with Some (_, m) => m | None => true end) cs
  end.

(* the name under which the user hands a role's value to a factory *)
Definition factory_key (role : string) : string := role.
