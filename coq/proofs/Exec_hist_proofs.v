(* Exec_hist_proofs.v — part 3: request histories, the C04 corollaries, the C05
   classification / frame theorems, and the refutation witnesses of the two known
   defects.  Everything is derived from [step_norm] / [step_refines] of
   Exec_req_proofs.v, i.e. from the generated scripts. *)
From PM.theories Require Import Base Expr Store Exec ExecSpec ExecView.
From PM.Generated Require Import GenStore GenExec.
From PM.proofs Require Import Store_proofs Exec_proofs Exec_req_proofs.
From Coq Require Import ZifyBool.
Open Scope string_scope.
Open Scope list_scope.
Open Scope Z_scope.
Ltac Zify.zify_post_hook ::= Z.to_euclidean_division_equations.

(* ------------------------------------------------------------------ the spec respects aeq *)

Lemma spec_outcome_aeq s s' w : aeq s s' -> spec_outcome s w = spec_outcome s' w.
Proof.
  intros H. destruct w; cbn [spec_outcome]; try reflexivity;
    repeat match goal with
           | |- context [range_ok s ?t ?a ?n] => rewrite (range_ok_aeq s s' t a n H)
           end; reflexivity.
Qed.

Lemma spec_apply_aeq s s' w : aeq s s' ->
  aeq (fst (spec_apply s w)) (fst (spec_apply s' w)) /\ snd (spec_apply s w) = snd (spec_apply s' w).
Proof.
  intros H. destruct w; cbn [spec_apply fst snd].
  - split; [exact H|]. rewrite (read_aeq s s' t addr qty H). reflexivity.
  - split; [apply write_aeq; exact H|reflexivity].
  - split; [apply write_aeq; exact H|reflexivity].
  - split; [apply write_aeq; exact H|reflexivity].
  - split; [apply write_aeq; exact H|reflexivity].
  - rewrite (cell_aeq s s' Holding addr H). split; [apply write_aeq; exact H|reflexivity].
  - split; [apply write_aeq; exact H|].
    rewrite (read_aeq _ _ Holding raddr rqty (write_aeq s s' Holding waddr _ H)). reflexivity.
  - split; [exact H|reflexivity].
Qed.

Lemma spec_exec_aeq s s' w : aeq s s' ->
  aeq (fst (spec_exec s w)) (fst (spec_exec s' w)) /\ snd (spec_exec s w) = snd (spec_exec s' w).
Proof.
  intros H. unfold spec_exec. rewrite (spec_outcome_aeq s s' w H).
  destruct (spec_outcome s' w); [split; [exact H|reflexivity]|]. apply spec_apply_aeq. exact H.
Qed.

(* ------------------------------------------------------------------ histories *)

Theorem history_refines : forall ws rs c s,
  inv c -> aeq (abs c) s ->
  Forall2 (fun w r => decode_attrs w = Ok r) ws rs ->
  Forall other_ok ws -> Forall in_region ws ->
  inv (fst (serve_all XC std c rs)) /\
  aeq (abs (fst (serve_all XC std c rs))) (fst (spec_exec_all s ws)) /\
  map vw (snd (serve_all XC std c rs)) = map Some (snd (spec_exec_all s ws)).
Proof.
  induction ws as [|w ws IH]; intros rs c s Hi Ha Hd Ho Hr.
  - inversion Hd; subst. cbn. auto.
  - inversion Hd as [|w' r ws' rs' Hd1 Hd2]; subst.
    inversion Ho as [|? ? Ho1 Ho2]; subst. inversion Hr as [|? ? Hr1 Hr2]; subst.
    destruct (step_refines c w r Hi Hd1 Ho1 Hr1) as (c1 & o & Hs & Hi1 & Ha1 & Hv & _).
    cbn [serve_all spec_exec_all]. rewrite Hs.
    destruct (spec_exec_aeq (abs c) s w Ha) as [Hx1 Hx2].
    destruct (spec_exec s w) as [s1 o1] eqn:Es. cbn [fst snd] in *.
    specialize (IH rs' c1 s1 Hi1 (aeq_trans _ _ _ Ha1 Hx1) Hd2 Ho2 Hr2).
    destruct (serve_all XC std c1 rs') as [c2 os]. destruct (spec_exec_all s1 ws) as [s2 os2].
    cbn [fst snd map] in *. destruct IH as (I1 & I2 & I3).
    split; [exact I1|]. split; [exact I2|]. rewrite Hv, Hx2, I3. reflexivity.
Qed.

(* ------------------------------------------------------------------ C05: classification *)

Definition exec_outcome (o : rsp) : option Z :=
  match vw o with Some (SExc _ code) => Some code | _ => None end.

Lemma vw_exc_inv o f c : vw o = Some (SExc f c) -> o = Exc f c.
Proof.
  destruct o as [cls args|fc cd]; unfold vw, view; intros Hv.
  - destruct (assoc_str (x_resp_fc XC) cls); [|discriminate].
    destruct args as [|[?|?] [|[?|?] [|[?|?] [|? ?]]]]; try discriminate.
    all: repeat match type of Hv with context [if ?b then _ else _] => destruct b end; try discriminate.
  - injection Hv as -> ->. reflexivity.
Qed.

Lemma spec_apply_not_exc s w : spec_outcome s w = None ->
  forall fc code, snd (spec_apply s w) <> SExc fc code.
Proof. destruct w; cbn [spec_outcome spec_apply snd]; intros H f cd; try discriminate. Qed.

Theorem classify c w r c' o :
  inv c -> decode_attrs w = Ok r -> other_ok w -> in_region w ->
  serve XC std c r = (c', o) ->
  exec_outcome o = spec_outcome (abs c) w /\
  (forall code, spec_outcome (abs c) w = Some code -> o = Exc (Z.lor (wfc w) 128) code /\ c' = c).
Proof.
  intros Hi Hd Ho Hr Hs.
  destruct (step_refines c w r Hi Hd Ho Hr) as (c1 & o1 & Hs1 & _ & _ & Hv & Hf).
  rewrite Hs in Hs1. injection Hs1 as <- <-.
  unfold exec_outcome. rewrite Hv. unfold spec_exec in *.
  destruct (spec_outcome (abs c) w) as [code|] eqn:E; cbn [snd] in *.
  - split; [reflexivity|]. intros code' Hc. injection Hc as <-.
    assert (Ho' : o = Exc (Z.lor (wfc w) 128) code) by (apply vw_exc_inv; exact Hv).
    split; [exact Ho'|]. eapply Hf. exact Ho'.
  - split.
    + pose proof (spec_apply_not_exc (abs c) w E) as Hn.
      destruct (snd (spec_apply (abs c) w)); try reflexivity. exfalso. eapply Hn. reflexivity.
    + intros code Hc. discriminate.
Qed.

(* exception response => the store is the very same term, for EVERY wire request
   (also in the two defect regions) *)
Theorem exception_frame c w r c' fc code :
  inv c -> decode_attrs w = Ok r -> other_ok w ->
  serve XC std c r = (c', Exc fc code) -> c' = c.
Proof.
  intros Hi Hd Ho Hs.
  destruct (step_norm c w r Hi Hd Ho) as (c1 & o1 & Hs1 & _ & _ & _ & Hf).
  rewrite Hs in Hs1. injection Hs1 as <- <-. eapply Hf. reflexivity.
Qed.

(* read/write-multiple: unless both ranges are valid nothing is written and the answer is 02 *)
Theorem rwm_atomic c ra rn wa wn wbc data r c' o :
  inv c -> decode_attrs (WRWM ra rn wa wn wbc data) = Ok r ->
  serve XC std c r = (c', o) ->
  in_range 1 rn 125 = true -> in_range 1 wn 121 = true -> wbc = wn * 2 ->
  range_ok (abs c) Holding wa wn && range_ok (abs c) Holding ra rn = false ->
  c' = c /\ o = Exc (Z.lor 23 128) 2.
Proof.
  intros Hi Hd Hs H1 H2 H3 H4.
  destruct (classify c _ r c' o Hi Hd I I Hs) as [_ Hc].
  assert (E : spec_outcome (abs c) (WRWM ra rn wa wn wbc data) = Some 2).
  { cbn [spec_outcome]. rewrite H1, H2. replace (wbc =? wn * 2) with true by lia. cbn [negb orb].
    destruct (range_ok (abs c) Holding wa wn), (range_ok (abs c) Holding ra rn); try discriminate; reflexivity. }
  destruct (Hc 2 E) as [-> ->]. split; reflexivity.
Qed.

(* ------------------------------------------------------------------ C04 corollaries *)

(* what an accepted write request stores, and where *)
Definition written (s : astate) (w : wreq) : option (tbl * Z * list Z) :=
  match w with
  | WWriteCoil a word => Some (Coils, a, [if word =? 65280 then 1 else 0])
  | WWriteReg a v => Some (Holding, a, [v])
  | WWriteCoils a n _ data => Some (Coils, a, firstn (Z.to_nat n) (bits_of_bytes data))
  | WWriteRegs a n _ data => Some (Holding, a, firstn (Z.to_nat n) (words_of_bytes data))
  | WMask a am om => Some (Holding, a, [mask_result (match cell s Holding a with Some v => v | None => 0 end) am om])
  | WRWM _ _ wa wn _ data => Some (Holding, wa, firstn (Z.to_nat wn) (words_of_bytes data))
  | _ => None
  end.

Lemma spec_exec_state s w :
  fst (spec_exec s w) =
    match spec_outcome s w, written s w with
    | None, Some (t, a, vs) => write s t a vs
    | _, _ => s
    end.
Proof.
  unfold spec_exec. destruct (spec_outcome s w) eqn:E; [reflexivity|].
  destruct w; cbn [spec_apply fst written]; reflexivity.
Qed.

(* a request changes exactly the addressed cells of the storage behind the table its
   function code selects; every other cell of every storage keeps its value, and no
   cell appears or disappears *)
Theorem write_touches_only c w r c' o :
  inv c -> decode_attrs w = Ok r -> other_ok w -> in_region w ->
  serve XC std c r = (c', o) ->
  forall b k,
    a_cell (abs c') b k =
      match spec_outcome (abs c) w, written (abs c) w with
      | None, Some (t, a, vs) =>
          if Nat.eqb b (a_slot (abs c) t) && (a <=? k) && (k <? a + Z.of_nat (length vs))
          then nth_error vs (Z.to_nat (k - a)) else a_cell (abs c) b k
      | _, _ => a_cell (abs c) b k
      end.
Proof.
  intros Hi Hd Ho Hr Hs b k.
  destruct (step_refines c w r Hi Hd Ho Hr) as (c1 & o1 & Hs1 & _ & [_ Ha] & _ & _).
  rewrite Hs in Hs1. injection Hs1 as <- <-. rewrite Ha, spec_exec_state.
  destruct (spec_outcome (abs c) w); [reflexivity|].
  destruct (written (abs c) w) as [[[t a] vs]|]; [|reflexivity].
  unfold write. cbn [a_cell].
  destruct (Nat.eqb b (a_slot (abs c) t)); cbn [andb]; reflexivity.
Qed.

(* an accepted write addresses a wholly configured range with as many values as its quantity *)
Lemma accepted_range_ok c w r t a vs :
  decode_attrs w = Ok r -> in_region w ->
  spec_outcome (abs c) w = None -> written (abs c) w = Some (t, a, vs) ->
  range_ok (abs c) t a (Z.of_nat (length vs)) = true /\ vs <> [].
Proof.
  intros Hd Hr E Hw.
  destruct w; cbn [written] in Hw; try discriminate; injection Hw as <- <- <-; cbn [spec_outcome] in E;
      repeat match type of E with
             | (if ?b then _ else _) = None => destruct b eqn:?; [discriminate|]
             end.
  - apply negb_false_iff in Heqb0. split; [exact Heqb0|discriminate].
  - apply negb_false_iff in Heqb0. split; [exact Heqb0|discriminate].
  - (* FC15 *)
    apply orb_false_iff in Heqb as [Hq _]. apply negb_false_iff in Heqb0, Hq. unfold in_range in Hq.
    cbn [in_region] in Hr.
    assert (Hl : length (firstn (Z.to_nat qty) (bits_of_bytes data)) = Z.to_nat qty).
    { rewrite firstn_length, bits_of_bytes_length. lia. }
    rewrite Hl, Z2Nat.id by lia. split; [exact Heqb0|].
    intros Hnil. rewrite Hnil in Hl. cbn in Hl. lia.
  - (* FC16 *)
    apply orb_false_iff in Heqb as [Hq _]. apply negb_false_iff in Heqb0, Hq. unfold in_range in Hq.
    cbn [decode_attrs] in Hd.
    destruct (take_words (Z.to_nat qty) data) as [v|] eqn:Et; [|discriminate].
    destruct (take_words_spec _ _ _ Et) as [-> Hl].
    rewrite Hl, Z2Nat.id by lia. split; [exact Heqb0|].
    intros Hnil. rewrite Hnil in Hl. cbn in Hl. lia.
  - apply negb_false_iff in Heqb0. split; [exact Heqb0|discriminate].
  - (* FC23 *)
    apply orb_false_iff in Heqb as [Hq Hb]. apply orb_false_iff in Hq as [_ Hq].
    apply orb_false_iff in Heqb0 as [Hw' _]. apply negb_false_iff in Hw', Hq, Hb. unfold in_range in Hq.
    cbn [decode_attrs] in Hd.
    destruct (take_words (Z.to_nat ((wbc + 1) / 2)) data) as [v|] eqn:Et; [|discriminate].
    destruct (take_words_spec _ _ _ Et) as [Hv Hl].
    assert (Hk : Z.to_nat ((wbc + 1) / 2) = Z.to_nat wqty) by lia.
    rewrite Hk in Hv, Hl. rewrite <- Hv.
    rewrite Hl, Z2Nat.id by lia. split; [exact Hw'|].
    intros Hnil. rewrite Hnil in Hl. cbn in Hl. lia.
Qed.

(* a read never changes the store (as a term) *)
Lemma read_keeps_store c t a n c' o :
  serve XC std c {| r_fc := read_fc t; r_address := a; r_count := n; r_value := 0; r_byte_count := 0;
                    r_and_mask := 0; r_or_mask := 0; r_read_address := 0; r_read_count := 0;
                    r_write_address := 0; r_write_count := 0; r_write_byte_count := 0;
                    r_values := []; r_write_registers := [] |} = (c', o) -> c' = c.
Proof.
  unfold serve. cbn [r_fc]. destruct t; cbn [read_fc];
    rewrite ?dispatch_1, ?dispatch_2, ?dispatch_3, ?dispatch_4; exec_simpl;
    repeat match goal with
           | |- context [if ?b then _ else _] => destruct b
           | |- context [match ?x with Ok _ => _ | Raise _ => _ end] => destruct x as [[|]|]
           | |- context [match ?x with Ok _ => _ | Raise _ => _ end] => destruct x
           end; intros Hq; injection Hq as <- _; reflexivity.
Qed.

(* a read after an accepted write returns exactly what was written *)
Theorem read_returns_latest_write c w r c1 o1 t a vs rr c2 o2 :
  inv c -> decode_attrs w = Ok r -> other_ok w -> in_region w ->
  serve XC std c r = (c1, o1) ->
  spec_outcome (abs c) w = None -> written (abs c) w = Some (t, a, vs) ->
  in_range 1 (Z.of_nat (length vs)) (match t with Coils | Discrete => 2000 | _ => 125 end) = true ->
  decode_attrs (WRead t a (Z.of_nat (length vs))) = Ok rr ->
  serve XC std c1 rr = (c2, o2) ->
  c2 = c1 /\ vw o2 = Some (SRead (read_fc t) vs).
Proof.
  intros Hi Hd Ho Hr Hs E Hw Hlim Hd2 Hs2.
  destruct (step_refines c w r Hi Hd Ho Hr) as (c1' & o1' & Hs1 & Hi1 & Ha & _ & _).
  rewrite Hs in Hs1. injection Hs1 as <- <-.
  rewrite spec_exec_state, E, Hw in Ha.
  destruct (accepted_range_ok c w r t a vs Hd Hr E Hw) as [Hok Hne].
  destruct (step_refines c1 _ rr Hi1 Hd2 I I) as (c2' & o2' & Hs2' & _ & _ & Hv & _).
  rewrite Hs2 in Hs2'. injection Hs2' as <- <-.
  assert (E2 : spec_outcome (abs c1) (WRead t a (Z.of_nat (length vs))) = None).
  { cbn [spec_outcome].
    replace (in_range 1 (Z.of_nat (length vs)) match t with Coils | Discrete => 2000 | _ => 125 end) with true.
    cbn [negb].
    rewrite (range_ok_aeq _ _ t a _ Ha), (range_ok_write (abs c) t a vs t a _ Hok), Hok. reflexivity. }
  unfold spec_exec in Hv. rewrite E2 in Hv. cbn [spec_apply snd] in Hv.
  rewrite (read_aeq _ _ t a _ Ha), read_write_same in Hv.
  split; [|exact Hv].
  cbn [decode_attrs] in Hd2. injection Hd2 as <-. eapply read_keeps_store. exact Hs2.
Qed.

(* ------------------------------------------------------------------ read/write-multiple, mask write *)

(* the response of an accepted FC23 is read from the store AFTER its write *)
Theorem rwm_write_before_read c ra rn wa wn wbc data r c' o :
  inv c -> decode_attrs (WRWM ra rn wa wn wbc data) = Ok r ->
  serve XC std c r = (c', o) ->
  spec_outcome (abs c) (WRWM ra rn wa wn wbc data) = None ->
  let ws := firstn (Z.to_nat wn) (words_of_bytes data) in
  vw o = Some (SRead 23 (read (write (abs c) Holding wa ws) Holding ra rn)) /\
  aeq (abs c') (write (abs c) Holding wa ws).
Proof.
  intros Hi Hd Hs E ws.
  destruct (step_refines c _ r Hi Hd I I) as (c1 & o1 & Hs1 & _ & Ha & Hv & _).
  rewrite Hs in Hs1. injection Hs1 as <- <-.
  unfold spec_exec in Hv, Ha. rewrite E in Hv, Ha. cbn [spec_apply fst snd] in Hv, Ha.
  split; assumption.
Qed.

(* in particular: reading the range it has just written returns the new values *)
Theorem rwm_reads_own_write c a n wbc data r c' o :
  inv c -> decode_attrs (WRWM a n a n wbc data) = Ok r ->
  serve XC std c r = (c', o) ->
  spec_outcome (abs c) (WRWM a n a n wbc data) = None ->
  vw o = Some (SRead 23 (firstn (Z.to_nat n) (words_of_bytes data))).
Proof.
  intros Hi Hd Hs E.
  destruct (rwm_write_before_read c a n a n wbc data r c' o Hi Hd Hs E) as [Hv _].
  destruct (accepted_range_ok c _ r Holding a _ Hd I E eq_refl) as [Hok Hne].
  cbn zeta in Hv. rewrite Hv. do 2 f_equal.
  set (ws := firstn (Z.to_nat n) (words_of_bytes data)) in *.
  assert (Hn : n = Z.of_nat (length ws)).
  { cbn [spec_outcome] in E. unfold in_range in E.
    destruct ((1 <=? n) && (n <=? 125)) eqn:G1; [|discriminate]. cbn [negb orb] in E.
    destruct ((1 <=? n) && (n <=? 121)) eqn:G2; [|discriminate]. cbn [negb orb] in E.
    destruct (wbc =? n * 2) eqn:G3; [|discriminate].
    cbn [decode_attrs] in Hd.
    destruct (take_words (Z.to_nat ((wbc + 1) / 2)) data) as [v|] eqn:Et; [|discriminate].
    destruct (take_words_spec _ _ _ Et) as [Hv' Hl].
    assert (Hk : Z.to_nat ((wbc + 1) / 2) = Z.to_nat n) by lia.
    rewrite Hk in Hv', Hl. subst ws. rewrite <- Hv'. lia. }
  rewrite Hn. apply read_write_same.
Qed.

(* mask write stores (cur AND and) OR (or AND NOT and) and echoes address and masks *)
Theorem mask_write_formula c a am om r c' o cur :
  inv c -> decode_attrs (WMask a am om) = Ok r ->
  serve XC std c r = (c', o) ->
  spec_outcome (abs c) (WMask a am om) = None ->
  cell (abs c) Holding a = Some cur ->
  cell (abs c') Holding a = Some (Z.lor (Z.land cur am) (Z.land om (Z.lnot am))) /\
  vw o = Some (SMask a am om).
Proof.
  intros Hi Hd Hs E Hc.
  destruct (step_refines c _ r Hi Hd I I) as (c1 & o1 & Hs1 & _ & Ha & Hv & _).
  rewrite Hs in Hs1. injection Hs1 as <- <-.
  unfold spec_exec in Hv, Ha. rewrite E in Hv, Ha. cbn [spec_apply fst snd] in Hv, Ha.
  split; [|exact Hv].
  rewrite (cell_aeq _ _ Holding a Ha). rewrite Hc. unfold cell, write. cbn [a_slot a_cell length].
  rewrite Nat.eqb_refl. replace ((a <=? a) && (a <? a + Z.of_nat 1)) with true by lia.
  replace (Z.to_nat (a - a)) with O by lia. reflexivity.
Qed.

(* ------------------------------------------------------------------ the two known defects: witnesses *)

Definition ctx1 (coil : Z) : slavectx :=
  {| cx_zero := true;
     cx_slots := [("c", 0%nat); ("d", 1%nat); ("h", 2%nat); ("i", 3%nat)];
     cx_blocks := [BSeq {| sb_addr := 0; sb_vals := repeat coil 32; sb_def := 0 |};
                   BSeq {| sb_addr := 0; sb_vals := [0]; sb_def := 0 |};
                   BSeq {| sb_addr := 0; sb_vals := [18]; sb_def := 0 |};
                   BSeq {| sb_addr := 0; sb_vals := [0]; sb_def := 0 |}] |}.

Lemma ctx1_inv v : inv (ctx1 v).
Proof. intros t; destruct t; eexists; (split; [reflexivity|cbn; lia]). Qed.

Definition req_of (w : wreq) : req := match decode_attrs w with Ok r => r | Raise _ => req0 0 end.

(* FC5 with value word 0x1234: answered normally, and the coil (which was ON) is cleared;
   the spec demands exception 03 and no change *)
Theorem fc5_bad_word_accepted :
  let w := WWriteCoil 0 4660 in
  decode_attrs w = Ok (req_of w) /\
  (let '(c', o) := serve XC std (ctx1 1) (req_of w) in
   vw o = Some (SEcho1 5 0 0) /\ cx_get SC c' 1 0 1 = Ok [0]) /\
  snd (spec_exec (abs (ctx1 1)) w) = SExc 133 3.
Proof. vm_compute. repeat split. Qed.

Theorem fc5_refuted :
  exists c w r, inv c /\ decode_attrs w = Ok r /\ other_ok w /\ ~ step_ok c r w.
Proof.
  exists (ctx1 1), (WWriteCoil 0 4660), (req_of (WWriteCoil 0 4660)).
  split; [apply ctx1_inv|]. split; [reflexivity|]. split; [exact I|].
  intros (c' & o & Hs & _ & _ & Hv & _).
  vm_compute in Hs. injection Hs as <- <-. vm_compute in Hv. discriminate Hv.
Qed.

(* FC15 with quantity 20, byte count 2, two data bytes: accepted as a 16-coil write;
   the spec demands exception 03 (byte count contradicts quantity) *)
Theorem fc15_short_data_accepted :
  let w := WWriteCoils 3 20 2 [255; 255] in
  decode_attrs w = Ok (req_of w) /\
  (let '(c', o) := serve XC std (ctx1 0) (req_of w) in
   vw o = Some (SEchoN 15 3 16) /\ cx_get SC c' 1 2 18 = Ok [0; 1; 1; 1; 1; 1; 1; 1; 1; 1; 1; 1; 1; 1; 1; 1; 1; 0]) /\
  snd (spec_exec (abs (ctx1 0)) w) = SExc 143 3.
Proof. vm_compute. repeat split. Qed.

Theorem fc15_refuted :
  exists c w r, inv c /\ decode_attrs w = Ok r /\ other_ok w /\ ~ step_ok c r w.
Proof.
  exists (ctx1 0), (WWriteCoils 3 20 2 [255; 255]), (req_of (WWriteCoils 3 20 2 [255; 255])).
  split; [apply ctx1_inv|]. split; [reflexivity|]. split; [exact I|].
  intros (c' & o & Hs & _ & _ & Hv & _).
  vm_compute in Hs. injection Hs as <- <-. vm_compute in Hv. discriminate Hv.
Qed.

(* the pre-repair mask-write witness of DESIGN.md section 9 now conforms: cur 0x12, and 0xF2, or 0x25 -> 0x17 *)
Example mask_write_witness :
  let w := WMask 0 242 37 in
  let '(c', o) := serve XC std (ctx1 0) (req_of w) in
  cx_get SC c' 3 0 1 = Ok [23] /\ vw o = Some (SMask 0 242 37).
Proof. vm_compute. split; reflexivity. Qed.

(* ------------------------------------------------------------------ unsupported function codes *)
Theorem unsupported_function c fc :
  supported fc = false -> serve XC std c (req0 fc) = (c, Exc (Z.lor fc 128) 1).
Proof.
  intros H. unfold serve, req0. cbn [r_fc]. rewrite (dispatch_unsupported fc H). reflexivity.
Qed.

(* the full statements, negated outright *)
Theorem full_step_statement_refuted :
  ~ (forall c w r, inv c -> decode_attrs w = Ok r -> other_ok w -> step_ok c r w).
Proof.
  intros H. destruct fc5_refuted as (c & w & r & Hi & Hd & Ho & Hn). apply Hn. apply H; assumption.
Qed.

Theorem full_classify_statement_refuted :
  ~ (forall c w r c' o, inv c -> decode_attrs w = Ok r -> other_ok w ->
       serve XC std c r = (c', o) ->
       exec_outcome o = spec_outcome (abs c) w /\
       (forall code, spec_outcome (abs c) w = Some code -> o = Exc (Z.lor (wfc w) 128) code /\ c' = c)).
Proof.
  intros H.
  destruct (serve XC std (ctx1 1) (req_of (WWriteCoil 0 4660))) as [c' o] eqn:Es.
  destruct (H (ctx1 1) (WWriteCoil 0 4660) _ c' o (ctx1_inv 1) eq_refl I Es) as [H1 _].
  vm_compute in Es. injection Es as <- <-. vm_compute in H1. discriminate H1.
Qed.

(* ------------------------------------------------------------------ exception frame along a history *)

(* every intermediate store of a history, paired with the response produced from it *)
Fixpoint trace (c : slavectx) (rs : list req) : list (slavectx * rsp * slavectx) :=
  match rs with
  | [] => []
  | r :: t => let '(c1, o) := serve XC std c r in (c, o, c1) :: trace c1 t
  end.

Lemma step_inv c w r : inv c -> decode_attrs w = Ok r -> other_ok w -> inv (fst (serve XC std c r)).
Proof.
  intros Hi Hd Ho. destruct (step_norm c w r Hi Hd Ho) as (c1 & o & Hs & Hi1 & _). rewrite Hs. exact Hi1.
Qed.

(* in any history of decodable requests (defect regions included), each step that answers
   with an exception leaves the store untouched *)
Theorem history_exception_frame : forall ws rs c,
  inv c -> Forall2 (fun w r => decode_attrs w = Ok r) ws rs -> Forall other_ok ws ->
  forall c0 fc code c1, In (c0, Exc fc code, c1) (trace c rs) -> c1 = c0.
Proof.
  induction ws as [|w ws IH]; intros rs c Hi Hd Ho c0 fc code c1 Hin.
  - inversion Hd; subst. destruct Hin.
  - inversion Hd as [|w' r ws' rs' Hd1 Hd2]; subst. inversion Ho as [|? ? Ho1 Ho2]; subst.
    cbn [trace] in Hin. destruct (serve XC std c r) as [cn o] eqn:Es. destruct Hin as [Heq|Hin].
    + injection Heq as <- -> <-. eapply exception_frame; eassumption.
    + pose proof (step_inv c w r Hi Hd1 Ho1) as Hi1. rewrite Es in Hi1. cbn [fst] in Hi1.
      eapply IH; eassumption.
Qed.

(* ------------------------------------------------------------------ PDUs that never reach execute *)

Lemma take_words_ok_iff n data : (exists vs, take_words n data = Ok vs) <-> (2 * n <= length data)%nat.
Proof.
  revert data. induction n as [|n IH]; intros data.
  - cbn. split; [intros _; lia|intros _; eexists; reflexivity].
  - cbn [take_words]. destruct data as [|hi [|lo t]].
    + split; [intros [vs H]; discriminate H|cbn; lia].
    + split; [intros [vs H]; discriminate H|cbn; lia].
    + specialize (IH t). split.
      * intros [vs H]. destruct (take_words n t) as [r|] eqn:E; cbn [bind] in H; [|discriminate].
        assert (2 * n <= length t)%nat by (apply IH; eexists; reflexivity). cbn [length]. lia.
      * intros Hl. cbn [length] in Hl. destruct (proj2 IH ltac:(lia)) as [r Hr]. rewrite Hr. eexists. reflexivity.
Qed.

(* exactly which FC16 / FC23 PDUs decode: those carrying the register data that decode() reads *)
Theorem decodable_iff_regs a n bc data :
  (exists r, decode_attrs (WWriteRegs a n bc data) = Ok r) <-> (2 * Z.to_nat n <= length data)%nat.
Proof.
  rewrite <- take_words_ok_iff. cbn [decode_attrs]. split.
  - intros [r H]. destruct (take_words (Z.to_nat n) data) as [vs|]; [eexists; reflexivity|discriminate H].
  - intros [vs H]. rewrite H. eexists. reflexivity.
Qed.

Theorem decodable_iff_rwm ra rn wa wn wbc data :
  (exists r, decode_attrs (WRWM ra rn wa wn wbc data) = Ok r) <-> (2 * Z.to_nat ((wbc + 1) / 2) <= length data)%nat.
Proof.
  rewrite <- take_words_ok_iff. cbn [decode_attrs]. split.
  - intros [r H]. destruct (take_words _ data) as [vs|]; [eexists; reflexivity|discriminate H].
  - intros [vs H]. rewrite H. eexists. reflexivity.
Qed.

(* FC16 quantity 3, byte count 4, four data bytes: the byte count contradicts the quantity (the
   property demands exception 03) but decode raises struct.error and nothing is answered *)
Theorem short_register_data_refuted :
  let w := WWriteRegs 0 3 4 [0; 1; 0; 2] in
  decode_attrs w = Raise StructError /\ forall s, spec_outcome s w = Some 3.
Proof. split; [reflexivity|intros s; reflexivity]. Qed.

(* a byte count LARGER than the data carried still reaches execute and is answered 03 *)
Theorem byte_count_beyond_data_is_03 :
  forall bc, bc <> 4 ->
  let w := WWriteRegs 0 2 bc [0; 1; 0; 2] in
  exists r, decode_attrs w = Ok r /\ snd (serve XC std (ctx1 0) r) = Exc 144 3.
Proof.
  intros bc Hbc. eexists. split; [reflexivity|].
  unfold serve. cbn [r_fc]. rewrite dispatch_16. exec_simpl.
  replace (negb (bc =? 2 * 2)) with true by lia. reflexivity.
Qed.
