#!/bin/bash
# runs the pinned baseline and compares with BASELINE.json stable_pass
cd /repo && /venv/bin/python -m pytest -ra -q -p no:cacheprovider --timeout=900 --continue-on-collection-errors --junitxml=/tmp/pm_baseline.junit.xml > /tmp/pm_baseline.out 2>&1
/venv/bin/python - <<'PY'
import json, xml.etree.ElementTree as ET
b=json.load(open('/root/.vp/BASELINE.json'))
t=ET.parse('/tmp/pm_baseline.junit.xml')
passed=set()
for tc in t.iter('testcase'):
    if not any(c.tag in ('failure','error','skipped') for c in tc):
        passed.add(tc.get('classname')+'::'+tc.get('name'))
miss=[x for x in b['stable_pass'] if x not in passed]
print("stable_pass:",len(b['stable_pass']),"passed now:",len(passed),"missing:",miss)
PY
