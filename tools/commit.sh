#!/bin/bash
# tools/commit.sh "message" path...   — commit ONLY the given paths, serialised against other committers
msg="$1"; shift
cd /verif || exit 2
exec 9>/verif/.gitlock
flock 9
git add -- "$@" && git commit -q --only -m "$msg" -- "$@" && git log --oneline -1
