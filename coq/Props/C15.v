(* Props/C15.v — Concurrent callers of one synchronous client are serialised.
   ONLY statements; proofs are in proofs/Lock_proofs.v and proofs/LockGen_proofs.v.
   Model: theories/Lock.v — any number of threads, each running any list of calls, every call a
   list of abstract operations; one step = one operation of one thread; [reachable] = reachable
   by SOME schedule, so a statement about all reachable states is a statement about EVERY
   schedule.  PARTIAL: pre-emption is at operation granularity (connect / lock / send / receive /
   table / buffer operations); bytecode-level pre-emption and the GIL are outside the model. *)
From PM.theories Require Import Base Lock.
From PM.Generated Require Import GenLock.
From PM.proofs Require Import Lock_proofs LockSerial_proofs LockGen_proofs.
Open Scope list_scope.

(* The skeleton regenerated from pymodbus/transaction.py and client/sync.py: the lock is bound
   exactly once, in __init__, to RLock(); the call on its main path, EVERY shared-state site on
   every branch, and the retry loop unrolled any number of times all sit inside one bracket. *)
Example C15_generated_ok : well_bracketed GenLock.call_skeleton = true.
Proof. reflexivity. Qed.
Print Assumptions C15_generated_ok.

Theorem C15_generated_all_ok :
  lock_bindings_ok lock_bindings = true /\ well_bracketed call_skeleton = true /\
  well_bracketed (client_prefix ++ execute_allsites) = true /\
  forall n, well_bracketed (client_prefix ++ execute_unrolled n) = true.
Proof. exact gen_generated_ok. Qed.
Print Assumptions C15_generated_all_ok.

(* the broadcast path (client.broadcast_enable and unit 0: send, no receive) is one bracket too,
   on its main path and over all its sites, and returns its own acknowledgement *)
Theorem C15_generated_broadcast_ok :
  well_bracketed broadcast_call_skeleton = true /\
  well_bracketed (client_prefix ++ broadcast_allsites) = true /\
  own_ok broadcast_call_skeleton.
Proof. exact (conj (proj1 gen_broadcast_ok) (conj (proj2 gen_broadcast_ok) gen_broadcast_own_ok)). Qed.
Print Assumptions C15_generated_broadcast_ok.

(* at most one thread is between its send and the end of its receive — any threads, any calls,
   every schedule, re-entrant or not *)
Theorem C15_mutex : forall re tid0 P σ t1 t2 th1 th2,
  wb_program P -> reachable re (init tid0 P) σ ->
  nth_error (st_thr σ) t1 = Some th1 -> nth_error (st_thr σ) t2 = Some th2 ->
  in_flight th1 = true -> in_flight th2 = true -> t1 = t2.
Proof. exact mutex_all_schedules. Qed.
Print Assumptions C15_mutex.

(* while one thread is inside its bracket, every other thread is at a connection check or waiting
   to acquire: it has touched nothing shared in its current call *)
Theorem C15_exclusive : forall re tid0 P σ o d t th,
  wb_program P -> reachable re (init tid0 P) σ ->
  sh_lock (st_sh σ) = Some (o, d) -> nth_error (st_thr σ) t = Some th -> t <> o ->
  in_flight th = false /\
  match th_prog th with
  | (op :: _) :: _ => op = ConnectCheck \/ op = Acquire
  | _ => True
  end.
Proof. exact exclusive_all_schedules. Qed.
Print Assumptions C15_exclusive.

(* single re-entrant lock: some thread can always move unless all are done *)
Theorem C15_no_deadlock : forall tid0 P σ,
  wb_program P -> reachable true (init tid0 P) σ ->
  (exists t σ', step true σ t = Some σ') \/ all_done σ = true.
Proof. exact no_deadlock_all_schedules. Qed.
Print Assumptions C15_no_deadlock.

(* … and re-entrancy is needed for that: with a plain Lock a nested acquisition blocks for ever *)
Theorem C15_nonreentrant_deadlocks :
  let P := [[[Acquire; Acquire; Release; Release]]] in
  let σ := run false [0; 0; 0; 0]%nat (init 0 P) in
  all_done σ = false /\ forall t, step false σ t = None.
Proof. exact nonreentrant_deadlock. Qed.
Print Assumptions C15_nonreentrant_deadlocks.

(* --- serialisation: contiguity, quiescence, reply ownership --------------------------------- *)
(* [good_program P]: every call of every thread is one bracket (well_bracketed) and is [own_ok]:
   run ALONE against an in-order responsive peer from any quiescent client state and any values of
   its locals, it leaves the client quiescent and returns the reply to its own request. *)

(* the regenerated call has both properties (the second by symbolic execution of the skeleton for
   an arbitrary tid counter, thread and call index) *)
Theorem C15_generated_own_ok : own_ok GenLock.call_skeleton.
Proof. exact gen_call_own_ok. Qed.
Print Assumptions C15_generated_own_ok.

(* the transport log is a concatenation of WHOLE per-call blocks — each the complete transport
   projection (connect/send/recv) of one call of the program, no call twice — followed only by the
   block-so-far of the thread that holds the lock: frames of different calls never interleave *)
Theorem C15_contiguous : forall re tid0 P σ,
  good_program P -> reachable re (init tid0 P) σ ->
  exists closed cur,
    sh_log (st_sh σ) = concat (map cblk closed) ++ cur /\
    NoDup (map ctag closed) /\
    Forall (fun e => exists calls, In calls P /\ In (snd e) calls) closed /\
    match sh_lock (st_sh σ) with
    | None => cur = []
    | Some (o, _) => exists th, nth_error (st_thr σ) o = Some th /\
                     cur = block o (th_k th) (th_done th) /\ ~ In (o, th_k th) (map ctag closed)
    end.
Proof. exact contiguous_all_schedules. Qed.
Print Assumptions C15_contiguous.

(* each completed call returned the reply to its own request (no reply lost, duplicated or
   swapped), one value per call, in call order — for every schedule *)
Theorem C15_own_reply : forall re tid0 P σ t th,
  good_program P -> reachable re (init tid0 P) σ -> nth_error (st_thr σ) t = Some th ->
  map fst (th_results th) = seq 0 (th_k th) /\
  forall k r, In (k, r) (th_results th) -> own_result t k r.
Proof. exact own_reply_all_schedules. Qed.
Print Assumptions C15_own_reply.

(* whenever the lock is free nothing is in flight: no unread reply, empty table, empty buffer *)
Theorem C15_quiescent_when_free : forall re tid0 P σ,
  good_program P -> reachable re (init tid0 P) σ -> sh_lock (st_sh σ) = None -> quiescent (st_sh σ).
Proof. exact quiescent_when_free. Qed.
Print Assumptions C15_quiescent_when_free.

(* without the single bracket the conclusion is false: send under one acquisition and receive /
   pick-up under a second one lets two threads get each other's replies *)
Theorem C15_needs_the_bracket :
  let bad := [Acquire; TidAlloc; Connect; Send; Release; Acquire; Recv; Process; Pickup; Release] in
  let σ := run true [0;0;0;0;0; 1;1;1;1;1;1;1;1;1;1;1; 0;0;0;0;0;0]%nat (init 0 [[bad]; [bad]]) in
  well_bracketed bad = false /\
  map th_results (st_thr σ) =
    [[(0%nat, Some {| f_tid := 2; f_thr := 1; f_k := 0 |})];
     [(0%nat, Some {| f_tid := 1; f_thr := 0; f_k := 0 |})]].
Proof. exact split_bracket_swaps_replies. Qed.
Print Assumptions C15_needs_the_bracket.

(* the hypotheses are satisfiable by the generated skeletons: any threads, any mix of unicast and
   broadcast calls *)
Example C15_nonvacuous : forall prog : list (list bool),
  let P := map (map (fun b : bool => if b then broadcast_call_skeleton else call_skeleton)) prog in
  wb_program P /\ good_program P.
Proof. intro prog. split; [apply good_program_wb|]; apply gen_good_program_mixed. Qed.
Print Assumptions C15_nonvacuous.
