(* Props/C08.v — Synchronous client returns only the reply to its own request.
   ONLY statements, about [execute code FS F]: the model of the client transaction instantiated with the
   skeleton regenerated from pymodbus/transaction.py, over an arbitrary framer [F] and transport script. *)
From PM.theories Require Import Base Expr Client CorrClient.
From PM.Generated Require Import GenClient.
From PM.proofs Require Import Client_proofs.
Open Scope list_scope.
Open Scope Z_scope.

(* the core of the property as given (kept visible; REFUTED below on the transaction id and the function code) *)
Definition C08_full_statement : Prop :=
  forall FS (F : framer FS) c st rq sc st' o m,
    s_tx st = [] -> execute code FS F c st rq sc = (st', o) -> o_res o = RReply m ->
    (c_framing c = FTcp -> m_tid m = next_tid code (s_tid st)) /\
    (c_framing c <> FTcp -> m_uid m = r_unit rq) /\
    (m_fc m = r_fc rq \/ m_fc m = Z.lor (r_fc rq) 128).

(* getNextTID wraps: (t + 1) mod 65536 *)
Theorem C08_tid_wrap : forall t, 0 <= t -> next_tid code t = (t + 1) mod 65536.
Proof. exact next_tid_mod. Qed.
Print Assumptions C08_tid_wrap.

(* invariant over all histories (incl. wrap): the transaction table is empty between calls and the counter
   stays in range — so nothing of an earlier call can be returned *)
Theorem C08_inv : forall FS (F : framer FS) c st rq sc st' o,
  s_tx st = [] -> tid_ok (s_tid st) -> proc_clean FS F ->
  execute code FS F c st rq sc = (st', o) ->
  s_tx st' = [] /\ tid_ok (s_tid st') /\ (s_tid st' = s_tid st \/ s_tid st' = (s_tid st + 1) mod 65536).
Proof. exact execute_inv. Qed.
Print Assumptions C08_inv.

(* a returned reply was handed over by processIncomingPacket DURING THIS CALL, from the bytes this call's
   _transact returned, by a framer whose buffer had been reset if it held anything at entry *)
Theorem C08_from_this_call : forall FS (F : framer FS) c st rq sc st' o m,
  s_tx st = [] -> execute code FS F c st rq sc = (st', o) -> o_res o = RReply m ->
  exists fs resp fs' ms,
    (fs = s_fs st \/ fs = f_reset F (s_fs st)) /\ (f_nonempty F (s_fs st) = true -> fs = f_reset F (s_fs st)) /\
    f_process F fs resp (r_unit rq) = (fs', ms, None) /\ In m ms.
Proof. exact execute_from_this_call. Qed.
Print Assumptions C08_from_this_call.

(* a well-formed reply served by a healthy transport is returned decoded (m is what the framer decodes it to),
   from every state that satisfies the invariant, for every framing, request and retry setting *)
Theorem C08_conformant_reply : forall FS (F : framer FS) c st rq reply sc rest m,
  s_tx st = [] -> c_bcast c && (r_unit rq =? 0) = false -> 0 <= retries_given c -> reply <> [] ->
  (c_roi c = true -> exists mb, decode_data 7 (c_framing c) reply = Ok mb /\ mb_unit mb = Some (r_unit rq)) ->
  reset_empties FS F -> conformant_frame FS F reply (r_unit rq) m ->
  serves (c_framing c) (exp_of c rq) (full_of FS c st rq) reply sc ->
  exists st' o,
    execute code FS F c st rq ((if s_conn st then [] else [Nothing]) ++ attempt true sc ++ rest) = (st', o)
    /\ o_res o = RReply m /\ s_tx st' = [] /\ s_tid st' = next_tid code (s_tid st).
Proof.
  intros FS F c st rq reply sc rest m Htx Hb Hr Hne Hu Hreset Hframe Hs.
  exact (execute_empties_then_reply FS F c st rq reply sc rest m 0%nat Htx Hb Hr Hr (or_introl eq_refl) Hne Hu Hreset Hframe Hs).
Qed.
Print Assumptions C08_conformant_reply.

(* PARTIAL pairing: the unit id matches (given the framers' unit filter), except for requests to unit 0 / 255 *)
Theorem C08_pairing_partial : forall FS (F : framer FS) c st rq sc st' o m,
  s_tx st = [] -> unit_filter FS F -> r_unit rq <> 0 -> r_unit rq <> 255 ->
  execute code FS F c st rq sc = (st', o) -> o_res o = RReply m -> m_uid m = r_unit rq.
Proof. exact execute_pairing_unit. Qed.
Print Assumptions C08_pairing_partial.

(* REFUTED (finding #17): TCP — a well-formed frame with transaction id 78 is returned for request id 1
   (T = transitions recorded from the real ModbusSocketFramer on this input) *)
Theorem C08_pairing_refuted :
  exists (T : ftable) c st rq sc m,
    s_tx st = [] /\ c_framing c = FTcp /\
    o_res (snd (execute code Z (table_framer T) c st rq sc)) = RReply m /\
    m_tid m <> next_tid code (s_tid st).
Proof. exact pairing_tid_refuted. Qed.
Print Assumptions C08_pairing_refuted.

(* REFUTED (finding #17): RTU — a ReadCoilsResponse from the right unit answers a register read *)
Theorem C08_pairing_fc_refuted :
  exists (T : ftable) c st rq sc m,
    s_tx st = [] /\
    o_res (snd (execute code Z (table_framer T) c st rq sc)) = RReply m /\
    m_uid m = r_unit rq /\ m_fc m <> r_fc rq /\ m_fc m <> Z.lor (r_fc rq) 128.
Proof. exact pairing_fc_refuted. Qed.
Print Assumptions C08_pairing_fc_refuted.

(* the hypotheses are satisfiable (demo framer, concrete reply, history ending in a tid wrap) *)
Example C08_nonvacuous :
  exists st' o,
    execute code unit demo_tcp cfg_retry (Build_cstate 65535 [] tt [] false) rq_rh
      ([Nothing] ++ empties 2 true false
         ++ attempt false [Data (firstn 8 (reply_rh 0)); Data (skipn 8 (reply_rh 0))] ++ [])
      = (st', o)
    /\ o_res o = RReply {| m_tid := 0; m_uid := 5; m_fc := 3; m_id := 0 |} /\ s_tx st' = [] /\ s_tid st' = 0.
Proof. exact retry_example. Qed.
Print Assumptions C08_nonvacuous.

(* since repairs 10/11 of /repo: a complete frame of another unit followed by the own reply in the same read
   yields the own reply (RTU; transitions recorded from the repaired framer, replayed on every run by the
   "wrongthenown" scripts) *)
Example C08_foreign_then_own_example :
  exists m, o_res (snd (execute code Z (table_framer tab_foreign_own) cfg_rtu0 (st0 7) rq_big
                        [Nothing; Nothing; Data [6;1]%N; Data [1;5;144;255;5;131;2;129;48]%N])) = RReply m
            /\ m_uid m = r_unit rq_big /\ m_fc m = Z.lor (r_fc rq_big) 128.
Proof. exact foreign_then_own_example. Qed.
Print Assumptions C08_foreign_then_own_example.

(* isError(): an exception response (request's function code + 0x80) answers True, a normal response False — for every
   function code 1..127 — and exactly the codes above 0x80 answer True (generated from pdu.ModbusResponse.isError) *)
Theorem C08_is_error_iff_exception : forall fc, 1 <= fc <= 127 ->
  is_error_fc code (Z.lor fc 128) = true /\ is_error_fc code fc = false.
Proof. exact is_error_iff_exception. Qed.
Print Assumptions C08_is_error_iff_exception.

Theorem C08_is_error_exact : forall fc, is_error_fc code fc = (fc >? 128).
Proof. exact is_error_fc_exact. Qed.
Print Assumptions C08_is_error_exact.
