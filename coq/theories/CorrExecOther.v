(* CorrExecOther.v — harness side for the add-on suites other_… of ./check C04.
   One case = datastore layout + the control block as dumped at the start + a history mixing
     XData   a data-access request (exactly as CorrExec.HReq, no faults),
     XOther  a decoded request object of FC 7/8/11/12/17/20/21/24, the response object
             observed (or the exception class that escaped execute), and the control block
             as dumped afterwards,
     XSetCounter / XAddEvent   the application changing the control block,
     XDump   a dump of every datastore block.
   Result = (model agrees on every response, every control-block dump and every store dump,
             PROPERTY: data-access items and store dumps are what ExecSpec prescribes (a
             diagnostic request changes no cell), and inside the conformance region of
             ExecOtherSpec the observed response / control block are the spec's). *)
From PM.theories Require Import Base Expr Store PduCls Pdu CorrPdu Device Exec ExecSpec ExecView ExecWire CorrExec ExecOther ExecOtherSpec ExecOtherView.
Open Scope string_scope.
Open Scope list_scope.
Open Scope Z_scope.

Inductive oobs := OSeen (o : obj) | ORaised (e : pyexn).

Inductive xitem :=
| XData (w : wreq) (r : req) (o : obs_rsp) (pdu : list Z)
| XOther (q : obj) (o : oobs) (after : device)
| XSetCounter (i : nat) (v : Z) (after : device)
| XAddEvent (e : bytes) (after : device)
| XDump (ds : list dump1).

Definition bytes_eqb (a b : bytes) : bool := list_eqb N.eqb a b.

Definition device_eqb (a b : device) : bool :=
  list_eqb Z.eqb (d_counters a) (d_counters b) && list_eqb Bool.eqb (d_diag a) (d_diag b) &&
  list_eqb bytes_eqb (d_events a) (d_events b) && Bool.eqb (d_listen a) (d_listen b) &&
  bytes_eqb (d_delim a) (d_delim b) && list_eqb Z.eqb (d_plus a) (d_plus b) &&
  list_eqb bytes_eqb (d_ident a) (d_ident b).

Section WithCode.
Variable C : store_code.
Variable X : exec_code.
Variable Y : other_code.

(* request.execute(context) inside the front-ends' execute wrapper: the response object sent
   (an exception escaping the wrapper, ORaised, is never what the model predicts) *)
Definition exec_matches (dv : device) (q : obj) (o : oobs) : option device :=
  match serve_other X Y dv q with
  | Some (dv', r) => match o with OSeen r' => if obj_eqb r r' then Some dv' else None | _ => None end
  | None => None
  end.

Fixpoint model_x (st : slavectx) (dv : device) (h : list xitem) : bool :=
  match h with
  | [] => true
  | XData w r o _ :: t =>
      match decode_attrs w with
      | Ok r' => req_eqb r' r &&
                 (let '(st', m) := serve X (std_ops C) st r in rsp_matches X m o && model_x st' dv t)
      | Raise _ => false
      end
  | XOther q o after :: t =>
      (* the hand-written wire -> object reading agrees with the really decoded object *)
      (match wire_of_obj q with
       | Some w => match obj_of_wire w with Some q' => obj_eqb q q' | None => true end
       | None => true
       end) &&
      match exec_matches dv q o with
      | Some dv' => device_eqb dv' after && model_x st dv' t
      | None => false
      end
  | XSetCounter i v after :: t => let dv' := set_counter dv i v in device_eqb dv' after && model_x st dv' t
  | XAddEvent e after :: t => let dv' := add_event dv e in device_eqb dv' after && model_x st dv' t
  | XDump ds :: t => all2 dump_matches (cx_blocks st) ds && model_x st dv t
  end.

End WithCode.

(* ---- property side *)
Definition other_ok_obs (s : sdev) (q : obj) (o : oobs) (after : device) : bool :=
  match wire_of_obj q with
  | None => true
  | Some w =>
      if conforms_region s w
      then let '(s', want) := spec_other s w in
           match o with
           | OSeen r => option_eqb sresp_eqb (view_other r) (Some want) && sdev_eqb (abs_dev after) s'
           | ORaised _ => false
           end
      else true
  end.

Fixpoint prop_x (l : ldesc) (s : astate) (h : list xitem) : bool :=
  match h with
  | [] => true
  | XData w _ o pdu :: t =>
      let '(s', want) := spec_exec s w in
      option_eqb srsp_eqb (oview o) (Some want) && list_eqb Z.eqb pdu (spec_rsp_pdu want) && prop_x l s' t
  | XOther q o after :: t => prop_x l s t          (* no cell of any table changes: checked by the next XDump *)
  | XSetCounter _ _ _ :: t | XAddEvent _ _ :: t => prop_x l s t
  | XDump ds :: t => dumps_ok l s O (l_blocks l) ds && prop_x l s t
  end.

(* the control block is threaded separately: the spec state before each XOther is the
   abstraction of the control block dumped after the previous item *)
Fixpoint prop_dev (dv : device) (h : list xitem) : bool :=
  match h with
  | [] => true
  | XOther q o after :: t => other_ok_obs (abs_dev dv) q o after && prop_dev after t
  | XSetCounter _ _ after :: t | XAddEvent _ after :: t => prop_dev after t
  | _ :: t => prop_dev dv t
  end.

Definition chk_other (C : store_code) (X : exec_code) (Y : other_code)
                     (c : ldesc * device * list xitem) : bool * bool :=
  let '(l, dv, h) := c in
  (model_x C X Y (ctx_of_layout l) dv h, prop_x l (abs_of_layout l) h && prop_dev dv h).
