(* CorrE2EExt.v — spec side and harness side of the EXTENDED end-to-end composition (Props/C09_e2e_ext.v):
   besides the data-access requests (ExecSpec.spec_exec on the addressed unit's abstract state) the
   abstract server answers FC 7, 8, 11, 12, 17 with ExecOtherSpec.spec_other on ONE abstract device
   (the diagnostic counters, event log, listen-only flag … are properties of the station, not of a unit).
   The eight exception-status outputs are device specific; this device's choice (output i = diagnostic
   counter i is non-zero) is [station_status].  No proofs. *)
From PM.theories Require Import Base Expr Struct FrBaseA FrTcp FrSpecA Lrc FrAscii PduCls PduSpec Pdu Store Exec ExecSpec CorrExec
                                Device ExecOther ExecOtherSpec ExecOtherView CorrExecOther Server
                                EndToEnd EndToEndSerial EndToEndExt CorrE2E CorrE2ESerial.
From PM.Generated Require Import GenFramerA.
From PM.Generated Require GenServer.
Open Scope string_scope.
Open Scope list_scope.
Open Scope Z_scope.

(* ---------------------------------------------------------------- messages <-> ExecOtherSpec vocabulary *)
Definition owire_of_msg (m : msg) : option owire :=
  match m with
  | MReadExcStatusReq => Some WExcStatus
  | MCommEventCounterReq => Some WEvCounter
  | MCommEventLogReq => Some WEvLog
  | MReportSlaveIdReq => Some WReportId
  | MDiagReq sub [data] => Some (WDiag sub data)
  | _ => None
  end.
Definition owire_of (b : sreq) : option owire := match b with QMsg m => owire_of_msg m | QRaw _ _ => None end.

(* the response of the abstract device as a message; None = no response is sent (Force Listen Only
   Mode), or a response kind outside this composition (file records, FIFO, reserved sub-functions) *)
Definition other_rsp_msg (r : sresp) : option msg :=
  match r with
  | SStatus v => Some (MReadExcStatusRsp v)
  | SEvCounter st c => Some (MCommEventCounterRsp (st =? 65535) c)
  | SEvLog st ec mc evs => Some (MCommEventLogRsp (st =? 65535) ec mc evs)
  | SServerId id run => Some (MReportSlaveIdRsp (map Z.to_N id) run)
  | SDiag sub data => Some (MDiagRsp sub data)
  | SOExc fc code => Some (MException (fc - 128) code)
  | SNoResponse | SFileRead _ | SFileWrite _ | SFifo _ | SUnspecified => None
  end.

(* this station's exception status outputs: output i is set iff diagnostic counter i is non-zero *)
Definition station_status (s : sdev) : Z :=
  summary_from [sc_bus_msg s; sc_bus_comm_err s; sc_exc_err s; sc_server_msg s;
                sc_no_resp s; sc_nak s; sc_busy s; sc_overrun s] 1 0.

Definition with_status (s : sdev) : sdev :=
  {| sc_bus_msg := sc_bus_msg s; sc_bus_comm_err := sc_bus_comm_err s; sc_exc_err := sc_exc_err s;
     sc_server_msg := sc_server_msg s; sc_no_resp := sc_no_resp s; sc_nak := sc_nak s;
     sc_busy := sc_busy s; sc_overrun := sc_overrun s; sc_event := sc_event s; s_diag_reg := s_diag_reg s;
     s_events := s_events s; s_listen := s_listen s; s_delim := s_delim s;
     s_exc_status := station_status s; s_server_id := s_server_id s; s_run := s_run s;
     s_processing := s_processing s; s_files := s_files s; s_fifos := s_fifos s |}.

Definition spec_other_step (s : sdev) (w : owire) : sdev * sresp := spec_other (with_status s) w.

Definition spec_other_answer (adu : adu_fn) (sd : sdev) (q : e2e_req) : option (sdev * bytes) :=
  match owire_of (q_body q) with
  | Some ow =>
      let '(sd', r) := spec_other_step sd ow in
      Some (sd', match other_rsp_msg r with Some m => adu q (spec_pdu m) | None => [] end)
  | None => None
  end.

(* ---------------------------------------------------------------- the abstract server with a device *)
Record sstate := { ss_units : sunits; ss_dev : sdev }.

Fixpoint spec_run_x (adu : adu_fn) (single : bool) (st : sstate) (qs : list e2e_req) : sstate * bytes :=
  match qs with
  | [] => (st, [])
  | q :: t =>
      let k := spec_key single (q_uid q) in
      match su_get (ss_units st) k with
      | Some s =>
          match spec_answer_g adu s q with
          | Some (s', b) =>
              let '(st2, b2) := spec_run_x adu single {| ss_units := su_set (ss_units st) k s'; ss_dev := ss_dev st |} t in
              (st2, b ++ b2)
          | None =>
              match spec_other_answer adu (ss_dev st) q with
              | Some (sd', b) =>
                  let '(st2, b2) := spec_run_x adu single {| ss_units := ss_units st; ss_dev := sd' |} t in (st2, b ++ b2)
              | None => spec_run_x adu single st t
              end
          end
      | None => spec_run_x adu single st t
      end
  end.

(* checker form (broadcast: executed once per hosted unit, no answer; absent unit: nothing executed) *)
Fixpoint iter_spec_other (n : nat) (sd : sdev) (w : owire) : sdev :=
  match n with O => sd | S k => iter_spec_other k (fst (spec_other_step sd w)) w end.

Fixpoint spec_check_x (adu : adu_fn) (has_bcast : bool) (cfg : scfg) (st : sstate) (qs : list e2e_req) (written : bytes)
  : option sstate :=
  match qs with
  | [] => match written with [] => Some st | _ => None end
  | q :: t =>
      let su := ss_units st in
      match spec_route has_bcast cfg (map fst su) (q_uid q) with
      | VBroadcast =>
          match wreq_of (q_body q), owire_of (q_body q) with
          | Some w, _ => spec_check_x adu has_bcast cfg
                           {| ss_units := map (fun p => (fst p, fst (spec_exec (snd p) w))) su; ss_dev := ss_dev st |} t written
          | None, Some ow => spec_check_x adu has_bcast cfg
                           {| ss_units := su; ss_dev := iter_spec_other (length su) (ss_dev st) ow |} t written
          | None, None => None
          end
      | VRespond k =>
          match su_get su k with
          | Some s =>
              match spec_answer_g adu s q with
              | Some (s', b) =>
                  match strip_prefix b written with
                  | Some rest => spec_check_x adu has_bcast cfg {| ss_units := su_set su k s'; ss_dev := ss_dev st |} t rest
                  | None => None
                  end
              | None =>
                  match spec_other_answer adu (ss_dev st) q with
                  | Some (sd', b) =>
                      match strip_prefix b written with
                      | Some rest => spec_check_x adu has_bcast cfg {| ss_units := su; ss_dev := sd' |} t rest
                      | None => None
                      end
                  | None => None
                  end
              end
          | None => None
          end
      | VAbsent =>
          let b := adu q [Z.to_N (Z.lor (fc_of_sreq (q_body q)) 128); Z.to_N gateway_no_response] in
          match strip_prefix b written with
          | Some rest => spec_check_x adu has_bcast cfg st t rest
          | None => spec_check_x adu has_bcast cfg st t written
          end
      end
  end.

(* ---------------------------------------------------------------- cases *)
Inductive xkind := XTcp | XAscii | XRtu.

Record ext_case := {
  x_kind : xkind;
  x_fe : string;
  x_cfg : scfg;
  x_eof : bool;
  x_layouts : list (Z * ldesc);
  x_dev0 : device;                     (* dump of the ModbusControlBlock before the first read *)
  x_reqs : list e2e_req;
  x_chunks : list bytes;
  x_written : bytes;
  x_final : list (Z * list dump1);
  x_dev1 : device                      (* dump of the ModbusControlBlock afterwards *)
}.

Definition xk_req_adu (k : xkind) : e2e_req -> bytes :=
  match k with XTcp => req_adu | XAscii => req_adu_ascii | XRtu => req_adu_rtu end.
Definition xk_adu (k : xkind) : adu_fn := match k with XTcp => tcp_adu | XAscii => ascii_adu | XRtu => rtu_adu end.

Definition clean {ST FS} (r : e2e_result ST FS) : bool := match e_fault r, e_stop r with None, None => true | _, _ => false end.

Definition chk_e2e_ext (c : ext_case) : bool * bool :=
  match sassoc (x_fe c) GenServer.frontends with
  | None => (false, false)
  | Some sk =>
      let eof := match x_kind c with XTcp => x_eof c | _ => false end in
      let sent := concat (eff_chunks eof (x_chunks c)) in
      let wf := is_prefix sent (concat (map (xk_req_adu (x_kind c)) (x_reqs c))) in
      let x0 := {| x_units := map (fun p => (fst p, ctx_of_layout (snd p))) (x_layouts c); x_dev := x_dev0 c |} in
      let '(out, fin, ok) :=
        match x_kind c with
        | XTcp => let r := tcp_server_run_x sk (x_cfg c) (x_eof c) x0 (x_chunks c) in (e_out r, e_units r, clean r)
        | XAscii => let r := ascii_server_run_x sk (x_cfg c) x0 (x_chunks c) in (e_out r, e_units r, clean r)
        | XRtu => let r := rtu_server_run_x sk (x_cfg c) x0 (x_chunks c) in (e_out r, e_units r, clean r)
        end in
      (wf && ok && CorrE2E.bytes_eqb out (x_written c) && stores_match (x_units fin) (x_final c) &&
       device_eqb (x_dev fin) (x_dev1 c),
       match spec_check_x (xk_adu (x_kind c)) (has_bcast_of sk) (x_cfg c)
                          {| ss_units := map (fun p => (fst p, abs_of_layout (snd p))) (x_layouts c);
                             ss_dev := abs_dev (x_dev0 c) |}
                          (complete_reqs_k (xk_req_adu (x_kind c)) (x_reqs c) sent) (x_written c) with
       | Some st => states_ok (x_layouts c) (ss_units st) (x_final c) && sdev_eqb (abs_dev (x_dev1 c)) (ss_dev st)
       | None => false
       end)
  end.
