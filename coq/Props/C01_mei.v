(* C01 add-on — Read Device Identification responses, paged or not.
   C01_encode_conforms covers the responses that fit one PDU (one spec message stands for the
   object).  This covers ALL of them, including responses that must be paged and list-valued
   (repeated) object ids that run out of space anywhere: whatever ReadDeviceInformationResponse
   .encode() emits is a self-consistent 43/14 response — after the six header bytes exactly
   NUMBER-OF-OBJECTS objects (id, length, that many bytes) follow and nothing else (v1.1b3 6.21).
   [mei_wire_ok] is also the oracle the correspondence applies to what the real encoder emitted. *)
From PM.theories Require Import Base Struct PduCls PduSpec Pdu CorrPdu.
From PM.proofs Require Import Pdu_mei_wire_proofs.
Open Scope Z_scope.

Theorem C01_mei_wire_consistent : forall rc cf more next nobj info sl b,
  py_pdu (OMeiRsp 14 rc cf more next nobj info sl) = Ok b -> mei_wire_ok b = true.
Proof. exact mei_wire_consistent. Qed.
Print Assumptions C01_mei_wire_consistent.

(* the encoder appends whole objects with in-range id and length, and counts them one by one *)
Theorem C01_mei_objects_counted : forall items space n acc objs sp n' oos,
  mei_objs items space n acc = Ok (objs, sp, n', oos) ->
  exists ds, objs = acc ++ flat_map enc1 ds /\ n' = n + zlen ds /\ List.Forall ok1 ds.
Proof. exact mei_objs_shape. Qed.
Print Assumptions C01_mei_objects_counted.

(* non-vacuous: a list-valued object that runs out of space after two of its three items *)
Example C01_mei_nonvacuous :
  exists b, py_pdu (OMeiRsp 14 1 131 0 0 0 [(0, MOne (List.repeat 65%N 10)); (128, MMany [List.repeat 66%N 100; List.repeat 67%N 100; List.repeat 68%N 100])] None) = Ok b
            /\ mei_wire_ok b = true /\ List.nth 6 b 0%N = 3%N /\ List.nth 4 b 0%N = 255%N.
Proof. eexists. split; [vm_compute; reflexivity|]. vm_compute. auto. Qed.
Print Assumptions C01_mei_nonvacuous.
