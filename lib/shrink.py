"""Generic shrinker for operation-sequence cases.

make_case(ops) must re-run the implementation on `ops` and return a lib.main.Case;
the candidates of one round are evaluated together in one coqc run."""
from . import coqrun


def _failing(tag, imports, chk, cases, which):
    r = coqrun.eval_cases(tag, imports, chk, [c.term for c in cases], shard=400)
    if r["errors"]:
        return set()
    return set(r[which])


def shrink_ops(tag, imports, chk, ops, make_case, which="propfail", rounds=6):
    """smallest failing prefix, then repeatedly delete single operations while it still fails"""
    ops = list(ops)
    try:
        prefixes = [make_case(ops[:k]) for k in range(1, len(ops) + 1)]
        bad = _failing(tag + "_shr", imports, chk, prefixes, which)
        if not bad:
            return None
        ops = ops[:min(bad) + 1]
        for _ in range(rounds):
            if len(ops) <= 1:
                break
            cands = [ops[:i] + ops[i + 1:] for i in range(len(ops) - 1)]
            cases = [make_case(c) for c in cands]
            bad = _failing(tag + "_shr", imports, chk, cases, which)
            if not bad:
                break
            ops = cands[max(bad)]
        return make_case(ops)
    except Exception:  # noqa: BLE001 — shrinking is best effort
        return None
