(* Props/C03_tcpascii.v — C03 (framing builds the spec ADU and round-trips), half for the
   socket (TCP/MBAP), ASCII and TLS framers and the LRC.  ONLY statements; proofs are in
   proofs/FrA_*_proofs.v.  [lrc], [tcp], [ascii], [tls], [base] are the records regenerated from
   pymodbus/utilities.py and pymodbus/framer/*.py on every run (Generated/GenFramerA.v);
   [spec_adu_*], [spec_delivery], [valid_frame] are the specification side (theories/FrSpecA.v).
   The PDU decoder [dec] is universally quantified. *)
From PM.theories Require Import Base Expr Struct FrBaseA Lrc FrTcp FrAscii FrTls FrSpecA.
From PM.Generated Require Import GenFramerA.
From PM.proofs Require Import FrA_lrc_proofs FrA_tcp_proofs FrA_ascii_proofs FrA_tls_proofs.
Open Scope list_scope.
Open Scope Z_scope.

(* computeLRC is the two's complement of the byte sum modulo 256, for every byte string *)
Theorem C03_lrc : forall bs : bytes,
  py_lrc lrc bs = (256 - (bsum bs) mod 256) mod 256.
Proof. exact py_lrc_spec. Qed.
Print Assumptions C03_lrc.

Theorem C03_check_lrc : forall (data : bytes) (check : Z),
  py_check_lrc lrc data check = (spec_lrc data =? check).
Proof. exact py_check_lrc_spec. Qed.
Print Assumptions C03_check_lrc.

(* buildPacket = the specified ADU, for every transaction id, protocol id, unit id, function
   code and payload (message.encode() = data, PDU = fc :: data) *)
Theorem C03_build_tcp : forall tid pid uid fc (data : bytes),
  0 <= tid < 65536 -> 0 <= pid < 65536 -> 0 <= uid < 256 -> 0 <= fc < 256 ->
  Z.of_nat (length data) + 2 < 65536 ->
  t_build tcp tid pid uid fc data = Ok (spec_adu_tcp tid pid uid (Z.to_N fc :: data)).
Proof. exact tcp_build_spec. Qed.
Print Assumptions C03_build_tcp.

Theorem C03_build_tcp_range : forall tid pid uid fc (data : bytes),
  ~ (0 <= tid < 65536) -> t_build tcp tid pid uid fc data = Raise StructError.
Proof. exact tcp_build_range. Qed.
Print Assumptions C03_build_tcp_range.

Theorem C03_build_ascii : forall uid fc (data : bytes),
  0 <= uid < 256 -> 0 <= fc < 256 -> wfb data = true ->
  a_build lrc ascii uid fc data = Ok (spec_adu_ascii uid (Z.to_N fc :: data)).
Proof. exact ascii_build_spec. Qed.
Print Assumptions C03_build_ascii.

Theorem C03_build_tls : forall fc (data : bytes),
  0 <= fc < 256 -> s_build tls fc data = Ok (spec_adu_tls (Z.to_N fc :: data)).
Proof. exact tls_build_spec. Qed.
Print Assumptions C03_build_tls.

(* the packet, whole, to a fresh receiver: exactly one delivery, header fields preserved,
   receiver back in its initial state, nothing raised *)
Theorem C03_whole_frame_tcp : forall (dec : bytes -> dres) (c : cfg) (f : frame),
  valid_frame KTcp dec c f ->
  t_recv base tcp dec c (t_init tcp) (spec_adu KTcp f) = (t_init tcp, [spec_delivery KTcp f], Done).
Proof. exact tcp_whole_frame. Qed.
Print Assumptions C03_whole_frame_tcp.

Theorem C03_whole_frame_ascii : forall (dec : bytes -> dres) (c : cfg) (f : frame),
  valid_frame KAscii dec c f ->
  a_recv base lrc ascii dec c (a_init ascii) (spec_adu KAscii f) = (a_init ascii, [spec_delivery KAscii f], Done).
Proof. exact ascii_whole_frame. Qed.
Print Assumptions C03_whole_frame_ascii.

Theorem C03_whole_frame_tls : forall (dec : bytes -> dres) (c : cfg) (pdu : bytes) fc,
  (1 <= length pdu)%nat -> dec pdu = DMsg fc ->
  single_of (s_single_default tls) c || zmem 0 (c_units c) || zmem 255 (c_units c) = true ->
  s_recv base tls dec c [] pdu = ([], [{| d_pdu := pdu; d_tid := 0; d_pid := 0; d_uid := 0 |}], Done).
Proof. exact tls_whole_frame. Qed.
Print Assumptions C03_whole_frame_tls.

(* REFUTED part (known finding #22): TLS framer with single=False and no 0/0xFF unit *)
Definition C03_whole_frame_tls_full_statement : Prop :=
  forall (dec : bytes -> dres) (c : cfg) (pdu : bytes) fc, (1 <= length pdu)%nat -> dec pdu = DMsg fc ->
  s_recv base tls dec c [] pdu = ([], [{| d_pdu := pdu; d_tid := 0; d_pid := 0; d_uid := 0 |}], Done).
Theorem C03_tls_keyerror : forall (dec : bytes -> dres) (c : cfg) (pdu : bytes),
  (1 <= length pdu)%nat -> c_single c = Some false -> zmem 0 (c_units c) = false -> zmem 255 (c_units c) = false ->
  s_recv base tls dec c [] pdu = (pdu, [], Exc KeyError).
Proof. exact tls_keyerror. Qed.
Print Assumptions C03_tls_keyerror.

Example C03_nonvacuous :
  py_lrc lrc [1%N; 3%N; 0%N; 0%N; 0%N; 2%N] = 250 /\
  valid_frame KAscii (fun _ => DMsg 3) {| c_units := [17]; c_single := None |}
              {| f_tid := 0; f_pid := 0; f_uid := 17; f_pdu := [3%N; 0%N; 107%N; 0%N; 3%N] |} /\
  spec_adu_ascii 17 [3%N; 0%N; 107%N; 0%N; 3%N] =
    [58; 49; 49; 48; 51; 48; 48; 54; 66; 48; 48; 48; 51; 55; 69; 13; 10]%N.
Proof. split; [reflexivity|]. split; [|reflexivity]. repeat split; cbn; lia. Qed.
