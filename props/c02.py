"""C02 — Encode/decode are mutual inverses and encoding is pure."""
from lib import common
from lib.coqrun import lst
from lib.main import Case, Suite
from props import lib_pdu as L

ID = "C02"
GENERATORS = ["pdu"]
PROP_FILE = "C02"
CASE_DEPS = L.CASE_DEPS
IMPORTS = L.IMPORTS
RULE = ("rt: one instance of every registered class (all diagnostic sub-classes, exception responses) per draw of "
        "in-range field values and per list length 0..wire maximum; observed: pdu, pdu again on the same object, "
        "decoder result, pdu of the decoded object, decoder result of that.  hist: call histories "
        "(encode / decode(b)) of length <= 7 on ONE instance of every class, b drawn from encodings of other "
        "instances of the same class (plus a few malformed), each decode also performed on a brand-new instance; "
        "model run in lock-step with encode_st/decode_into.  Non-trivial = the first encode succeeded; "
        "distinct = distinct Coq case terms")
TRUSTED = [
    "modelled by hand, tied by correspondence only: bodies of the irregular encode/decode methods incl. which "
    "attributes they assign (coq/theories/Pdu.v encode_st / decode_into / fresh)",
    "generated from source on every run (Generated/GenPdu.v): tables, fixed layouts, format literals, constants",
    "property oracle: field identity / byte equality on the implementation's own observations (CorrPdu.chk_rt, prop_hist)",
]
ASSUMPTIONS = ["message attributes are Python ints / bools / lists of ints / bytes (no str payloads, skip_encode False)",
               "a call history ends at the first exception (the partially assigned object is not observed)",
               "diagnostic data fields are compared as their sequence of 16-bit words (int 5, [5] and (5,) are the same field value)"]

RESPONSE_ONLY_CLIENT = True


def is_request(name):
    return name.endswith("Request")


DFLT_O = '(@Unexpected obj "not reached"%string)'
DFLT_B = '(@Unexpected bytes "not reached"%string)'
SKIP_O = "(Seen (@Raise obj OtherExc))"       # step not performed because an earlier one raised
SKIP_B = "(Seen (@Raise bytes OtherExc))"


def guarded(fn, fallback_term, label):
    """last resort: an exception escaping a case builder becomes an Unexpected case, not a crash of suites()"""
    try:
        return fn()
    except Exception as e:  # noqa: BLE001
        txt = "case builder failed: %s: %s" % (type(e).__name__, e)
        return Case(fallback_term(txt), {"class": label, "unexpected": True, "error": txt[:300]}, kind=str(label), nontrivial=False)


def rt_fallback(txt):
    u = L.unexpected("bytes", txt)
    return "(true, OIllegal 0, %s, %s, %s, %s, %s)" % (u, u, DFLT_O, DFLT_B, DFLT_O)


def hist_fallback(txt):
    return "(OIllegal 0, %s, %s)" % (lst([]), lst(["HOUnexpected %s" % L.what(txt)]))


_LAST_PDU = {}


def rt_case(spec):
    """never raises: every outcome of the implementation is an observation in the case term"""
    server = is_request(spec[0])
    term, o, err = L.safe_obj_term(lambda: L.build(spec), spec)
    if err is not None:
        u = L.unexpected("bytes", "cannot build/dump %s: %s" % (spec[0], err))
        t = "(%s, OIllegal 0, %s, %s, %s, %s, %s)" % ("true" if server else "false", u, u, DFLT_O, DFLT_B, DFLT_O)
        return Case(t, {"class": spec[0], "spec": repr(spec[1:])[:3000], "pdu": u, "decoded": "", "pure": False,
                        "nwords": None, "unexpected": True}, kind=spec[0], nontrivial=False)
    e1, b1, x1 = L.res(lambda: L.pdu_of(o), L.nbytes, "bytes")
    e2, _, _ = L.res(lambda: L.pdu_of(o), L.nbytes, "bytes")
    d1, e3, d2 = SKIP_O, SKIP_B, SKIP_O
    xd = True
    if x1 is None:
        d1, o1, xd = L.res(lambda: L.helper(server, b1), L.obj_term, "obj")
        if xd is None:
            # a decoded message is a value of its own: decoding ANOTHER frame of the same kind on the same decoder
            # (the previous case's bytes) must not change the message we already hold
            other = _LAST_PDU.get((server, spec[0]))
            if other is not None and other != b1:
                L.res(lambda: L.helper(server, other), L.obj_term, "obj")
                again, _, _ = L.res(lambda: o1, L.obj_term, "obj")
                if again != d1:
                    d1 = L.unexpected("obj", "%s changed while another frame was decoded: %s -> %s" % (spec[0], d1[:120], again[:120]))
            _LAST_PDU[(server, spec[0])] = b1
            e3, b3, x3 = L.res(lambda: L.pdu_of(o1), L.nbytes, "bytes")
            if x3 is None:
                d2, _, _ = L.res(lambda: L.helper(server, b3), L.obj_term, "obj")
    t = "(%s, %s, %s, %s, %s, %s, %s)" % ("true" if server else "false", term, e1, e2, d1, e3, d2)
    # what an application may do with a message it was handed — edit its lists IN PLACE — must stay its own
    # business: the decoders are the process-wide ones, so anything a decoded message shares with the decoder, a
    # cache or a sibling message shows up in the cases that follow (observations above are already taken)
    if x1 is None and xd is None:
        scribble(o1)
    try:
        nw = diag_words(o)
    except Exception:  # noqa: BLE001
        nw = None
    desc = {"class": spec[0], "spec": repr(spec[1:])[:3000], "pdu": e1[:300], "decoded": d1[:300],
            "pure": e1 == e2, "nwords": nw, "unexpected": "Unexpected" in (e1 + e2 + d1 + e3 + d2)}
    return Case(t, desc, kind=spec[0], nontrivial=x1 is None)


def scribble(m):
    """in-place edits of every list a decoded message holds (never rebinding an attribute)"""
    try:
        for k, v in list(vars(m).items()):
            if isinstance(v, list):
                v.reverse()
                v.append(v[0] if v else 1)
                if v and isinstance(v[0], bool):
                    v[0] = not v[0]
            elif isinstance(v, dict):
                v["scribbled"] = 1
    except Exception:  # noqa: BLE001
        pass


def diag_words(o):
    if getattr(o, "function_code", None) == 8 and hasattr(o, "message"):
        m = o.message
        if m is None:
            return 0
        if isinstance(m, (list, tuple)):
            return len(m)
        if isinstance(m, (bytes, bytearray)):
            return len(m) / 2
        return 1
    return None


def suite_rt(tier):
    r = common.rng("C02.rt")
    specs = []
    for _ in range(1 if tier == "quick" else 8):
        specs += L.class_specs(r, tier, bad=0.03)
    return Suite("rt", IMPORTS, "chk_rt", [guarded(lambda s=s: rt_case(s), rt_fallback, s[0]) for s in specs], shard=200)


def hist_case(r, spec, pool):
    """never raises: see rt_case"""
    name = spec[0]
    term, o, err = L.safe_obj_term(lambda: L.build(spec), spec)
    if err is not None:
        t = "(OIllegal 0, %s, %s)" % (lst([]), lst(["HOUnexpected %s" % L.what("cannot build/dump %s: %s" % (name, err))]))
        return Case(t, {"class": name, "spec": repr(spec[1:])[:2000], "ops": [], "outs": [], "unexpected": True},
                    kind=name, nontrivial=False)
    N = L.ns()
    ops, outs = [], []
    bad = False
    n = r.choice([2, 3, 4, 5, 6, 7])
    for i in range(n):
        if r.random() < 0.5 or not pool:
            ops.append("HEnc")
            e, _, x = L.res(o.encode, L.nbytes, "bytes")
            if isinstance(x, L.UnexpectedObs):
                outs.append("HOUnexpected %s" % L.what(e))
                bad = True
                break
            outs.append("HOEnc %s" % e[len("(Seen "):-1])
            if x is not None:
                break
        else:
            b = r.choice(pool)
            k = r.random()
            if k < 0.2 and len(b) > 0:
                b = b[:r.randrange(len(b))]
            elif k < 0.24:
                b = b + bytes([r.randrange(256)])
            ops.append("HDec %s" % L.nbytes(b))

            def dec_used(b=b):
                o.decode(b)
                return o

            def dec_new(b=b):
                if name == "ExceptionResponse":
                    f = N[name](o.original_code)
                elif name == "IllegalFunctionRequest":
                    f = N[name](o.function_code)
                else:
                    f = N[name]()
                    if hasattr(o, "sub_function_code") and o.function_code == 8 and not hasattr(f, "sub_function_code"):
                        f.sub_function_code = o.sub_function_code
                f.decode(b)
                return f
            d, _, x = L.res(dec_used, L.obj_term, "obj")
            fresh_box = []

            def dec_new_keep(b=b):
                fresh_box.append(dec_new(b))
                return fresh_box[0]
            f, _, xf = L.res(dec_new_keep, L.obj_term, "obj")
            # what the brand-new instance encodes to after that decode: the used instance must encode to the same
            if fresh_box:
                fe, _, xe = L.res(fresh_box[0].encode, L.nbytes, "bytes")
            elif xf is not None and not isinstance(xf, L.UnexpectedObs):
                fe, xe = "(Seen (@Raise (bytes) %s))" % L.pyexn(xf), None
            else:
                fe, xe = None, None
            if fe is None or isinstance(xe, L.UnexpectedObs):
                outs.append("HOUnexpected %s" % L.what("encode of a new instance after decode: %s" % fe))
                bad = True
                break
            if isinstance(x, L.UnexpectedObs) or isinstance(xf, L.UnexpectedObs):
                outs.append("HOUnexpected %s" % L.what(d + " / " + f))
                bad = True
                break
            outs.append("HODec %s %s %s" % (d[len("(Seen "):-1], f[len("(Seen "):-1], fe[len("(Seen "):-1]))
            if x is not None:
                # the instance after the raising decode (which attributes were already assigned)
                try:
                    outs.append("HOAfter %s" % L.obj_term(o))
                except Exception as ex:  # noqa: BLE001
                    outs.append("HOUnexpected %s" % L.what("after a raising decode: %s: %s" % (type(ex).__name__, ex)))
                    bad = True
                break
    t = "(%s, %s, %s)" % (term, lst(ops), lst(outs))
    desc = {"class": name, "spec": repr(spec[1:])[:2000], "ops": [x[:200] for x in ops], "outs": [x[:300] for x in outs],
            "unexpected": bad}
    return Case(t, desc, kind=name, nontrivial=True)


def suite_hist(tier):
    r = common.rng("C02.hist")
    specs = L.class_specs(r, tier, bad=0.0)
    by_class = {}
    for s in specs:
        by_class.setdefault(s[0], []).append(s)
    cases = []
    per = 14 if tier == "quick" else 250
    for name, ss in sorted(by_class.items()):
        pool = []
        for s in ss:
            try:
                b = L.build(s).encode()
            except Exception:  # noqa: BLE001
                continue
            if len(b) <= 80:
                pool.append(b)
        small = [s for s in ss if len(repr(s)) < 1500] or ss
        for _ in range(per):
            sp = r.choice(small)
            cases.append(guarded(lambda: hist_case(r, sp, pool), hist_fallback, name))
    return Suite("hist", IMPORTS, "chk_hist", cases, shard=200)


def suites(tier):
    return [suite_rt(tier), suite_hist(tier)]


# ----------------------------------------------------------------------------- findings / replay

def classify(suite, desc):
    if desc.get("unexpected"):
        return None                       # an undumpable outcome is never a known finding
    c = desc.get("class") or ""
    if suite == "rt" and desc.get("pure"):      # an impure encode is never covered by the asymmetric-pair findings
        if c == "ReadFifoQueueResponse":
            return "F-C02-fifo-response"
        if c == "ReadFileRecordResponse":
            return "F-C02-file-record-response"
        if c == "ReportSlaveIdResponse":
            return "F-C02-slave-id"
        if c.endswith("Request") and desc.get("nwords") is not None and desc["nwords"] != 1:
            return "F-C02-diag-request-data"
    if suite == "hist" and c == "ReadWriteMultipleRegistersResponse":
        return "F-C02-rwm-response-accumulates"
    return None


def replay_finding(f):
    """True when the witness still fails (a crash while replaying counts as still failing)."""
    try:
        return _replay_finding(f)
    except Exception:  # noqa: BLE001
        return True


def _replay_finding(f):
    N = L.ns()
    w = f["witness"]
    fid = f["id"]
    if fid == "F-C02-fifo-response":
        o = N["ReadFifoQueueResponse"](list(w["values"]))
        return list(L.helper(False, L.pdu_of(o)).values) != list(w["values"])
    if fid == "F-C02-file-record-response":
        o = N["ReadFileRecordResponse"]([N["FileRecord"](record_data=bytes.fromhex(w["record_data"]))])
        d = L.helper(False, L.pdu_of(o))
        return [bytes(r.record_data).hex() for r in d.records] != [w["record_data"]]
    if fid == "F-C02-slave-id":
        o = N["ReportSlaveIdResponse"](bytes.fromhex(w["identifier"]), True)
        return bytes(L.helper(False, L.pdu_of(o)).identifier).hex() != w["identifier"]
    if fid == "F-C02-diag-request-data":
        o = N["ReturnQueryDataRequest"](list(w["data"]))
        try:
            d = L.helper(True, L.pdu_of(o))
            return list(d.message) != list(w["data"])
        except Exception:  # noqa: BLE001
            return True
    if fid == "F-C02-rwm-response-accumulates":
        o = N["ReadWriteMultipleRegistersResponse"]()
        b = bytes.fromhex(w["data"])
        o.decode(b)
        o.decode(b)
        return list(o.registers) != list(w["registers"])
    if fid in ("F-C02-mei-encode-count", "F-C02-diag-response-tuple"):
        # fixed in /repo: the witness must pass
        if fid == "F-C02-mei-encode-count":
            o = N["ReadDeviceInformationResponse"](1, {0: b"ab", 1: b"cd"})
            return o.encode() != o.encode()
        d = L.helper(False, bytes.fromhex(w["pdu"]))
        return L.pdu_of(d).hex() != w["pdu"]
    return None


def replay_case(suite, desc):
    import json
    print(json.dumps(desc)[:1500])
    print("replay of suite %s: re-run ./check C02 with VERIF_SEED from the replay file" % suite)
    return True


MANIFEST = {
    "text": ("Coq theorems (Props/C02.v) over all field values and list lengths: for the listed round-trip classes "
             "the decoder applied to bytes([fc])+encode() returns the same class with equal fields (bit lists up to "
             "zero padding); encode is idempotent on the object state and returns the same bytes when repeated, "
             "for every class; decode into a used object equals decode into a new one for every class except "
             "ReadWriteMultipleRegistersResponse (refuted: it appends); re-encoding a decoded object is a fixed "
             "point. Asymmetric pairs (FIFO response, file-record response, slave-id response, multi-word "
             "diagnostic requests) have _refuted witnesses and are known findings."),
    "note": ("Trusted: Coq kernel; translator shape matching; hand model of encode_st/decode_into tied on every run by "
             "round-trip and call-history correspondence on single instances of the real classes."),
    "design_ref": "DESIGN.md section 8 (C02)",
}
