From PM.theories Require Import Base Expr Client.
From PM.Generated Require Import GenClient.
From PM.proofs Require Import Client_proofs.
Open Scope list_scope.
Open Scope Z_scope.

Theorem C13_tid_wrap : forall t, 0 <= t -> next_tid code t = (t + 1) mod 65536.
Proof. exact next_tid_mod. Qed.
Print Assumptions C13_tid_wrap.
