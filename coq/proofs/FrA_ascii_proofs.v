(* FrA_ascii_proofs.v — lemmas about the ASCII-framer model instantiated with the GENERATED
   code records [GenFramerA.ascii], [lrc], [base].  The bridge lemmas are proved by
   computation on the generated terms: a changed delimiter, slice bound (`+ 2`, `end - 2`),
   comparison, a dropped checkLRC or a changed branch structure breaks them. *)
From PM.theories Require Import Base Expr Struct FrBaseA Lrc FrAscii FrSpecA.
From PM.Generated Require Import GenFramerA.
From PM.proofs Require Import Struct_proofs FrA_lrc_proofs FrA_stream_proofs.
From Coq Require Import ZifyBool.
Open Scope list_scope.
Open Scope Z_scope.
Ltac Zify.zify_post_hook ::= Z.to_euclidean_division_equations.

Lemma ascii_skel_ok : a_skel ascii = ascii_skel_expected.
Proof. reflexivity. Qed.
Lemma ascii_pieces_ok : a_build_pieces ascii = ascii_pieces_expected /\ a_build_upper ascii = true.
Proof. split; reflexivity. Qed.
Lemma ascii_check_uses_lrc : a_check_lrc ascii = true.
Proof. reflexivity. Qed.

Definition ahdr0 : ahdr := {| a_lrc := None; a_len := 0; a_uid := 0 |}.
Definition CR : N := 13%N.
Definition LF : N := 10%N.
Definition COLON : N := 58%N.

Lemma z2b_b2z b : z2b (b2z b) = b.
Proof. destruct b; reflexivity. Qed.

(* ---- slicing ---- *)
Lemma skipn_min {A} a (l : list A) : skipn (Nat.min a (length l)) l = skipn a l.
Proof.
  destruct (Nat.le_gt_cases a (length l)) as [H|H].
  - now rewrite Nat.min_l.
  - rewrite Nat.min_r by lia. rewrite !skipn_all2; [reflexivity|lia|lia].
Qed.

Lemma pyfrom_nn bs i : 0 <= i -> pyfrom bs i = skipn (Z.to_nat i) bs.
Proof. intros H. unfold pyfrom, norm_idx. replace (i <? 0) with false by lia. apply skipn_min. Qed.

Lemma pyslice_nn bs lo hi : 0 <= lo -> 0 <= hi ->
  pyslice bs lo hi = firstn (Z.to_nat hi - Z.to_nat lo) (skipn (Z.to_nat lo) bs).
Proof.
  intros Hlo Hhi. unfold pyslice, norm_idx, bslice.
  replace (lo <? 0) with false by lia. replace (hi <? 0) with false by lia.
  rewrite skipn_min.
  destruct (Nat.le_gt_cases (Z.to_nat hi) (length bs)) as [Hh|Hh].
  - rewrite (Nat.min_l (Z.to_nat hi)) by lia.
    destruct (Nat.le_gt_cases (Z.to_nat lo) (length bs)) as [Hl|Hl].
    + rewrite (Nat.min_l (Z.to_nat lo)) by lia. reflexivity.
    + rewrite !skipn_all2 by lia. now rewrite !firstn_nil.
  - rewrite (Nat.min_r (Z.to_nat hi)) by lia.
    destruct (Nat.le_gt_cases (Z.to_nat lo) (length bs)) as [Hl|Hl].
    + rewrite (Nat.min_l (Z.to_nat lo)) by lia.
      rewrite !firstn_all2; [reflexivity| |]; rewrite skipn_length; lia.
    + rewrite !skipn_all2 by lia. now rewrite !firstn_nil.
Qed.

(* ---- bridge lemmas ---- *)
Lemma a_ready_eq st : a_isready ascii st = (Z.of_nat (length (a_buf st)) >? 1).
Proof. change (a_isready ascii st) with (z2b (b2z (Z.of_nat (length (a_buf st)) >? 1))). apply z2b_b2z. Qed.

Lemma a_advance_eq st :
  a_advance ascii st = {| a_buf := pyfrom (a_buf st) (a_len (a_hdr st) + 2); a_hdr := ahdr0 |}.
Proof. reflexivity. Qed.
Lemma a_reset_eq st : a_reset ascii st = {| a_buf := []; a_hdr := ahdr0 |}.
Proof. reflexivity. Qed.
Lemma a_dropone_eq st : a_dropone ascii st = {| a_buf := pyfrom (a_buf st) 1; a_hdr := ahdr0 |}.
Proof. reflexivity. Qed.
Lemma a_droptest_eq st : beval (aenv ascii st) (a_droptest ascii) = negb (a_len (a_hdr st) =? 0).
Proof.
  change (beval (aenv ascii st) (a_droptest ascii)) with (z2b (b2z (negb (a_len (a_hdr st) =? 0)))). apply z2b_b2z.
Qed.
Lemma a_getframe_eq st :
  a_getframe ascii st =
  if a_len (a_hdr st) - 2 >? 0 then a2b_hex (pyslice (a_buf st) 3 (a_len (a_hdr st) - 2)) else Ok [].
Proof.
  unfold a_getframe.
  change (eval (aenv ascii st) (a_get_start ascii)) with (2 + 1).
  change (eval (aenv ascii st) (a_get_end ascii)) with (a_len (a_hdr st) - 2).
  change (beval _ (a_get_guard ascii)) with (z2b (b2z (a_len (a_hdr st) - 2 >? 0))).
  rewrite z2b_b2z. reflexivity.
Qed.
Lemma a_deliv_eq data h : a_deliv ascii data h = {| d_pdu := data; d_tid := 0; d_pid := 0; d_uid := a_uid h |}.
Proof. reflexivity. Qed.
Lemma a_consts : a_start ascii = [COLON] /\ a_end ascii = [CR; LF] /\ a_hdr_init ascii = ahdr0.
Proof. repeat split; reflexivity. Qed.

(* the try-block of checkFrame on a buffer that starts at ':' with CR LF found at index e *)
Definition try_clean (buf : bytes) (h : ahdr) (e : Z) : ahdr * res bytes :=
  match int_hex2 (pyslice buf 1 3) with
  | Raise x => (h, Raise x)
  | Ok uid =>
      let h1 := {| a_lrc := a_lrc h; a_len := a_len h; a_uid := uid |} in
      match a2b_hex (pyslice buf (e - 2) e) with
      | Raise x => (h1, Raise x)
      | Ok [] => (h1, Raise ValueError)
      | Ok lrc => ({| a_lrc := Some (be_value lrc); a_len := a_len h; a_uid := uid |},
                   a2b_hex (pyslice buf (0 + 1) (e - 2)))
      end
  end.

Lemma a_try_eq buf h e : a_try ascii buf h 0 e = try_clean buf h e.
Proof. reflexivity. Qed.

Definition check_clean (st : astate) : astate * bool :=
  match find_sub [COLON] (a_buf st) with
  | None => (st, false)
  | Some s =>
      let buf := skipn s (a_buf st) in
      match find_sub [CR; LF] buf with
      | None => ({| a_buf := buf; a_hdr := a_hdr st |}, false)
      | Some e =>
          let h0 := {| a_lrc := a_lrc (a_hdr st); a_len := Z.of_nat e; a_uid := a_uid (a_hdr st) |} in
          match try_clean buf h0 (Z.of_nat e) with
          | (h, Raise _) => ({| a_buf := buf; a_hdr := h |}, false)
          | (h, Ok data) =>
              ({| a_buf := buf; a_hdr := h |},
               spec_lrc data =? match a_lrc h with Some v => v | None => -1 end)
          end
      end
  end.

Lemma a_check_eq st : a_check lrc ascii st = check_clean st.
Proof.
  unfold a_check, check_clean, find_z.
  change (a_start ascii) with [COLON]. change (a_end ascii) with [CR; LF].
  destruct (find_sub [COLON] (a_buf st)) as [s|] eqn:Es.
  2:{ change (beval (env_of [("start"%string, -1)]) (a_nostart ascii)) with true. reflexivity. }
  change (beval (env_of [("start"%string, Z.of_nat s)]) (a_nostart ascii)) with (z2b (b2z (Z.of_nat s =? -1))).
  rewrite z2b_b2z. replace (Z.of_nat s =? -1) with false by lia.
  change (beval (env_of [("start"%string, Z.of_nat s)]) (a_skip ascii)) with (z2b (b2z (Z.of_nat s >? 0))).
  rewrite z2b_b2z.
  assert (Hbuf : (if Z.of_nat s >? 0 then pyfrom (a_buf st) (Z.of_nat s) else a_buf st) = skipn s (a_buf st)).
  { destruct (Z.of_nat s >? 0) eqn:E.
    - rewrite pyfrom_nn by lia. now rewrite Nat2Z.id.
    - assert (s = 0%nat) by lia. subst s. reflexivity. }
  rewrite Hbuf.
  assert (Hst : (if Z.of_nat s >? 0 then 0 else Z.of_nat s) = 0).
  { destruct (Z.of_nat s >? 0) eqn:E; lia. }
  rewrite Hst.
  destruct (find_sub [CR; LF] (skipn s (a_buf st))) as [e|] eqn:Ee.
  2:{ change (beval (env_of [("end"%string, -1)]) (a_hasend ascii)) with false. reflexivity. }
  change (beval (env_of [("end"%string, Z.of_nat e)]) (a_hasend ascii)) with (z2b (b2z (negb (Z.of_nat e =? -1)))).
  rewrite z2b_b2z. replace (Z.of_nat e =? -1) with false by lia. cbn [negb].
  rewrite a_try_eq.
  destruct (try_clean _ _ _) as [h [data|x]]; [|reflexivity].
  rewrite ascii_check_uses_lrc, py_check_lrc_spec. reflexivity.
Qed.

(* ---- hex ---- *)
Lemma hexval_spec_hexdig v : 0 <= v < 16 -> hexval (spec_hexdig v) = Some v.
Proof.
  intros H.
  assert (D : v = 0 \/ v = 1 \/ v = 2 \/ v = 3 \/ v = 4 \/ v = 5 \/ v = 6 \/ v = 7 \/ v = 8 \/ v = 9 \/
              v = 10 \/ v = 11 \/ v = 12 \/ v = 13 \/ v = 14 \/ v = 15) by lia.
  repeat (destruct D as [->|D]; [reflexivity|]). subst v. reflexivity.
Qed.

Lemma spec_hexdig_class v : 0 <= v < 16 ->
  let c := spec_hexdig v in (48 <= c <= 57)%N \/ (65 <= c <= 70)%N.
Proof. intros H. unfold spec_hexdig. destruct (v <? 10) eqn:E; lia. Qed.

Definition hexchar (c : N) : Prop := (48 <= c <= 57)%N \/ (65 <= c <= 70)%N.

Lemma spec_hex_bytes_chars bs : wfb bs = true -> Forall hexchar (flat_map spec_hex_byte bs).
Proof.
  induction bs as [|b t IH]; intros H; [constructor|].
  cbn [wfb forallb] in H. apply andb_true_iff in H as [Hb Ht]. unfold byteb in Hb. apply N.ltb_lt in Hb.
  cbn [flat_map spec_hex_byte app]. constructor; [apply spec_hexdig_class; lia|].
  constructor; [apply spec_hexdig_class; lia|]. apply IH, Ht.
Qed.

Lemma a2b_hex_spec bs : wfb bs = true -> a2b_hex (flat_map spec_hex_byte bs) = Ok bs.
Proof.
  induction bs as [|b t IH]; intros H; [reflexivity|].
  cbn [wfb forallb] in H. apply andb_true_iff in H as [Hb Ht]. unfold byteb in Hb. apply N.ltb_lt in Hb.
  cbn [flat_map spec_hex_byte app a2b_hex].
  rewrite !hexval_spec_hexdig by lia. rewrite (IH Ht). cbn [bind]. f_equal. f_equal. lia.
Qed.

Lemma int_hex2_spec b : (b < 256)%N -> int_hex2 (spec_hex_byte b) = Ok (Z.of_N b).
Proof.
  intros Hb. unfold int_hex2, spec_hex_byte. rewrite !hexval_spec_hexdig by lia. f_equal. lia.
Qed.

(* ---- find ---- *)
Lemma find_colon_head x : find_sub [COLON] (COLON :: x) = Some 0%nat.
Proof. reflexivity. Qed.

Lemma find_crlf_skip H rest :
  Forall (fun c => c <> CR) H -> find_sub [CR; LF] (H ++ CR :: LF :: rest) = Some (length H).
Proof.
  induction 1 as [|c H Hc _ IH]; [reflexivity|].
  cbn [app find_sub prefix_eqb length]. replace (N.eqb CR c) with false by (symmetry; apply N.eqb_neq; congruence).
  cbn [andb]. rewrite IH. reflexivity.
Qed.

Lemma find_crlf_none H k :
  Forall (fun c => c <> CR) H -> (k < length H + 2)%nat -> find_sub [CR; LF] (firstn k (H ++ [CR; LF])) = None.
Proof.
  intros HF. revert k. induction HF as [|c H Hc _ IH]; intros k Hk.
  - destruct k as [|[|k]]; [reflexivity|reflexivity|cbn in Hk; lia].
  - destruct k as [|k]; [reflexivity|]. cbn [app firstn find_sub prefix_eqb].
    replace (N.eqb CR c) with false by (symmetry; apply N.eqb_neq; congruence).
    cbn [andb]. rewrite IH by (cbn in Hk; lia). reflexivity.
Qed.

Lemma hexchar_not_cr c : hexchar c -> c <> CR.
Proof. unfold hexchar, CR. lia. Qed.
Lemma hexchar_not_colon c : hexchar c -> c <> COLON.
Proof. unfold hexchar, COLON. lia. Qed.

(* ---- the try-block on  ':' D c1 c2 CR LF rest ---- *)
Lemma try_struct D c1 c2 rest h :
  let H := D ++ [c1; c2] in
  let buf := COLON :: H ++ CR :: LF :: rest in
  try_clean buf h (Z.of_nat (S (length H))) =
  match int_hex2 (firstn 2 (H ++ CR :: LF :: rest)) with
  | Raise x => (h, Raise x)
  | Ok uid =>
      match a2b_hex [c1; c2] with
      | Raise x => ({| a_lrc := a_lrc h; a_len := a_len h; a_uid := uid |}, Raise x)
      | Ok [] => ({| a_lrc := a_lrc h; a_len := a_len h; a_uid := uid |}, Raise ValueError)
      | Ok lrc => ({| a_lrc := Some (be_value lrc); a_len := a_len h; a_uid := uid |}, a2b_hex D)
      end
  end.
Proof.
  intros H buf. unfold try_clean.
  assert (HL : length H = (length D + 2)%nat) by (unfold H; rewrite app_length; reflexivity).
  rewrite (pyslice_nn buf 1 3) by lia. change (Z.to_nat 3 - Z.to_nat 1)%nat with 2%nat. change (Z.to_nat 1) with 1%nat.
  unfold buf at 1. cbn [skipn].
  destruct (int_hex2 (firstn 2 (H ++ CR :: LF :: rest))) as [uid|x]; [|reflexivity].
  rewrite (pyslice_nn buf (Z.of_nat (S (length H)) - 2) (Z.of_nat (S (length H)))) by lia.
  replace (Z.to_nat (Z.of_nat (S (length H))) - Z.to_nat (Z.of_nat (S (length H)) - 2))%nat with 2%nat by lia.
  replace (Z.to_nat (Z.of_nat (S (length H)) - 2)) with (S (length D)) by lia.
  assert (E1 : firstn 2 (skipn (S (length D)) buf) = [c1; c2]).
  { unfold buf, H. cbn [skipn]. rewrite <- app_assoc, skipn_app, skipn_all, Nat.sub_diag. reflexivity. }
  rewrite E1.
  rewrite (pyslice_nn buf (0 + 1) (Z.of_nat (S (length H)) - 2)) by lia.
  replace (Z.to_nat (Z.of_nat (S (length H)) - 2) - Z.to_nat (0 + 1))%nat with (length D) by lia.
  change (Z.to_nat (0 + 1)) with 1%nat.
  assert (E2 : firstn (length D) (skipn 1 buf) = D).
  { unfold buf, H. cbn [skipn]. rewrite <- app_assoc, firstn_app, Nat.sub_diag, firstn_all, firstn_O. apply app_nil_r. }
  rewrite E2. reflexivity.
Qed.

(* ---- a valid frame at the head of the buffer ---- *)
Definition hexU (bs : bytes) : bytes := flat_map spec_hex_byte bs.

Lemma hexU_length bs : length (hexU bs) = (2 * length bs)%nat.
Proof. induction bs as [|b t IH]; [reflexivity|]. cbn [hexU flat_map spec_hex_byte app length] in *. fold (hexU t). lia. Qed.

Lemma hexU_app a b : hexU (a ++ b) = hexU a ++ hexU b.
Proof. unfold hexU. apply flat_map_app. Qed.

Definition fbody (f : frame) : bytes := Z.to_N (f_uid f) :: f_pdu f.
Definition fck (f : frame) : N := Z.to_N (spec_lrc (fbody f)).

Lemma adu_ascii_shape f :
  spec_adu KAscii f = COLON :: (hexU (fbody f) ++ spec_hex_byte (fck f)) ++ [CR; LF].
Proof.
  cbn [spec_adu]. unfold spec_adu_ascii. fold (fbody f). fold (fck f). f_equal. f_equal.
  fold (hexU (fbody f ++ [fck f])). rewrite hexU_app. cbn [hexU flat_map]. now rewrite app_nil_r.
Qed.

Lemma fbody_wfb f : ascii_wf f -> wfb (fbody f) = true.
Proof.
  intros (Hu & Hw & _). unfold fbody. cbn [wfb forallb]. fold (wfb (f_pdu f)). rewrite Hw, andb_true_r.
  unfold byteb. apply N.ltb_lt. lia.
Qed.

Lemma fck_lt f : (fck f < 256)%N.
Proof. unfold fck. pose proof (spec_lrc_range (fbody f)). lia. Qed.

Definition fH (f : frame) : bytes := hexU (fbody f) ++ spec_hex_byte (fck f).

Lemma fH_length f : length (fH f) = (2 * length (f_pdu f) + 4)%nat.
Proof. unfold fH. rewrite app_length, hexU_length. unfold fbody. cbn [length spec_hex_byte]. lia. Qed.

Lemma fH_hex f : ascii_wf f -> Forall hexchar (fH f).
Proof.
  intros Hwf. unfold fH. apply Forall_app. split.
  - apply spec_hex_bytes_chars, fbody_wfb, Hwf.
  - pose proof (fck_lt f). unfold spec_hex_byte.
    constructor; [apply spec_hexdig_class; lia|]. constructor; [apply spec_hexdig_class; lia|]. constructor.
Qed.

Lemma adu_ascii_length f : length (spec_adu KAscii f) = (2 * length (f_pdu f) + 7)%nat.
Proof. rewrite adu_ascii_shape. cbn [length]. rewrite app_length. fold (fH f). rewrite fH_length. cbn [length]. lia. Qed.

Lemma adu_ascii_shape2 f :
  spec_adu KAscii f =
  COLON :: spec_hexdig (Z.of_N (Z.to_N (f_uid f)) / 16) :: spec_hexdig (Z.of_N (Z.to_N (f_uid f)) mod 16)
        :: hexU (f_pdu f) ++ spec_hex_byte (fck f) ++ [CR; LF].
Proof.
  rewrite adu_ascii_shape. unfold fbody. cbn [hexU flat_map spec_hex_byte app].
  fold (hexU (f_pdu f)). rewrite <- app_assoc. reflexivity.
Qed.

Lemma check_frame f rest h :
  ascii_wf f ->
  check_clean {| a_buf := spec_adu KAscii f ++ rest; a_hdr := h |} =
  ({| a_buf := spec_adu KAscii f ++ rest;
      a_hdr := {| a_lrc := Some (spec_lrc (fbody f)); a_len := Z.of_nat (S (length (fH f))); a_uid := f_uid f |} |}, true).
Proof.
  intros Hwf. pose proof Hwf as (Hu & Hw & Hp).
  unfold check_clean. cbn [a_buf a_hdr]. rewrite adu_ascii_shape. fold (fH f).
  cbn [app]. rewrite find_colon_head. cbn [skipn].
  rewrite <- app_assoc. cbn [app].
  assert (Hfind : find_sub [CR; LF] (COLON :: fH f ++ CR :: LF :: rest) = Some (S (length (fH f)))).
  { change (COLON :: fH f ++ CR :: LF :: rest) with ((COLON :: fH f) ++ CR :: LF :: rest).
    rewrite find_crlf_skip; [reflexivity|]. constructor; [discriminate|].
    eapply Forall_impl; [|apply fH_hex, Hwf]. apply hexchar_not_cr. }
  rewrite Hfind.
  unfold fH at 1 2. rewrite (try_struct (hexU (fbody f)) (spec_hexdig (Z.of_N (fck f) / 16)) (spec_hexdig (Z.of_N (fck f) mod 16)) rest).
  fold (spec_hex_byte (fck f)). fold (fH f).
  assert (Huid : int_hex2 (firstn 2 (fH f ++ CR :: LF :: rest)) = Ok (f_uid f)).
  { unfold fH, fbody. cbn [hexU flat_map app firstn spec_hex_byte].
    change [spec_hexdig (Z.of_N (Z.to_N (f_uid f)) / 16); spec_hexdig (Z.of_N (Z.to_N (f_uid f)) mod 16)]
      with (spec_hex_byte (Z.to_N (f_uid f))).
    rewrite int_hex2_spec by lia. f_equal. lia. }
  rewrite Huid.
  pose proof (fck_lt f) as Hck.
  assert (Hlrc : a2b_hex (spec_hex_byte (fck f)) = Ok [fck f]).
  { change (spec_hex_byte (fck f)) with (flat_map spec_hex_byte [fck f]) || (rewrite <- (app_nil_r (spec_hex_byte (fck f)))).
    apply (a2b_hex_spec [fck f]). cbn [wfb forallb]. unfold byteb. rewrite andb_true_r. apply N.ltb_lt. exact Hck. }
  rewrite Hlrc.
  assert (Hd : a2b_hex (hexU (fbody f)) = Ok (fbody f)) by (apply a2b_hex_spec, fbody_wfb, Hwf).
  rewrite Hd.
  cbn [a_lrc a_len a_uid a_hdr].
  assert (Hbe : be_value [fck f] = spec_lrc (fbody f)).
  { cbn [be_value length]. unfold fck. pose proof (spec_lrc_range (fbody f)). change (256 ^ Z.of_nat 0) with 1. lia. }
  rewrite Hbe, Z.eqb_refl. reflexivity.
Qed.

Definition ascii_good (dec : bytes -> dres) (units : list Z) (single : bool) (f : frame) : Prop :=
  ascii_wf f /\ is_msg (dec (f_pdu f)) = true /\ validate_unit base units single (Some (f_uid f)) = Ok true.

Lemma a_validate_spec units single u :
  validate_unit base units single (Some u) = Ok (single || zmem 0 units || zmem 255 units || zmem u units).
Proof.
  unfold validate_unit. destruct single; [reflexivity|]. cbn [v_any base existsb orb].
  destruct (zmem 0 units); [reflexivity|]. destruct (zmem 255 units); reflexivity.
Qed.

Section ALoop.
Variable dec : bytes -> dres.
Variable units : list Z.
Variable single : bool.
Notation loop := (a_loop base lrc ascii dec).
Notation good := (ascii_good dec units single).

(* L1: a good frame at the head of the buffer is delivered and consumed *)
Lemma a_loop_frame n f rest h :
  good f ->
  loop (S n) units single {| a_buf := spec_adu KAscii f ++ rest; a_hdr := h |} =
  cons_da (spec_delivery KAscii f) (loop n units single {| a_buf := rest; a_hdr := ahdr0 |}).
Proof.
  intros (Hwf & Hmsg & Hval). pose proof Hwf as (Hu & Hw & Hp).
  cbn [a_loop]. rewrite a_ready_eq. cbn [a_buf].
  pose proof (adu_ascii_length f) as HL.
  rewrite app_length, HL. replace (Z.of_nat (2 * length (f_pdu f) + 7 + length rest) >? 1) with true by lia.
  rewrite a_check_eq, check_frame by exact Hwf. cbn [a_hdr a_uid]. rewrite Hval.
  rewrite a_getframe_eq. cbn [a_hdr a_len a_buf].
  pose proof (fH_length f) as HH.
  replace (Z.of_nat (S (length (fH f))) - 2 >? 0) with true by lia.
  rewrite pyslice_nn by lia.
  replace (Z.to_nat (Z.of_nat (S (length (fH f))) - 2) - Z.to_nat 3)%nat with (2 * length (f_pdu f))%nat by lia.
  change (Z.to_nat 3) with 3%nat.
  assert (Hfr : firstn (2 * length (f_pdu f)) (skipn 3 (spec_adu KAscii f ++ rest)) = hexU (f_pdu f)).
  { rewrite adu_ascii_shape2. cbn [app skipn]. rewrite <- !app_assoc.
    rewrite firstn_app, hexU_length, Nat.sub_diag, firstn_O, app_nil_r.
    rewrite <- (hexU_length (f_pdu f)). apply firstn_all. }
  rewrite Hfr. unfold hexU. rewrite a2b_hex_spec by exact Hw.
  destruct (dec (f_pdu f)) as [fc| |] eqn:Hdec; try discriminate.
  rewrite a_advance_eq, a_deliv_eq. cbn [a_buf a_hdr a_len a_uid].
  rewrite pyfrom_nn by lia.
  replace (Z.to_nat (Z.of_nat (S (length (fH f))) + 2)) with (length (spec_adu KAscii f)) by lia.
  rewrite skipn_app, skipn_all, Nat.sub_diag. cbn [app skipn]. reflexivity.
Qed.

(* L1': a well-formed frame for a unit that is not served is skipped (advanceFrame), whatever its PDU *)
Lemma a_loop_foreign n f rest h :
  ascii_wf f -> validate_unit base units single (Some (f_uid f)) = Ok false ->
  loop (S n) units single {| a_buf := spec_adu KAscii f ++ rest; a_hdr := h |} =
  loop n units single {| a_buf := rest; a_hdr := ahdr0 |}.
Proof.
  intros Hwf Hval. cbn [a_loop]. rewrite a_ready_eq. cbn [a_buf].
  pose proof (adu_ascii_length f) as HL.
  rewrite app_length, HL. replace (Z.of_nat (2 * length (f_pdu f) + 7 + length rest) >? 1) with true by lia.
  rewrite a_check_eq, check_frame by exact Hwf. cbn [a_hdr a_uid]. rewrite Hval.
  rewrite a_advance_eq. cbn [a_buf a_hdr a_len]. pose proof (fH_length f) as HH.
  rewrite pyfrom_nn by lia.
  replace (Z.to_nat (Z.of_nat (S (length (fH f))) + 2)) with (length (spec_adu KAscii f)) by lia.
  rewrite skipn_app, skipn_all, Nat.sub_diag. reflexivity.
Qed.

(* L2: a proper prefix of a good frame: nothing happens, the buffer is kept *)
Lemma a_loop_partial n f p q :
  ascii_wf f -> spec_adu KAscii f = p ++ q -> q <> [] ->
  loop (S n) units single {| a_buf := p; a_hdr := ahdr0 |} = ({| a_buf := p; a_hdr := ahdr0 |}, [], Done).
Proof.
  intros Hwf Hsplit Hq. cbn [a_loop]. rewrite a_ready_eq. cbn [a_buf].
  destruct (Z.of_nat (length p) >? 1) eqn:Hr; [|reflexivity].
  rewrite a_check_eq. unfold check_clean. cbn [a_buf a_hdr].
  rewrite adu_ascii_shape in Hsplit. fold (fH f) in Hsplit.
  destruct p as [|c p]; [cbn in Hr; lia|]. cbn [app] in Hsplit.
  assert (Hc : c = COLON) by congruence.
  assert (Hrest : fH f ++ [CR; LF] = p ++ q) by (apply (f_equal (@tl N)) in Hsplit; exact Hsplit).
  subst c. clear Hsplit.
  rewrite find_colon_head. cbn [skipn].
  assert (Hp : p = firstn (length p) (fH f ++ [CR; LF])).
  { rewrite Hrest, firstn_app, Nat.sub_diag, firstn_all, firstn_O. now rewrite app_nil_r. }
  assert (Hlt : (length p < length (fH f) + 2)%nat).
  { apply (f_equal (@length N)) in Hrest. rewrite !app_length in Hrest. cbn [length] in Hrest.
    destruct q; [now elim Hq|cbn [length] in Hrest; lia]. }
  assert (Hnone : find_sub [CR; LF] (COLON :: p) = None).
  { cbn [find_sub prefix_eqb]. change (N.eqb CR COLON) with false. cbn [andb].
    rewrite Hp, find_crlf_none; [reflexivity| |exact Hlt].
    eapply Forall_impl; [|apply fH_hex, Hwf]. apply hexchar_not_cr. }
  rewrite Hnone. rewrite a_droptest_eq. reflexivity.
Qed.

Lemma a_loop_empty n h : loop (S n) units single {| a_buf := []; a_hdr := h |} = ({| a_buf := []; a_hdr := h |}, [], Done).
Proof. reflexivity. Qed.

Notation astream := (stream frame (spec_adu KAscii)).

Definition a_acc (u : Z) : bool := single || zmem 0 units || zmem 255 units || zmem u units.
Definition ascii_sf (f : frame) : Prop :=
  ascii_wf f /\ (a_acc (f_uid f) = true -> is_msg (dec (f_pdu f)) = true).
Definition ascii_dls (f : frame) : list delivery :=
  if a_acc (f_uid f) then [spec_delivery KAscii f] else [].

Lemma a_loop_stream : forall fs n p rest,
  Forall ascii_sf fs -> Forall ascii_sf rest -> (length fs <= n)%nat ->
  partial frame (spec_adu KAscii) p rest ->
  loop (S n) units single {| a_buf := astream fs ++ p; a_hdr := ahdr0 |} =
  ({| a_buf := p; a_hdr := ahdr0 |}, flat_map ascii_dls fs, Done).
Proof.
  induction fs as [|f fs IH]; intros n p rest Hg Hr Hn Hpart.
  - cbn [stream map concat app flat_map]. destruct Hpart as [->|(f & rest' & q & -> & Hadu & Hq & Hp)].
    + apply a_loop_empty.
    + apply Forall_inv in Hr. destruct Hr as (Hwf & _). apply (a_loop_partial n f p q Hwf Hadu Hq).
  - change (astream (f :: fs)) with (spec_adu KAscii f ++ astream fs). rewrite <- app_assoc.
    destruct n as [|n]; [cbn in Hn; lia|].
    pose proof (Forall_inv Hg) as (Hwf & Hdec). apply Forall_inv_tail in Hg.
    cbn [flat_map]. unfold ascii_dls at 1. destruct (a_acc (f_uid f)) eqn:Ea.
    + rewrite a_loop_frame by (split; [exact Hwf|split; [apply Hdec; reflexivity|rewrite a_validate_spec; f_equal; exact Ea]]).
      rewrite (IH n p rest Hg Hr ltac:(cbn in Hn; lia) Hpart). reflexivity.
    + rewrite a_loop_foreign by (try exact Hwf; rewrite a_validate_spec; f_equal; exact Ea).
      rewrite (IH n p rest Hg Hr ltac:(cbn in Hn; lia) Hpart). reflexivity.
Qed.

Lemma a_stream_length_ge fs : (length fs <= length (astream fs))%nat.
Proof.
  induction fs as [|f fs IH]; [cbn; lia|].
  change (astream (f :: fs)) with (spec_adu KAscii f ++ astream fs).
  rewrite app_length, adu_ascii_length. cbn [length]. lia.
Qed.

End ALoop.

Lemma ascii_adu_ne f : spec_adu KAscii f <> [].
Proof. intros H. apply (f_equal (@length N)) in H. rewrite adu_ascii_length in H. cbn in H. lia. Qed.

Lemma a_valid_good dec c f :
  valid_frame KAscii dec c f -> ascii_good dec (c_units c) (single_of (a_single_default ascii) c) f.
Proof.
  intros (Hwf & Hm & Hacc). split; [exact Hwf|]. split; [exact Hm|].
  rewrite a_validate_spec. f_equal. exact Hacc.
Qed.

Lemma a_acc_spec c u : a_acc (c_units c) (single_of (a_single_default ascii) c) u = spec_accepts KAscii c u.
Proof. reflexivity. Qed.

Lemma a_stream_sf dec c f :
  stream_frame KAscii dec c f -> ascii_sf dec (c_units c) (single_of (a_single_default ascii) c) f.
Proof. intros (Hwf & Hd). split; [exact Hwf|]. rewrite a_acc_spec. exact Hd. Qed.

Lemma a_dls_ref c fs :
  flat_map (ascii_dls (c_units c) (single_of (a_single_default ascii) c)) fs = ref_deliveries KAscii c fs.
Proof.
  unfold ref_deliveries. induction fs as [|f fs IH]; [reflexivity|].
  cbn [flat_map filter]. unfold ascii_dls at 1. rewrite a_acc_spec.
  destruct (spec_accepts KAscii c (f_uid f)); cbn [app map]; now rewrite IH.
Qed.

Lemma ascii_batch dec c : forall s ch fs p rest,
  a_hdr s = ahdr0 -> Forall (stream_frame KAscii dec c) fs -> Forall (stream_frame KAscii dec c) rest ->
  a_buf s ++ ch = stream frame (spec_adu KAscii) fs ++ p -> partial frame (spec_adu KAscii) p rest ->
  (p <> [] -> True) -> (a_buf s <> [] -> True) ->
  exists s', a_recv base lrc ascii dec c s ch =
             (s', flat_map (ascii_dls (c_units c) (single_of (a_single_default ascii) c)) fs, Done)
             /\ a_buf s' = p /\ a_hdr s' = ahdr0.
Proof.
  intros s ch fs p rest Hh Hfs Hrest Heq Hpart _ _.
  unfold a_recv. cbn [a_buf a_hdr]. rewrite Heq, Hh.
  assert (Hg : Forall (ascii_sf dec (c_units c) (single_of (a_single_default ascii) c)) fs).
  { eapply Forall_impl; [|exact Hfs]. intros f. apply a_stream_sf. }
  assert (Hg' : Forall (ascii_sf dec (c_units c) (single_of (a_single_default ascii) c)) rest).
  { eapply Forall_impl; [|exact Hrest]. intros f. apply a_stream_sf. }
  rewrite (a_loop_stream dec _ _ fs _ p rest Hg Hg'); [eexists; repeat split| |exact Hpart].
  rewrite app_length. pose proof (a_stream_length_ge fs). lia.
Qed.

(* C06, ASCII: full chunking independence, any mix of served and foreign frames *)
Theorem ascii_chunking dec c frames chunks :
  Forall (stream_frame KAscii dec c) frames ->
  concat chunks = concat (map (spec_adu KAscii) frames) ->
  exists s', feed (a_recv base lrc ascii dec c) (a_init ascii) chunks = (s', ref_deliveries KAscii c frames, true).
Proof.
  intros Hv Hcat. rewrite <- (a_dls_ref c).
  apply (feed_stream frame (spec_adu KAscii) ascii_adu_ne astate (a_recv base lrc ascii dec c) a_buf
           (fun s => a_hdr s = ahdr0) (ascii_dls (c_units c) (single_of (a_single_default ascii) c))
           (stream_frame KAscii dec c) (fun _ => True)
           (ascii_batch dec c) frames chunks (a_init ascii) eq_refl eq_refl Hv Hcat).
  intros; exact I.
Qed.

(* C03 / C11_after_sync: a whole frame given to a synchronised receiver *)
Theorem ascii_whole_frame dec c f :
  valid_frame KAscii dec c f ->
  a_recv base lrc ascii dec c (a_init ascii) (spec_adu KAscii f) = (a_init ascii, [spec_delivery KAscii f], Done).
Proof.
  intros Hv. unfold a_recv. cbn [a_buf a_init app a_hdr].
  rewrite <- (app_nil_r (spec_adu KAscii f)) at 2.
  pose proof (adu_ascii_length f) as HL. rewrite HL.
  replace (2 * length (f_pdu f) + 7)%nat with (S (2 * length (f_pdu f) + 6)) by lia.
  rewrite a_loop_frame by (apply a_valid_good, Hv). reflexivity.
Qed.

(* ---- C03: buildPacket is the spec ADU ---- *)
Lemma upper_hexdig v : 0 <= v < 16 -> upper_b (hexdig v) = spec_hexdig v.
Proof.
  intros H.
  assert (D : v = 0 \/ v = 1 \/ v = 2 \/ v = 3 \/ v = 4 \/ v = 5 \/ v = 6 \/ v = 7 \/ v = 8 \/ v = 9 \/
              v = 10 \/ v = 11 \/ v = 12 \/ v = 13 \/ v = 14 \/ v = 15) by lia.
  repeat (destruct D as [->|D]; [reflexivity|]). subst v. reflexivity.
Qed.

Lemma upper_fmt02x v : 0 <= v < 256 -> upper (fmt02x v) = spec_hex_byte (Z.to_N v).
Proof.
  intros H. unfold fmt02x, spec_hex_byte. cbn [upper map]. rewrite !upper_hexdig by lia.
  rewrite Z2N.id by lia. reflexivity.
Qed.

Lemma upper_b2a bs : wfb bs = true -> upper (b2a_hex bs) = hexU bs.
Proof.
  induction bs as [|b t IH]; intros H; [reflexivity|].
  cbn [wfb forallb] in H. apply andb_true_iff in H as [Hb Ht]. unfold byteb in Hb. apply N.ltb_lt in Hb.
  cbn [b2a_hex flat_map hexU]. unfold upper. rewrite map_app. fold (upper (fmt02x (Z.of_N b))).
  fold (b2a_hex t). fold (upper (b2a_hex t)). rewrite (IH Ht), upper_fmt02x by lia.
  rewrite N2Z.id. reflexivity.
Qed.

Theorem ascii_build_spec uid fc data :
  0 <= uid < 256 -> 0 <= fc < 256 -> wfb data = true ->
  a_build lrc ascii uid fc data = Ok (spec_adu_ascii uid (Z.to_N fc :: data)).
Proof.
  intros Hu Hf Hw. unfold a_build.
  change (a_build_big ascii) with true. change (a_build_fmt ascii) with [FB; FB].
  cbn [a_build_args ascii map].
  change (eval _ (EAtom "message.unit_id")) with uid.
  change (eval _ (EAtom "message.function_code")) with fc.
  cbn [pack].
  assert (P1 : forall v, 0 <= v < 256 -> pack1 true FB v = Ok [Z.to_N v]).
  { intros v Hv. unfold pack1, in_range. cbn [fsigned fwidth]. change (pow256 1) with 256.
    replace ((0 <=? v) && (v <? 256)) with true by lia.
    unfold to_unsigned. replace (v <? 0) with false by lia. cbn [le_bytes rev app].
    replace (v mod 256) with v by lia. reflexivity. }
  rewrite !P1 by assumption. cbn [bind app].
  change (a_build_lrc_order ascii) with ["encoded"%string; "buffer"%string].
  change (a_build_pieces ascii) with [PcStart; PcParams; PcEncoded; PcChecksum; PcEnd].
  change (a_build_upper ascii) with true.
  cbn [String.eqb Ascii.eqb Bool.eqb map concat].
  rewrite app_nil_r, py_lrc_spec.
  cbn [flat_map].
  change (a_start ascii) with [COLON]. change (a_end ascii) with [CR; LF].
  rewrite !app_nil_r. unfold upper. rewrite !map_app.
  fold (upper (fmt02x uid)) (upper (fmt02x fc)) (upper (b2a_hex data)).
  fold (upper (fmt02x (spec_lrc (data ++ [Z.to_N uid; Z.to_N fc])))).
  pose proof (spec_lrc_range (data ++ [Z.to_N uid; Z.to_N fc])) as Hr.
  rewrite !upper_fmt02x, upper_b2a by assumption.
  f_equal. unfold spec_adu_ascii. change (map upper_b [COLON]) with [58%N]. change (map upper_b [CR; LF]) with [13%N; 10%N].
  cbn [app]. f_equal.
  change (Z.to_N uid :: Z.to_N fc :: data) with ([Z.to_N uid; Z.to_N fc] ++ data).
  rewrite (spec_lrc_perm [Z.to_N uid; Z.to_N fc] data).
  cbn [flat_map]. rewrite flat_map_app. cbn [flat_map]. rewrite app_nil_r. fold (hexU data).
  rewrite <- !app_assoc. reflexivity.
Qed.

(* ---- termination: the fuel S (length buffer) is never exhausted, from ANY state ---- *)
Lemma find_sub_le p l i : find_sub p l = Some i -> (i < length l)%nat.
Proof.
  revert i. induction l as [|x l IH]; intros i H; [discriminate|].
  cbn [find_sub] in H. destruct (prefix_eqb p (x :: l)).
  - injection H as <-. cbn. lia.
  - destruct (find_sub p l) as [j|]; [|discriminate]. injection H as <-. specialize (IH j eq_refl). cbn. lia.
Qed.

Ltac shrink_fin :=
  cbn [a_buf a_hdr a_len a_lrc a_uid]; rewrite ?skipn_length; repeat split; intros;
  try lia; try discriminate; try (right; lia); try (left; reflexivity).

Lemma check_clean_shrinks st :
  let '(st1, ok) := check_clean st in
  (length (a_buf st1) <= length (a_buf st))%nat /\
  (ok = true -> 0 <= a_len (a_hdr st1)) /\
  (ok = false -> a_len (a_hdr st1) = a_len (a_hdr st) \/ 0 <= a_len (a_hdr st1)).
Proof.
  unfold check_clean, try_clean.
  destruct (find_sub [COLON] (a_buf st)) as [s|]; [|shrink_fin].
  destruct (find_sub [CR; LF] (skipn s (a_buf st))) as [e|]; [|shrink_fin].
  destruct (int_hex2 _); [|shrink_fin].
  destruct (a2b_hex (pyslice (skipn s (a_buf st)) (Z.of_nat e - 2) (Z.of_nat e))) as [[|b l]|]; [shrink_fin| |shrink_fin].
  destruct (a2b_hex _); shrink_fin.
Qed.

Lemma a_loop_fuel dec units single : forall fuel st,
  (length (a_buf st) < fuel)%nat ->
  forall st' ds o, a_loop base lrc ascii dec fuel units single st = (st', ds, o) -> o <> OutOfFuel.
Proof.
  induction fuel as [|fuel IH]; intros st Hlen st' ds o H; [lia|].
  cbn [a_loop] in H. rewrite a_ready_eq in H.
  destruct (Z.of_nat (length (a_buf st)) >? 1) eqn:Hr; [|injection H as <- <- <-; discriminate].
  rewrite a_check_eq in H. pose proof (check_clean_shrinks st) as Hs.
  destruct (check_clean st) as [st1 [|]]; destruct Hs as (Hl & Hpos & Hneg).
  - destruct (validate_unit base units single (Some (a_uid (a_hdr st1)))) as [[|]|e].
    + destruct (a_getframe ascii st1) as [frame|e]; [|injection H as <- <- <-; discriminate].
      destruct (dec frame); try (injection H as <- <- <-; discriminate).
      destruct (a_loop base lrc ascii dec fuel units single (a_advance ascii st1)) as [[s2 d2] o2] eqn:E.
      cbn [cons_da] in H. injection H as <- <- <-.
      eapply (IH (a_advance ascii st1)); [|exact E].
      rewrite a_advance_eq. cbn [a_buf]. rewrite pyfrom_nn by (specialize (Hpos eq_refl); lia).
      rewrite skipn_length. specialize (Hpos eq_refl). lia.
    + eapply (IH (a_advance ascii st1)); [|exact H].
      rewrite a_advance_eq. cbn [a_buf]. rewrite pyfrom_nn by (specialize (Hpos eq_refl); lia).
      rewrite skipn_length. specialize (Hpos eq_refl). lia.
    + injection H as <- <- <-. discriminate.
  - rewrite a_droptest_eq in H. destruct (a_len (a_hdr st1) =? 0) eqn:E0; cbn [negb] in H.
    + injection H as <- <- <-. discriminate.
    + eapply (IH (a_dropone ascii st1)); [|exact H]. rewrite a_dropone_eq. cbn [a_buf].
      rewrite pyfrom_nn by lia. rewrite skipn_length. change (Z.to_nat 1) with 1%nat. lia.
Qed.

Theorem ascii_recv_no_fuel_out dec c st chunk st' ds o :
  a_recv base lrc ascii dec c st chunk = (st', ds, o) -> o <> OutOfFuel.
Proof.
  unfold a_recv. intros H. eapply a_loop_fuel; [|exact H]. cbn [a_buf]. lia.
Qed.

(* ---- C11: from the synchronised state, every read made of whole valid frames (one or
   several per read) is delivered completely and leaves the receiver synchronised ---- *)
Definition a_sync (st : astate) : Prop := a_buf st = [] /\ a_hdr st = ahdr0.

Theorem ascii_after_sync dec c st (vs : list frame) :
  a_sync st -> Forall (stream_frame KAscii dec c) vs ->
  exists st', a_recv base lrc ascii dec c st (concat (map (spec_adu KAscii) vs))
              = (st', ref_deliveries KAscii c vs, Done) /\ a_sync st'.
Proof.
  intros (Hb & Hh) Hv.
  destruct (ascii_batch dec c st (concat (map (spec_adu KAscii) vs)) vs [] [] Hh Hv (Forall_nil _)) as (s' & E & Hb' & Hh').
  - rewrite Hb. unfold stream. now rewrite app_nil_r.
  - now left.
  - trivial.
  - trivial.
  - exists s'. rewrite <- (a_dls_ref c). split; [exact E|]. split; assumption.
Qed.

(* the open defect: a frame with a valid LRC whose PDU the decoder rejects is never consumed *)
Definition stuck_dec (pdu : bytes) : dres :=
  match pdu with [3%N; 0%N; 0%N; 0%N; 1%N] => DMsg 3 | _ => DRaise StructError end.
Definition stuck_cfg : cfg := {| c_units := [1]; c_single := Some false |}.
Definition stuck_bad : bytes := spec_adu_ascii 1 [3%N; 0%N].
Definition stuck_good : frame := {| f_tid := 0; f_pid := 0; f_uid := 1; f_pdu := [3%N; 0%N; 0%N; 0%N; 1%N] |}.

Lemma ascii_stuck :
  valid_frame KAscii stuck_dec stuck_cfg stuck_good /\
  forall n, feed (a_recv base lrc ascii stuck_dec stuck_cfg) (a_init ascii)
                 (stuck_bad :: repeat (spec_adu KAscii stuck_good) n) =
            (fst (fst (feed (a_recv base lrc ascii stuck_dec stuck_cfg) (a_init ascii)
                 (stuck_bad :: repeat (spec_adu KAscii stuck_good) n))), [], false).
Proof.
  split; [repeat split; try (vm_compute; congruence); cbn; lia|].
  intros n.
  (* after the bad frame the state is (bad ++ k good frames, header of the bad frame): every call raises *)
  assert (G : forall k st, a_hdr st = {| a_lrc := Some 252; a_len := 9; a_uid := 1 |} \/ a_hdr st = ahdr0 ->
              (exists t, a_buf st = stuck_bad ++ t) ->
              snd (fst (feed (a_recv base lrc ascii stuck_dec stuck_cfg) st (repeat (spec_adu KAscii stuck_good) k))) = []
              /\ snd (feed (a_recv base lrc ascii stuck_dec stuck_cfg) st (repeat (spec_adu KAscii stuck_good) k)) = (match k with O => true | _ => false end)).
  { induction k as [|k IHk]; intros st Hh (t & Ht); [split; reflexivity|].
    cbn [repeat feed].
    assert (E : a_recv base lrc ascii stuck_dec stuck_cfg st (spec_adu KAscii stuck_good) =
                ({| a_buf := stuck_bad ++ t ++ spec_adu KAscii stuck_good; a_hdr := {| a_lrc := Some 252; a_len := 9; a_uid := 1 |} |}, [], Exc StructError)).
    { unfold a_recv. rewrite Ht. cbn [a_buf a_hdr].
      rewrite <- app_assoc.
      remember (t ++ spec_adu KAscii stuck_good) as t'.
      destruct Hh as [-> | ->]; cbn [a_loop]; rewrite a_ready_eq; cbn [a_buf];
        (replace (Z.of_nat (length (stuck_bad ++ t')) >? 1) with true by (rewrite app_length; cbn; lia));
        rewrite a_check_eq; unfold check_clean, stuck_bad; cbn [a_buf a_hdr];
        vm_compute spec_adu_ascii; cbn [app]; rewrite find_colon_head; cbn [skipn];
        reflexivity. }
    rewrite E.
    destruct (IHk {| a_buf := stuck_bad ++ t ++ spec_adu KAscii stuck_good; a_hdr := {| a_lrc := Some 252; a_len := 9; a_uid := 1 |} |}) as (I1 & I2).
    - now left.
    - eexists. reflexivity.
    - destruct (feed _ _ _) as [[s2 d2] ok2]. cbn [fst snd] in *. subst d2. split; reflexivity. }
  cbn [feed].
  assert (E0 : a_recv base lrc ascii stuck_dec stuck_cfg (a_init ascii) stuck_bad =
               ({| a_buf := stuck_bad; a_hdr := {| a_lrc := Some 252; a_len := 9; a_uid := 1 |} |}, [], Exc StructError)) by (vm_compute; reflexivity).
  rewrite E0.
  destruct (G n {| a_buf := stuck_bad; a_hdr := {| a_lrc := Some 252; a_len := 9; a_uid := 1 |} |}) as (I1 & I2).
  - now left.
  - exists []. now rewrite app_nil_r.
  - destruct (feed _ _ _) as [[s2 d2] ok2]. cbn [fst snd] in *. subst d2. reflexivity.
Qed.

Theorem ascii_handler_resync dec c st chunk st' ds e :
  a_recv_h base lrc ascii dec c st chunk = (st', ds, Exc e) -> a_sync st'.
Proof.
  unfold a_recv_h. destruct (a_recv base lrc ascii dec c st chunk) as [[s1 d1] [| |]]; intros H; try discriminate.
  injection H as <- _ _. split; reflexivity.
Qed.

(* ---- C07 gate: whenever checkFrame accepts — from ANY state — the buffer holds a span
   ':' hex… CR LF whose LRC matches, and what is then delivered are the bytes of that span ---- *)
Lemma find_sub_prefix p l i : find_sub p l = Some i -> prefix_eqb p (skipn i l) = true.
Proof.
  revert i. induction l as [|x l IH]; intros i H; [discriminate|].
  cbn [find_sub] in H. destruct (prefix_eqb p (x :: l)) eqn:E.
  - injection H as <-. exact E.
  - destruct (find_sub p l) as [j|]; [|discriminate]. injection H as <-. cbn [skipn]. apply IH. reflexivity.
Qed.

Lemma split_last2 (H : bytes) : (2 <= length H)%nat -> exists D c1 c2, H = D ++ [c1; c2].
Proof.
  intros HL. exists (firstn (length H - 2) H).
  pose proof (firstn_skipn (length H - 2) H) as E.
  assert (L : length (skipn (length H - 2) H) = 2%nat) by (rewrite skipn_length; lia).
  destruct (skipn (length H - 2) H) as [|c1 [|c2 [|c3 t]]]; cbn in L; try lia.
  exists c1, c2. now rewrite E.
Qed.

Lemma a2b_pair c1 c2 l : a2b_hex [c1; c2] = Ok l -> exists ck, l = [ck] /\ (ck < 256)%N.
Proof.
  cbn [a2b_hex]. destruct (hexval c1) as [x|] eqn:E1; [|discriminate]. destruct (hexval c2) as [y|] eqn:E2; [|discriminate].
  cbn [bind]. intros H. injection H as <-. eexists. split; [reflexivity|].
  assert (0 <= x < 16 /\ 0 <= y < 16).
  { unfold hexval in E1, E2.
    repeat match goal with H : (if ?c then _ else _) = Some _ |- _ => destruct c eqn:?; [injection H as <-|] end;
    try discriminate; lia. }
  destruct x; lia.
Qed.

Definition ascii_span (buf : bytes) (uid : Z) (lrcv : Z) (data : bytes) (D : bytes) (c1 c2 : N) (rest : bytes) : Prop :=
  buf = COLON :: (D ++ [c1; c2]) ++ CR :: LF :: rest /\
  a2b_hex D = Ok data /\ (exists ck, a2b_hex [c1; c2] = Ok [ck] /\ Z.of_N ck = lrcv /\ lrcv = spec_lrc data) /\
  int_hex2 (firstn 2 ((D ++ [c1; c2]) ++ CR :: LF :: rest)) = Ok uid.

Theorem ascii_check_gate st st1 :
  check_clean st = (st1, true) ->
  exists pre D c1 c2 rest data,
    a_buf st = pre ++ a_buf st1 /\
    ascii_span (a_buf st1) (a_uid (a_hdr st1)) (match a_lrc (a_hdr st1) with Some v => v | None => -1 end) data D c1 c2 rest /\
    a_len (a_hdr st1) = Z.of_nat (S (length D + 2)).
Proof.
  unfold check_clean. intros H.
  destruct (find_sub [COLON] (a_buf st)) as [s|] eqn:Es; [|discriminate].
  pose proof (find_sub_prefix _ _ _ Es) as Ps.
  destruct (find_sub [CR; LF] (skipn s (a_buf st))) as [e|] eqn:Ee; [|discriminate].
  pose proof (find_sub_prefix _ _ _ Ee) as Pe.
  remember (skipn s (a_buf st)) as buf1 eqn:Hb1.
  destruct buf1 as [|c0 t]; [discriminate|]. cbn [prefix_eqb] in Ps. rewrite andb_true_r in Ps. apply N.eqb_eq in Ps. subst c0.
  destruct e as [|e'].
  { cbn [skipn prefix_eqb] in Pe. discriminate. }
  cbn [skipn] in Pe.
  destruct (skipn e' t) as [|x1 [|x2 rest]] eqn:Hsk; try discriminate.
  { cbn [prefix_eqb] in Pe. rewrite andb_false_r in Pe. discriminate. }
  cbn [prefix_eqb] in Pe. rewrite andb_true_r in Pe. apply andb_true_iff in Pe as [P1 P2].
  apply N.eqb_eq in P1, P2. subst x1 x2.
  assert (Ht : t = firstn e' t ++ CR :: LF :: rest) by (rewrite <- Hsk; symmetry; apply firstn_skipn).
  assert (He' : length (firstn e' t) = e').
  { apply firstn_length_le. pose proof (find_sub_le _ _ _ Ee) as Hle. cbn [length] in Hle.
    assert (length (skipn e' t) = (length t - e')%nat) by apply skipn_length. rewrite Hsk in H0. cbn [length] in H0. lia. }
  remember (firstn e' t) as Hh eqn:HeqHh. clear HeqHh Hsk. subst t.
  destruct (Nat.lt_ge_cases (length Hh) 2) as [Hshort|Hlong].
  - exfalso.
    destruct Hh as [|h1 [|h2 Hh']]; cbn [length] in *; try lia; subst e'; cbn [app] in H.
    + unfold try_clean in H. vm_compute (int_hex2 _) in H. discriminate.
    + unfold try_clean in H. rewrite (pyslice_nn _ 1 3) in H by lia.
      change (Z.to_nat 3 - Z.to_nat 1)%nat with 2%nat in H. change (Z.to_nat 1) with 1%nat in H. cbn [skipn firstn] in H.
      destruct (int_hex2 [h1; CR]); [|discriminate].
      rewrite (pyslice_nn _ (Z.of_nat 2 - 2) (Z.of_nat 2)) in H by lia.
      change (Z.to_nat (Z.of_nat 2) - Z.to_nat (Z.of_nat 2 - 2))%nat with 2%nat in H.
      change (Z.to_nat (Z.of_nat 2 - 2)) with 0%nat in H. cbn [skipn firstn] in H.
      cbn [a2b_hex] in H. change (hexval COLON) with (@None Z) in H. discriminate.
  - destruct (split_last2 Hh Hlong) as (D & c1 & c2 & HD).
    subst Hh.
    assert (Hlen : S e' = S (length (D ++ [c1; c2]))) by lia.
    rewrite Hlen in H.
    rewrite (try_struct D c1 c2 rest) in H.
    destruct (int_hex2 (firstn 2 ((D ++ [c1; c2]) ++ CR :: LF :: rest))) as [uid|] eqn:Eu; [|discriminate].
    destruct (a2b_hex [c1; c2]) as [l|] eqn:El; [|discriminate].
    destruct (a2b_pair _ _ _ El) as (ck & -> & Hck).
    destruct (a2b_hex D) as [data|] eqn:Ed; [|discriminate].
    cbn [a_lrc a_len a_uid] in H. injection H as <- Hchk.
    exists (firstn s (a_buf st)), D, c1, c2, rest, data. cbn [a_buf a_hdr a_uid a_lrc a_len].
    split; [rewrite Hb1; symmetry; apply firstn_skipn|]. split.
    + unfold ascii_span. split; [reflexivity|].
      split; [exact Ed|]. split; [|exact Eu].
      exists ck. split; [exact El|]. cbn [be_value length] in *.
      apply Z.eqb_eq in Hchk. split; lia.
    + rewrite app_length. cbn [length]. lia.
Qed.
