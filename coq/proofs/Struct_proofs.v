(* Struct_proofs.v — round-trip and length lemmas for the struct model, proved once. *)
From PM.theories Require Import Base Struct.
From Coq Require Import ZifyBool.
Open Scope list_scope.
Open Scope Z_scope.
Ltac Zify.zify_post_hook ::= Z.to_euclidean_division_equations.

Lemma le_bytes_length w v : length (le_bytes w v) = w.
Proof. revert v. induction w as [|w IH]; intros v; cbn [le_bytes length]; [reflexivity|]. now rewrite IH. Qed.

Lemma pow256_S w : pow256 (S w) = 256 * pow256 w.
Proof. unfold pow256. rewrite Nat2Z.inj_succ, Z.pow_succ_r by lia. reflexivity. Qed.

Lemma pow256_pos w : 0 < pow256 w.
Proof. unfold pow256. apply Z.pow_pos_nonneg; lia. Qed.

Lemma le_value_le_bytes w v : 0 <= v < pow256 w -> le_value (le_bytes w v) = v.
Proof.
  revert v. induction w as [|w IH]; intros v Hv.
  - unfold pow256 in Hv. cbn in *. lia.
  - cbn [le_bytes le_value]. rewrite pow256_S in Hv.
    rewrite IH by (pose proof (pow256_pos w); lia).
    rewrite Z2N.id by lia. lia.
Qed.

Lemma le_bytes_wfb w v : wfb (le_bytes w v) = true.
Proof.
  revert v. induction w as [|w IH]; intros v; cbn [le_bytes wfb forallb]; [reflexivity|].
  fold (wfb (le_bytes w (v / 256))). rewrite IH. unfold byteb.
  rewrite andb_true_r. apply N.ltb_lt. lia.
Qed.

Lemma le_value_bound bs : wfb bs = true -> 0 <= le_value bs < pow256 (length bs).
Proof.
  induction bs as [|b t IH]; intros H.
  - unfold pow256. cbn. lia.
  - cbn [wfb forallb] in H. apply andb_true_iff in H as [Hb Ht]. fold (wfb t) in Ht.
    specialize (IH Ht). cbn [le_value length]. rewrite pow256_S.
    unfold byteb in Hb. apply N.ltb_lt in Hb. lia.
Qed.

Lemma le_bytes_le_value bs : wfb bs = true -> le_bytes (length bs) (le_value bs) = bs.
Proof.
  induction bs as [|b t IH]; intros H; [reflexivity|].
  cbn [wfb forallb] in H. apply andb_true_iff in H as [Hb Ht]. fold (wfb t) in Ht.
  cbn [length le_bytes le_value]. unfold byteb in Hb. apply N.ltb_lt in Hb.
  f_equal.
  - replace ((Z.of_N b + 256 * le_value t) mod 256) with (Z.of_N b) by lia. apply N2Z.id.
  - replace ((Z.of_N b + 256 * le_value t) / 256) with (le_value t) by lia. apply IH, Ht.
Qed.

Lemma pow256_values :
  pow256 1 = 256 /\ pow256 2 = 65536 /\ pow256 4 = 4294967296 /\ pow256 8 = 18446744073709551616.
Proof. repeat split; reflexivity. Qed.

Lemma to_unsigned_range c v :
  in_range c v = true -> 0 <= to_unsigned c v < pow256 (fwidth c).
Proof.
  unfold in_range, to_unsigned. pose proof (pow256_pos (fwidth c)) as Hp.
  assert (He : pow256 (fwidth c) mod 2 = 0).
  { destruct pow256_values as (H1 & H2 & H4 & H8). destruct c; cbn [fwidth]; rewrite ?H1, ?H2, ?H4, ?H8; reflexivity. }
  destruct (fsigned c); destruct (v <? 0) eqn:E; lia.
Qed.

Lemma of_to_unsigned c v : in_range c v = true -> of_unsigned c (to_unsigned c v) = v.
Proof.
  unfold in_range, to_unsigned, of_unsigned. pose proof (pow256_pos (fwidth c)) as Hp.
  assert (He : pow256 (fwidth c) mod 2 = 0).
  { destruct pow256_values as (H1 & H2 & H4 & H8). destruct c; cbn [fwidth]; rewrite ?H1, ?H2, ?H4, ?H8; reflexivity. }
  destruct (fsigned c); cbn [andb]; destruct (v <? 0) eqn:E.
  - destruct (pow256 (fwidth c) / 2 <=? v + pow256 (fwidth c)) eqn:E2; lia.
  - destruct (pow256 (fwidth c) / 2 <=? v) eqn:E2; lia.
  - lia.
  - reflexivity.
Qed.

Lemma pack1_length big c v b : pack1 big c v = Ok b -> length b = fwidth c.
Proof.
  unfold pack1. destruct (in_range c v); [|discriminate]. intros H. injection H as <-.
  destruct big; rewrite ?rev_length; apply le_bytes_length.
Qed.

Lemma pack1_wfb big c v b : pack1 big c v = Ok b -> wfb b = true.
Proof.
  unfold pack1. destruct (in_range c v); [|discriminate]. intros H. injection H as <-.
  destruct big; [|apply le_bytes_wfb].
  unfold wfb. rewrite forallb_forall. intros x Hx. apply in_rev in Hx.
  pose proof (le_bytes_wfb (fwidth c) (to_unsigned c v)) as Hw. unfold wfb in Hw.
  rewrite forallb_forall in Hw. apply Hw, Hx.
Qed.

Lemma unpack1_pack1 big c v b : pack1 big c v = Ok b -> unpack1 big c b = v.
Proof.
  unfold pack1, unpack1. destruct (in_range c v) eqn:Hr; [|discriminate]. intros H. injection H as <-.
  destruct big; rewrite ?rev_involutive;
  (rewrite le_value_le_bytes by (apply to_unsigned_range, Hr)); apply of_to_unsigned, Hr.
Qed.

Lemma pack1_raises big c v : in_range c v = false -> pack1 big c v = Raise StructError.
Proof. unfold pack1. intros ->. reflexivity. Qed.

Lemma pack_length big fs vs b : pack big fs vs = Ok b -> length b = fmt_size fs.
Proof.
  revert vs b. induction fs as [|c fs IH]; intros vs b H.
  - destruct vs; [|discriminate]. injection H as <-. reflexivity.
  - destruct vs as [|v vs]; [discriminate|]. cbn [pack] in H.
    destruct (pack1 big c v) as [b1|] eqn:E1; [|discriminate]. cbn [bind] in H.
    destruct (pack big fs vs) as [b2|] eqn:E2; [|discriminate]. cbn [bind] in H.
    injection H as <-. rewrite app_length. cbn [fmt_size fold_right].
    rewrite (pack1_length _ _ _ _ E1). f_equal. apply (IH _ _ E2).
Qed.

Lemma pack_wfb big fs vs b : pack big fs vs = Ok b -> wfb b = true.
Proof.
  revert vs b. induction fs as [|c fs IH]; intros vs b H.
  - destruct vs; [|discriminate]. injection H as <-. reflexivity.
  - destruct vs as [|v vs]; [discriminate|]. cbn [pack] in H.
    destruct (pack1 big c v) as [b1|] eqn:E1; [|discriminate]. cbn [bind] in H.
    destruct (pack big fs vs) as [b2|] eqn:E2; [|discriminate]. cbn [bind] in H.
    injection H as <-. unfold wfb. rewrite forallb_app.
    pose proof (pack1_wfb _ _ _ _ E1) as H1. pose proof (IH _ _ E2) as H2.
    unfold wfb in H1, H2. rewrite H1, H2. reflexivity.
Qed.

Lemma unpack_go_pack big fs vs b : pack big fs vs = Ok b -> unpack_go big fs b = vs.
Proof.
  revert vs b. induction fs as [|c fs IH]; intros vs b H.
  - destruct vs; [|discriminate]. reflexivity.
  - destruct vs as [|v vs]; [discriminate|]. cbn [pack] in H.
    destruct (pack1 big c v) as [b1|] eqn:E1; [|discriminate]. cbn [bind] in H.
    destruct (pack big fs vs) as [b2|] eqn:E2; [|discriminate]. cbn [bind] in H.
    injection H as <-. cbn [unpack_go].
    pose proof (pack1_length _ _ _ _ E1) as Hl.
    rewrite <- Hl. rewrite firstn_app, Nat.sub_diag, firstn_all, firstn_O, app_nil_r.
    rewrite skipn_app, Nat.sub_diag, skipn_all. cbn [skipn app].
    f_equal; [apply (unpack1_pack1 _ _ _ _ E1) | apply (IH _ _ E2)].
Qed.

Theorem unpack_pack big fs vs b : pack big fs vs = Ok b -> unpack big fs b = Ok vs.
Proof.
  intros H. unfold unpack. rewrite (pack_length _ _ _ _ H), Nat.eqb_refl.
  f_equal. apply (unpack_go_pack _ _ _ _ H).
Qed.

Lemma pack_H_be16 v : 0 <= v < 65536 -> pack true [FH] [v] = Ok (be16 v).
Proof.
  intros Hv. cbn [pack]. unfold pack1, in_range. cbn [fsigned fwidth].
  change (pow256 2) with 65536.
  replace ((0 <=? v) && (v <? 65536)) with true by lia.
  unfold to_unsigned. replace (v <? 0) with false by lia.
  cbn [bind le_bytes rev app]. unfold be16. reflexivity.
Qed.

Lemma unpack_wrong_length big fs bs : length bs <> fmt_size fs -> unpack big fs bs = Raise StructError.
Proof. intros H. unfold unpack. apply Nat.eqb_neq in H. rewrite H. reflexivity. Qed.
