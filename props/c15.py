"""C15 — Concurrent callers of one synchronous client are serialised.

REAL threads call execute() on ONE real ModbusTcpClient (subclass whose connect/_send/_recv
talk to an in-memory in-order peer).  The instance attribute `_transaction_lock` of the real
transaction manager is replaced by a cooperating re-entrant lock, and every thread is parked on
a harness semaphore BEFORE every connect / lock acquisition / send / receive call and AFTER the
lock release, so the harness owns the schedule.  Handshake: the controller removes the chosen
thread from the parked set itself, releases it, and then waits until every live thread is parked
again (or finished) before it looks at the parked set again.
"""
import sys
import threading
import time

from lib import common
from lib.coqrun import nat, boolean, lst
from lib.main import Case, Suite

ID = "C15"
GENERATORS = ["lock"]
PROP_FILE = "C15"
CASE_DEPS = ["theories/CorrLock.vo", "Generated/GenLock.vo"]
RULE = ("one case = one complete schedule of real threads on one real client: ALL schedules of 2 threads x 1 "
        "call and 2 threads x (1,2)/(2,1) calls, all schedules of 3 threads x 1 call (thorough: also 2 x 2), "
        "random schedules for 2-4 threads x 1-3 calls; replies have different lengths; a case is non-trivial "
        "when at least two threads were inside execute() at overlapping times (some thread was scheduled "
        "while another had started and not finished a call); distinct = distinct (calls, schedule)")
TRUSTED = [
    "generated from source on every run (Generated/GenLock.v): the operation skeleton of "
    "ModbusTransactionManager.execute/_transact with the position of `with self._transaction_lock:`, every "
    "binding of _transaction_lock (exactly one, in __init__, RLock()), BaseModbusClient.execute's prefix",
    "hand-modelled, tied by correspondence only: what each abstract operation does to the tid counter, the "
    "transactions dict, the framer buffer and the transport (coq/theories/Lock.v exec_op)",
    "calls the translator lists as PURE (gen/gen_lock.py) do not touch shared client state",
    "the harness' cooperating lock and parking points stand for the real RLock and the OS scheduler",
]
ASSUMPTIONS = [
    "PARTIAL: schedules are at transport-operation / lock-operation granularity (pre-emption before every "
    "connect, acquire, send, recv call and after the release); pre-emption between bytecodes inside an "
    "operation and the GIL are outside the model, as they are outside the property's stated quantifier",
    "C15_own_reply assumes an in-order responsive peer (one reply per request, in request order)",
    "threading.RLock provides mutual exclusion and re-entrancy (Python runtime)",
]
IMPORTS = ("From PM.theories Require Import Base Lock CorrLock.\n"
           "From PM.Generated Require Import GenLock.")

CHK = "chk_lock call_skeleton broadcast_call_skeleton"
HARD = 8.0          # seconds: any single wait longer than this is a hang


class Abort(BaseException):
    pass


def me():
    return getattr(threading.current_thread(), "c15_idx", None)


class Sched:
    def __init__(self, n):
        self.n = n
        self.cv = threading.Condition()
        self.parked = {}
        self.finished = set()
        self.go = [threading.Semaphore(0) for _ in range(n)]
        self.abort = False

    def park(self, kind):
        t = me()
        if t is None:
            return
        if self.abort:
            raise Abort()
        with self.cv:
            self.parked[t] = kind
            self.cv.notify_all()
        ok = self.go[t].acquire(timeout=HARD * 4)
        if not ok or self.abort:
            raise Abort()

    def finish(self, t):
        with self.cv:
            self.parked.pop(t, None)
            self.finished.add(t)
            self.cv.notify_all()

    def wait_quiet(self):
        deadline = time.time() + HARD
        with self.cv:
            while len(self.parked) + len(self.finished) < self.n:
                left = deadline - time.time()
                if left <= 0:
                    return False
                self.cv.wait(left)
        return True

    def release(self, t):
        with self.cv:
            del self.parked[t]
        self.go[t].release()

    def shutdown(self):
        self.abort = True
        for s in self.go:
            for _ in range(4):
                s.release()


class CoopRLock:
    """re-entrant lock whose blocking is done by the harness scheduler"""

    def __init__(self, sched):
        self.s = sched
        self.owner = None
        self.depth = 0
        self.misuse = []

    def acquire(self, blocking=True, timeout=-1):
        t = me()
        self.s.park("acquire")
        if self.owner not in (None, t):
            self.misuse.append("thread %s scheduled while the lock is held by %s" % (t, self.owner))
            raise Abort()
        self.owner = t
        self.depth += 1
        return True

    def release(self):
        t = me()
        if self.owner != t:
            self.misuse.append("release by non-owner %s" % t)
            raise RuntimeError("cannot release un-acquired lock")
        self.depth -= 1
        if self.depth == 0:
            self.owner = None
            hook = getattr(self.s, "on_release", None)
            if hook:
                hook()
            self.s.park("released")

    def __enter__(self):
        return self.acquire()

    def __exit__(self, *a):
        self.release()

    def enabled(self, t):
        return self.owner in (None, t)


BROADCAST_ACK = b'Broadcast write sent - no response expected'


def tcp_peer(req):
    """in-order responsive peer: the reply bytes for one MBAP request (nothing for unit 0)"""
    tid, unit, fc = req[0:2], req[6], req[7]
    if unit == 0:
        return b""
    addr = int.from_bytes(req[8:10], "big")
    if fc == 3:
        count = int.from_bytes(req[10:12], "big")
        body = bytes([unit, fc, 2 * count]) + b"".join(addr.to_bytes(2, "big") for _ in range(count))
    else:
        body = req[6:12]
    return tid + b"\x00\x00" + len(body).to_bytes(2, "big") + body


def make_request(t, k, bc, unit=1):
    from pymodbus.register_read_message import ReadHoldingRegistersRequest
    from pymodbus.register_write_message import WriteSingleRegisterRequest
    if bc:
        return WriteSingleRegisterRequest(address=t * 64 + k, value=7, unit=0)
    return ReadHoldingRegistersRequest(address=t * 64 + k, count=1 + (t + k) % 3, unit=unit)


def canon_result(r, req, t, k, bc, with_tid=True):
    """own reply / own acknowledgement -> (tid, thread, call); anything else -> None"""
    if bc:
        return (int(req.transaction_id) if with_tid else 0, t, k) if r == BROADCAST_ACK else None
    regs = getattr(r, "registers", None)
    if regs and not isinstance(r, Exception) and len(regs) == 1 + (regs[0] // 64 + regs[0] % 64) % 3 \
            and all(x == regs[0] for x in regs):
        return (int(r.transaction_id) if with_tid else 0, regs[0] // 64, regs[0] % 64)
    return None


def make_client(sched, log):
    from pymodbus.client.sync import ModbusTcpClient

    class MemTcpClient(ModbusTcpClient):
        """real client; only the three transport primitives are replaced"""

        def __init__(self):
            ModbusTcpClient.__init__(self, host="mem", port=0, broadcast_enable=True)
            self.inbuf = bytearray()
            self.phase = {}

        def connect(self):
            inner = sys._getframe(1).f_code.co_name == "_transact"
            sched.park("connect" if inner else "check")
            if inner:
                th = threading.current_thread()
                log.append((th.c15_idx, th.c15_k, "KConnect"))
            return True

        def close(self):
            pass

        def is_socket_open(self):
            return True

        def _send(self, request):
            sched.park("send")
            th = threading.current_thread()
            log.append((th.c15_idx, th.c15_k, "KSend"))
            self.phase[th.c15_idx] = 0
            req = bytes(request)
            self.inbuf += tcp_peer(req)
            if req[6] == 0:
                log[-1] = (th.c15_idx, th.c15_k, "KSendB")
            return len(req)

        def _recv(self, size):
            th = threading.current_thread()
            if self.phase.get(th.c15_idx, 0) == 0:
                sched.park("recv")
                log.append((th.c15_idx, th.c15_k, "KRecv"))
                self.phase[th.c15_idx] = 1
            else:
                sched.park("recv2")
            if size is None:
                size = len(self.inbuf)
            out = bytes(self.inbuf[:size])
            del self.inbuf[:size]
            return out

    return MemTcpClient()


def run_schedule(prog, choose):
    """drive one schedule; prog = per thread the list of calls (0 unicast read, 1 broadcast write);
    choose(enabled, i) -> thread id.  Returns the observation record."""
    prog = [list(p) for p in prog]
    calls = [len(p) for p in prog]
    n = len(calls)
    sched = Sched(n)
    log = []
    client = make_client(sched, log)
    lock = CoopRLock(sched)
    client.transaction._transaction_lock = lock
    results = [[] for _ in range(n)]
    errors = []

    def worker(t):
        th = threading.current_thread()
        th.c15_idx, th.c15_k = t, 0
        try:
            for k in range(calls[t]):
                th.c15_k = k
                req = make_request(t, k, prog[t][k])
                try:
                    r = client.execute(req)
                except Abort:
                    raise
                except Exception as e:  # noqa: BLE001 — observation
                    r = e
                results[t].append(canon_result(r, req, t, k, prog[t][k]))
        except Abort:
            pass
        except BaseException as e:  # noqa: BLE001
            errors.append("thread %d: %r" % (t, e))
        finally:
            sched.finish(t)

    threads = [threading.Thread(target=worker, args=(t,), daemon=True) for t in range(n)]
    for th in threads:
        th.start()
    decisions, status = [], "ok"
    overlap = False
    while True:
        if not sched.wait_quiet():
            status = "hang"
            break
        if len(sched.finished) == n:
            break
        enabled = sorted(t for t, kind in sched.parked.items() if kind != "acquire" or lock.enabled(t))
        if not enabled:
            status = "deadlock"
            break
        if len(decisions) > 400:
            status = "livelock"
            break
        t = choose(enabled, len(decisions))
        kind = sched.parked[t]
        started = [u for u in range(n) if u != t and u not in sched.finished
                   and sched.parked.get(u) not in (None, "check")]
        if started and kind != "check":
            overlap = True
        decisions.append((t, kind, enabled))
        sched.release(t)
    sched.shutdown()
    for th in threads:
        th.join(2.0)
    alive = [i for i, th in enumerate(threads) if th.is_alive()]
    if alive and status == "ok":
        status = "unjoined"
    if lock.misuse and status == "ok":
        status = "lock-misuse"
    if isinstance(client.transaction._transaction_lock, CoopRLock) is False and status == "ok":
        status = "lock-replaced"
    return {"calls": list(calls), "prog": prog, "decisions": [(t, k) for t, k, _ in decisions],
            "enabled": [e for _, _, e in decisions], "log": list(log), "results": results,
            "status": status, "errors": errors + lock.misuse, "overlap": overlap,
            "completed": status in ("ok", "lock-replaced") and all(len(results[t]) == calls[t] for t in range(n))}


def explore_all(calls, limit, runner=None):
    """stateless DFS over all schedules (each run replays a prefix, then always picks the lowest enabled)"""
    out = []
    stack = [[]]
    suspects = 0
    while stack and len(out) < limit:
        prefix = stack.pop()

        def choose(enabled, i, prefix=prefix):
            if i < len(prefix):
                return prefix[i] if prefix[i] in enabled else enabled[0]
            return enabled[0]
        obs = (runner or run_schedule)(calls, choose)
        out.append(obs)
        if obs["status"] != "ok" or not obs["completed"] or (
                obs["violations"] if "violations" in obs else any(x is None for rs in obs["results"] for x in rs)):
            suspects += 1
            if suspects >= 25:      # the property is already visibly broken: no point in enumerating on
                break
        chosen = [t for t, _ in obs["decisions"]]
        for i in range(len(prefix), len(chosen)):
            for alt in obs["enabled"][i]:
                if alt != chosen[i]:
                    stack.append(chosen[:i] + [alt])
        if obs["status"] in ("hang", "unjoined"):
            break
    return out, (not stack)


def explore_random(r, calls, count, runner=None):
    out = []
    for _ in range(count):
        bias = r.random()

        def choose(enabled, i):
            # mix of uniform choice and "stick with the previous thread" runs
            if choose.last in enabled and r.random() < bias * 0.7:
                return choose.last
            choose.last = r.choice(enabled)
            return choose.last
        choose.last = None
        obs = (runner or run_schedule)(calls, choose)
        out.append(obs)
        if obs["status"] in ("hang", "unjoined"):
            break
    return out


# ----------------------------------------------------------------------------- socket-level suite
# The REAL ModbusTcpClient / ModbusSerialClient methods (connect, _send, _recv unreplaced) over a
# fake socket / fake serial port assigned to client.socket.  `select`, `time` and `socket` in the
# pymodbus.client.sync namespace (and serial.Serial) are replaced for the duration of a run; threads
# park at every socket-level operation (send, recv, select / write, read, in_waiting), at the lock
# acquisition and after its release.

def ascii_peer(frame):
    import binascii
    data = binascii.unhexlify(frame[1:-2])
    unit, fc = data[0], data[1]
    if unit == 0:
        return b""
    addr = int.from_bytes(data[2:4], "big")
    if fc == 3:
        count = int.from_bytes(data[4:6], "big")
        body = bytes([unit, fc, 2 * count]) + b"".join(addr.to_bytes(2, "big") for _ in range(count))
    else:
        body = data[:-1]
    lrc = (-sum(body)) & 0xff
    return b":" + binascii.hexlify(body + bytes([lrc])).upper() + b"\r\n"


class FakeWire:
    """one object that is both a socket (send/recv/...) and a serial port (write/read/in_waiting)"""

    def __init__(self, sched, log, peer, drop=()):
        self.sched, self.log, self.peer, self.drop = sched, log, peer, set(drop)
        self.inbuf = bytearray()
        self.is_open = True
        self.timeout = 3

    def fresh(self):
        """what socket.create_connection / serial.Serial hand out after the client closed this one"""
        return FakeWire(self.sched, self.log, self.peer, self.drop)

    def ev(self, op):
        th = threading.current_thread()
        if getattr(th, "c15_idx", None) is not None:
            self.log.append((th.c15_idx, th.c15_k, op))

    # --- socket
    def send(self, data):
        self.sched.park("send")
        data = bytes(data)
        self.ev("send-b" if self.is_broadcast(data) else "send")
        th = threading.current_thread()
        if (getattr(th, "c15_idx", None), getattr(th, "c15_k", None)) not in self.drop:   # fault script: reply lost
            self.inbuf += self.peer(data)
        return len(data)

    def recv(self, n, *flags):
        self.sched.park("recv")
        self.ev("recv")
        out = bytes(self.inbuf[:n])
        if not flags:
            del self.inbuf[:n]
        return out

    def is_broadcast(self, data):
        if data[:1] == b":":
            return data[1:3] == b"00"
        return len(data) > 6 and data[6] == 0

    def setblocking(self, *_a):
        pass

    def settimeout(self, *_a):
        pass

    def fileno(self):
        return -1

    def close(self):
        self.is_open = False

    # --- serial
    def write(self, data):
        return self.send(data)

    def read(self, n):
        return self.recv(n)

    @property
    def in_waiting(self):
        self.sched.park("in_waiting")
        self.ev("in_waiting")
        return len(self.inbuf)

    def isOpen(self):
        return True


class FakeClock:
    """per-thread virtual time: a select that finds nothing costs its timeout, nobody really waits"""

    def __init__(self):
        self.t = {}

    def time(self):
        return self.t.get(me(), 0.0) + 1000.0

    def sleep(self, d):
        self.t[me()] = self.t.get(me(), 0.0) + max(d, 0.0)


class FakeSelect:
    def __init__(self, sched, wire, clock):
        self.sched, self.wire, self.clock = sched, wire, clock

    def select(self, r, w, x, timeout=None):
        self.sched.park("select")
        self.wire.ev("select")
        if any(getattr(x, "inbuf", None) for x in r):
            return (list(r), [], [])
        self.clock.sleep(timeout if timeout and timeout > 0 else 0.001)
        return ([], [], [])


class FakeSocketModule:
    error = OSError
    timeout = OSError

    def __init__(self, wire):
        self.wire = wire

    def create_connection(self, *a, **k):
        return self.wire.fresh()


SOCKET_OPS = ("send", "send-b", "recv", "select", "in_waiting")


def judge_socket_trace(prog, log, results, completed, drop=(), lock_changes=()):
    """python-side oracle for the socket-level suite.  log: (t, k, op) with op a socket operation or
    'end' (execute returned)."""
    bad = ["the transaction lock object was replaced during thread %d call %d" % tk for tk in lock_changes]
    drop = set(tuple(x) for x in drop)
    window = None                       # (t, k) between its send and the end of its receive (= return of the call)
    closed, cur = set(), None
    sends = {}
    for t, k, op in log:
        if op == "end":
            if window == (t, k):
                window = None
            continue
        if window is not None and window != (t, k):
            bad.append("thread %d call %d does a socket %s inside the send..receive window of thread %d call %d"
                       % (t, k, op, window[0], window[1]))
        if op == "send":
            window = (t, k)
        if op in ("send", "send-b"):
            sends[(t, k)] = sends.get((t, k), 0) + 1
        if cur != (t, k):
            if (t, k) in closed:
                bad.append("socket operations of thread %d call %d are not contiguous" % (t, k))
            if cur is not None:
                closed.add(cur)
            cur = (t, k)
    for t, p in enumerate(prog):
        for k, _bc in enumerate(p):
            if completed and sends.get((t, k), 0) != 1:
                bad.append("thread %d call %d: %d sends" % (t, k, sends.get((t, k), 0)))
            got = results[t][k] if k < len(results[t]) else "missing"
            if (t, k) in drop:
                if got is not None:
                    bad.append("thread %d call %d returned %r although its reply was lost" % (t, k, got))
            elif got is None or got == "missing" or tuple(got[1:]) != (t, k):
                bad.append("thread %d call %d returned %r instead of its own reply" % (t, k, got))
    if not completed:
        bad.append("not every call returned")
    return bad[:6]


def make_runner(kind, drop=()):
    def run(prog, choose):
        return run_real(kind, prog, choose, drop)
    return run


def run_real(kind, prog, choose, drop=()):
    """one schedule on the REAL client methods; kind = 'tcp' | 'serial';
    drop = calls (t, k) whose reply the peer loses: the real code times out, closes the socket and the
    next transaction reconnects through the real connect() (create_connection / Serial patched)"""
    drop = [tuple(x) for x in drop]
    import serial
    from pymodbus.client import sync
    prog = [list(p) for p in prog]
    calls = [len(p) for p in prog]
    n = len(calls)
    sched = Sched(n)
    log = []
    clock = FakeClock()
    wire = FakeWire(sched, log, tcp_peer if kind == "tcp" else ascii_peer, drop)
    lock_changes = []
    sched.on_release = lambda: wire.ev("end")      # the transaction is over when the lock is released
    saved = (sync.select, sync.time, sync.socket, serial.Serial)
    sync.select, sync.time, sync.socket = FakeSelect(sched, wire, clock), clock, FakeSocketModule(wire)
    serial.Serial = lambda *a, **k: wire.fresh()
    try:
        if kind == "tcp":
            client = sync.ModbusTcpClient(host="mem", port=0, broadcast_enable=True)
        else:
            client = sync.ModbusSerialClient(method="ascii", port="mem", broadcast_enable=True)
        client.socket = wire
        lock = CoopRLock(sched)
        client.transaction._transaction_lock = lock
        results = [[] for _ in range(n)]
        errors = []

        def worker(t):
            th = threading.current_thread()
            th.c15_idx, th.c15_k = t, 0
            try:
                sched.park("start")
                for k in range(calls[t]):
                    th.c15_k = k
                    req = make_request(t, k, prog[t][k], unit=2 if (t, k) in drop else 1)
                    before = client.transaction._transaction_lock
                    try:
                        r = client.execute(req)
                    except Abort:
                        raise
                    except Exception as e:  # noqa: BLE001 — observation
                        r = e
                    if client.transaction._transaction_lock is not before:
                        lock_changes.append((t, k))
                    log.append((t, k, "end"))
                    results[t].append(canon_result(r, req, t, k, prog[t][k], with_tid=(kind == "tcp")))
            except Abort:
                pass
            except BaseException as e:  # noqa: BLE001
                errors.append("thread %d: %r" % (t, e))
            finally:
                sched.finish(t)

        threads = [threading.Thread(target=worker, args=(t,), daemon=True) for t in range(n)]
        for th in threads:
            th.start()
        decisions, status, overlap = [], "ok", False
        while True:
            if not sched.wait_quiet():
                status = "hang"
                break
            if len(sched.finished) == n:
                break
            enabled = sorted(t for t, kd in sched.parked.items() if kd != "acquire" or lock.enabled(t))
            if not enabled:
                status = "deadlock"
                break
            if len(decisions) > 600:
                status = "livelock"
                break
            t = choose(enabled, len(decisions))
            kd = sched.parked[t]
            if kd != "start" and any(sched.parked.get(u) not in (None, "start") for u in range(n) if u != t):
                overlap = True
            decisions.append((t, kd, enabled))
            sched.release(t)
        sched.shutdown()
        for th in threads:
            th.join(2.0)
        if any(th.is_alive() for th in threads) and status == "ok":
            status = "unjoined"
        if lock.misuse and status == "ok":
            status = "lock-misuse"
    finally:
        sync.select, sync.time, sync.socket, serial.Serial = saved
    completed = status == "ok" and all(len(results[t]) == calls[t] for t in range(n))
    return {"kind": kind, "calls": calls, "prog": prog, "drop": [list(x) for x in drop],
            "decisions": [(t, k) for t, k, _ in decisions],
            "enabled": [e for _, _, e in decisions], "log": list(log), "results": results, "status": status,
            "errors": errors + lock.misuse, "overlap": overlap, "completed": completed,
            "violations": judge_socket_trace(prog, log, results, completed, drop, lock_changes)}


def real_desc(o):
    return {"suite": "sockets", "kind": o["kind"], "calls": o["prog"], "drop": o.get("drop", []),
            "decisions": [[t, k] for t, k in o["decisions"]], "status": o["status"],
            "violations": o["violations"], "log": [list(e) for e in o["log"]][:80], "results": o["results"],
            "errors": o["errors"][:3]}


_REAL = {}


def collect_real(tier):
    if tier in _REAL:
        return _REAL[tier]
    t0 = time.time()
    r = common.rng("C15.sockets")
    U, B = 0, 1
    groups, complete = [], {}
    for kind in ("tcp", "serial"):
        for prog in ([[U], [U]], [[U], [B]], [[B], [B]]):
            obs, done = explore_all(prog, 3000 if tier == "quick" else 100000, runner=make_runner(kind))
            nm = kind + ":" + "|".join("".join("ub"[c] for c in p) for p in prog)
            complete[nm] = {"schedules": len(obs), "exhausted": done}
            groups.append((nm, obs))
        per = 40 if tier == "quick" else 800
        for calls in ([2, 2], [1, 1, 1], [2, 1, 2]):
            obs = []
            for _ in range(per):
                prog = [[(B if r.random() < 0.3 else U) for _ in range(c)] for c in calls]
                obs += explore_random(r, prog, 1, runner=make_runner(kind))
                if obs[-1]["status"] in ("hang", "unjoined"):
                    break
            groups.append(("%s:rand-%s" % (kind, "x".join(map(str, calls))), obs))
        # connection drop: caller 0's reply is lost -> timeout, the real code closes the socket, the next
        # transaction reconnects through the real connect(); three callers, schedules around the reconnect
        for prog, drop in (([[U], [U], [U]], [(0, 0)]), ([[U], [U], [U]], [(1, 0)]), ([[U, U], [U]], [(0, 0)])):
            run = make_runner(kind, drop)
            obs, _done = explore_all(prog, 250 if tier == "quick" else 20000, runner=run)
            obs += explore_random(r, prog, 80 if tier == "quick" else 2000, runner=run)
            groups.append(("%s:drop%s-%s" % (kind, drop[0], "|".join("u" * len(p) for p in prog)), obs))
    _REAL[tier] = (groups, complete, round(time.time() - t0, 1))
    return _REAL[tier]


def obs_term(o):
    ev = lst("(%s, %s, %s)" % (nat(t), nat(k), kd) for t, k, kd in o["log"])
    res = lst(lst(("Some (%d%%N, %s, %s)" % (x[0], nat(x[1]), nat(x[2]))) if x is not None else "None" for x in rs)
              for rs in o["results"])
    sch = lst(nat(t) for t, kind in o["decisions"] if kind != "recv2")
    return ("{| lc_prog := %s; lc_sched := %s; lc_log := %s; lc_results := %s; lc_completed := %s |}"
            % (lst(lst(boolean(b) for b in p) for p in o["prog"]), sch, ev, res, boolean(o["completed"])))


def obs_desc(o):
    return {"calls": o["prog"], "decisions": [[t, k] for t, k in o["decisions"]], "status": o["status"],
            "log": [list(e) for e in o["log"]], "results": o["results"], "errors": o["errors"][:3]}


_CACHE = {}


def collect(tier):
    if tier in _CACHE:
        return _CACHE[tier]
    t0 = time.time()
    r = common.rng("C15.sched")
    groups = []
    U, B = 0, 1
    exhaustive = [[[U], [U]], [[U], [B]], [[B], [B]], [[U, U], [U]], [[U], [U, U]], [[U, B], [U]]]
    if tier != "quick":
        exhaustive += [[[U, U], [U, U]], [[B, U], [U, B]]]
    complete = {}

    def name(prog):
        return "|".join("".join("ub"[c] for c in p) for p in prog)
    for prog in exhaustive:
        obs, done = explore_all(prog, 4000 if tier == "quick" else 200000)
        complete[name(prog)] = {"schedules": len(obs), "exhausted": done}
        groups.append(("all-" + name(prog), obs))
    shapes = [[2, 2], [3, 3], [1, 1, 1], [2, 2, 2], [3, 2, 1], [1, 1, 1, 1], [2, 1, 2, 1], [3, 3, 3], [2, 2, 2, 2], [3, 1, 2, 3]]
    per = 40 if tier == "quick" else 600
    for calls in shapes:
        obs = []
        for _ in range(per):
            prog = [[(B if r.random() < 0.3 else U) for _ in range(c)] for c in calls]
            obs += explore_random(r, prog, 1)
            if obs[-1]["status"] in ("hang", "unjoined"):
                break
        groups.append(("rand-%dthr" % len(calls), obs))
    _CACHE[tier] = (groups, complete, round(time.time() - t0, 1))
    return _CACHE[tier]


def suites(tier):
    groups, _, _ = collect(tier)
    cases = []
    for label, obs in groups:
        for o in obs:
            key = (str(o["prog"]), tuple(o["decisions"]))
            cases.append(Case(obs_term(o), obs_desc(o), kind=label, nontrivial=o["overlap"], key=key))
    return [Suite("schedules", IMPORTS, CHK, cases, shard=300)]


def extra_checks(tier):
    groups, complete, wall = collect(tier)
    n, failures, broken, keys = 0, [], [], []
    for label, obs in groups:
        for o in obs:
            n += 1
            if o["status"] != "ok" or o["errors"] or not o["completed"]:
                failures.append(obs_desc(o))
            if o["overlap"]:
                keys.append((str(o["prog"]), tuple(o["decisions"])))
    for k, v in complete.items():
        if not v["exhausted"]:
            broken.append("schedule enumeration for %s did not finish (%d schedules)" % (k, v["schedules"]))
    out = {"threads-live": {"evaluations": n, "failures": failures[:5], "broken": broken, "keys": keys,
                            "enumerated": complete, "wall_s": wall,
                            "samples": [obs_desc(groups[0][1][0])] if groups and groups[0][1] else []}}
    rgroups, rcomplete, rwall = collect_real(tier)
    n, failures, broken, keys, hist = 0, [], [], [], {}
    for label, obs in rgroups:
        hist[label] = len(obs)
        for o in obs:
            n += 1
            if o["status"] != "ok" or o["errors"] or o["violations"]:
                failures.append(real_desc(o))
            if o["overlap"]:
                keys.append((o["kind"], str(o["prog"]), tuple(o["decisions"])))
    for k, v in rcomplete.items():
        if not v["exhausted"] and not failures:
            broken.append("schedule enumeration for %s did not finish (%d schedules)" % (k, v["schedules"]))
    failures = [f for f in failures if f["kind"] == "tcp"][:3] + [f for f in failures if f["kind"] == "serial"][:3]
    out["sockets"] = {"evaluations": n, "failures": failures, "broken": broken, "keys": keys,
                      "enumerated": rcomplete, "histogram": hist, "wall_s": rwall,
                      "samples": [real_desc(rgroups[0][1][0])] if rgroups and rgroups[0][1] else []}
    return out


def classify(suite, desc):
    return None


def replay_finding(f):
    return None


def replay_case(suite, desc):
    dec = [d[0] for d in desc["decisions"]]

    def choose(enabled, i):
        return dec[i] if i < len(dec) and dec[i] in enabled else enabled[0]
    if suite == "sockets":
        o = run_real(desc["kind"], desc["calls"], choose, desc.get("drop", []))
        print("status", o["status"], "violations", o["violations"], "results", o["results"])
        return bool(o["violations"] or o["status"] != "ok")
    o = run_schedule(desc["calls"], choose)
    print("status", o["status"], "log", o["log"], "results", o["results"])
    from lib import coqrun
    r = coqrun.eval_cases("C15_replay", IMPORTS, CHK, [obs_term(o)])
    print(r)
    return bool(r["propfail"] or r["errors"] or o["status"] != "ok")


MANIFEST = {
    "text": ("Coq theorems (Props/C15.v) over a small-step interleaving semantics with ANY number of threads, ANY "
             "number of calls and EVERY schedule (induction over the step relation): mutual exclusion of the "
             "send..receive windows, contiguity of the transport log, reply ownership under an in-order peer and "
             "absence of deadlock follow from `well_bracketed` of the call skeleton, and the skeleton regenerated "
             "from transaction.py on every run is well bracketed (all shared-state sites, all branches, the retry "
             "loop unrolled any number of times; the lock bound once in __init__ to RLock()). Real threads on a real "
             "client are driven through all schedules of small configurations and compared with the model."),
    "note": ("PARTIAL: transport-operation/lock granularity; bytecode pre-emption and the GIL are outside the model. "
             "Trusted: Coq kernel, translator shape matching and its PURE-call list, hand-written operation "
             "semantics (tied by trace correspondence), the cooperative scheduler harness."),
    "design_ref": "DESIGN.md section 8 (C15)",
}
