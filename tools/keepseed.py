#!/usr/bin/env python3
"""tools/keepseed.py <out dir> <seed id> <verified text> <caught text>
copies patch.diff, demo.py, meta.json of an independently written breaking change into /verif/seeded/<seed id>/"""
import json, os, shutil, sys
src, sid, verified, caught = sys.argv[1:5]
dst = os.path.join("/verif/seeded", sid)
os.makedirs(dst, exist_ok=True)
for f in ("patch.diff", "demo.py"):
    shutil.copy(os.path.join(src, f), os.path.join(dst, f))
meta = json.load(open(os.path.join(src, "meta.json")))
meta["confirmed_by_maintainer"] = verified
meta["what_we_ran"] = caught
json.dump(meta, open(os.path.join(dst, "meta.json"), "w"), indent=1)
print(dst)
