(* WaitData.v — ModbusSerialClient._wait_for_data: the polling loop that decides how many bytes a
   serial client reads when no length is known (size None).  Executable model; proofs in
   proofs/WaitData_proofs.v; the loop's tests, comparison and sleep constant are generated
   (Generated/GenWaitData.v).

   External behaviour enters as explicit inputs: [obs k] is what the k-th poll of in_waiting
   returns (any function: the line can do anything), time is the virtual clock in microseconds
   advanced only by time.sleep (the poll itself is taken to cost nothing; a slower poll only makes
   the loop end earlier).  [timeout]: None for `timeout is None or timeout == 0`. *)
From PM.theories Require Import Base.
Open Scope Z_scope.

Inductive bexp := BMore | BAvail | BAvailEqSize | BNot (b : bexp) | BAnd (a b : bexp) | BOr (a b : bexp).

Record waitcode := {
  wc_le : bool;            (* bounded condition: elapsed <= timeout (true) / elapsed < timeout (false) *)
  wc_sleep_us : Z;         (* time.sleep(<constant>) in microseconds *)
  wc_break : bexp;         (* if …: break *)
  wc_update : bexp }.      (* if …: more_data = True; size = avaialble *)

Fixpoint beval (e : bexp) (more : bool) (avail size : Z) : bool :=
  match e with
  | BMore => more
  | BAvail => negb (avail =? 0)                (* truthiness of an int *)
  | BAvailEqSize => avail =? size
  | BNot b => negb (beval b more avail size)
  | BAnd a b => beval a more avail size && beval b more avail size
  | BOr a b => beval a more avail size || beval b more avail size
  end.

Definition cond (C : waitcode) (timeout : option Z) (elapsed : Z) : bool :=
  match timeout with
  | None => true
  | Some t => if wc_le C then elapsed <=? t else elapsed <? t
  end.

(* result: returned size and number of polls made; None = out of fuel (the loop is still running) *)
Fixpoint wait_loop (C : waitcode) (fuel : nat) (timeout : option Z) (obs : nat -> Z)
         (k : nat) (elapsed size : Z) (more : bool) : option (Z * nat) :=
  match fuel with
  | O => None
  | S f =>
      if negb (cond C timeout elapsed) then Some (size, k)
      else
        let a := obs k in
        if beval (wc_break C) more a size then Some (size, S k)
        else
          let upd := beval (wc_update C) more a size in
          wait_loop C f timeout obs (S k) (elapsed + wc_sleep_us C)
                    (if upd then a else size) (if upd then true else more)
  end.

Definition wait_for_data (C : waitcode) (fuel : nat) (timeout : option Z) (obs : nat -> Z) : option (Z * nat) :=
  wait_loop C fuel timeout obs 0 0 0 false.

(* the loop as written in the specification of this development (what the generated code must equal) *)
Definition spec_code : waitcode :=
  {| wc_le := true; wc_sleep_us := 10000;
     wc_break := BOr (BAnd BMore (BNot BAvail)) (BAnd BMore BAvailEqSize);
     wc_update := BAnd BAvail (BNot BAvailEqSize) |}.

(* polls a bounded wait can make at most: one per sleep interval that starts within the timeout, plus one *)
Definition max_polls (C : waitcode) (t : Z) : Z := t / wc_sleep_us C + 1.
