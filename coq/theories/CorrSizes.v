(* CorrSizes.v — harness side of the C14 correspondence check: case types and the
   [chk_*] functions (model agreement, PROPERTY oracle).  The property oracle uses only the
   spec side of Sizes.v ([spec_response_pdu_len], [spec_adu_len]) and what the implementation
   was observed to do. *)
From PM.theories Require Import Base Expr Sizes.
Open Scope string_scope.
Open Scope list_scope.
Open Scope Z_scope.

Definition message_eqb (a b : message) : bool :=
  match a, b with
  | MNone, MNone => true
  | MInt x, MInt y => x =? y
  | MList x, MList y => x =? y
  | _, _ => false
  end.

(* ---- suite "pdu": prediction vs the response the real server-side classes produce ----
   q          the request, spec side
   cls        name of the real request class
   obs        attributes of the real request object before the prediction
   pred       request.get_response_pdu_size()   (None: no such method)
   msg_after  shape of request.message after the prediction
   actual     1 + len(response.encode()) of the executed request; None when the response
              has should_respond = False (nothing is put on the wire) *)
Record pdu_case := {
  pc_q : request; pc_cls : string; pc_obs : reqattrs;
  pc_pred : option Z; pc_msg_after : message; pc_actual : option Z;
  pc_normal : bool     (* the server answered with a normal response (not an exception response) *) }.

Definition chk_pdu (c : pdu_case) : bool * bool :=
  let model :=
    String.eqb (class_of (pc_q c)) (pc_cls c)
    && optz_eqb (predicted_pdu_size (pc_cls c) (pc_obs c)) (pc_pred c)
    && optz_eqb (predicted_pdu_size (pc_cls c) (attrs_of (pc_q c))) (pc_pred c)
    && message_eqb (message_after (pc_cls c) (a_message (pc_obs c))) (pc_msg_after c) in
  let prop :=
    match pc_pred c with
    | None => true                                   (* the class does not predict: unconstrained *)
    | Some p =>
        negb (request_ok (pc_q c))                   (* quantity outside the spec limits: unconstrained *)
        || negb (pc_normal c)                        (* exception reply: its length is the recv suite's business *)
        || (optz_eqb (spec_response_pdu_len (pc_q c)) (Some p) && optz_eqb (pc_actual c) (Some p))
    end in
  (model, prop).

(* ---- suite "recv": what the real client asks of its transport vs the server's frame ----
   f        framing;  pred  the request's prediction
   frame    length of the reply frame the server side produced
   pdu      length of the reply PDU (function code included);  esc  bytes the binary framer added by escaping
   fc       function code as the client reads it from its first read;  mbap  MBAP length field (socket)
   asked    sizes the real client passed to its transport, in order
   left     bytes of the frame the client did not take *)
Record recv_case := {
  rc_f : framing; rc_pred : option Z; rc_frame : Z; rc_pdu : Z; rc_esc : Z;
  rc_fc : Z; rc_mbap : Z; rc_asked : list (option Z); rc_left : Z }.

Definition chk_recv (c : recv_case) : bool * bool :=
  let exp := expected_response_length (rc_f c) (rc_pred c) in
  let plan := fst (recv_plan (rc_f c) exp (rc_frame c) (rc_fc c) (rc_mbap c)) in
  let model :=
    list_eqb optz_eqb plan (rc_asked c)
    && (rc_left c =? rc_frame c - consumed plan (rc_frame c)) in
  let prop :=
    match rc_pred c with
    | None => true
    | Some _ =>
        (rc_frame c =? spec_adu_len (rc_f c) (rc_pdu c) + rc_esc c)       (* real ADU overhead *)
        && optz_eqb (asked_sum (rc_asked c)) (Some (rc_frame c))          (* asks for exactly the frame *)
        && (rc_left c =? 0)
    end in
  (model, prop).
