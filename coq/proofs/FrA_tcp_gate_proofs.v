(* FrA_tcp_gate_proofs.v — C07, loop level, socket framer: every element of the delivery list of
   a receive call is justified by an MBAP frame (spec ADU with a consistent length field) lying
   in buffer ++ chunk.  From ANY state, any input.  (Since repair 9 there is no error path.) *)
From PM.theories Require Import Base Expr Struct FrBaseA FrTcp FrSpecA.
From PM.Generated Require Import GenFramerA.
From PM.proofs Require Import Struct_proofs FrA_stream_proofs FrA_tcp_proofs.
From Coq Require Import ZifyBool.
Open Scope list_scope.
Open Scope Z_scope.
Ltac Zify.zify_post_hook ::= Z.to_euclidean_division_equations.

Definition tcp_justified (buf : bytes) (d : delivery) : Prop :=
  (1 <= length (d_pdu d))%nat /\
  exists pre post, buf = pre ++ spec_adu_tcp (d_tid d) (d_pid d) (d_uid d) (d_pdu d) ++ post.

Lemma tcp_ok_lift p l d : tcp_justified l d -> tcp_justified (p ++ l) d.
Proof.
  intros (H1 & pre & post & ->). split; [exact H1|].
  exists (p ++ pre), post. now rewrite app_assoc.
Qed.

Lemma wfb_app a b : wfb (a ++ b) = wfb a && wfb b.
Proof. unfold wfb. apply forallb_app. Qed.

Lemma be16_bytes a b : (a < 256)%N -> (b < 256)%N -> be16 (unpack1 true FH [a; b]) = [a; b].
Proof.
  intros Ha Hb. unfold unpack1, of_unsigned. cbn [fsigned andb rev app le_value]. unfold be16.
  f_equal; [|f_equal]; lia.
Qed.

Lemma byte_bytes a : (a < 256)%N -> Z.to_N (unpack1 true FB [a]) = a.
Proof. intros Ha. unfold unpack1, of_unsigned. cbn [fsigned andb rev app le_value]. lia. Qed.

Lemma mbap_hdr_of H : length H = 7%nat -> wfb H = true ->
  mbap (h_tid (hdr_of H)) (h_pid (hdr_of H)) (h_len (hdr_of H)) (h_uid (hdr_of H)) = H.
Proof.
  intros HL Hw.
  destruct H as [|b0 [|b1 [|b2 [|b3 [|b4 [|b5 [|b6 [|b7 t]]]]]]]]; cbn in HL; try lia.
  cbn [wfb forallb] in Hw. unfold byteb in Hw.
  repeat (apply andb_true_iff in Hw as [?Hb Hw]).
  repeat match goal with H : (_ <? 256)%N = true |- _ => apply N.ltb_lt in H end.
  unfold hdr_of. cbn [unpack_go fwidth firstn skipn h_tid h_pid h_len h_uid]. unfold mbap.
  rewrite !be16_bytes, byte_bytes by assumption. reflexivity.
Qed.

Lemma loop_nil dec units single fuel h st' ds o :
  t_loop base tcp dec fuel units single {| t_buf := []; t_hdr := h |} = (st', ds, o) -> ds = [].
Proof. destruct fuel; cbn; intros H; injection H as _ <- _; reflexivity. Qed.

Theorem tcp_loop_gate dec units single : forall fuel st st' ds o,
  wfb (t_buf st) = true ->
  t_loop base tcp dec fuel units single st = (st', ds, o) ->
  Forall (tcp_justified (t_buf st)) ds.
Proof.
  induction fuel as [|fuel IH]; intros st st' ds o Hw H.
  - cbn in H. injection H as _ <- _. constructor.
  - cbn [t_loop] in H. destruct (t_isready tcp st) eqn:Hr.
    + destruct (t_check tcp st) as [[st1 ok]|x] eqn:Hc; [|injection H as _ <- _; constructor].
      destruct ok.
      * destruct (tcp_check_gate st st1 Hc) as (Hb1 & Hh1 & Hlen & Hgf & Hgl & Hsplit).
        destruct (validate_unit base units single (Some (h_uid (t_hdr st1)))) as [[|]|x].
        -- unfold t_process in H. cbv beta iota zeta in H. destruct (dec (t_getframe tcp st1)) as [fc| |x] eqn:Hd;
             try (injection H as _ <- _; constructor).
           cbn [andb] in H.
           destruct (t_loop base tcp dec fuel units single (t_advance tcp st1)) as [[s2 d2] o2] eqn:Er.
           cbn [cons_d] in H. injection H as _ <- _.
           assert (Hw7 : wfb (firstn 7 (t_buf st)) = true /\ wfb (t_buf (t_advance tcp st1)) = true).
           { rewrite Hsplit, !wfb_app in Hw. apply andb_true_iff in Hw as [H7 Hrest].
             apply andb_true_iff in Hrest as [_ Hadv]. split; assumption. }
           assert (HL7 : length (firstn 7 (t_buf st)) = 7%nat).
           { apply firstn_length_le. rewrite ready_eq in Hr. lia. }
           constructor.
           ++ unfold tcp_justified. rewrite deliv_eq. cbn [d_pdu d_tid d_pid d_uid]. split; [lia|].
              exists [], (t_buf (t_advance tcp st1)). cbn [app].
              rewrite spec_adu_tcp_mbap.
              replace (Z.of_nat (length (t_getframe tcp st1)) + 1) with (h_len (t_hdr st1)) by lia.
              rewrite Hh1, mbap_hdr_of by (try exact HL7; apply Hw7).
              rewrite <- app_assoc. exact Hsplit.
           ++ specialize (IH _ _ _ _ (proj2 Hw7) Er). eapply Forall_impl; [|exact IH].
              intros d0 Hd0. rewrite Hsplit, !app_assoc. apply tcp_ok_lift, Hd0.
        -- (* unit not served: advanceFrame *)
           assert (Hwa : wfb (t_buf (t_advance tcp st1)) = true).
           { rewrite Hsplit, !wfb_app in Hw. apply andb_true_iff in Hw as [_ Hrest]. apply andb_true_iff in Hrest as [_ Hadv]. exact Hadv. }
           specialize (IH _ _ _ _ Hwa H). eapply Forall_impl; [|exact IH].
           intros d0 Hd0. rewrite Hsplit, !app_assoc. apply tcp_ok_lift, Hd0.
        -- injection H as _ <- _. constructor.
      * destruct (beval (tenv tcp st1) (t_wait tcp)); [injection H as _ <- _; constructor|].
        rewrite reset_eq in H. apply loop_nil in H. subst ds. constructor.
    + injection H as _ <- _. constructor.
Qed.

Theorem tcp_recv_gate dec c st chunk st' ds o :
  wfb (t_buf st) = true -> wfb chunk = true ->
  t_recv base tcp dec c st chunk = (st', ds, o) ->
  Forall (tcp_justified (t_buf st ++ chunk)) ds.
Proof.
  unfold t_recv. intros H1 H2 H. eapply tcp_loop_gate in H; [exact H|].
  cbn [t_buf]. rewrite wfb_app, H1, H2. reflexivity.
Qed.

(* every delivered PDU is one the decoder turned into a message *)
Lemma tcp_loop_msgs dec units single : forall fuel st st' ds o,
  t_loop base tcp dec fuel units single st = (st', ds, o) ->
  Forall (fun d => is_msg (dec (d_pdu d)) = true) ds.
Proof.
  induction fuel as [|fuel IH]; intros st st' ds o H.
  - cbn in H. injection H as _ <- _. constructor.
  - cbn [t_loop] in H. destruct (t_isready tcp st); [|injection H as _ <- _; constructor].
    destruct (t_check tcp st) as [[st1 ok]|x]; [|injection H as _ <- _; constructor].
    destruct ok.
    + destruct (validate_unit base units single (Some (h_uid (t_hdr st1)))) as [[|]|x].
      * unfold t_process in H. cbv beta iota zeta in H.
        destruct (dec (t_getframe tcp st1)) as [fc| |x] eqn:Hd; try (injection H as _ <- _; constructor).
        cbn [andb] in H.
        destruct (t_loop base tcp dec fuel units single (t_advance tcp st1)) as [[s2 d2] o2] eqn:Er.
        cbn [cons_d] in H. injection H as _ <- _. constructor.
        -- rewrite deliv_eq. cbn [d_pdu]. now rewrite Hd.
        -- apply (IH _ _ _ _ Er).
      * apply (IH _ _ _ _ H).
      * injection H as _ <- _. constructor.
    + destruct (beval (tenv tcp st1) (t_wait tcp)); [injection H as _ <- _; constructor|].
      apply (IH _ _ _ _ H).
Qed.

(* C07 with the PDU-length rule: if the decoder in use rejects PDUs whose length is not the one
   their function code defines, every delivery is an MBAP frame of the input with a consistent
   length field AND a PDU of the defined length *)
Theorem tcp_recv_gate_len dec server c st chunk st' ds o :
  (forall pdu, is_msg (dec pdu) = true -> pdu_len_ok server pdu = true) ->
  wfb (t_buf st) = true -> wfb chunk = true ->
  t_recv base tcp dec c st chunk = (st', ds, o) ->
  Forall (fun d => tcp_justified (t_buf st ++ chunk) d /\ pdu_len_ok server (d_pdu d) = true) ds.
Proof.
  intros Hdec H1 H2 H. pose proof (tcp_recv_gate dec c st chunk st' ds o H1 H2 H) as G.
  unfold t_recv in H. apply tcp_loop_msgs in H.
  rewrite Forall_forall in *. intros d Hd. split; [apply G, Hd|apply Hdec, H, Hd].
Qed.
