(* Props/C01.v — PDU wire format conforms to the Modbus application protocol.
   ONLY statements; proofs are in proofs/Pdu_*_proofs.v.
   Spec side: theories/PduSpec.v ([msg], [spec_pdu], [spec_wf]: a transcription of MODBUS
   Application Protocol v1.1b3 section 6).  Code side: theories/Pdu.v ([obj], [py_pdu] =
   bytes([fc]) + encode(), [py_decode] = the factories' _helper), instantiated with the tables,
   layouts and constants that Generated/GenPdu.v regenerates from the source on every run.
   [abs o = Some m]: object [o] stands for spec message [m] and every field fits its wire width.
   All theorems quantify over all field values and all list lengths (unbounded Z / lists). *)
From PM.theories Require Import Base Struct PduCls PduSpec Pdu CorrPdu.
From PM.Generated Require Import GenPdu.
From PM.proofs Require Import Pdu_bits_proofs Pdu_proofs Pdu_more_proofs Pdu_dec_proofs Pdu_dec2_proofs Pdu_rej_proofs Pdu_size_proofs.
Open Scope string_scope.
Open Scope list_scope.
Open Scope Z_scope.

(* --- tie of the hand-modelled methods' struct formats to the source ----------------------- *)
Theorem C01_formats_as_modelled : struct_fmts = modelled_fmts.
Proof. reflexivity. Qed.
Print Assumptions C01_formats_as_modelled.

(* --- tie of the constructors the harness builds messages through (parameters, defaults, statements) --- *)
Theorem C01_constructors_as_modelled : ctor_sigs = modelled_ctors.
Proof. reflexivity. Qed.
Print Assumptions C01_constructors_as_modelled.

(* --- bit packing: pack_bitstring / unpack_bitstring = LSB-first packing, zero padding ------ *)
Theorem C01_bitpack : forall bits, py_pack_bitstring bits = spec_pack_bits bits.
Proof. exact py_pack_spec. Qed.
Print Assumptions C01_bitpack.

Theorem C01_bitunpack : forall bs, py_unpack_bitstring bs = spec_unpack_bits bs.
Proof. exact py_unpack_spec. Qed.
Print Assumptions C01_bitunpack.

(* the packed string has ceil(n/8) bytes, all below 256 (int2byte never raises), and unpacking it
   returns the bits followed by fewer than 8 zero bits *)
Theorem C01_bitpack_shape : forall bits,
  wfb (spec_pack_bits bits) = true /\
  Z.of_nat (length (spec_pack_bits bits)) = bit_byte_count (Z.of_nat (length bits)) /\
  bits_upto_pad bits (spec_unpack_bits (spec_pack_bits bits)) = true.
Proof. intros b. repeat split; [apply spec_pack_bits_wfb | apply spec_pack_bits_length | apply unpack_pack_upto_pad]. Qed.
Print Assumptions C01_bitpack_shape.

(* --- encode: byte-for-byte the specification's PDU, for every conforming class ------------- *)
Theorem C01_encode_conforms : forall o m,
  mem_cls (class_of o) conforming_encode = true -> abs o = Some m -> py_pdu o = Ok (spec_pdu m).
Proof. exact encode_conforms. Qed.
Print Assumptions C01_encode_conforms.

(* --- decode: every spec-conformant PDU of a conforming kind decodes to the matching class with
       exactly the wire's field values (read-bits responses: up to the wire's zero padding) ---- *)
Theorem C01_decode_conforms : forall m,
  spec_wf m = true -> conforming_decode m = true ->
  exists o d, py_decode (msg_is_request m) (spec_pdu m) = Ok o /\ class_of o = spec_class m /\
              abs o = Some d /\ msg_matches m d = true.
Proof. exact decode_conforms. Qed.
Print Assumptions C01_decode_conforms.

(* --- attributes decode() takes from the wire that [abs] does not look at (see CorrPdu.wire_attrs_ok):
       WriteMultipleCoilsRequest.byte_count (read by execute()), the byte_count of read-bits responses,
       number_of_objects of the device-identification response: each holds the wire's field ----------- *)
Theorem C01_decode_wire_attrs : forall m o, spec_wf m = true -> conforming_decode m = true ->
  py_decode (msg_is_request m) (spec_pdu m) = Ok o -> wire_attrs_ok m o = true.
Proof. exact decode_wire_attrs. Qed.
Print Assumptions C01_decode_wire_attrs.

(* the write requests decode to exactly these instances: every attribute execute() reads is determined *)
Theorem C01_decode_fc15_byte_count : forall a cs, spec_wf (MWriteCoilsReq a cs) = true ->
  py_decode true (spec_pdu (MWriteCoilsReq a cs)) = Ok (OWriteCoilsReq a cs (bit_byte_count (len cs))).
Proof. exact dec_fc15_explicit. Qed.
Print Assumptions C01_decode_fc15_byte_count.

Theorem C01_decode_fc16_counts : forall a rs, spec_wf (MWriteRegsReq a rs) = true ->
  py_decode true (spec_pdu (MWriteRegsReq a rs)) = Ok (OWriteRegsReq a rs (len rs) (2 * len rs)).
Proof. exact dec_fc16_explicit. Qed.
Print Assumptions C01_decode_fc16_counts.

Theorem C01_decode_fc23_counts : forall ra rq wa ws, spec_wf (MReadWriteRegsReq ra rq wa ws) = true ->
  py_decode true (spec_pdu (MReadWriteRegsReq ra rq wa ws)) = Ok (ORWReq ra rq wa ws (len ws) (2 * len ws)).
Proof. exact dec_fc23_explicit. Qed.
Print Assumptions C01_decode_fc23_counts.

(* --- dispatch: the factory tables pick the class the specification names, for EVERY code ---- *)
Theorem C01_dispatch_server : forall fc, lookup_fc server_function_table fc = spec_request_class fc.
Proof. exact dispatch_server. Qed.
Print Assumptions C01_dispatch_server.

Theorem C01_dispatch_client : forall fc, lookup_fc client_function_table fc = spec_response_class fc.
Proof. exact dispatch_client. Qed.
Print Assumptions C01_dispatch_client.

Theorem C01_subdispatch_server : forall fc sub,
  lookup_sub server_sub_function_table fc sub = spec_request_subclass fc sub.
Proof. exact subdispatch_server. Qed.
Print Assumptions C01_subdispatch_server.

Theorem C01_subdispatch_client : forall fc sub,
  lookup_sub client_sub_function_table fc sub = spec_response_subclass fc sub.
Proof. exact subdispatch_client. Qed.
Print Assumptions C01_subdispatch_client.

(* --- exception responses: function code | 0x80, then the exception code ---------------------- *)
Theorem C01_exception_layout : forall fc ec, 1 <= fc < 128 -> is_u8 ec = true ->
  py_pdu (OExc fc (Z.lor fc exception_offset) ec) = Ok [Z.to_N (fc + 128); Z.to_N ec].
Proof. exact exception_encode. Qed.
Print Assumptions C01_exception_layout.

Theorem C01_exception_decode : forall fc ec, 128 < fc < 256 -> (ec < 256)%N ->
  py_decode_client [Z.to_N fc; ec] = Ok (OExc (fc - 128) fc (Z.of_N ec)).
Proof. exact exception_decode. Qed.
Print Assumptions C01_exception_decode.

Theorem C01_exception_decode_strict : forall rest, py_decode_client (128%N :: rest) = Raise ModbusExc.
Proof. exact exception_decode_0x80. Qed.
Print Assumptions C01_exception_decode_strict.

(* --- a field outside its wire width makes encode raise struct.error -------------------------- *)
Theorem C01_encode_rejects : forall c a m,
  abs_raw (OFixed c a) = Some m -> spec_wf m = false -> py_pdu (OFixed c a) = Raise StructError.
Proof. exact encode_rejects_fixed. Qed.
Print Assumptions C01_encode_rejects.

Theorem C01_encode_rejects_registers : forall c regs m,
  abs_raw (ORegsRsp c regs) = Some m -> spec_wf m = false -> py_pdu (ORegsRsp c regs) = Raise StructError.
Proof. exact encode_rejects_regs. Qed.
Print Assumptions C01_encode_rejects_registers.

(* ... for EVERY class of [conforming_encode]: whenever the object stands for a message that does not fit
   its wire widths (a 16-/8-bit field out of range, a list too long for its count or byte-count field,
   a record or object header out of range), the library refuses with struct.error.
   [payload_ok]: raw byte payloads are real bytes; exception responses are for a function code 1..127 *)
Theorem C01_encode_rejects_all : forall o m,
  mem_cls (class_of o) conforming_encode = true -> abs_raw o = Some m -> spec_wf m = false -> payload_ok o = true ->
  py_pdu o = Raise StructError.
Proof. exact encode_rejects. Qed.
Print Assumptions C01_encode_rejects_all.

(* --- sizes: the length of every specification PDU, the 253-byte limit, and that it is attained --- *)
Theorem C01_pdu_length : forall m, len (spec_pdu m) = pdu_size m.
Proof. exact spec_pdu_length. Qed.
Print Assumptions C01_pdu_length.

(* within the quantity / byte-count limits section 6 states, a PDU has 1..253 bytes *)
Theorem C01_pdu_limit : forall m, spec_limits m = true -> 1 <= len (spec_pdu m) <= 253.
Proof. exact spec_pdu_limit. Qed.
Print Assumptions C01_pdu_limit.

Theorem C01_pdu_max_attained :
  (exists m, msg_is_request m = true /\ spec_limits m = true /\ spec_wf m = true /\ len (spec_pdu m) = 253) /\
  (exists m, msg_is_request m = false /\ spec_limits m = true /\ spec_wf m = true /\ len (spec_pdu m) = 253).
Proof. exact spec_pdu_max_attained. Qed.
Print Assumptions C01_pdu_max_attained.

(* field widths alone (no quantity limits) bound the kinds governed by an 8-bit byte count by 264 bytes *)
Theorem C01_pdu_wf_bound : forall m, spec_wf m = true -> byte_counted m = true -> len (spec_pdu m) <= 264.
Proof. exact spec_pdu_wf_bound. Qed.
Print Assumptions C01_pdu_wf_bound.

(* --- where the pinned code violates the property --------------------------------------------- *)
(* the full statement (false on this tree; kept visible) *)
Definition C01_full_statement : Prop :=
  (forall o m, abs o = Some m -> py_pdu o = Ok (spec_pdu m)) /\
  (forall m, spec_wf m = true ->
     exists o d, py_decode (msg_is_request m) (spec_pdu m) = Ok o /\ class_of o = spec_class m /\
                 abs o = Some d /\ msg_matches m d = true).

Theorem C01_fifo_encode_refuted :
  exists o m, abs o = Some m /\ class_of o = ReadFifoQueueResponse /\ py_pdu o <> Ok (spec_pdu m).
Proof. exact fifo_encode_refuted. Qed.
Print Assumptions C01_fifo_encode_refuted.

Theorem C01_fifo_decode_refuted :
  exists m, spec_wf m = true /\ decoded_matches m (py_decode false (spec_pdu m)) = false.
Proof. exact fifo_decode_refuted. Qed.
Print Assumptions C01_fifo_decode_refuted.

Theorem C01_file_response_encode_refuted :
  exists o m, abs o = Some m /\ class_of o = ReadFileRecordResponse /\ py_pdu o <> Ok (spec_pdu m).
Proof. exact file_response_encode_refuted. Qed.
Print Assumptions C01_file_response_encode_refuted.

Theorem C01_slave_id_decode_refuted :
  exists m, spec_wf m = true /\ decoded_matches m (py_decode false (spec_pdu m)) = false.
Proof. exact slave_id_decode_refuted. Qed.
Print Assumptions C01_slave_id_decode_refuted.

Theorem C01_diag_request_decode_refuted :
  exists m, spec_wf m = true /\ py_decode true (spec_pdu m) = Raise StructError.
Proof. exact diag_request_decode_refuted. Qed.
Print Assumptions C01_diag_request_decode_refuted.

(* --- the hypotheses are satisfiable by non-trivial values ----------------------------------- *)
Example C01_nonvacuous :
  abs (OWriteCoilsReq 19 [true; false; true; true; false; false; true; true; true; false] 2)
    = Some (MWriteCoilsReq 19 [true; false; true; true; false; false; true; true; true; false]) /\
  py_pdu (OWriteCoilsReq 19 [true; false; true; true; false; false; true; true; true; false] 2)
    = Ok [15; 0; 19; 0; 10; 2; 205; 1]%N /\
  mem_cls WriteMultipleCoilsRequest conforming_encode = true /\
  spec_wf (MReadHoldingRsp [555; 0; 100]) = true /\ conforming_decode (MReadHoldingRsp [555; 0; 100]) = true /\
  py_decode false (spec_pdu (MReadHoldingRsp [555; 0; 100])) = Ok (ORegsRsp ReadHoldingRegistersResponse [555; 0; 100]).
Proof. repeat split; vm_compute; reflexivity. Qed.
