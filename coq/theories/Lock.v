(* Lock.v — C15: several threads calling execute() on ONE synchronous client.
   Executable small-step interleaving model, NO proofs (see proofs/Lock_proofs.v).

   A thread runs a list of calls; a call is a list of abstract operations [lop] (the
   statement skeleton of BaseModbusClient.execute + ModbusTransactionManager.execute that
   gen/gen_lock.py regenerates into Generated/GenLock.v); one step = ONE operation of ONE
   thread, chosen by the schedule.  Shared state = what transaction.py leaves unsynchronised:
   the lock (owner + depth), the tid counter, the transactions dict, the framer buffer, the
   transport (a log of events + an in-order responsive peer holding the replies not yet read).
   Pre-emption between bytecodes inside an operation and the GIL are outside this model. *)
From PM.theories Require Import Base.
Open Scope list_scope.

Inductive lop :=
| ConnectCheck      (* BaseModbusClient.execute: `if not self.connect()` — before the lock *)
| Acquire | Release (* with self._transaction_lock: *)
| TidAlloc          (* request.transaction_id = self.getNextTID() *)
| FramerReset       (* self.client.framer.resetFrame() *)
| Connect           (* _transact: self.client.connect() *)
| Send              (* _transact: self._send(packet) *)
| SendB             (* the same call site on the broadcast path: nobody answers; execute() then
                       returns the constant 'Broadcast write sent' acknowledgement *)
| Recv              (* _transact: self._recv(...) *)
| Process           (* framer.processIncomingPacket(response, partial(addTransaction, tid=own)) *)
| Pickup            (* self.getTransaction(request.transaction_id) [+ the tid=0 fallback] *)
| SetState          (* self.client.state = ... *)
| Close.            (* except-path: self.client.close() *)

Definition lop_eqb (a b : lop) : bool :=
  match a, b with
  | ConnectCheck, ConnectCheck | Acquire, Acquire | Release, Release | TidAlloc, TidAlloc
  | FramerReset, FramerReset | Connect, Connect | Send, Send | SendB, SendB | Recv, Recv | Process, Process
  | Pickup, Pickup | SetState, SetState | Close, Close => true
  | _, _ => false
  end.

(* where the lock object comes from: (function that assigns self._transaction_lock, constructor) *)
Inductive lock_ctor := CtorRLock | CtorLock | CtorOther.
Inductive lock_site := SiteInit | SiteExecute | SiteOther.
Definition lock_bindings_ok (l : list (lock_site * lock_ctor)) : bool :=
  match l with
  | [(SiteInit, CtorRLock)] => true
  | _ => false
  end.

(* ---- static well-formedness of a call skeleton --------------------------------------- *)

(* [closes d ops]: started at lock depth d, every operation other than the lock operations
   runs at depth >= 1 and the depth returns to 0 exactly at the END of the list (one
   bracket around the whole transaction; nested re-acquisition is allowed). *)
Fixpoint closes (d : nat) (ops : list lop) : bool :=
  match ops with
  | [] => Nat.eqb d 0
  | Acquire :: r => closes (S d) r
  | Release :: r =>
      match d with
      | O => false
      | S O => match r with [] => true | _ => false end
      | S d' => closes d' r
      end
  | _ :: r => Nat.leb 1 d && closes d r
  end.

(* a call: connection checks (they do not touch the wire when the socket is up), then ONE bracket *)
Fixpoint well_bracketed (ops : list lop) : bool :=
  match ops with
  | ConnectCheck :: r => well_bracketed r
  | _ => closes 0 ops
  end.

Definition no_lock_ops (ops : list lop) : bool :=
  forallb (fun o => negb (lop_eqb o Acquire || lop_eqb o Release || lop_eqb o ConnectCheck)) ops.

(* ---- dynamic state --------------------------------------------------------------------- *)

Record frame := { f_tid : N; f_thr : nat; f_k : nat }.   (* wire tid; the request it answers *)

Definition frame_eqb (a b : frame) : bool :=
  N.eqb (f_tid a) (f_tid b) && Nat.eqb (f_thr a) (f_thr b) && Nat.eqb (f_k a) (f_k b).

Inductive evkind := KConnect | KSend | KSendB | KRecv.
Definition evkind_eqb (a b : evkind) : bool :=
  match a, b with KConnect, KConnect | KSend, KSend | KSendB, KSendB | KRecv, KRecv => true | _, _ => false end.
Record event := { ev_thr : nat; ev_k : nat; ev_kind : evkind }.
Definition event_eqb (a b : event) : bool :=
  Nat.eqb (ev_thr a) (ev_thr b) && Nat.eqb (ev_k a) (ev_k b) && evkind_eqb (ev_kind a) (ev_kind b).

Record shared := {
  sh_lock : option (nat * nat);      (* owner thread, depth (>= 1) *)
  sh_tidc : N;                       (* ModbusTransactionManager.tid *)
  sh_table : list (N * frame);       (* DictTransactionManager.transactions *)
  sh_fbuf : list frame;              (* framer buffer (whole frames) *)
  sh_peer : list frame;              (* replies the peer has produced and nobody has read yet *)
  sh_log : list event }.             (* transport log, oldest first *)

Record thread := {
  th_prog : list (list lop);         (* head = rest of the current call; [] head = about to return *)
  th_done : list lop;                (* ghost: operations of the current call already executed *)
  th_k : nat;                        (* index of the current call *)
  th_tid : N;                        (* request.transaction_id *)
  th_resp : list frame;              (* local `response` bytes *)
  th_result : option frame;          (* what execute() is going to return; None = ModbusIOException/None *)
  th_inflight : bool;                (* has sent, has not finished the receive that follows *)
  th_results : list (nat * option frame) }.   (* (call index, value returned), oldest first *)

Record state := { st_sh : shared; st_thr : list thread }.

Definition set_lock (s : shared) lk :=
  {| sh_lock := lk; sh_tidc := sh_tidc s; sh_table := sh_table s; sh_fbuf := sh_fbuf s;
     sh_peer := sh_peer s; sh_log := sh_log s |}.

Definition lock_acquire (re : bool) (t : nat) (lk : option (nat * nat)) : option (option (nat * nat)) :=
  match lk with
  | None => Some (Some (t, 1%nat))
  | Some (o, d) => if Nat.eqb o t then (if re then Some (Some (t, S d)) else None) else None
  end.

Definition lock_release (t : nat) (lk : option (nat * nat)) : option (option (nat * nat)) :=
  match lk with
  | Some (o, S d) =>
      if Nat.eqb o t then Some (match d with O => None | S _ => Some (t, d) end) else None
  | _ => None
  end.

Fixpoint tset (tb : list (N * frame)) (k : N) (f : frame) : list (N * frame) :=
  match tb with
  | [] => [(k, f)]
  | (k', f') :: r => if N.eqb k' k then (k, f) :: r else (k', f') :: tset r k f
  end.

Fixpoint tpop (tb : list (N * frame)) (k : N) : option (frame * list (N * frame)) :=
  match tb with
  | [] => None
  | (k', f') :: r =>
      if N.eqb k' k then Some (f', r)
      else match tpop r k with Some (f, r') => Some (f, (k', f') :: r') | None => None end
  end.

Definition next_tid (tidc : N) : N := N.land (tidc + 1) 65535.

(* the thread-local part an operation may change *)
Record local := { lo_tid : N; lo_resp : list frame; lo_result : option frame; lo_inflight : bool }.

Definition mk_event (t k : nat) (kd : evkind) : event := {| ev_thr := t; ev_k := k; ev_kind := kd |}.

(* one operation of thread t (call index k) on the shared state; None = not enabled *)
Definition exec_op (re : bool) (t k : nat) (s : shared) (l : local) (o : lop) : option (shared * local) :=
  match o with
  | ConnectCheck | SetState | Close => Some (s, l)
  | Acquire => match lock_acquire re t (sh_lock s) with
               | Some lk => Some (set_lock s lk, l) | None => None end
  | Release => match lock_release t (sh_lock s) with
               | Some lk => Some (set_lock s lk, l) | None => None end
  | TidAlloc =>
      let n := next_tid (sh_tidc s) in
      Some ({| sh_lock := sh_lock s; sh_tidc := n; sh_table := sh_table s; sh_fbuf := sh_fbuf s;
               sh_peer := sh_peer s; sh_log := sh_log s |},
            {| lo_tid := n; lo_resp := lo_resp l; lo_result := lo_result l; lo_inflight := lo_inflight l |})
  | FramerReset =>
      Some ({| sh_lock := sh_lock s; sh_tidc := sh_tidc s; sh_table := sh_table s; sh_fbuf := [];
               sh_peer := sh_peer s; sh_log := sh_log s |}, l)
  | Connect =>
      Some ({| sh_lock := sh_lock s; sh_tidc := sh_tidc s; sh_table := sh_table s; sh_fbuf := sh_fbuf s;
               sh_peer := sh_peer s; sh_log := sh_log s ++ [mk_event t k KConnect] |}, l)
  | Send =>
      Some ({| sh_lock := sh_lock s; sh_tidc := sh_tidc s; sh_table := sh_table s; sh_fbuf := sh_fbuf s;
               sh_peer := sh_peer s ++ [{| f_tid := lo_tid l; f_thr := t; f_k := k |}];
               sh_log := sh_log s ++ [mk_event t k KSend] |},
            {| lo_tid := lo_tid l; lo_resp := lo_resp l; lo_result := lo_result l; lo_inflight := true |})
  | SendB =>
      (* the acknowledgement is modelled as a pseudo-reply that names the call's own request *)
      Some ({| sh_lock := sh_lock s; sh_tidc := sh_tidc s; sh_table := sh_table s; sh_fbuf := sh_fbuf s;
               sh_peer := sh_peer s; sh_log := sh_log s ++ [mk_event t k KSendB] |},
            {| lo_tid := lo_tid l; lo_resp := lo_resp l;
               lo_result := Some {| f_tid := lo_tid l; f_thr := t; f_k := k |}; lo_inflight := lo_inflight l |})
  | Recv =>
      Some ({| sh_lock := sh_lock s; sh_tidc := sh_tidc s; sh_table := sh_table s; sh_fbuf := sh_fbuf s;
               sh_peer := tl (sh_peer s); sh_log := sh_log s ++ [mk_event t k KRecv] |},
            {| lo_tid := lo_tid l;
               lo_resp := match sh_peer s with f :: _ => [f] | [] => [] end;
               lo_result := lo_result l; lo_inflight := false |})
  | Process =>
      Some ({| sh_lock := sh_lock s; sh_tidc := sh_tidc s;
               sh_table := fold_left (fun tb f => tset tb (lo_tid l) f) (sh_fbuf s ++ lo_resp l) (sh_table s);
               sh_fbuf := []; sh_peer := sh_peer s; sh_log := sh_log s |}, l)
  | Pickup =>
      let '(r, tb) :=
        match tpop (sh_table s) (lo_tid l) with
        | Some (f, tb') => (Some f, tb')
        | None => match sh_table s with
                  | [] => (None, [])
                  | _ => match tpop (sh_table s) 0 with
                         | Some (f, tb') => (Some f, tb') | None => (None, sh_table s) end
                  end
        end in
      Some ({| sh_lock := sh_lock s; sh_tidc := sh_tidc s; sh_table := tb; sh_fbuf := sh_fbuf s;
               sh_peer := sh_peer s; sh_log := sh_log s |},
            {| lo_tid := lo_tid l; lo_resp := lo_resp l; lo_result := r; lo_inflight := lo_inflight l |})
  end.

Definition local_of (th : thread) : local :=
  {| lo_tid := th_tid th; lo_resp := th_resp th; lo_result := th_result th; lo_inflight := th_inflight th |}.

Definition with_local (th : thread) (prog : list (list lop)) (o : lop) (l : local) : thread :=
  {| th_prog := prog; th_done := th_done th ++ [o]; th_k := th_k th; th_tid := lo_tid l; th_resp := lo_resp l;
     th_result := lo_result l; th_inflight := lo_inflight l; th_results := th_results th |}.

(* `return response`: the call is over *)
Definition do_return (th : thread) (rest : list (list lop)) : thread :=
  {| th_prog := rest; th_done := []; th_k := S (th_k th); th_tid := th_tid th; th_resp := [];
     th_result := None; th_inflight := false;
     th_results := th_results th ++ [(th_k th, th_result th)] |}.

Fixpoint upd {A} (l : list A) (n : nat) (x : A) : list A :=
  match l, n with
  | [], _ => []
  | _ :: r, O => x :: r
  | y :: r, S m => y :: upd r m x
  end.

Definition step (re : bool) (σ : state) (t : nat) : option state :=
  match nth_error (st_thr σ) t with
  | None => None
  | Some th =>
      match th_prog th with
      | [] => None
      | [] :: rest => Some {| st_sh := st_sh σ; st_thr := upd (st_thr σ) t (do_return th rest) |}
      | (o :: r) :: rest =>
          match exec_op re t (th_k th) (st_sh σ) (local_of th) o with
          | None => None
          | Some (s', l') => Some {| st_sh := s'; st_thr := upd (st_thr σ) t (with_local th (r :: rest) o l') |}
          end
      end
  end.

Definition init_thread (prog : list (list lop)) : thread :=
  {| th_prog := prog; th_done := []; th_k := 0; th_tid := 0; th_resp := []; th_result := None;
     th_inflight := false; th_results := [] |}.

Definition init_shared (tid0 : N) : shared :=
  {| sh_lock := None; sh_tidc := tid0; sh_table := []; sh_fbuf := []; sh_peer := []; sh_log := [] |}.

Definition init (tid0 : N) (P : list (list (list lop))) : state :=
  {| st_sh := init_shared tid0; st_thr := map init_thread P |}.

(* a schedule is a list of thread ids; a choice that is not enabled is skipped *)
Fixpoint run (re : bool) (sched : list nat) (σ : state) : state :=
  match sched with
  | [] => σ
  | t :: r => match step re σ t with Some σ' => run re r σ' | None => run re r σ end
  end.

Inductive reachable (re : bool) (σ0 : state) : state -> Prop :=
| reach_init : reachable re σ0 σ0
| reach_step : forall σ t σ', reachable re σ0 σ -> step re σ t = Some σ' -> reachable re σ0 σ'.

(* ---- observations ---------------------------------------------------------------------- *)

Definition in_flight (th : thread) : bool :=
  th_inflight th && match th_prog th with (_ :: _) :: _ => true | _ => false end.

Definition thread_done (th : thread) : bool :=
  match th_prog th with [] => true | _ => false end.

Definition all_done (σ : state) : bool := forallb thread_done (st_thr σ).

(* transport projection of a call skeleton *)
Fixpoint proj (ops : list lop) : list evkind :=
  match ops with
  | [] => []
  | Connect :: r => KConnect :: proj r
  | Send :: r => KSend :: proj r
  | SendB :: r => KSendB :: proj r
  | Recv :: r => KRecv :: proj r
  | _ :: r => proj r
  end.

Definition block (t k : nat) (ops : list lop) : list event := map (mk_event t k) (proj ops).

(* a sequence of operations of one thread with nobody else moving *)
Fixpoint run_ops (re : bool) (t k : nat) (s : shared) (l : local) (ops : list lop) : option (shared * local) :=
  match ops with
  | [] => Some (s, l)
  | o :: r => match exec_op re t k s l o with
              | Some (s', l') => run_ops re t k s' l' r
              | None => None
              end
  end.

(* unrolling the retry loop n times *)
Fixpoint repeat_ops (n : nat) (body : list lop) : list lop :=
  match n with O => [] | S m => body ++ repeat_ops m body end.
