#!/bin/bash
# tools/seedverify.sh <seed worktree out/N dir>  — confirm a seeded change: applies, demo passes clean / fails patched, baseline tests unchanged
o="$(readlink -f "$1")"; w="$(dirname "$(dirname "$o")")"
cd "$w" || exit 2
git checkout -q -- . 2>/dev/null
echo -n "clean demo: "; PYTHONPATH="$w" timeout 300 /venv/bin/python "$o/demo.py" >/dev/null 2>&1; echo "exit=$?"
git apply "$o/patch.diff" || { echo "PATCH DOES NOT APPLY"; exit 2; }
echo -n "patched demo: "; PYTHONPATH="$w" timeout 300 /venv/bin/python "$o/demo.py" >/dev/null 2>&1; echo "exit=$?"
PYTHONPATH="$w" /venv/bin/python -m pytest -ra -q -p no:cacheprovider --timeout=900 --continue-on-collection-errors --junitxml=/tmp/sv_$$.xml >/dev/null 2>&1
/venv/bin/python - /tmp/sv_$$.xml <<'PY'
import json, sys, xml.etree.ElementTree as ET
b=json.load(open('/root/.vp/BASELINE.json'))
passed=set()
for tc in ET.parse(sys.argv[1]).iter('testcase'):
    if not any(c.tag in ('failure','error','skipped') for c in tc):
        passed.add(tc.get('classname')+'::'+tc.get('name'))
miss=[x for x in b['stable_pass'] if x not in passed]
print("baseline with patch: %d/%d stable tests pass; missing: %s" % (len(b['stable_pass'])-len(miss), len(b['stable_pass']), miss[:5]))
PY
rm -f /tmp/sv_$$.xml
git checkout -q -- .
