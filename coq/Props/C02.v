(* Props/C02.v — placeholder while the harness is being brought up (replaced below). *)
From PM.theories Require Import Base Struct PduCls PduSpec Pdu.
From PM.Generated Require Import GenPdu.
Open Scope list_scope.
Open Scope Z_scope.

Theorem C02_layouts_symmetric : enc_layouts = dec_layouts.
Proof. reflexivity. Qed.
Print Assumptions C02_layouts_symmetric.
