(* PduSpec.v — SPEC SIDE of C01/C02.  The PDUs of the MODBUS Application Protocol
   Specification v1.1b3, section 6, transcribed from the request/response tables of each
   function code.  Independent of the pymodbus code and of the code-shaped model (Pdu.v): no
   objects, no struct formats, no classes; only messages and bytes.  Short enough to be read
   against the PDF.

   Conventions (v1.1b3 section 4.2, 6.x):  16-bit fields are sent high byte first;
   a "byte count" is the number of data bytes that follow it; coil/discrete status is packed
   one bit per coil, the first coil in the least significant bit of the first data byte,
   later coils toward the high-order end and then in the following bytes, the last byte
   zero-padded toward its high-order end; an exception response is function code + 0x80
   followed by one exception code byte.

   Fields are [Z]; [spec_wf] says when a message fits its wire widths (then [spec_pdu] is
   the PDU the specification defines; outside it no PDU exists).  No proofs here. *)
From PM.theories Require Import Base PduCls.
Open Scope list_scope.
Open Scope Z_scope.

(* ---- primitive encodings ---------------------------------------------------------- *)

Definition u8 (v : Z) : bytes := [Z.to_N v].
Definition u16 (v : Z) : bytes := [Z.to_N (v / 256); Z.to_N (v mod 256)].   (* high byte first *)
Definition is_u8 (v : Z) : bool := (0 <=? v) && (v <? 256).
Definition is_u16 (v : Z) : bool := (0 <=? v) && (v <? 65536).
Definition words (l : list Z) : bytes := flat_map u16 l.
Definition len {A} (l : list A) : Z := Z.of_nat (length l).

(* value of a group of at most 8 bits, first bit = least significant; missing bits are 0 *)
Fixpoint bits_value (bs : list bool) : N :=
  match bs with
  | [] => 0
  | b :: t => ((if b then 1 else 0) + 2 * bits_value t)%N
  end.

(* section 6.1: one byte per group of 8 coils, last group zero padded *)
Fixpoint spec_pack_bits (bs : list bool) : bytes :=
  match bs with
  | [] => []
  | b0 :: b1 :: b2 :: b3 :: b4 :: b5 :: b6 :: b7 :: t =>
      bits_value [b0; b1; b2; b3; b4; b5; b6; b7] :: spec_pack_bits t
  | _ => [bits_value bs]
  end.

Definition byte_bits (b : N) : list bool :=
  [N.testbit b 0; N.testbit b 1; N.testbit b 2; N.testbit b 3;
   N.testbit b 4; N.testbit b 5; N.testbit b 6; N.testbit b 7].
Definition spec_unpack_bits (bs : bytes) : list bool := flat_map byte_bits bs.

(* N = quantity / 8, plus 1 if the remainder is not 0 *)
Definition bit_byte_count (n : Z) : Z := (n + 7) / 8.

(* ---- messages ----------------------------------------------------------------------- *)

(* file record sub-requests (6.14 / 6.15); the reference type is always 6 *)
Record sub_read := { sr_file : Z; sr_record : Z; sr_length : Z }.
Record sub_write := { sw_file : Z; sw_record : Z; sw_data : list Z }.   (* data: 16-bit registers *)

Inductive msg :=
(* requests *)
| MReadCoilsReq (addr qty : Z)                     (* 6.1 *)
| MReadDiscreteReq (addr qty : Z)                  (* 6.2 *)
| MReadHoldingReq (addr qty : Z)                   (* 6.3 *)
| MReadInputReq (addr qty : Z)                     (* 6.4 *)
| MWriteCoilReq (addr : Z) (on : bool)             (* 6.5  value 0xFF00 / 0x0000 *)
| MWriteRegReq (addr value : Z)                    (* 6.6 *)
| MReadExcStatusReq                                (* 6.7 *)
| MDiagReq (sub : Z) (data : list Z)               (* 6.8  sub-function + N x 2 bytes of data *)
| MCommEventCounterReq                             (* 6.9 *)
| MCommEventLogReq                                 (* 6.10 *)
| MWriteCoilsReq (addr : Z) (coils : list bool)    (* 6.11 quantity = number of coils *)
| MWriteRegsReq (addr : Z) (regs : list Z)         (* 6.12 *)
| MReportSlaveIdReq                                (* 6.13 *)
| MReadFileReq (subs : list sub_read)              (* 6.14 *)
| MWriteFileReq (subs : list sub_write)            (* 6.15 *)
| MMaskWriteReq (addr and_mask or_mask : Z)        (* 6.16 *)
| MReadWriteRegsReq (raddr rqty waddr : Z) (wregs : list Z)   (* 6.17 *)
| MReadFifoReq (addr : Z)                          (* 6.18 *)
| MReadDevIdReq (code object_id : Z)               (* 6.21  MEI type 14 *)
(* responses *)
| MReadCoilsRsp (coils : list bool)
| MReadDiscreteRsp (inputs : list bool)
| MReadHoldingRsp (regs : list Z)
| MReadInputRsp (regs : list Z)
| MWriteCoilRsp (addr : Z) (on : bool)
| MWriteRegRsp (addr value : Z)
| MReadExcStatusRsp (status : Z)
| MDiagRsp (sub : Z) (data : list Z)
| MCommEventCounterRsp (busy : bool) (count : Z)   (* status word 0xFFFF while busy, else 0 *)
| MCommEventLogRsp (busy : bool) (event_count message_count : Z) (events : list Z)
| MWriteCoilsRsp (addr qty : Z)
| MWriteRegsRsp (addr qty : Z)
| MReportSlaveIdRsp (id : bytes) (running : bool)  (* slave id, run indicator 0xFF / 0x00 *)
| MReadFileRsp (subs : list (list Z))              (* per sub-response: the register data *)
| MWriteFileRsp (subs : list sub_write)            (* echo of the request *)
| MMaskWriteRsp (addr and_mask or_mask : Z)
| MReadWriteRegsRsp (regs : list Z)
| MReadFifoRsp (regs : list Z)
| MReadDevIdRsp (code conformity more next : Z) (objects : list (Z * bytes))
(* exception response, any function code 1..127 *)
| MException (fc code : Z).

(* ---- the PDU of a message (function code first) --------------------------------------- *)

Definition on_word (b : bool) : bytes := if b then [255; 0]%N else [0; 0]%N.
Definition busy_word (b : bool) : bytes := if b then [255; 255]%N else [0; 0]%N.

Definition sub_read_bytes (s : sub_read) : bytes :=
  [6%N] ++ u16 (sr_file s) ++ u16 (sr_record s) ++ u16 (sr_length s).
Definition sub_write_bytes (s : sub_write) : bytes :=
  [6%N] ++ u16 (sw_file s) ++ u16 (sw_record s) ++ u16 (len (sw_data s)) ++ words (sw_data s).
Definition sub_write_size (s : sub_write) : Z := 7 + 2 * len (sw_data s).
(* read-file sub-response: length byte (reference type + data), reference type 6, data *)
Definition sub_resp_bytes (d : list Z) : bytes := u8 (1 + 2 * len d) ++ [6%N] ++ words d.
Definition sub_resp_size (d : list Z) : Z := 2 + 2 * len d.
Definition object_bytes (o : Z * bytes) : bytes := u8 (fst o) ++ u8 (len (snd o)) ++ snd o.

Definition zsum (l : list Z) : Z := fold_right Z.add 0 l.

Definition spec_pdu (m : msg) : bytes :=
  match m with
  | MReadCoilsReq a q => [1%N] ++ u16 a ++ u16 q
  | MReadDiscreteReq a q => [2%N] ++ u16 a ++ u16 q
  | MReadHoldingReq a q => [3%N] ++ u16 a ++ u16 q
  | MReadInputReq a q => [4%N] ++ u16 a ++ u16 q
  | MWriteCoilReq a on => [5%N] ++ u16 a ++ on_word on
  | MWriteRegReq a v => [6%N] ++ u16 a ++ u16 v
  | MReadExcStatusReq => [7%N]
  | MDiagReq s d => [8%N] ++ u16 s ++ words d
  | MCommEventCounterReq => [11%N]
  | MCommEventLogReq => [12%N]
  | MWriteCoilsReq a cs => [15%N] ++ u16 a ++ u16 (len cs) ++ u8 (bit_byte_count (len cs)) ++ spec_pack_bits cs
  | MWriteRegsReq a rs => [16%N] ++ u16 a ++ u16 (len rs) ++ u8 (2 * len rs) ++ words rs
  | MReportSlaveIdReq => [17%N]
  | MReadFileReq ss => [20%N] ++ u8 (7 * len ss) ++ flat_map sub_read_bytes ss
  | MWriteFileReq ss => [21%N] ++ u8 (zsum (map sub_write_size ss)) ++ flat_map sub_write_bytes ss
  | MMaskWriteReq a am om => [22%N] ++ u16 a ++ u16 am ++ u16 om
  | MReadWriteRegsReq ra rq wa ws =>
      [23%N] ++ u16 ra ++ u16 rq ++ u16 wa ++ u16 (len ws) ++ u8 (2 * len ws) ++ words ws
  | MReadFifoReq a => [24%N] ++ u16 a
  | MReadDevIdReq c o => [43%N; 14%N] ++ u8 c ++ u8 o
  | MReadCoilsRsp cs => [1%N] ++ u8 (bit_byte_count (len cs)) ++ spec_pack_bits cs
  | MReadDiscreteRsp cs => [2%N] ++ u8 (bit_byte_count (len cs)) ++ spec_pack_bits cs
  | MReadHoldingRsp rs => [3%N] ++ u8 (2 * len rs) ++ words rs
  | MReadInputRsp rs => [4%N] ++ u8 (2 * len rs) ++ words rs
  | MWriteCoilRsp a on => [5%N] ++ u16 a ++ on_word on
  | MWriteRegRsp a v => [6%N] ++ u16 a ++ u16 v
  | MReadExcStatusRsp s => [7%N] ++ u8 s
  | MDiagRsp s d => [8%N] ++ u16 s ++ words d
  | MCommEventCounterRsp busy c => [11%N] ++ busy_word busy ++ u16 c
  | MCommEventLogRsp busy ec mc evs =>
      [12%N] ++ u8 (6 + len evs) ++ busy_word busy ++ u16 ec ++ u16 mc ++ flat_map u8 evs
  | MWriteCoilsRsp a q => [15%N] ++ u16 a ++ u16 q
  | MWriteRegsRsp a q => [16%N] ++ u16 a ++ u16 q
  | MReportSlaveIdRsp id run => [17%N] ++ u8 (len id + 1) ++ id ++ [if run then 255%N else 0%N]
  | MReadFileRsp ds => [20%N] ++ u8 (zsum (map sub_resp_size ds)) ++ flat_map sub_resp_bytes ds
  | MWriteFileRsp ss => [21%N] ++ u8 (zsum (map sub_write_size ss)) ++ flat_map sub_write_bytes ss
  | MMaskWriteRsp a am om => [22%N] ++ u16 a ++ u16 am ++ u16 om
  | MReadWriteRegsRsp rs => [23%N] ++ u8 (2 * len rs) ++ words rs
  | MReadFifoRsp rs => [24%N] ++ u16 (2 + 2 * len rs) ++ u16 (len rs) ++ words rs
  | MReadDevIdRsp c cf more next objs =>
      [43%N; 14%N] ++ u8 c ++ u8 cf ++ u8 more ++ u8 next ++ u8 (len objs) ++ flat_map object_bytes objs
  | MException fc code => [Z.to_N (fc + 128); Z.to_N code]
  end.

(* ---- well-formedness: every field fits the width the table gives it -------------------- *)

Definition all_u16 (l : list Z) : bool := forallb is_u16 l.
Definition all_u8 (l : list Z) : bool := forallb is_u8 l.

Definition sub_read_wf (s : sub_read) : bool := is_u16 (sr_file s) && is_u16 (sr_record s) && is_u16 (sr_length s).
Definition sub_write_wf (s : sub_write) : bool :=
  is_u16 (sw_file s) && is_u16 (sw_record s) && is_u16 (len (sw_data s)) && all_u16 (sw_data s).
Definition object_wf (o : Z * bytes) : bool := is_u8 (fst o) && is_u8 (len (snd o)) && wfb (snd o).

Definition spec_wf (m : msg) : bool :=
  match m with
  | MReadCoilsReq a q | MReadDiscreteReq a q | MReadHoldingReq a q | MReadInputReq a q
  | MWriteRegReq a q | MWriteRegRsp a q | MWriteCoilsRsp a q | MWriteRegsRsp a q => is_u16 a && is_u16 q
  | MWriteCoilReq a _ | MWriteCoilRsp a _ | MReadFifoReq a => is_u16 a
  | MReadExcStatusReq | MCommEventCounterReq | MCommEventLogReq | MReportSlaveIdReq => true
  | MDiagReq s d | MDiagRsp s d => is_u16 s && all_u16 d
  | MWriteCoilsReq a cs => is_u16 a && is_u16 (len cs) && is_u8 (bit_byte_count (len cs))
  | MWriteRegsReq a rs => is_u16 a && is_u8 (2 * len rs) && all_u16 rs
  | MReadFileReq ss => is_u8 (7 * len ss) && forallb sub_read_wf ss
  | MWriteFileReq ss | MWriteFileRsp ss => is_u8 (zsum (map sub_write_size ss)) && forallb sub_write_wf ss
  | MMaskWriteReq a am om | MMaskWriteRsp a am om => is_u16 a && is_u16 am && is_u16 om
  | MReadWriteRegsReq ra rq wa ws => is_u16 ra && is_u16 rq && is_u16 wa && is_u8 (2 * len ws) && all_u16 ws
  | MReadDevIdReq c o => is_u8 c && is_u8 o
  | MReadCoilsRsp cs | MReadDiscreteRsp cs => is_u8 (bit_byte_count (len cs))
  | MReadHoldingRsp rs | MReadInputRsp rs | MReadWriteRegsRsp rs => is_u8 (2 * len rs) && all_u16 rs
  | MReadExcStatusRsp s => is_u8 s
  | MCommEventCounterRsp _ c => is_u16 c
  | MCommEventLogRsp _ ec mc evs => is_u16 ec && is_u16 mc && is_u8 (6 + len evs) && all_u8 evs
  | MReportSlaveIdRsp id _ => is_u8 (len id + 1) && wfb id
  | MReadFileRsp ds => is_u8 (zsum (map sub_resp_size ds)) && forallb (fun d => is_u8 (1 + 2 * len d) && all_u16 d) ds
  | MReadFifoRsp rs => is_u16 (2 + 2 * len rs) && all_u16 rs
  | MReadDevIdRsp c cf more next objs =>
      is_u8 c && is_u8 cf && is_u8 more && is_u8 next && is_u8 (len objs) && forallb object_wf objs
  | MException fc code => (1 <=? fc) && (fc <? 128) && is_u8 code
  end.

(* ---- equality of messages, bit lists "up to zero padding to a byte boundary" ------------ *)

Definition beqb := Bool.eqb.
(* [a] equals [b] followed by fewer than 8 [false] (the padding the wire carries) *)
Fixpoint bits_upto_pad (b a : list bool) : bool :=
  match b, a with
  | [], pad => (Nat.ltb (length pad) 8) && forallb negb pad
  | x :: b', y :: a' => beqb x y && bits_upto_pad b' a'
  | _ :: _, [] => false
  end.

Definition zl_eqb := list_eqb Z.eqb.
Definition bytes_eqb := list_eqb N.eqb.
Definition sub_read_eqb (x y : sub_read) : bool :=
  (sr_file x =? sr_file y) && (sr_record x =? sr_record y) && (sr_length x =? sr_length y).
Definition sub_write_eqb (x y : sub_write) : bool :=
  (sw_file x =? sw_file y) && (sw_record x =? sw_record y) && zl_eqb (sw_data x) (sw_data y).
Definition object_eqb (x y : Z * bytes) : bool := (fst x =? fst y) && bytes_eqb (snd x) (snd y).

(* [msg_matches m d]: the decoded message [d] carries exactly the fields of the wire message [m];
   for read-bits responses the decoded list may carry the wire's zero padding *)
Definition msg_matches (m d : msg) : bool :=
  match m, d with
  | MReadCoilsReq a q, MReadCoilsReq a' q' | MReadDiscreteReq a q, MReadDiscreteReq a' q'
  | MReadHoldingReq a q, MReadHoldingReq a' q' | MReadInputReq a q, MReadInputReq a' q'
  | MWriteRegReq a q, MWriteRegReq a' q' | MWriteRegRsp a q, MWriteRegRsp a' q'
  | MWriteCoilsRsp a q, MWriteCoilsRsp a' q' | MWriteRegsRsp a q, MWriteRegsRsp a' q' => (a =? a') && (q =? q')
  | MWriteCoilReq a o, MWriteCoilReq a' o' | MWriteCoilRsp a o, MWriteCoilRsp a' o' => (a =? a') && beqb o o'
  | MReadFifoReq a, MReadFifoReq a' => a =? a'
  | MReadExcStatusReq, MReadExcStatusReq | MCommEventCounterReq, MCommEventCounterReq
  | MCommEventLogReq, MCommEventLogReq | MReportSlaveIdReq, MReportSlaveIdReq => true
  | MDiagReq s d0, MDiagReq s' d' | MDiagRsp s d0, MDiagRsp s' d' => (s =? s') && zl_eqb d0 d'
  | MWriteCoilsReq a cs, MWriteCoilsReq a' cs' => (a =? a') && list_eqb beqb cs cs'
  | MWriteRegsReq a rs, MWriteRegsReq a' rs' => (a =? a') && zl_eqb rs rs'
  | MReadFileReq ss, MReadFileReq ss' => list_eqb sub_read_eqb ss ss'
  | MWriteFileReq ss, MWriteFileReq ss' | MWriteFileRsp ss, MWriteFileRsp ss' => list_eqb sub_write_eqb ss ss'
  | MMaskWriteReq a x y, MMaskWriteReq a' x' y' | MMaskWriteRsp a x y, MMaskWriteRsp a' x' y' =>
      (a =? a') && (x =? x') && (y =? y')
  | MReadWriteRegsReq ra rq wa ws, MReadWriteRegsReq ra' rq' wa' ws' =>
      (ra =? ra') && (rq =? rq') && (wa =? wa') && zl_eqb ws ws'
  | MReadDevIdReq c o, MReadDevIdReq c' o' => (c =? c') && (o =? o')
  | MReadCoilsRsp cs, MReadCoilsRsp cs' | MReadDiscreteRsp cs, MReadDiscreteRsp cs' => bits_upto_pad cs cs'
  | MReadHoldingRsp rs, MReadHoldingRsp rs' | MReadInputRsp rs, MReadInputRsp rs'
  | MReadWriteRegsRsp rs, MReadWriteRegsRsp rs' | MReadFifoRsp rs, MReadFifoRsp rs' => zl_eqb rs rs'
  | MReadExcStatusRsp s, MReadExcStatusRsp s' => s =? s'
  | MCommEventCounterRsp b c, MCommEventCounterRsp b' c' => beqb b b' && (c =? c')
  | MCommEventLogRsp b ec mc evs, MCommEventLogRsp b' ec' mc' evs' =>
      beqb b b' && (ec =? ec') && (mc =? mc') && zl_eqb evs evs'
  | MReportSlaveIdRsp id r, MReportSlaveIdRsp id' r' => bytes_eqb id id' && beqb r r'
  | MReadFileRsp ds, MReadFileRsp ds' => list_eqb zl_eqb ds ds'
  | MReadDevIdRsp c cf mo nx objs, MReadDevIdRsp c' cf' mo' nx' objs' =>
      (c =? c') && (cf =? cf') && (mo =? mo') && (nx =? nx') && list_eqb object_eqb objs objs'
  | MException fc c, MException fc' c' => (fc =? fc') && (c =? c')
  | _, _ => false
  end.

(* ---- which message class a PDU is (names of the pymodbus classes are used as the names of the
   specification's message types; the tables themselves are transcribed from section 6) ----------- *)

(* ---- dispatch: which class the specification assigns to a function / sub-function code ---- *)

Definition spec_request_class (fc : Z) : option cls :=
  if fc =? 1 then Some ReadCoilsRequest else if fc =? 2 then Some ReadDiscreteInputsRequest else
  if fc =? 3 then Some ReadHoldingRegistersRequest else if fc =? 4 then Some ReadInputRegistersRequest else
  if fc =? 5 then Some WriteSingleCoilRequest else if fc =? 6 then Some WriteSingleRegisterRequest else
  if fc =? 7 then Some ReadExceptionStatusRequest else if fc =? 8 then Some DiagnosticStatusRequest else
  if fc =? 11 then Some GetCommEventCounterRequest else if fc =? 12 then Some GetCommEventLogRequest else
  if fc =? 15 then Some WriteMultipleCoilsRequest else if fc =? 16 then Some WriteMultipleRegistersRequest else
  if fc =? 17 then Some ReportSlaveIdRequest else if fc =? 20 then Some ReadFileRecordRequest else
  if fc =? 21 then Some WriteFileRecordRequest else if fc =? 22 then Some MaskWriteRegisterRequest else
  if fc =? 23 then Some ReadWriteMultipleRegistersRequest else if fc =? 24 then Some ReadFifoQueueRequest else
  if fc =? 43 then Some ReadDeviceInformationRequest else None.

Definition spec_response_class (fc : Z) : option cls :=
  if fc =? 1 then Some ReadCoilsResponse else if fc =? 2 then Some ReadDiscreteInputsResponse else
  if fc =? 3 then Some ReadHoldingRegistersResponse else if fc =? 4 then Some ReadInputRegistersResponse else
  if fc =? 5 then Some WriteSingleCoilResponse else if fc =? 6 then Some WriteSingleRegisterResponse else
  if fc =? 7 then Some ReadExceptionStatusResponse else if fc =? 8 then Some DiagnosticStatusResponse else
  if fc =? 11 then Some GetCommEventCounterResponse else if fc =? 12 then Some GetCommEventLogResponse else
  if fc =? 15 then Some WriteMultipleCoilsResponse else if fc =? 16 then Some WriteMultipleRegistersResponse else
  if fc =? 17 then Some ReportSlaveIdResponse else if fc =? 20 then Some ReadFileRecordResponse else
  if fc =? 21 then Some WriteFileRecordResponse else if fc =? 22 then Some MaskWriteRegisterResponse else
  if fc =? 23 then Some ReadWriteMultipleRegistersResponse else if fc =? 24 then Some ReadFifoQueueResponse else
  if fc =? 43 then Some ReadDeviceInformationResponse else None.

(* section 6.8: diagnostic sub-functions 0-4, 10-18, 20; 19 and 21 are the (legacy) IOP overrun /
   Modbus Plus codes pymodbus registers as well; section 6.21: MEI type 14 under function 43 *)
Definition spec_request_subclass (fc sub : Z) : option cls :=
  if fc =? 8 then
    if sub =? 0 then Some ReturnQueryDataRequest else if sub =? 1 then Some RestartCommunicationsOptionRequest else
    if sub =? 2 then Some ReturnDiagnosticRegisterRequest else if sub =? 3 then Some ChangeAsciiInputDelimiterRequest else
    if sub =? 4 then Some ForceListenOnlyModeRequest else if sub =? 10 then Some ClearCountersRequest else
    if sub =? 11 then Some ReturnBusMessageCountRequest else if sub =? 12 then Some ReturnBusCommunicationErrorCountRequest else
    if sub =? 13 then Some ReturnBusExceptionErrorCountRequest else if sub =? 14 then Some ReturnSlaveMessageCountRequest else
    if sub =? 15 then Some ReturnSlaveNoResponseCountRequest else if sub =? 16 then Some ReturnSlaveNAKCountRequest else
    if sub =? 17 then Some ReturnSlaveBusyCountRequest else if sub =? 18 then Some ReturnSlaveBusCharacterOverrunCountRequest else
    if sub =? 19 then Some ReturnIopOverrunCountRequest else if sub =? 20 then Some ClearOverrunCountRequest else
    if sub =? 21 then Some GetClearModbusPlusRequest else None
  else if fc =? 43 then (if sub =? 14 then Some ReadDeviceInformationRequest else None)
  else None.

Definition spec_response_subclass (fc sub : Z) : option cls :=
  if fc =? 8 then
    if sub =? 0 then Some ReturnQueryDataResponse else if sub =? 1 then Some RestartCommunicationsOptionResponse else
    if sub =? 2 then Some ReturnDiagnosticRegisterResponse else if sub =? 3 then Some ChangeAsciiInputDelimiterResponse else
    if sub =? 4 then Some ForceListenOnlyModeResponse else if sub =? 10 then Some ClearCountersResponse else
    if sub =? 11 then Some ReturnBusMessageCountResponse else if sub =? 12 then Some ReturnBusCommunicationErrorCountResponse else
    if sub =? 13 then Some ReturnBusExceptionErrorCountResponse else if sub =? 14 then Some ReturnSlaveMessageCountResponse else
    if sub =? 15 then Some ReturnSlaveNoReponseCountResponse else if sub =? 16 then Some ReturnSlaveNAKCountResponse else
    if sub =? 17 then Some ReturnSlaveBusyCountResponse else if sub =? 18 then Some ReturnSlaveBusCharacterOverrunCountResponse else
    if sub =? 19 then Some ReturnIopOverrunCountResponse else if sub =? 20 then Some ClearOverrunCountResponse else
    if sub =? 21 then Some GetClearModbusPlusResponse else None
  else if fc =? 43 then (if sub =? 14 then Some ReadDeviceInformationResponse else None)
  else None.


(* the class a spec message must decode to *)
Definition spec_class (m : msg) : cls :=
  match m with
  | MReadCoilsReq _ _ => ReadCoilsRequest | MReadDiscreteReq _ _ => ReadDiscreteInputsRequest
  | MReadHoldingReq _ _ => ReadHoldingRegistersRequest | MReadInputReq _ _ => ReadInputRegistersRequest
  | MWriteCoilReq _ _ => WriteSingleCoilRequest | MWriteRegReq _ _ => WriteSingleRegisterRequest
  | MReadExcStatusReq => ReadExceptionStatusRequest
  | MDiagReq sub _ => match spec_request_subclass 8 sub with Some c => c | None => DiagnosticStatusRequest end
  | MCommEventCounterReq => GetCommEventCounterRequest | MCommEventLogReq => GetCommEventLogRequest
  | MWriteCoilsReq _ _ => WriteMultipleCoilsRequest | MWriteRegsReq _ _ => WriteMultipleRegistersRequest
  | MReportSlaveIdReq => ReportSlaveIdRequest | MReadFileReq _ => ReadFileRecordRequest
  | MWriteFileReq _ => WriteFileRecordRequest | MMaskWriteReq _ _ _ => MaskWriteRegisterRequest
  | MReadWriteRegsReq _ _ _ _ => ReadWriteMultipleRegistersRequest | MReadFifoReq _ => ReadFifoQueueRequest
  | MReadDevIdReq _ _ => ReadDeviceInformationRequest
  | MReadCoilsRsp _ => ReadCoilsResponse | MReadDiscreteRsp _ => ReadDiscreteInputsResponse
  | MReadHoldingRsp _ => ReadHoldingRegistersResponse | MReadInputRsp _ => ReadInputRegistersResponse
  | MWriteCoilRsp _ _ => WriteSingleCoilResponse | MWriteRegRsp _ _ => WriteSingleRegisterResponse
  | MReadExcStatusRsp _ => ReadExceptionStatusResponse
  | MDiagRsp sub _ => match spec_response_subclass 8 sub with Some c => c | None => DiagnosticStatusResponse end
  | MCommEventCounterRsp _ _ => GetCommEventCounterResponse | MCommEventLogRsp _ _ _ _ => GetCommEventLogResponse
  | MWriteCoilsRsp _ _ => WriteMultipleCoilsResponse | MWriteRegsRsp _ _ => WriteMultipleRegistersResponse
  | MReportSlaveIdRsp _ _ => ReportSlaveIdResponse | MReadFileRsp _ => ReadFileRecordResponse
  | MWriteFileRsp _ => WriteFileRecordResponse | MMaskWriteRsp _ _ _ => MaskWriteRegisterResponse
  | MReadWriteRegsRsp _ => ReadWriteMultipleRegistersResponse | MReadFifoRsp _ => ReadFifoQueueResponse
  | MReadDevIdRsp _ _ _ _ _ => ReadDeviceInformationResponse
  | MException _ _ => ExceptionResponse
  end.

(* ---- PDU sizes ----------------------------------------------------------------------------------
   [pdu_size m] is the number of bytes of [spec_pdu m] (proved in proofs/Pdu_size_proofs.v);
   [spec_limits m] are the quantity / byte-count limits section 6 states for each function code
   (they are what keeps a PDU within 253 bytes = 256-byte serial ADU minus address and CRC). *)

Definition pdu_size (m : msg) : Z :=
  match m with
  | MReadCoilsReq _ _ | MReadDiscreteReq _ _ | MReadHoldingReq _ _ | MReadInputReq _ _
  | MWriteCoilReq _ _ | MWriteRegReq _ _ | MWriteCoilRsp _ _ | MWriteRegRsp _ _
  | MWriteCoilsRsp _ _ | MWriteRegsRsp _ _ | MCommEventCounterRsp _ _ => 5
  | MReadExcStatusReq | MCommEventCounterReq | MCommEventLogReq | MReportSlaveIdReq => 1
  | MDiagReq _ d | MDiagRsp _ d => 3 + 2 * len d
  | MWriteCoilsReq _ cs => 6 + bit_byte_count (len cs)
  | MWriteRegsReq _ rs => 6 + 2 * len rs
  | MReadFileReq ss => 2 + 7 * len ss
  | MWriteFileReq ss | MWriteFileRsp ss => 2 + zsum (map sub_write_size ss)
  | MMaskWriteReq _ _ _ | MMaskWriteRsp _ _ _ => 7
  | MReadWriteRegsReq _ _ _ ws => 10 + 2 * len ws
  | MReadFifoReq _ => 3
  | MReadDevIdReq _ _ => 4
  | MReadCoilsRsp cs | MReadDiscreteRsp cs => 2 + bit_byte_count (len cs)
  | MReadHoldingRsp rs | MReadInputRsp rs | MReadWriteRegsRsp rs => 2 + 2 * len rs
  | MReadExcStatusRsp _ => 2
  | MCommEventLogRsp _ _ _ evs => 8 + len evs
  | MReportSlaveIdRsp id _ => 3 + len id
  | MReadFileRsp ds => 2 + zsum (map sub_resp_size ds)
  | MReadFifoRsp rs => 5 + 2 * len rs
  | MReadDevIdRsp _ _ _ _ objs => 7 + zsum (map (fun o => 2 + len (snd o)) objs)
  | MException _ _ => 2
  end.

Definition within (lo n hi : Z) : bool := (lo <=? n) && (n <=? hi).

Definition spec_limits (m : msg) : bool :=
  match m with
  | MReadCoilsReq _ q | MReadDiscreteReq _ q => within 1 q 2000          (* 6.1, 6.2 *)
  | MReadHoldingReq _ q | MReadInputReq _ q => within 1 q 125             (* 6.3, 6.4 *)
  | MReadCoilsRsp cs | MReadDiscreteRsp cs => within 1 (len cs) 2000
  | MReadHoldingRsp rs | MReadInputRsp rs | MReadWriteRegsRsp rs => within 1 (len rs) 125
  | MWriteCoilsReq _ cs => within 1 (len cs) 1968                          (* 6.11: 0x07B0 *)
  | MWriteCoilsRsp _ q => within 1 q 1968
  | MWriteRegsReq _ rs => within 1 (len rs) 123                            (* 6.12: 0x7B *)
  | MWriteRegsRsp _ q => within 1 q 123
  | MReadWriteRegsReq _ rq _ ws => within 1 rq 125 && within 1 (len ws) 121   (* 6.17 *)
  | MDiagReq _ d | MDiagRsp _ d => within 0 (len d) 125                    (* N x 2 bytes of data in a 253-byte PDU *)
  | MCommEventLogRsp _ _ _ evs => within 0 (len evs) 64                    (* 6.10: 0..64 events *)
  | MReportSlaveIdRsp id _ => within 0 (len id) 250
  | MReadFileReq ss => within 1 (len ss) 35                                (* 6.14: byte count 0x07..0xF5 *)
  | MReadFileRsp ds => within 7 (zsum (map sub_resp_size ds)) 245          (* 6.14: resp. data length 0x07..0xF5 *)
  | MWriteFileReq ss | MWriteFileRsp ss => within 9 (zsum (map sub_write_size ss)) 251   (* 6.15: 0x09..0xFB *)
  | MReadFifoRsp rs => within 0 (len rs) 31                                (* 6.18 *)
  | MReadDevIdRsp _ _ _ _ objs => within 0 (zsum (map (fun o => 2 + len (snd o)) objs)) 246
  | _ => true
  end.
