(* CorrAsync.v — harness side of C16: comparison of the model with what the real
   ModbusClientProtocol did on a history, and the PROPERTY oracle: an idealised client written
   from the property text (it knows nothing about tables, counters or framers; it sees the
   history, the tids observed on the transport and the observed firings). *)
From PM.theories Require Import Base AsyncClient.
Open Scope list_scope.
Open Scope N_scope.

Record acase := {
  c_variant : variant;
  c_ops : list aop;
  c_fired : list (N * outcome);     (* observed: (deferred, how it fired) in firing order *)
  c_sent : list (N * N);            (* observed: (deferred, tid in the bytes written) *)
  c_pending : list (N * N);         (* observed: table at the end: (tid filed under, deferred) *)
  c_conn : bool;                    (* observed: _connected at the end *)
  c_escaped : list pyexn }.         (* exceptions that escaped from protocol methods *)

Definition fired_eqb (a b : N * outcome) : bool := N.eqb (fst a) (fst b) && outcome_eqb (snd a) (snd b).
Definition nn_eqb (a b : N * N) : bool := N.eqb (fst a) (fst b) && N.eqb (snd a) (snd b).

Definition model_agrees (C : async_code) (c : acase) : bool :=
  let σ := arun C (c_variant c) (c_ops c) (init_state C) in
  list_eqb fired_eqb (a_fired σ) (c_fired c)
  && list_eqb nn_eqb (a_sent σ) (c_sent c)
  && list_eqb nn_eqb (a_pending σ) (c_pending c)
  && Bool.eqb (a_conn σ) (c_conn c)
  && match c_escaped c with [] => true | _ => false end.

(* ---- the idealised client ------------------------------------------------------------------ *)

Record sstate := {
  s_alloc : N;
  s_conn : bool;
  s_out : list (N * N);             (* outstanding: (deferred, tid observed on the wire), oldest first *)
  s_exp : list (N * outcome);       (* firings the property demands so far *)
  s_distinct : bool;                (* every request so far went out with a tid no outstanding request had *)
  s_rerr : list N;                  (* deferreds whose errback issues a new request *)
  s_rcb : list N }.                 (* deferreds whose callback issues a new request *)

Fixpoint take_tid (out : list (N * N)) (tid : N) : option (N * list (N * N)) :=
  match out with
  | [] => None
  | (d, t) :: r => if N.eqb t tid then Some (d, r)
                   else match take_tid r tid with Some (x, r') => Some (x, (d, t) :: r') | None => None end
  end.

Definition s_with (s : sstate) (alloc : N) (conn : bool) (out : list (N * N)) (exp : list (N * outcome))
                  (dist : bool) : sstate :=
  {| s_alloc := alloc; s_conn := conn; s_out := out; s_exp := exp; s_distinct := dist;
     s_rerr := s_rerr s; s_rcb := s_rcb s |}.

(* a request is issued: connected -> outstanding; not connected -> it must fail at once *)
Definition spec_exec (sent : list (N * N)) (s : sstate) : sstate :=
  let d := s_alloc s + 1 in
  match sent_tid sent d with
  | None => s_with s d (s_conn s) (s_out s) (s_exp s) false
  | Some t =>
      let fresh := negb (existsb (fun p => N.eqb (snd p) t) (s_out s)) in
      if s_conn s
      then s_with s d true (s_out s ++ [(d, t)]) (s_exp s) (s_distinct s && fresh)
      else s_with s d false (s_out s) (s_exp s ++ [(d, OErr ConnectionExc)]) (s_distinct s)
  end.

(* deferred d must fire with o; if the user code attached to it issues a request, that request is
   issued right then, under the connection state of that moment *)
Definition spec_fire (sent : list (N * N)) (s : sstate) (d : N) (o : outcome) : sstate :=
  let s1 := s_with s (s_alloc s) (s_conn s) (s_out s) (s_exp s ++ [(d, o)]) (s_distinct s) in
  if match o with OErr _ => memN d (s_rerr s) | OCb _ _ => memN d (s_rcb s) end
  then spec_exec sent s1 else s1.

Definition spec_exec_k (sent : list (N * N)) (s : sstate) (re rc : bool) : sstate :=
  let d := s_alloc s + 1 in
  let s0 := {| s_alloc := s_alloc s; s_conn := s_conn s; s_out := s_out s; s_exp := s_exp s;
               s_distinct := s_distinct s;
               s_rerr := if re then s_rerr s ++ [d] else s_rerr s;
               s_rcb := if rc then s_rcb s ++ [d] else s_rcb s |} in
  if s_conn s0 then spec_exec sent s0
  else match sent_tid sent d with
       | None => s_with s0 d false (s_out s0) (s_exp s0) false
       | Some _ => spec_fire sent (s_with s0 d false (s_out s0) (s_exp s0) (s_distinct s0)) d (OErr ConnectionExc)
       end.

Definition spec_frame (v : variant) (sent : list (N * N)) (s : sstate) (fr : N * N * N) : sstate :=
  let '(_, tid, rid) := fr in
  let hit := match v with
             | VDict => take_tid (s_out s) tid            (* the request that carried this tid *)
             | VFifo => match s_out s with (d, _) :: r => Some (d, r) | [] => None end
             end in                                      (* serial line: replies come in request order *)
  match hit with
  | Some (d, out') => spec_fire sent (s_with s (s_alloc s) (s_conn s) out' (s_exp s) (s_distinct s)) d (OCb tid rid)
  | None => s                                            (* unsolicited / duplicate: dropped *)
  end.

Definition spec_step (v : variant) (sent : list (N * N)) (s : sstate) (o : aop) : sstate :=
  match o with
  | Execute => spec_exec sent s
  | ExecuteE => spec_exec_k sent s true false
  | ExecuteC => spec_exec_k sent s false true
  | Segment frames => fold_left (spec_frame v sent) frames s
  | Lost =>     (* the connection is gone: every outstanding request fails with a connection error *)
      fold_left (fun s' p => spec_fire sent s' (fst p) (OErr ConnectionExc)) (s_out s)
                (s_with s (s_alloc s) false [] (s_exp s) (s_distinct s))
  | Made => s_with s (s_alloc s) true (s_out s) (s_exp s) (s_distinct s)
  | Close =>    (* the user closed the client: requests issued from now on must fail at once; what is
                   outstanding fails when the loss of the connection is reported *)
      s_with s (s_alloc s) false (s_out s) (s_exp s) (s_distinct s)
  | Skip n => s_with s (s_alloc s + n) (s_conn s) (s_out s) (s_exp s) (s_distinct s)
  end.

Definition spec_run (v : variant) (sent : list (N * N)) (ops : list aop) : sstate :=
  fold_left (spec_step v sent) ops
    {| s_alloc := 0; s_conn := false; s_out := []; s_exp := []; s_distinct := true; s_rerr := []; s_rcb := [] |}.

Definition count_fired (x : N * outcome) (l : list (N * outcome)) : nat :=
  length (filter (fired_eqb x) l).

(* every deferred fired exactly as often (0 or 1 times) and exactly how the property demands *)
Definition same_firings (obs exp : list (N * outcome)) : bool :=
  Nat.eqb (length obs) (length exp)
  && forallb (fun x => Nat.eqb (count_fired x obs) (count_fired x exp)) exp.

Fixpoint nodup_n (l : list N) : bool :=
  match l with [] => true | x :: r => negb (existsb (N.eqb x) r) && nodup_n r end.

Definition property_holds (c : acase) : bool :=
  let s := spec_run (c_variant c) (c_sent c) (c_ops c) in
  s_distinct s
  && same_firings (c_fired c) (s_exp s)
  && nodup_n (map fst (c_fired c))
  && forallb (fun p => N.ltb (snd p) 65536) (c_sent c)
  && match c_escaped c with [] => true | _ => false end.

Definition chk_async (C : async_code) (c : acase) : bool * bool :=
  (model_agrees C c, property_holds c).
