(* Props/C09.v — Server sends exactly one matching response per accepted request.
   ONLY statements; proofs are in proofs/Server_proofs.v.  Every theorem is about
   [Server.respond]/[Server.serve] interpreted on the handler skeletons that
   gen/gen_server.py regenerates from server/sync.py, server/async_io.py and
   server/asynchronous.py on every run ([GenServer.frontends]: sync tcp/udp/serial, asyncio
   tcp/udp, Twisted tcp/udp).  Quantification: any store type [S], any request list, any
   transaction/unit id and function code (unbounded Z), any hosted set (association list),
   every flag combination, any effect [rq_exec] (including one that raises).
   [all_fes] = all seven skeletons; [bcast_fes] = the five that have broadcast_enable;
   [gated_fes] = the six whose send() tests should_respond. *)
From PM.theories Require Import Base Server.
From PM.Generated Require Import GenServer.
From PM.proofs Require Import Server_proofs.
Open Scope list_scope.
Open Scope Z_scope.

(* handling one delivered request never lets an exception escape and sends at most one response *)
Theorem C09_at_most_one : forall S sk, In sk all_fes -> forall cfg (l : units S) (rq : dreq S),
  snd (respond S code sk cfg l rq) = None /\ (length (outs_of S sk cfg l rq) <= 1)%nat.
Proof. exact c09_at_most_one. Qed.
Print Assumptions C09_at_most_one.

(* what a served request list sends is, in request order, what each request sends on the
   stores its predecessors left behind — nothing else, nothing reordered *)
Theorem C09_one_response : forall S sk, In sk all_fes -> forall cfg (rqs : list (dreq S)) (l : units S),
  snd (serve S code sk cfg l rqs) = None /\
  snd (fst (serve S code sk cfg l rqs)) =
    concat (map (fun p => outs_of S sk cfg (fst p) (snd p)) (combine (states S sk cfg l rqs) rqs)).
Proof. exact serve_concat. Qed.
Print Assumptions C09_one_response.

(* a request to a hosted unit whose execute answers (or whose datastore fails) gets exactly one response:
   the returned message, or exception 04, with the request's ids *)
Theorem C09_responds : forall S sk, In sk all_fes -> forall cfg (l : units S) (rq : dreq S) s,
  is_bcast S sk cfg rq = false -> u_get S l (ctx_key code cfg (rq_uid rq)) = Some s ->
  match snd (rq_exec rq s) with Ok r => rs_respond r = true | Raise e => e <> NoSuchSlaveExc end ->
  outs_of S sk cfg l rq =
    [the_out S rq (match snd (rq_exec rq s) with Ok r => r | Raise _ => exc_of S rq 4 end)].
Proof. exact c09_responds. Qed.
Print Assumptions C09_responds.

(* every response carries the request's transaction id, unit id and sender; its function code is the
   request's | 0x80 (code 0x0B or 0x04) or the one request.execute returned *)
Theorem C09_echo : forall S sk, In sk all_fes -> forall cfg (l : units S) (rq : dreq S) o,
  In o (outs_of S sk cfg l rq) ->
  o_tid o = rq_tid rq /\ o_uid o = rq_uid rq /\ o_dest o = rq_dest rq /\
  ((o_fc o = Z.lor (rq_fc rq) 128 /\ (o_code o = Some 11 \/ o_code o = Some 4)) \/
   exists s s' r, rq_exec rq s = (s', Ok r) /\ o_fc o = rs_fc r /\ o_code o = rs_code r).
Proof. exact c09_echo. Qed.
Print Assumptions C09_echo.

(* … hence fc or fc|0x80 whenever request.execute itself answers with fc or fc|0x80 *)
Theorem C09_echo_fc : forall S sk, In sk all_fes -> forall cfg (l : units S) (rq : dreq S) o,
  (forall s s' r, rq_exec rq s = (s', Ok r) -> rs_fc r = rq_fc rq \/ rs_fc r = Z.lor (rq_fc rq) 128) ->
  In o (outs_of S sk cfg l rq) -> o_fc o = rq_fc rq \/ o_fc o = Z.lor (rq_fc rq) 128.
Proof. exact c09_echo_fc. Qed.
Print Assumptions C09_echo_fc.

(* silence: broadcast *)
Theorem C09_silence_broadcast : forall S sk, In sk bcast_fes -> forall cfg (l : units S) (rq : dreq S),
  cf_bcast cfg = true -> rq_uid rq = 0 -> outs_of S sk cfg l rq = [].
Proof. exact c09_silence_broadcast. Qed.
Print Assumptions C09_silence_broadcast.

(* silence: absent unit and ignore_missing_slaves (and nothing is executed) *)
Theorem C09_silence_missing : forall S sk, In sk all_fes -> forall cfg (l : units S) (rq : dreq S),
  is_bcast S sk cfg rq = false -> u_get S l (ctx_key code cfg (rq_uid rq)) = None -> cf_ignore cfg = true ->
  respond S code sk cfg l rq = (l, [], None).
Proof. exact c09_silence_missing. Qed.
Print Assumptions C09_silence_missing.

(* absent unit without ignore_missing_slaves: exactly the gateway exception 0x0B *)
Theorem C09_missing_answer : forall S sk, In sk all_fes -> forall cfg (l : units S) (rq : dreq S),
  is_bcast S sk cfg rq = false -> u_get S l (ctx_key code cfg (rq_uid rq)) = None -> cf_ignore cfg = false ->
  respond S code sk cfg l rq = (l, [the_out S rq (exc_of S rq 11)], None).
Proof. exact c09_missing_answer. Qed.
Print Assumptions C09_missing_answer.

(* silence: listen-only responses (should_respond = False), on every front-end whose send() tests it *)
Theorem C09_silence_listen_only : forall S sk, In sk gated_fes -> forall cfg (l : units S) (rq : dreq S) s s' r,
  is_bcast S sk cfg rq = false -> u_get S l (ctx_key code cfg (rq_uid rq)) = Some s ->
  rq_exec rq s = (s', Ok r) -> rs_respond r = false -> outs_of S sk cfg l rq = [].
Proof. exact c09_silence_listen_only. Qed.
Print Assumptions C09_silence_listen_only.

(* the same statement for ALL front-ends is false: Twisted UDP's _send has no should_respond test *)
Definition C09_silence_full_statement : Prop :=
  forall S sk, In sk all_fes -> forall cfg (l : units S) (rq : dreq S) s s' r,
  is_bcast S sk cfg rq = false -> u_get S l (ctx_key code cfg (rq_uid rq)) = Some s ->
  rq_exec rq s = (s', Ok r) -> rs_respond r = false -> outs_of S sk cfg l rq = [].

Theorem C09_silence_twisted_udp_refuted : ~ C09_silence_full_statement.
Proof. exact c09_silence_refuted. Qed.
Print Assumptions C09_silence_twisted_udp_refuted.

(* Twisted UDP (alive since /repo b36db33) answers a delivered request exactly like the asyncio datagram server with
   broadcast off — same stores, same response, same destination — unless request.execute returns a listen-only response *)
Theorem C09_twisted_udp_like_asyncio_udp : forall S cfg (l : units S) (rq : dreq S),
  cf_bcast cfg = false ->
  (forall s, match snd (rq_exec rq s) with Ok r => rs_respond r = true | Raise _ => True end) ->
  respond S code tw_udp cfg l rq = respond S code aio_udp cfg l rq.
Proof. exact c09_tw_udp_like_aio_udp. Qed.
Print Assumptions C09_twisted_udp_like_asyncio_udp.

(* nothing delivered, nothing sent; never more responses than requests *)
Theorem C09_no_spontaneous : forall S sk cfg (l : units S), serve S code sk cfg l [] = (l, [], None).
Proof. exact c09_no_spontaneous. Qed.
Print Assumptions C09_no_spontaneous.

Theorem C09_no_surplus : forall S sk, In sk all_fes -> forall cfg (rqs : list (dreq S)) (l : units S),
  (length (snd (fst (serve S code sk cfg l rqs))) <= length rqs)%nat.
Proof. exact serve_length. Qed.
Print Assumptions C09_no_surplus.

(* --- non-vacuity: a concrete three-request run on the generated sync TCP skeleton:
   a write to hosted unit 1, a request to absent unit 9, a listen-only request to unit 2 *)
Example C09_nonvacuous :
  let cfg := {| cf_single := false; cf_bcast := true; cf_ignore := false |} in
  let mk tid uid fc resp := {| rq_tid := tid; rq_uid := uid; rq_fc := fc; rq_dest := 0;
       rq_exec := fun s : Z => (s + 1, Ok {| rs_fc := fc; rs_respond := resp; rs_code := None |}) |} in
  In sync_tcp all_fes /\ In sync_tcp bcast_fes /\ In sync_tcp gated_fes /\
  serve Z code sync_tcp cfg [(1, 10); (2, 20)] [mk 4660 1 6 true; mk 7 9 3 true; mk 8 2 8 false] =
    ([(1, 11); (2, 21)],
     [{| o_tid := 4660; o_uid := 1; o_fc := 6; o_code := None; o_dest := 0 |};
      {| o_tid := 7; o_uid := 9; o_fc := 131; o_code := Some 11; o_dest := 0 |}], None).
Proof. vm_compute. repeat split; tauto. Qed.
