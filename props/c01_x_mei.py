"""C01 add-on: Read Device Identification responses, paged or not, are self-consistent on the wire (Props/C01_mei.v)."""
GENERATORS = ["pdu", "bits"]
PROP_FILES = ["C01_mei", "C01_bits"]
MANIFEST_ADD = {"text": "Add-on Props/C01_mei.v (C01_mei_wire_consistent): every Read Device Identification response the encoder "
                        "model emits - paged or not, scalar or list-valued objects - carries exactly as many objects as its "
                        "object-count byte says and nothing else; the same predicate judges what the real encoder emitted."
                        " Add-on Props/C01_bits.v: pack_bitstring / unpack_bitstring matched statement by statement, their "
                        "constants regenerated, the interpreter of the generated code proved equal to the spec's LSB-first packing.",
                "note": ""}


def suites(tier):
    return []
