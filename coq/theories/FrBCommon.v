(* FrBCommon.v — pieces shared by the RTU and binary framer models: Python slicing with
   negative indices, bytes.find, the decoder oracle, the unit filter, struct format strings,
   the RTU frame-size oracle (pdu.py calculateRtuFrameSize and its two overrides).
   No proofs here. *)
From PM.theories Require Import Base Expr Struct FrBCode Crc.
From PM.Generated Require Import GenFramerB.
Open Scope string_scope.
Open Scope list_scope.
Open Scope Z_scope.

(* ---- Python slicing l[lo:hi] (step 1), negative indices counted from the end, clamped *)
Definition norm_idx (n i : Z) : Z := if i <? 0 then Z.max (i + n) 0 else Z.min i n.

Definition pyslice {A} (l : list A) (lo hi : option Z) : list A :=
  let n := Z.of_nat (length l) in
  let a := match lo with Some i => norm_idx n i | None => 0 end in
  let b := match hi with Some i => norm_idx n i | None => n end in
  firstn (Z.to_nat (b - a)) (skipn (Z.to_nat a) l).

(* bytes.find(single byte): index of the first occurrence, -1 if absent *)
Fixpoint find_byte (b : N) (l : bytes) : Z :=
  match l with
  | [] => -1
  | x :: t => if N.eqb x b then 0 else let r := find_byte b t in if r <? 0 then -1 else r + 1
  end.

Definition e1 (k : string) (v : Z) (e : expr) : Z := eval (env_of [(k, v)]) e.

Definition zb (b : N) : Z := Z.of_N b.
Definition zlen {A} (l : list A) : Z := Z.of_nat (length l).

(* ---- the PDU decoder is outside the model: decoder.decode(pdu) is an oracle *)
Inductive dres := DMsg | DNone | DRaise (e : pyexn) | DMissing.

Definition bytes_eqb (a b : bytes) : bool := list_eqb N.eqb a b.

Fixpoint dec_of (tbl : list (bytes * dres)) (pdu : bytes) : dres :=
  match tbl with
  | [] => DMissing
  | (k, v) :: t => if bytes_eqb k pdu then v else dec_of t pdu
  end.

(* a delivery to the callback: the PDU bytes handed to decoder.decode and result.unit_id *)
Definition delivered := (bytes * Z)%type.

Inductive fexit := FOk | FExn (e : pyexn) | FOutOfFuel | FMissing.

Record fcfg := {
  cf_dec : bytes -> dres;            (* decoder.decode *)
  cf_rules : decoder_code;           (* decoder.lookupPduClass -> frame-size rule *)
  cf_units : list Z;                 (* `unit` argument, already a list *)
  cf_single : bool                   (* `single` keyword *)
}.

(* framer/__init__.py _validate_unit_id; [uid] is self._header['uid'] (None = key missing) *)
Definition validate_unit (cfg : fcfg) (uid : option Z) : res bool :=
  if cf_single cfg then Ok true
  else if existsb (Z.eqb 0) (cf_units cfg) || existsb (Z.eqb 255) (cf_units cfg) then Ok true
  else match uid with
       | Some u => Ok (existsb (Z.eqb u) (cf_units cfg))
       | None => Raise KeyError
       end.

(* ---- struct format strings as they appear in the source ('>BB', '>H') *)
Definition fmtc_of_ascii (c : Ascii.ascii) : option fmtc :=
  match Ascii.nat_of_ascii c with
  | 66%nat => Some FB | 98%nat => Some Fb | 72%nat => Some FH | 104%nat => Some Fh
  | 73%nat => Some FI | 105%nat => Some Fi | 81%nat => Some FQ | 113%nat => Some Fq
  | _ => None
  end.

Fixpoint fmtcs_of_string (s : string) : option (list fmtc) :=
  match s with
  | EmptyString => Some []
  | String c t =>
      match fmtc_of_ascii c, fmtcs_of_string t with
      | Some f, Some r => Some (f :: r)
      | _, _ => None
      end
  end.

(* (big-endian?, fields); only explicit byte orders are accepted *)
Definition parse_fmt (s : string) : option (bool * list fmtc) :=
  match s with
  | String c t =>
      match Ascii.nat_of_ascii c with
      | 62%nat | 33%nat => match fmtcs_of_string t with Some l => Some (true, l) | None => None end
      | 60%nat => match fmtcs_of_string t with Some l => Some (false, l) | None => None end
      | _ => None
      end
  | EmptyString => None
  end.

Definition pack_s (fmt : string) (vs : list Z) : res bytes :=
  match parse_fmt fmt with
  | Some (big, fs) => pack big fs vs
  | None => Raise StructError
  end.

Definition unpack_s (fmt : string) (bs : bytes) : res (list Z) :=
  match parse_fmt fmt with
  | Some (big, fs) => unpack big fs bs
  | None => Raise StructError
  end.

(* ---- RTU frame-size oracle *)

(* mei_message.py: while count > 0: _, n = unpack('>BB', buffer[size:size+2]); size += n + step *)
Fixpoint mei_loop (count : nat) (buffer : bytes) (size step : Z) : res Z :=
  match count with
  | O => Ok size
  | S k =>
      do l <- unpack_s ">BB" (pyslice buffer (Some size) (Some (size + 2)));
      match l with
      | [_; n] => mei_loop k buffer (size + (n + step)) step
      | _ => Raise StructError
      end
  end.

Definition frame_size (r : size_rule) (data : bytes) : res Z :=
  match r with
  | RFixed n => Ok n
  | RByteCount pos =>
      do b <- py_index data pos;
      Ok (eval (env_of [("byte2int(data[byte_count_pos])", zb b); ("byte_count_pos", pos)])
               (cc_rtu_size GenFramerB.crc))
  | RFifo hi lo e =>
      do h <- py_index data hi;
      do l <- py_index data lo;
      Ok (eval (env_of [("hi_byte", zb h); ("lo_byte", zb l)]) e)
  | RMei start cnt step tail =>
      do c <- py_index data cnt;
      do size <- mei_loop (N.to_nat c) data start step;
      Ok (size + tail)
  | RNone => Raise NotImplementedExc
  end.

(* self.__lookup = dict([(f.function_code, f) for f in table]).get(fc, default): last row wins *)
Fixpoint lookup_rows (rows : list class_row) (fc : Z) (acc : option size_rule) : option size_rule :=
  match rows with
  | [] => acc
  | r :: t => lookup_rows t fc (if cr_fc r =? fc then Some (cr_rule r) else acc)
  end.

Definition lookup_rule (dc : decoder_code) (fc : Z) : size_rule :=
  match lookup_rows (dc_classes dc) fc None with
  | Some r => r
  | None => dc_default dc
  end.

(* observation of _header, canonical for both framers: uid, len, crc (each None = key absent) *)
Definition ohdr := (option Z * option Z * option (list Z))%type.
