(* Frontends.v — executable model of the serving loops of the seven front-ends, interpreted
   from the generated skeletons ([fe_code]) over an ABSTRACT framer and an ABSTRACT request
   execution ([env]).  No proofs here.

   World  = everything the server shares between connections: the ModbusServerContext datastore
            and the ModbusControlBlock (ListenOnly flag, counters, identity).
   FS     = the state of one framer object (_buffer, _header).
   The framer is abstract but first-order: one processIncomingPacket call is described by its
   trace — the requests it hands to the callback, each with the framer state at that moment
   (the framers call advanceFrame before the callback), the state it ends in if every callback
   returns, and the exception it finally raises, if any.  The framers ignore the callback's
   return value, so this loses nothing. *)
From PM.theories Require Import Base Ladder.
Open Scope list_scope.
Open Scope Z_scope.

Section Model.
  Variables FS Req Resp World : Type.

  Record fargs := { fa_units : list Z; fa_single : bool }.

  Record env := {
    e_finit : FS;
    e_reset : FS -> FS;
    e_recv : fargs -> FS -> bytes -> list (FS * Req) * FS * option pyexn;
    e_slaves : World -> list Z;
    e_single : World -> bool;
    e_listen_only : World -> bool;
    (* context = ctx[unit]; response = request.execute(context): may raise (NoSuchSlaveExc for a
       missing unit, anything else from execute) and may have changed the world before raising *)
    e_run : World -> Z -> Req -> World * res Resp;
    e_uid : Req -> Z;
    e_doexc : Req -> N -> Resp;
    e_copy_tid : Resp -> Req -> Resp;
    e_copy_uid : Resp -> Req -> Resp;
    e_should_respond : Resp -> bool;
    e_count_bus : World -> World;
    e_build : Resp -> res bytes }.

  Record cfg := { cfg_broadcast : bool; cfg_ignore_missing : bool }.

  Variable C : fe_code.
  Variable E : env.

  (* ---- the execute/_execute + send/_send callback ------------------------------------- *)

  (* broadcast: execute on every hosted unit, stop at the first exception *)
  Fixpoint run_all (w : World) (us : list Z) (r : Req) (last : option Resp) : World * res (option Resp) :=
    match us with
    | [] => (w, Ok last)
    | u :: t => match e_run E w u r with
                | (w', Ok resp) => run_all w' t r (Some resp)
                | (w', Raise e) => (w', Raise e)
                end
    end.

  Inductive cb_result := CbSent (w : World) (out : list bytes) | CbRaised (w : World) (e : pyexn).

  Definition cb_world (c : cb_result) : World := match c with CbSent w _ => w | CbRaised w _ => w end.
  Definition cb_out (c : cb_result) : list bytes := match c with CbSent _ o => o | CbRaised _ _ => [] end.

  Definition send (X : exec_skel) (w : World) (resp : Resp) : cb_result :=
    if xs_send_checks_respond X && negb (e_should_respond E resp) then CbSent w []
    else let w' := if xs_counts_bus X then e_count_bus E w else w in
         match e_build E resp with
         | Ok bs => CbSent w' [bs]
         | Raise e => CbRaised w' e
         end.

  Definition tail (X : exec_skel) (bc : bool) (w : World) (r : Req) (resp : option Resp) : cb_result :=
    if xs_tail_guarded X && bc then CbSent w []
    else match resp with
         | None => CbRaised w OtherExc            (* UnboundLocalError: response never bound *)
         | Some p =>
             let p1 := if xs_copy_tid X then e_copy_tid E p r else p in
             let p2 := if xs_copy_uid X then e_copy_uid E p1 r else p1 in
             send X w p2
         end.

  Definition callback (X : exec_skel) (c : cfg) (w : World) (r : Req) : cb_result :=
    let bc := xs_broadcast X && cfg_broadcast c && (e_uid E r =? 0) in
    let '(w1, rr) := if bc then run_all w (e_slaves E w) r None
                     else match e_run E w (e_uid E r) r with
                          | (w', Ok p) => (w', Ok (Some p))
                          | (w', Raise e) => (w', Raise e)
                          end in
    match rr with
    | Ok resp => tail X bc w1 r resp
    | Raise e =>
        match first_match (xs_ladder X) (RPy e) with
        | None => CbRaised w1 e                                   (* escapes execute() *)
        | Some (XExc code) => tail X bc w1 r (Some (e_doexc E r code))
        | Some (XIgnoreOrExc code) =>
            if cfg_ignore_missing c then CbSent w1 []            (* `return`: no response at all *)
            else tail X bc w1 r (Some (e_doexc E r code))
        end
    end.

  (* run the callback over the delivered requests; stop at the first one that raises, leaving
     the framer in the state it had when it made that call *)
  Fixpoint deliver (X : exec_skel) (c : cfg) (w : World) (ds : list (FS * Req)) (ffinal : FS)
           (exn : option pyexn) (acc : list bytes) : World * FS * list bytes * option pyexn :=
    match ds with
    | [] => (w, ffinal, acc, exn)
    | (f, r) :: t =>
        match callback X c w r with
        | CbSent w' o => deliver X c w' t ffinal exn (acc ++ o)
        | CbRaised w' e => (w', f, acc, Some e)
        end
    end.

  (* ---- one activation of a handler ---------------------------------------------------- *)

  Inductive input := IData (bs : bytes) | ITimeout | ISockErr.

  Record connstate := { cs_f : FS; cs_running : bool; cs_closed : bool }.

  Definition fresh_conn : connstate := {| cs_f := e_finit E; cs_running := true; cs_closed := false |}.

  Definition prep_units (c : cfg) (us : list Z) : list Z :=
    if cfg_broadcast c && negb (existsb (Z.eqb 0) us) then us ++ [0] else us.

  Definition apply_action (L : loop_skel) (a : action) (f : FS) (cs : connstate) : connstate :=
    match a with
    | Continue => {| cs_f := f; cs_running := cs_running cs; cs_closed := cs_closed cs |}
    | Stop => {| cs_f := f; cs_running := false; cs_closed := cs_closed cs |}
    | StopReset => {| cs_f := e_reset E f; cs_running := false; cs_closed := cs_closed cs |}
    | ResetFrame => {| cs_f := e_reset E f; cs_running := cs_running cs; cs_closed := cs_closed cs |}
    | CloseTransport => {| cs_f := f; cs_running := cs_running cs; cs_closed := true |}
    | Escape => {| cs_f := f; cs_running := cs_running cs && negb (ls_loops L); cs_closed := cs_closed cs |}
    end.

  Definition is_empty (bs : bytes) : bool := match bs with [] => true | _ => false end.
  Definition empty_skips (L : loop_skel) : bool := match ls_empty L with EmptySkip => true | _ => false end.

  Definition units_for (L : loop_skel) (c : cfg) (w : World) (empty : bool) : list Z :=
    match ls_units L with
    | UnitsPrepared => prep_units c (e_slaves E w)
    | UnitsPreparedIfData => if empty then e_slaves E w else prep_units c (e_slaves E w)
    | _ => e_slaves E w
    end.

  Definition fargs_for (L : loop_skel) (c : cfg) (w : World) (empty : bool) : fargs :=
    {| fa_units := units_for L c w empty; fa_single := if ls_single L then e_single E w else false |}.

  (* the framer call and the callbacks it makes, then the ladder *)
  Definition serve_data (fe : frontend) (c : cfg) (w : World) (cs : connstate) (bs : bytes)
    : World * connstate * list bytes * action :=
    let L := fc_loop C fe in
    let X := fc_exec C fe in
    match ls_units L with
    | UnitsOmitted =>           (* processIncomingPacket() missing its `unit` argument *)
        let a := step_action L (is_empty bs) (Some (RPy TypeError)) in (w, apply_action L a (cs_f cs) cs, [], a)
    | _ =>
        let '(ds, ffinal, exn) := e_recv E (fargs_for L c w (is_empty bs)) (cs_f cs) bs in
        let '(w', f', outs, exn') := deliver X c w ds ffinal exn [] in
        let a := step_action L (is_empty bs) (option_map RPy exn') in
        (w', apply_action L a f' cs, outs, a)
    end.

  (* one loop iteration / reactor callback on the connection state [cs] *)
  Definition serve_step (fe : frontend) (c : cfg) (w : World) (cs : connstate) (i : input)
    : World * connstate * list bytes * action :=
    let L := fc_loop C fe in
    match pre_raise L with
    | Some e => let a := step_action L false (Some (RPy e)) in (w, apply_action L a (cs_f cs) cs, [], a)
    | None =>
    if ls_listen_gate L && e_listen_only E w then (w, cs, [], Continue) else
    match i with
    | ITimeout => let a := step_action L false (Some RTimeout) in (w, apply_action L a (cs_f cs) cs, [], a)
    | ISockErr => let a := step_action L false (Some RSockErr) in (w, apply_action L a (cs_f cs) cs, [], a)
    | IData bs => if is_empty bs && empty_skips L then (w, cs, [], Continue) else serve_data fe c w cs bs
    end
    end.

  (* ---- a server with several connections ---------------------------------------------- *)

  Record server := { sv_world : World; sv_conns : list (nat * connstate); sv_shared : connstate }.

  Definition fresh_server (w : World) : server :=
    {| sv_world := w; sv_conns := []; sv_shared := fresh_conn |}.

  Fixpoint conn_get (l : list (nat * connstate)) (k : nat) : option connstate :=
    match l with
    | [] => None
    | (j, s) :: t => if Nat.eqb j k then Some s else conn_get t k
    end.

  Fixpoint conn_put (l : list (nat * connstate)) (k : nat) (s : connstate) : list (nat * connstate) :=
    match l with
    | [] => [(k, s)]
    | (j, s0) :: t => if Nat.eqb j k then (j, s) :: t else (j, s0) :: conn_put t k s
    end.

  (* a new connection: connectionMade / setup() / connection_made *)
  Definition open_conn (sv : server) (k : nat) : server :=
    {| sv_world := sv_world sv; sv_conns := conn_put (sv_conns sv) k fresh_conn; sv_shared := sv_shared sv |}.

  (* which framer object serves connection/peer k *)
  Definition conn_state (fe : frontend) (sv : server) (k : nat) : connstate :=
    match ls_site (fc_loop C fe) with
    | PerConnection => match conn_get (sv_conns sv) k with Some s => s | None => fresh_conn end
    | PerDatagram => fresh_conn
    | PerServer => sv_shared sv
    end.

  (* the datagram handler of socketserver lives for one datagram: after its datagram it reads
     the (None) it left in self.request, i.e. one more iteration on empty data *)
  Definition serve_activation (fe : frontend) (c : cfg) (w : World) (cs : connstate) (i : input)
    : World * connstate * list bytes * action :=
    match ls_site (fc_loop C fe) with
    | PerDatagram =>
        let '(w1, cs1, o1, a1) := serve_step fe c w cs i in
        if continues a1 then
          let '(w2, cs2, o2, a2) := serve_step fe c w1 cs1 (IData []) in
          (w2, cs2, o1 ++ o2, match a1, a2 with ResetFrame, Stop => StopReset | _, _ => a2 end)
        else (w1, cs1, o1, a1)
    | _ => serve_step fe c w cs i
    end.

  Definition serve_event (fe : frontend) (c : cfg) (sv : server) (k : nat) (i : input)
    : server * list bytes * action :=
    let '(w', cs', outs, a) := serve_activation fe c (sv_world sv) (conn_state fe sv k) i in
    let sv' := match ls_site (fc_loop C fe) with
               | PerConnection => {| sv_world := w'; sv_conns := conn_put (sv_conns sv) k cs'; sv_shared := sv_shared sv |}
               | PerDatagram => {| sv_world := w'; sv_conns := sv_conns sv; sv_shared := sv_shared sv |}
               | PerServer => {| sv_world := w'; sv_conns := sv_conns sv; sv_shared := cs' |}
               end in
    (sv', outs, a).

  (* a whole history: events (connection, input); the log keeps, per event, the world it saw *)
  Record logrec := { lg_conn : nat; lg_world : World; lg_input : input; lg_out : list bytes; lg_action : action }.

  Fixpoint run_events (fe : frontend) (c : cfg) (sv : server) (evs : list (nat * input)) : server * list logrec :=
    match evs with
    | [] => (sv, [])
    | (k, i) :: t =>
        let '(sv', o, a) := serve_event fe c sv k i in
        let '(svf, lg) := run_events fe c sv' t in
        (svf, {| lg_conn := k; lg_world := sv_world sv; lg_input := i; lg_out := o; lg_action := a |} :: lg)
    end.

  (* one connection alone, fed its own inputs, against a GIVEN sequence of worlds *)
  Fixpoint run_alone (fe : frontend) (c : cfg) (cs : connstate) (l : list (World * input))
    : connstate * list (list bytes * action) :=
    match l with
    | [] => (cs, [])
    | (w, i) :: t =>
        let '(_, cs', o, a) := serve_activation fe c w cs i in
        let '(csf, r) := run_alone fe c cs' t in
        (csf, (o, a) :: r)
    end.

  (* one connection's stream of non-empty chunks on a server of its own *)
  Fixpoint run_conn (fe : frontend) (c : cfg) (w : World) (cs : connstate) (chunks : list bytes)
    : World * connstate * list bytes :=
    match chunks with
    | [] => (w, cs, [])
    | b :: t =>
        let '(w', cs', o, _) := serve_step fe c w cs (IData b) in
        let '(wf, csf, os) := run_conn fe c w' cs' t in
        (wf, csf, o ++ os)
    end.

End Model.

