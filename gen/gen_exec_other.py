"""GenExecOther.v — the execute() bodies of the request classes that do not touch the datastore.

Sources (fail closed on any unrecognised shape):
  other_message.py  ReadExceptionStatus / GetCommEventCounter / GetCommEventLog / ReportSlaveId requests
  diag_message.py   DiagnosticStatusRequest (has no execute) and every FC 8 class of
                    ServerDecoder.__sub_function_table; sub_function_code of every response class
  file_message.py   ReadFileRecord / WriteFileRecord / ReadFifoQueue requests
  device.py         ModbusCountersHandler property -> index table; the bodies of the control-block
                    methods the scripts call are compared with the shapes Device.v models
  constants.py      ModbusStatus.On/Off, ModbusPlusOperation.ClearStatistics
Emits PM.theories.ExecOther.ostmt scripts (data only); semantics is ExecOther.run_o.
"""
import ast
from . import core
from .core import Src, ExprTr, coq_z, coq_str, coq_list
from .gen_store import expect, norm, strip
from .gen_exec import find_class, class_const, find_method, imports_alias

OTHER = ["ReadExceptionStatusRequest", "GetCommEventCounterRequest", "GetCommEventLogRequest", "ReportSlaveIdRequest"]
FILES = ["ReadFileRecordRequest", "WriteFileRecordRequest", "ReadFifoQueueRequest"]
SLAVE_ID_IDIOM = ["information = DeviceInformationFactory.get(_MCB)",
                  "identifier = '-'.join(information.values()).encode()"]


def nbytes(b):
    return "[" + "; ".join("%d%%N" % x for x in b) + "]"


def body(fn):
    return [s for s in fn.body if not (core.is_docstring(s) or core.is_log_call(s))]


class OtherTr:
    def __init__(self, src, cls, counters, consts, exc_codes, all_srcs):
        self.src, self.cls, self.counters, self.all_srcs = src, cls, counters, all_srcs
        self.consts = dict(consts)
        c2 = dict(consts)
        c2.update({"merror." + k: v for k, v in exc_codes.items()})
        self.tr = ExprTr(src, {"self.message", "self.address", "len(self.values)"}, consts=c2)
        self.locals = set()
        self.dicts = {}
        self.resp = set()

    def fail(self, node, why):
        self.src.fail(node, "%s.execute: %s" % (self.cls.name, why))

    def dx(self, n):
        t = ast.unparse(n)
        if isinstance(n, ast.Constant):
            if n.value is None:
                return "XNone"
            if isinstance(n.value, bool):
                return "(XInt %d)" % int(n.value)
            if isinstance(n.value, int):
                return "(XInt %s)" % coq_z(n.value)
            self.fail(n, "unsupported constant %r" % (n.value,))
        if t in self.consts:
            return "(XInt %s)" % coq_z(self.consts[t])
        if t == "self.message":
            return "XMsg"
        if t == "self.records":
            return "XRecords"
        if t == "self.values":
            return "XValues"
        if isinstance(n, ast.List):
            if not n.elts:
                return "XEmptyList"
            if len(n.elts) == 1:
                return "(XList1 %s)" % self.dx(n.elts[0])
            self.fail(n, "list literal with several elements")
        if isinstance(n, ast.Name):
            if n.id in self.locals:
                return "(XVar %s)" % coq_str(n.id)
            self.fail(n, "unbound name %s" % n.id)
        if t == "_MCB.Counter.summary()":
            return "XSummary"
        if t == "_MCB.getEvents()":
            return "XEvents"
        if t == "pack_bitstring(_MCB.getDiagnosticRegister())":
            return "XDiagPacked"
        if t == "_MCB.Plus.encode()":
            return "XPlusEncode"
        if isinstance(n, ast.Attribute) and ast.unparse(n.value) == "_MCB.Counter":
            if n.attr not in self.counters:
                self.fail(n, "unknown counter %s" % n.attr)
            return "(XCounter %s)" % coq_str(n.attr)
        if isinstance(n, (ast.BinOp, ast.UnaryOp)):
            return "(XArith %s)" % self.tr.tr(n)
        self.fail(n, "unsupported expression %s" % t)

    def simple(self, st):
        """one simple statement -> sstmt text, or None"""
        if isinstance(st, ast.Assign) and len(st.targets) == 1:
            tg = st.targets[0]
            tt = ast.unparse(tg)
            if isinstance(tg, ast.Name):
                if isinstance(st.value, ast.Dict):
                    return None
                d = self.dx(st.value)
                self.locals.add(tg.id)
                return "TAssign %s %s" % (coq_str(tg.id), d)
            if tt == "_MCB.Delimiter":
                return "TSetDelimiter %s" % self.dx(st.value)
            if tt == "_MCB.ListenOnly":
                return "TSetListenOnly %s" % self.dx(st.value)
            if isinstance(tg, ast.Attribute) and ast.unparse(tg.value) == "_MCB.Counter":
                if tg.attr not in self.counters:
                    self.fail(st, "unknown counter %s" % tg.attr)
                return "TSetCounter %s %s" % (coq_str(tg.attr), self.dx(st.value))
            return None
        if isinstance(st, ast.AugAssign) and isinstance(st.op, ast.Add) and isinstance(st.target, ast.Name) \
                and st.target.id in self.locals:
            return "TExtend %s %s" % (coq_str(st.target.id), self.dx(st.value))
        if isinstance(st, ast.Expr):
            t = ast.unparse(st)
            if t == "_MCB.reset()":
                return "TReset"
            if t == "_MCB.Plus.reset()":
                return "TPlusReset"
        return None

    def translate(self, fn):
        names = [a.arg for a in fn.args.args]
        if names not in (["self"], ["self", "context"]) or fn.args.kwarg or fn.decorator_list:
            self.fail(fn, "unexpected signature")
        stmts = body(fn)
        out = []
        i = 0
        while i < len(stmts):
            st = stmts[i]
            last = i == len(stmts) - 1
            texts = [ast.unparse(s) for s in stmts[i:i + 3]]
            # the ReportSlaveId idiom
            if texts[:2] == SLAVE_ID_IDIOM and len(texts) == 3:
                third = stmts[i + 2]
                ok = isinstance(third, ast.Assign) and ast.unparse(third.targets[0]) == "identifier" \
                    and isinstance(third.value, ast.BoolOp) and isinstance(third.value.op, ast.Or) \
                    and len(third.value.values) == 2 and ast.unparse(third.value.values[0]) == "identifier" \
                    and isinstance(third.value.values[1], ast.Constant) and isinstance(third.value.values[1].value, bytes)
                if not ok:
                    self.fail(third, "ReportSlaveId idiom: expected `identifier = identifier or b'…'`")
                self.locals.add("identifier")
                out.append("TS (TAssign \"identifier\" (XSlaveId %s))" % nbytes(third.value.values[1].value))
                i += 3
                continue
            if isinstance(st, ast.Assign) and len(st.targets) == 1 and isinstance(st.targets[0], ast.Name) \
                    and isinstance(st.value, ast.Dict):
                items = []
                for k, v in zip(st.value.keys, st.value.values):
                    if not (isinstance(k, ast.Constant) and isinstance(k.value, str)):
                        self.fail(st, "dict literal with a non-string key")
                    items.append((k.value, self.dx(v)))
                self.dicts[st.targets[0].id] = items
                i += 1
                continue
            s = self.simple(st)
            if s is not None:
                out.append("TS (%s)" % s)
                i += 1
                continue
            if isinstance(st, ast.If):
                # guard
                if not st.orelse and len(st.body) == 1 and isinstance(st.body[0], ast.Return):
                    v = st.body[0].value
                    if isinstance(v, ast.Call) and ast.unparse(v.func) == "self.doException" and len(v.args) == 1 \
                            and ast.unparse(v.args[0]) in self.tr.consts and ast.unparse(v.args[0]).startswith("merror."):
                        out.append("TGuard %s %s" % (self.tr.tr_bool(st.test), coq_z(self.tr.consts[ast.unparse(v.args[0])])))
                        i += 1
                        continue
                    self.fail(st, "unsupported guard")
                # if a == b: simple* else: simple*
                t = st.test
                if isinstance(t, ast.Compare) and len(t.ops) == 1 and isinstance(t.ops[0], ast.Eq):
                    a, b = self.dx(t.left), self.dx(t.comparators[0])
                    before = set(self.locals)
                    th = [self.simple(x) for x in st.body]
                    self.locals = set(before) | self.locals
                    el = [self.simple(x) for x in st.orelse]
                    if None in th or None in el:
                        self.fail(st, "unsupported statement inside if/else")
                    out.append("TIfEq %s %s %s %s" % (a, b, coq_list(th), coq_list(el)))
                    i += 1
                    continue
                self.fail(st, "unsupported if statement")
            if isinstance(st, ast.Return):
                if not last:
                    self.fail(st, "return before the end")
                v = st.value
                if not (isinstance(v, ast.Call) and isinstance(v.func, ast.Name)):
                    self.fail(st, "expected `return ResponseClass(…)`")
                args = [("", self.dx(a)) for a in v.args]
                for kw in v.keywords:
                    if kw.arg is None:
                        if not (isinstance(kw.value, ast.Name) and kw.value.id in self.dicts):
                            self.fail(st, "**kwargs of an unknown dict")
                        args += self.dicts[kw.value.id]
                    else:
                        args.append((kw.arg, self.dx(kw.value)))
                s2, c2 = find_class(self.all_srcs, v.func.id)
                if c2 is None:
                    self.fail(st, "response class %s not found" % v.func.id)
                self.resp.add(v.func.id)
                out.append("TReturn %s %s" % (coq_str(v.func.id), coq_list("(%s, %s)" % (coq_str(k), d) for k, d in args)))
                i += 1
                continue
            if isinstance(st, ast.Raise) and last and isinstance(st.exc, ast.Call) \
                    and ast.unparse(st.exc.func) == "NotImplementedException":
                out.append("TRaise NotImplementedExc")
                i += 1
                continue
            self.fail(st, "unsupported statement: %s" % ast.unparse(st).split("\n")[0])
        if not stmts or not isinstance(stmts[-1], (ast.Return, ast.Raise)):
            self.fail(fn, "body does not end in return/raise")
        return out


def device_shapes(dev):
    """the control-block methods the scripts rely on must have the bodies Device.v models"""
    H, C, P = "ModbusCountersHandler", "ModbusControlBlock", "ModbusPlusStatistics"
    expect(dev, dev.func(H, "summary"),
           "count, result = 0x01, 0x00\nfor i in itervalues(self.__data):\n    if i != 0x00: result |= count\n"
           "    count <<= 1\nreturn result")
    expect(dev, dev.func(H, "reset"), "self.__data = dict([(i, 0x0000) for i in range(9)])")
    expect(dev, dev.func(C, "reset"),
           "self.__events = []\nself.__counters.reset()\nself.__diagnostic = [False] * 16")
    expect(dev, dev.func(C, "addEvent"),
           "self.__events.insert(0, event)\nself.__events = self.__events[0:64]\nself.Counter.Event += 1")
    expect(dev, dev.func(C, "getEvents"),
           "events = [event.encode() for event in self.__events]\nreturn b''.join(events)")
    expect(dev, dev.func(C, "_setListenOnly"), "self.__listen_only = bool(value)")
    expect(dev, dev.func(C, "_setDelimiter"),
           "if isinstance(char, str):\n    self.__delimiter = char.encode()\nif isinstance(char, bytes):\n"
           "    self.__delimiter = char\nelif isinstance(char, int):\n    self.__delimiter = int2byte(char)")
    expect(dev, dev.func(C, "getDiagnosticRegister"), "return self.__diagnostic")
    expect(dev, dev.func(P, "reset"),
           "for key in self.__data:\n    self.__data[key] = [0x00] * len(self.__data[key])")
    expect(dev, dev.func(P, "encode"),
           "total, values = [], sum(self.__data.values(), [])\nfor c in range(0, len(values), 2):\n"
           "    total.append((values[c] << 8) | values[c+1])\nreturn total")
    props = {}
    for n in dev.cls(C).body:
        if isinstance(n, ast.Assign) and isinstance(n.value, ast.Call) and ast.unparse(n.value.func) == "property":
            props[ast.unparse(n.targets[0])] = ast.unparse(n.value)
    want = {"Counter": "property(lambda s: s.__counters)", "Plus": "property(lambda s: s.__plus)",
            "ListenOnly": "property(lambda s: s.__listen_only, _setListenOnly)",
            "Delimiter": "property(lambda s: s.__delimiter, _setDelimiter)"}
    for k, v in want.items():
        if props.get(k) != v:
            dev.fail(dev.cls(C), "ModbusControlBlock.%s: expected %s" % (k, v))
    init = {}
    for n in dev.cls(C).body:
        if isinstance(n, ast.Assign) and isinstance(n.targets[0], ast.Name):
            init[n.targets[0].id] = ast.unparse(n.value)
    for k, v in {"__diagnostic": "[False] * 16", "__listen_only": "False", "__events": "[]"}.items():
        if init.get(k) != v:
            dev.fail(dev.cls(C), "ModbusControlBlock.%s initial value: expected %s" % (k, v))
    # counter property -> index
    counters = {}
    for n in dev.cls(H).body:
        if isinstance(n, ast.Assign) and isinstance(n.value, ast.Call) and ast.unparse(n.value.func) == "dict_property":
            a = n.value.args
            if len(a) != 2 or ast.unparse(a[0]) != "lambda s: s.__data":
                dev.fail(n, "dict_property over something else than __data")
            counters[n.targets[0].id] = core.const_int(dev, a[1])
    if sorted(counters.values()) != list(range(9)):
        dev.fail(dev.cls(H), "counter properties do not cover indices 0..8: %r" % counters)
    return counters


def generate():
    oth = Src("pymodbus/other_message.py")
    dia = Src("pymodbus/diag_message.py")
    fil = Src("pymodbus/file_message.py")
    dev = Src("pymodbus/device.py")
    cst = Src("pymodbus/constants.py")
    pdu = Src("pymodbus/pdu.py")
    fac = Src("pymodbus/factory.py")
    all_srcs = [oth, dia, fil]

    counters = device_shapes(dev)
    consts = {}
    for cls, names in (("ModbusStatus", ["On", "Off"]), ("ModbusPlusOperation", ["ClearStatistics", "GetStatistics"])):
        for nm in names:
            v = cst.class_attr(cls, nm)
            if v is None:
                cst.fail(cst.cls(cls), "%s.%s missing" % (cls, nm))
            consts["%s.%s" % (cls, nm)] = core.const_int(cst, v)
    exc_codes = {}
    for n in pdu.cls("ModbusExceptions").body:
        if isinstance(n, ast.Assign) and len(n.targets) == 1 and isinstance(n.targets[0], ast.Name):
            exc_codes[n.targets[0].id] = core.const_int(pdu, n.value)
    for s in (oth, dia):
        if "_MCB = ModbusControlBlock()" not in [ast.unparse(n) for n in s.mod.body if isinstance(n, ast.Assign)] \
                or "ModbusControlBlock" not in imports_alias(s, "pymodbus.device", "ModbusControlBlock"):
            s.fail(s.mod, "expected `_MCB = ModbusControlBlock()` from pymodbus.device")
    if imports_alias(fil, "pymodbus.pdu", "ModbusExceptions") != {"merror"}:
        fil.fail(fil.mod, "expected ModbusExceptions as merror")

    # the FC 8 classes the server decoder can switch to
    sub_table = None
    for n in fac.cls("ServerDecoder").body:
        if isinstance(n, ast.Assign) and ast.unparse(n.targets[0]) == "__sub_function_table":
            sub_table = [e.id for e in n.value.elts]
    if sub_table is None:
        fac.fail(fac.cls("ServerDecoder"), "__sub_function_table not found")
    diag = []
    for name in sub_table:
        s2, c2 = find_class([dia], name)
        if c2 is not None:
            if class_const([dia], dia, c2, "function_code") != 8:
                dia.fail(c2, "%s is not a function-code-8 class" % name)
            diag.append(name)

    scripts, resp = [], set()
    for src, names in ((oth, OTHER), (dia, diag), (fil, FILES)):
        for name in names:
            c = src.cls(name)
            es, efn = find_method([src], src, c, "execute")
            if efn is None:
                src.fail(c, "%s has no execute" % name)
            tr = OtherTr(es, c, counters, consts, exc_codes, all_srcs)
            # varargs signature `execute(self, *args)` of the diagnostic classes
            if efn.args.vararg is not None and [a.arg for a in efn.args.args] == ["self"]:
                pass
            stmts = tr.translate(efn)
            resp |= tr.resp
            scripts.append((name, stmts, es.rel, efn.lineno))
    # DiagnosticStatusRequest itself (an FC 8 sub-function outside the table keeps this class): no execute anywhere
    for cname, s in (("DiagnosticStatusRequest", dia), ("ModbusRequest", pdu), ("ModbusPDU", pdu)):
        if s.has_func(cname, "execute"):
            s.fail(s.cls(cname), "%s now defines execute" % cname)
    if [ast.unparse(b) for b in dia.cls("DiagnosticStatusRequest").bases] != ["ModbusRequest"]:
        dia.fail(dia.cls("DiagnosticStatusRequest"), "unexpected bases")
    scripts.append(("DiagnosticStatusRequest", ["TRaise AttributeError"], dia.rel, dia.cls("DiagnosticStatusRequest").lineno))

    rsp_sub = {}
    for name in sorted(resp):
        s2, c2 = find_class([dia], name)
        if c2 is not None:
            v = class_const([dia], dia, c2, "sub_function_code")
            if v is None:
                dia.fail(c2, "%s has no sub_function_code" % name)
            rsp_sub[name] = v

    out = [core.HEADER, "From PM.theories Require Import Store PduCls Pdu Device Exec ExecOther.\nOpen Scope list_scope.\n"]
    for name, stmts, rel, line in scripts:
        out.append("(* %s:%d %s.execute *)\nDefinition %s_x : list ostmt :=\n  [ %s ].\n" % (
            rel, line, name, name, ";\n    ".join(stmts)))
    out.append("Definition code : other_code := {|")
    out.append("  y_scripts := %s;" % coq_list("(%s, %s_x)" % (coq_str(n), n) for n, _, _, _ in scripts))
    out.append("  y_counter_idx := %s;" % coq_list("(%s, %d%%nat)" % (coq_str(k), v) for k, v in sorted(counters.items(), key=lambda kv: kv[1])))
    out.append("  y_rsp_sub := %s;" % coq_list("(%s, %s)" % (coq_str(k), coq_z(v)) for k, v in sorted(rsp_sub.items())))
    out.append("  y_status_on := %s; y_status_off := %s" % (coq_z(consts["ModbusStatus.On"]), coq_z(consts["ModbusStatus.Off"])))
    out.append("|}.\n")
    return {"GenExecOther.v": "\n".join(out)}
