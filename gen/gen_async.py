"""GenAsync.v — C16: the Twisted ModbusClientProtocol and the Dict/Fifo transaction managers.

Reads pymodbus/client/asynchronous/twisted/__init__.py (ModbusClientProtocol.__init__,
connectionMade, connectionLost, dataReceived, execute, _handleResponse, _buildResponse),
pymodbus/transaction.py (getNextTID, DictTransactionManager, FifoTransactionManager) and
pymodbus/constants.py (Defaults.TransactionId), and emits one `async_code` record:
counter arithmetic as numbers, and for every method whether the guard / loop / assignment the
model interprets is present and which exception class it uses.  Method bodies must match the
statement shapes below exactly (modulo docstrings and logging); anything else fails closed.
The semantics is in theories/AsyncClient.v.
"""
import ast

from . import core
from .core import Src, coq_bool

EXN = {"ConnectionException": "ConnectionExc", "ModbusIOException": "ModbusIOExc",
       "ParameterException": "ParameterExc", "NotImplementedException": "NotImplementedExc"}


def body(fn):
    return [s for s in fn.body if not (core.is_docstring(s) or core.is_log_call(s))]


def texts(fn):
    return [ast.unparse(s) for s in body(fn)]


def norm(code):
    return [ast.unparse(s) for s in ast.parse(code).body]


def expect(src, fn, code):
    if texts(fn) != norm(code):
        src.fail(fn, "body of %s has an unrecognised shape:\n%s\n-- expected --\n%s"
                 % (fn.name, "\n".join(texts(fn)), "\n".join(norm(code))))


def failure_exn(src, node):
    """Failure(<Exc>('...')) -> model exception name"""
    if not (isinstance(node, ast.Call) and ast.unparse(node.func) == "Failure" and len(node.args) == 1
            and isinstance(node.args[0], ast.Call)):
        src.fail(node, "expected Failure(<Exception>(...))")
    name = ast.unparse(node.args[0].func)
    if name not in EXN:
        src.fail(node, "unknown exception class %s" % name)
    return EXN[name]


def generate():
    tw = Src("pymodbus/client/asynchronous/twisted/__init__.py")
    tx = Src("pymodbus/transaction.py")
    cst = Src("pymodbus/constants.py")
    D = {}

    # ---- tid counter
    v = cst.class_attr("Defaults", "TransactionId")
    if v is None:
        cst.fail(cst.cls("Defaults"), "Defaults.TransactionId not found")
    D["ac_tid_init"] = core.const_int(cst, v)
    fn = tx.func("ModbusTransactionManager", "getNextTID")
    b = body(fn)
    ok = (len(b) == 2 and isinstance(b[0], ast.Assign) and ast.unparse(b[0].targets[0]) == "self.tid"
          and isinstance(b[0].value, ast.BinOp) and isinstance(b[0].value.op, ast.BitAnd)
          and isinstance(b[0].value.left, ast.BinOp) and isinstance(b[0].value.left.op, ast.Add)
          and ast.unparse(b[0].value.left.left) == "self.tid" and ast.unparse(b[1]) == "return self.tid")
    if not ok:
        tx.fail(fn, "getNextTID is not `self.tid = (self.tid + INC) & MASK; return self.tid`")
    D["ac_tid_inc"] = core.const_int(tx, b[0].value.left.right)
    D["ac_tid_mask"] = core.const_int(tx, b[0].value.right)
    if D["ac_tid_inc"] < 0 or D["ac_tid_mask"] < 0 or D["ac_tid_init"] < 0:
        tx.fail(fn, "negative counter constants")
    for c in ("DictTransactionManager", "FifoTransactionManager"):
        if tx.has_func(c, "getNextTID"):
            tx.fail(tx.cls(c), "%s overrides getNextTID" % c)

    # ---- the two managers (semantics hand-modelled: dset/dpop, append/pop(0))
    DM, FM = "DictTransactionManager", "FifoTransactionManager"
    expect(tx, tx.func(DM, "__init__"), "self.transactions = {}\nsuper(DictTransactionManager, self).__init__(client, **kwargs)")
    expect(tx, tx.func(DM, "__iter__"), "return iterkeys(self.transactions)")
    expect(tx, tx.func(DM, "addTransaction"), "tid = tid if tid != None else request.transaction_id\nself.transactions[tid] = request")
    expect(tx, tx.func(DM, "getTransaction"), "return self.transactions.pop(tid, None)")
    expect(tx, tx.func(DM, "delTransaction"), "self.transactions.pop(tid, None)")
    expect(tx, tx.func(FM, "__init__"), "super(FifoTransactionManager, self).__init__(client, **kwargs)\nself.transactions = []")
    expect(tx, tx.func(FM, "__iter__"), "return iter(self.transactions)")
    expect(tx, tx.func(FM, "addTransaction"), "tid = tid if tid is not None else request.transaction_id\nself.transactions.append(request)")
    expect(tx, tx.func(FM, "getTransaction"), "return self.transactions.pop(0) if self.transactions else None")
    expect(tx, tx.func(FM, "delTransaction"), "if self.transactions:\n    self.transactions.pop(0)")

    # ---- the protocol
    P = "ModbusClientProtocol"
    fn = tw.func(P, "__init__")
    t = texts(fn)
    rest = norm("self.framer = framer or ModbusSocketFramer(ClientDecoder())\n"
                "if isinstance(self.framer, type):\n    self.framer = self.framer(ClientDecoder(), client=None)\n"
                "if isinstance(self.framer, ModbusSocketFramer):\n    self.transaction = DictTransactionManager(self, **kwargs)\n"
                "else:\n    self.transaction = FifoTransactionManager(self, **kwargs)")
    if t[1:] != rest or t[0] not in ("self._connected = False", "self._connected = True"):
        tw.fail(fn, "ModbusClientProtocol.__init__ has an unrecognised shape")
    D["ac_init_connected"] = t[0].endswith("True")

    fn = tw.func(P, "connectionMade")
    t = texts(fn)
    if t == ["self._connected = True"]:
        D["ac_made_connected"] = True
    elif t == []:
        D["ac_made_connected"] = False
    else:
        tw.fail(fn, "connectionMade has an unrecognised shape")

    fn = tw.func(P, "connectionLost")
    D["ac_lost_clears"], D["ac_lost_loop"], D["ac_lost_exn"], D["ac_lost_clear_first"] = False, False, "OtherExc", True
    for s in body(fn):
        if ast.unparse(s) == "self._connected = False" and not D["ac_lost_clears"]:
            D["ac_lost_clears"] = True
            D["ac_lost_clear_first"] = not D["ac_lost_loop"]
        elif isinstance(s, ast.For) and not s.orelse and ast.unparse(s.target) == "tid" \
                and ast.unparse(s.iter) == "list(self.transaction)" and len(s.body) == 1 \
                and isinstance(s.body[0], ast.Expr) and isinstance(s.body[0].value, ast.Call) \
                and ast.unparse(s.body[0].value.func) == "self.transaction.getTransaction(tid).errback" \
                and len(s.body[0].value.args) == 1 and not D["ac_lost_loop"]:
            D["ac_lost_loop"] = True
            D["ac_lost_exn"] = failure_exn(tw, s.body[0].value.args[0])
        else:
            tw.fail(s, "connectionLost: unrecognised statement")

    fn = tw.func(P, "dataReceived")
    b = body(fn)
    ok = (len(b) == 2 and isinstance(b[0], ast.Assign) and ast.unparse(b[0].targets[0]) == "unit"
          and isinstance(b[0].value, ast.Call) and ast.unparse(b[0].value.func) == "self.framer.decode_data(data).get"
          and len(b[0].value.args) == 2 and ast.unparse(b[0].value.args[0]) == "'unit'"
          and ast.unparse(b[1]) == "self.framer.processIncomingPacket(data, self._handleResponse, unit=unit)")
    if not ok:
        tw.fail(fn, "dataReceived has an unrecognised shape")
    D["ac_unit_default"] = core.const_int(tw, b[0].value.args[1])

    expect(tw, tw.func(P, "execute"),
           "request.transaction_id = self.transaction.getNextTID()\n"
           "packet = self.framer.buildPacket(request)\n"
           "self.transport.write(packet)\n"
           "return self._buildResponse(request.transaction_id)")

    fn = tw.func(P, "_handleResponse")
    b = body(fn)
    if not (len(b) == 1 and isinstance(b[0], ast.If) and ast.unparse(b[0].test) == "reply is not None" and not b[0].orelse):
        tw.fail(fn, "_handleResponse: expected `if reply is not None:`")
    inner = [s for s in b[0].body if not core.is_log_call(s)]
    t = [ast.unparse(s) for s in inner]
    if len(t) != 3 or t[1] != "handler = self.transaction.getTransaction(tid)":
        tw.fail(fn, "_handleResponse has an unrecognised shape")
    if t[0] == "tid = reply.transaction_id":
        D["ac_handle_by_reply_tid"] = True
    elif t[0] == "tid = 0":
        D["ac_handle_by_reply_tid"] = False
    else:
        tw.fail(fn, "_handleResponse: tid is not taken from reply.transaction_id")
    h = inner[2]
    if not (isinstance(h, ast.If) and ast.unparse(h.test) == "handler"
            and [ast.unparse(s) for s in h.body] == ["handler.callback(reply)"]
            and all(core.is_log_call(s) for s in h.orelse)):
        tw.fail(fn, "_handleResponse: expected `if handler: handler.callback(reply)` / else: log only")

    fn = tw.func(P, "_buildResponse")
    b = body(fn)
    D["ac_build_guard"], D["ac_build_exn"] = False, "OtherExc"
    if b and isinstance(b[0], ast.If):
        g = b[0]
        if not (ast.unparse(g.test) == "not self._connected" and not g.orelse and len(g.body) == 1
                and isinstance(g.body[0], ast.Return) and isinstance(g.body[0].value, ast.Call)
                and ast.unparse(g.body[0].value.func) == "defer.fail" and len(g.body[0].value.args) == 1):
            tw.fail(fn, "_buildResponse: unrecognised guard")
        D["ac_build_guard"] = True
        D["ac_build_exn"] = failure_exn(tw, g.body[0].value.args[0])
        b = b[1:]
    if [ast.unparse(s) for s in b] != norm("d = defer.Deferred()\nself.transaction.addTransaction(d, tid)\nreturn d"):
        tw.fail(fn, "_buildResponse has an unrecognised shape")

    fn = tw.func(P, "close")
    t = texts(fn)
    guard = norm("if self.transport and hasattr(self.transport, 'close'):\n    self.transport.close()")
    if t[:1] != guard or len(t) > 2 or (len(t) == 2 and t[1] not in ("self._connected = False", "self._connected = True")):
        tw.fail(fn, "close() has an unrecognised shape")
    D["ac_close_clears"] = t[1:] == ["self._connected = False"]

    # ---- the unit filter of the framers (base class helper used by processIncomingPacket)
    fr = Src("pymodbus/framer/__init__.py")
    fn = fr.func("ModbusFramer", "_validate_unit_id")
    b = body(fn)
    ok = (len(b) == 1 and isinstance(b[0], ast.If) and ast.unparse(b[0].test) == "single"
          and [ast.unparse(x) for x in b[0].body] == ["return True"] and len(b[0].orelse) == 2
          and isinstance(b[0].orelse[0], ast.If) and not b[0].orelse[0].orelse
          and [ast.unparse(x) for x in b[0].orelse[0].body] == ["return True"]
          and ast.unparse(b[0].orelse[1]) == "return self._header['uid'] in units")
    if not ok:
        fr.fail(fn, "_validate_unit_id has an unrecognised shape")
    test = b[0].orelse[0].test
    parts = test.values if isinstance(test, ast.BoolOp) and isinstance(test.op, ast.Or) else [test]
    wild, sides = [], set()
    for c in parts:
        if not (isinstance(c, ast.Compare) and len(c.ops) == 1):
            fr.fail(c, "_validate_unit_id: unrecognised wildcard test")
        left, op, right = ast.unparse(c.left), c.ops[0], c.comparators[0]
        if isinstance(op, ast.In) and ast.unparse(right) == "units":
            wild.append(core.const_int(fr, c.left))          # <const> in units
            sides.add("expected")
        elif isinstance(op, ast.In) and left == "self._header['uid']" and isinstance(right, (ast.Tuple, ast.List)):
            wild += [core.const_int(fr, e) for e in right.elts]   # frame's uid in (<const>, ...)
            sides.add("frame")
        elif isinstance(op, ast.Eq) and left == "self._header['uid']":
            wild.append(core.const_int(fr, right))            # frame's uid == <const>
            sides.add("frame")
        else:
            fr.fail(c, "_validate_unit_id: unrecognised wildcard test")
    if len(sides) != 1:
        fr.fail(fn, "_validate_unit_id: wildcard tests on both the expected units and the frame")
    D["ac_unit_wild"] = "[" + "; ".join(str(x) for x in wild) + "]"
    D["ac_unit_wild_on_frame"] = sides == {"frame"}
    for rel, cls in (("pymodbus/framer/socket_framer.py", "ModbusSocketFramer"), ("pymodbus/framer/rtu_framer.py", "ModbusRtuFramer")):
        if Src(rel).has_func(cls, "_validate_unit_id"):
            fr.fail(fn, "%s overrides _validate_unit_id" % cls)

    # subclasses used for TCP / serial must not override the modelled methods
    for c in ("ModbusTcpClientProtocol", "ModbusSerClientProtocol"):
        for name in ("connectionMade", "connectionLost", "dataReceived", "execute", "_handleResponse", "_buildResponse"):
            if tw.has_func(c, name):
                tw.fail(tw.cls(c), "%s overrides %s" % (c, name))

    def val(k):
        x = D[k]
        if isinstance(x, bool):
            return coq_bool(x)
        return str(x)
    fields = ["ac_tid_init", "ac_tid_inc", "ac_tid_mask", "ac_init_connected", "ac_made_connected",
              "ac_build_guard", "ac_build_exn", "ac_handle_by_reply_tid", "ac_lost_clears", "ac_lost_clear_first",
              "ac_lost_loop", "ac_lost_exn", "ac_close_clears", "ac_unit_default", "ac_unit_wild", "ac_unit_wild_on_frame"]
    out = [
        "(* GENERATED by /verif/gen/gen_async.py from /repo's current source on every run. Do not edit. *)",
        "From PM.theories Require Import Base AsyncClient.",
        "Open Scope N_scope.",
        "",
        "Definition code : async_code :=",
        "  {| " + ";\n     ".join("%s := %s" % (k, val(k)) for k in fields) + " |}.",
        "",
    ]
    return {"GenAsync.v": "\n".join(out)}
