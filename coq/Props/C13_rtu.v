(* Props/C13_rtu.v — C13 for the serial RTU client with the CONCRETE RTU framer model (FrRtu.rtu_recv over the records
   regenerated from rtu_framer.py / factory.py, decoder table [client_simple] = ClientDecoder without the two classes whose
   size rule is not prefix-stable: ReadFifoQueueResponse, ReadDeviceInformationResponse).  The framer hypotheses of
   Props/C13.v are PROVED for it (proofs/ClientRtu_proofs.v, from proofs/FrB_rtu_client_proofs.v).
   Premises left: the decoder oracle [dec] never raises (ClientDecoder.decode; shape-checked by gen_client); reads are
   byte strings; for the replies: what C14 gives (predicted frame length >= real length, [fits]). *)
From PM.theories Require Import Base Expr Struct FrBCode Crc FrBCommon FrRtu FrSpecB.
From PM.Generated Require Import GenFramerB GenClient.
From PM.proofs Require Import FrB_rtu_proofs FrB_rtu_client_proofs.
From PM.theories Require Import Client CorrClient.
From PM.proofs Require Import Client_proofs Client_reads_proofs ClientRtu_proofs ClientRtu_ready_proofs.
Open Scope list_scope.
Open Scope Z_scope.

Theorem C13_no_raise_rtu : forall (dec : bytes -> FrBCommon.dres)
  (dec_total : forall pdu, dec pdu = FrBCommon.DMsg \/ dec pdu = FrBCommon.DNone) c st rq sc st' o,
  c_framing c = FRtu -> s_tx st = [] -> execute code rok (rtu_framer dec dec_total) c st rq sc = (st', o) ->
  match o_res o with
  | RReply _ | RErr _ | RBroadcast => True
  | RRaise e => e = ConnectionExc /\ s_conn st' = false
  | RNone | RStuck => False
  end.
Proof. exact no_raise_rtu. Qed.
Print Assumptions C13_no_raise_rtu.

(* the table is empty again after a call none of whose reads holds two CRC-valid frames one behind the other
   (otherwise the repaired RTU loop can deliver the first and raise on the second: F-C13-none-after-partial-delivery) *)
Theorem C13_inv_rtu : forall (dec : bytes -> FrBCommon.dres)
  (dec_total : forall pdu, dec pdu = FrBCommon.DMsg \/ dec pdu = FrBCommon.DNone) c st rq sc st' o,
  s_tx st = [] -> (forall resp, built_from sc resp -> ~ two_frames resp) ->
  execute code rok (rtu_framer dec dec_total) c st rq sc = (st', o) -> s_tx st' = [].
Proof. exact execute_tx_rtu. Qed.
Print Assumptions C13_inv_rtu.

Theorem C13_ready_rtu : forall (dec : bytes -> FrBCommon.dres)
  (dec_total : forall pdu, dec pdu = FrBCommon.DMsg \/ dec pdu = FrBCommon.DNone)
  c st rq1 faults st1 o1 rq (u fcb : N) data rest,
  c_framing c = FRtu -> c_udp c = false -> s_tx st = [] ->
  (forall resp, built_from faults resp -> ~ two_frames resp) ->
  execute code rok (rtu_framer dec dec_total) c st rq1 faults = (st1, o1) ->
  c_bcast c && (r_unit rq =? 0) = false -> 0 <= retries_given c ->
  Z.of_N u = r_unit rq -> valid_frame (ucfg dec (r_unit rq)) true u (fcb :: data) ->
  fits (exp_of c rq) (spec_adu_rtu u (fcb :: data)) ->
  (128 <= Z.of_N fcb -> length data = 1%nat) ->
  exists st2 o2,
    execute code rok (rtu_framer dec dec_total) c st1 rq
      ((if s_conn st1 then [] else [Nothing])
         ++ attempt true (rtu_script (full_of rok c st1 rq) (spec_adu_rtu u (fcb :: data))) ++ rest) = (st2, o2)
    /\ o_res o2 = RReply (rmsg_of (fcb :: data, r_unit rq)) /\ s_tx st2 = [] /\ s_tid st2 = next_tid code (s_tid st1).
Proof. exact ready_rtu. Qed.
Print Assumptions C13_ready_rtu.

(* generic (any framer): the table invariant needs a clean framer only on byte strings built from this call's reads *)
Theorem C13_inv_reads : forall FS (F : framer FS) c st rq sc st' o,
  s_tx st = [] -> reset_empties FS F ->
  (forall fs resp fs' ms e, f_nonempty F fs = false -> built_from sc resp ->
     f_process F fs resp (r_unit rq) = (fs', ms, Some e) -> ms = []) ->
  execute code FS F c st rq sc = (st', o) -> s_tx st' = [].
Proof. exact execute_tx_reads. Qed.
Print Assumptions C13_inv_reads.

Example C13_rtu_nonvacuous :
  exists st' o,
    execute code rok (rtu_framer rdemo_dec rdemo_total) cfg_rtu_demo
      (Build_cstate 65535 [] (rok_init) [] false) rq_rtu
      ([Nothing] ++ attempt true (rtu_script false (spec_adu_rtu 5 [3; 2; 0; 7]%N)) ++ []) = (st', o)
    /\ o_res o = RReply (rmsg_of ([3; 2; 0; 7]%N, 5)) /\ s_tx st' = [] /\ s_tid st' = 0.
Proof. exact rtu_example. Qed.
Print Assumptions C13_rtu_nonvacuous.
