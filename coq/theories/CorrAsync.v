(* CorrAsync.v — harness side of C16: comparison of the model with what the real
   ModbusClientProtocol did on a history, and the PROPERTY oracle: an idealised client written
   from the property text (it knows nothing about tables, counters or framers; it sees the
   history, the tids observed on the transport and the observed firings). *)
From PM.theories Require Import Base AsyncClient.
Open Scope list_scope.
Open Scope N_scope.

Record acase := {
  c_variant : variant;
  c_ops : list aop;
  c_fired : list (N * outcome);     (* observed: (deferred, how it fired) in firing order *)
  c_sent : list (N * N);            (* observed: (deferred, tid in the bytes written) *)
  c_pending : list (N * N);         (* observed: table at the end: (tid filed under, deferred) *)
  c_conn : bool;                    (* observed: _connected at the end *)
  c_escaped : list pyexn }.         (* exceptions that escaped from protocol methods *)

Definition fired_eqb (a b : N * outcome) : bool := N.eqb (fst a) (fst b) && outcome_eqb (snd a) (snd b).
Definition nn_eqb (a b : N * N) : bool := N.eqb (fst a) (fst b) && N.eqb (snd a) (snd b).

Definition model_agrees (C : async_code) (c : acase) : bool :=
  let σ := arun C (c_variant c) (c_ops c) (init_state C) in
  list_eqb fired_eqb (a_fired σ) (c_fired c)
  && list_eqb nn_eqb (a_sent σ) (c_sent c)
  && list_eqb nn_eqb (a_pending σ) (c_pending c)
  && Bool.eqb (a_conn σ) (c_conn c)
  && match c_escaped c with [] => true | _ => false end.

(* ---- the idealised client ------------------------------------------------------------------ *)

Record sstate := {
  s_alloc : N;
  s_conn : bool;
  s_out : list (N * N);             (* outstanding: (deferred, tid observed on the wire), oldest first *)
  s_exp : list (N * outcome);       (* firings the property demands so far *)
  s_distinct : bool }.              (* every request so far went out with a tid no outstanding request had *)

Fixpoint take_tid (out : list (N * N)) (tid : N) : option (N * list (N * N)) :=
  match out with
  | [] => None
  | (d, t) :: r => if N.eqb t tid then Some (d, r)
                   else match take_tid r tid with Some (x, r') => Some (x, (d, t) :: r') | None => None end
  end.

Definition spec_frame (v : variant) (s : sstate) (fr : N * N * N) : sstate :=
  let '(_, tid, rid) := fr in
  let hit := match v with
             | VDict => take_tid (s_out s) tid            (* the request that carried this tid *)
             | VFifo => match s_out s with (d, _) :: r => Some (d, r) | [] => None end
             end in                                      (* serial line: replies come in request order *)
  match hit with
  | Some (d, out') => {| s_alloc := s_alloc s; s_conn := s_conn s; s_out := out';
                         s_exp := s_exp s ++ [(d, OCb tid rid)]; s_distinct := s_distinct s |}
  | None => s                                            (* unsolicited / duplicate: dropped *)
  end.

Definition spec_step (v : variant) (sent : list (N * N)) (s : sstate) (o : aop) : sstate :=
  match o with
  | Execute =>
      let d := s_alloc s + 1 in
      match sent_tid sent d with
      | None => {| s_alloc := d; s_conn := s_conn s; s_out := s_out s; s_exp := s_exp s; s_distinct := false |}
      | Some t =>
          let fresh := negb (existsb (fun p => N.eqb (snd p) t) (s_out s)) in
          if s_conn s
          then {| s_alloc := d; s_conn := true; s_out := s_out s ++ [(d, t)]; s_exp := s_exp s;
                  s_distinct := s_distinct s && fresh |}
          else {| s_alloc := d; s_conn := false; s_out := s_out s;
                  s_exp := s_exp s ++ [(d, OErr ConnectionExc)]; s_distinct := s_distinct s |}
      end
  | Segment frames => fold_left (spec_frame v) frames s
  | Lost => {| s_alloc := s_alloc s; s_conn := false; s_out := [];
               s_exp := s_exp s ++ map (fun p => (fst p, OErr ConnectionExc)) (s_out s);
               s_distinct := s_distinct s |}
  | Made => {| s_alloc := s_alloc s; s_conn := true; s_out := s_out s; s_exp := s_exp s; s_distinct := s_distinct s |}
  | Skip n => {| s_alloc := s_alloc s + n; s_conn := s_conn s; s_out := s_out s; s_exp := s_exp s; s_distinct := s_distinct s |}
  end.

Definition spec_run (v : variant) (sent : list (N * N)) (ops : list aop) : sstate :=
  fold_left (spec_step v sent) ops
    {| s_alloc := 0; s_conn := false; s_out := []; s_exp := []; s_distinct := true |}.

Definition count_fired (x : N * outcome) (l : list (N * outcome)) : nat :=
  length (filter (fired_eqb x) l).

(* every deferred fired exactly as often (0 or 1 times) and exactly how the property demands *)
Definition same_firings (obs exp : list (N * outcome)) : bool :=
  Nat.eqb (length obs) (length exp)
  && forallb (fun x => Nat.eqb (count_fired x obs) (count_fired x exp)) exp.

Fixpoint nodup_n (l : list N) : bool :=
  match l with [] => true | x :: r => negb (existsb (N.eqb x) r) && nodup_n r end.

Definition property_holds (c : acase) : bool :=
  let s := spec_run (c_variant c) (c_sent c) (c_ops c) in
  s_distinct s
  && same_firings (c_fired c) (s_exp s)
  && nodup_n (map fst (c_fired c))
  && forallb (fun p => N.ltb (snd p) 65536) (c_sent c)
  && match c_escaped c with [] => true | _ => false end.

Definition chk_async (C : async_code) (c : acase) : bool * bool :=
  (model_agrees C c, property_holds c).
