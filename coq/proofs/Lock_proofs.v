(* Lock_proofs.v — proofs about the interleaving model of theories/Lock.v (C15). *)
From PM.theories Require Import Base Lock.
From Coq Require Import Arith PeanoNat.
Open Scope list_scope.

(* ---- list update ------------------------------------------------------------------------ *)

Lemma length_upd : forall A (l : list A) n x, length (upd l n x) = length l.
Proof. induction l as [|y l IH]; intros [|n] x; cbn; auto. Qed.

Lemma nth_upd_eq : forall A (l : list A) n x y,
  nth_error l n = Some y -> nth_error (upd l n x) n = Some x.
Proof.
  induction l as [|z l IH]; intros [|n] x y H; cbn in *; try discriminate; auto.
  eapply IH; eauto.
Qed.

Lemma nth_upd_ne : forall A (l : list A) n m x, n <> m -> nth_error (upd l n x) m = nth_error l m.
Proof.
  induction l as [|z l IH]; intros [|n] [|m] x H; cbn; auto; try congruence.
Qed.

Lemma nth_upd_inv : forall A (l : list A) n m x y z,
  nth_error l n = Some z ->
  nth_error (upd l n x) m = Some y -> (m = n /\ y = x) \/ (m <> n /\ nth_error l m = Some y).
Proof.
  intros A l n m x y z Hn H. destruct (Nat.eq_dec m n) as [->|Hne].
  - left. rewrite (nth_upd_eq _ _ _ _ _ Hn) in H. inversion H; auto.
  - right. rewrite nth_upd_ne in H by congruence. auto.
Qed.

(* ---- facts about closes ----------------------------------------------------------------- *)

Lemma closes_pos_nonempty : forall d, closes (S d) [] = false.
Proof. reflexivity. Qed.

Definition is_lock_op (o : lop) : bool := lop_eqb o Acquire || lop_eqb o Release.

Lemma closes_other : forall d o r, is_lock_op o = false ->
  closes d (o :: r) = Nat.leb 1 d && closes d r.
Proof. intros d o r H. destruct o; cbn in H; try discriminate; reflexivity. Qed.

Lemma exec_other_lock : forall re t k s l o s' l',
  is_lock_op o = false -> exec_op re t k s l o = Some (s', l') -> sh_lock s' = sh_lock s.
Proof.
  intros re t k s l o s' l' Ho H. destruct o; cbn in Ho; try discriminate; cbn in H;
    try (inversion H; subst; reflexivity).
  destruct (tpop (sh_table s) (lo_tid l)) as [[f tb]|].
  - inversion H; reflexivity.
  - destruct (sh_table s) as [|p q]; [inversion H; reflexivity|].
    destruct (tpop (p :: q) 0) as [[f tb]|]; inversion H; reflexivity.
Qed.

Lemma exec_other_enabled : forall re t k s l o,
  is_lock_op o = false -> exists s' l', exec_op re t k s l o = Some (s', l').
Proof.
  intros re t k s l o Ho. destruct o; cbn in Ho; try discriminate; cbn; try (eexists; eexists; reflexivity).
  destruct (tpop (sh_table s) (lo_tid l)) as [[f tb]|]; [eexists; eexists; reflexivity|].
  destruct (sh_table s) as [|p q]; [eexists; eexists; reflexivity|].
  destruct (tpop (p :: q) 0) as [[f tb]|]; eexists; eexists; reflexivity.
Qed.

(* ---- the lock-discipline invariant -------------------------------------------------------- *)

Definition progs_wb (prog : list (list lop)) : Prop := Forall (fun sk => well_bracketed sk = true) prog.

Definition thread_ok (lk : option (nat * nat)) (t : nat) (th : thread) : Prop :=
  match lk with
  | Some (o, d) =>
      if Nat.eqb o t
      then exists h rest, th_prog th = h :: rest /\ closes d h = true /\ progs_wb rest
      else progs_wb (th_prog th) /\ in_flight th = false
  | None => progs_wb (th_prog th) /\ in_flight th = false
  end.

Definition inv (σ : state) : Prop :=
  (forall t th, nth_error (st_thr σ) t = Some th -> thread_ok (sh_lock (st_sh σ)) t th) /\
  (forall o d, sh_lock (st_sh σ) = Some (o, d) -> (1 <= d)%nat /\ nth_error (st_thr σ) o <> None).

Lemma inv_init : forall tid0 P,
  Forall progs_wb P -> inv (init tid0 P).
Proof.
  intros tid0 P HP. split.
  - intros t th H. cbn in *. rewrite nth_error_map in H.
    destruct (nth_error P t) as [p|] eqn:E; cbn in H; [|discriminate]. inversion H; subst.
    split.
    + cbn. rewrite Forall_forall in HP. apply HP. eapply nth_error_In; eauto.
    + reflexivity.
  - intros o d H. cbn in H. discriminate.
Qed.

Lemma non_owner_ok_mono : forall lk lk' t th,
  (match lk with Some (o, _) => Nat.eqb o t = false | None => True end) ->
  (match lk' with Some (o, _) => Nat.eqb o t = false | None => True end) ->
  thread_ok lk t th -> thread_ok lk' t th.
Proof.
  intros lk lk' t th H1 H2 H. unfold thread_ok in *.
  destruct lk as [[o d]|]; destruct lk' as [[o' d']|]; try rewrite H1 in H; try rewrite H2; auto.
Qed.

Lemma wb_step_shape : forall o r, well_bracketed (o :: r) = true ->
  (o = ConnectCheck /\ well_bracketed r = true) \/ (o = Acquire /\ closes 1 r = true).
Proof.
  intros o r H. destruct o; cbn in H; try discriminate; auto.
Qed.

Lemma inv_step : forall re σ t σ', inv σ -> step re σ t = Some σ' -> inv σ'.
Proof.
  intros re σ t σ' [Hth Hlk] Hs. unfold step in Hs.
  destruct (nth_error (st_thr σ) t) as [th|] eqn:Et; [|discriminate].
  destruct (th_prog th) as [|h rest] eqn:Ep; [discriminate|].
  pose proof (Hth t th Et) as Hok.
  destruct h as [|o r].
  - (* return *)
    inversion Hs; subst σ'; clear Hs. unfold inv; cbn [st_sh st_thr].
    assert (Hno : match sh_lock (st_sh σ) with Some (o, _) => Nat.eqb o t = false | None => True end).
    { destruct (sh_lock (st_sh σ)) as [[o d]|] eqn:El; auto.
      destruct (Nat.eqb o t) eqn:Eo; auto. exfalso.
      unfold thread_ok in Hok. rewrite Eo in Hok. destruct Hok as (h & rs & Hp & Hc & _).
      rewrite Ep in Hp. inversion Hp; subst h rs.
      destruct (Hlk o d eq_refl) as [Hd _]. destruct d; [inversion Hd|]. cbn in Hc. discriminate. }
    split.
    + intros t' th' H'. destruct (nth_upd_inv _ _ _ _ _ _ _ Et H') as [[-> ->]|[Hne Hold]].
      * assert (Hq : progs_wb rest /\ in_flight (do_return th rest) = false).
        { split; [|reflexivity].
          unfold thread_ok in Hok. revert Hno Hok. destruct (sh_lock (st_sh σ)) as [[o d]|]; intros Hno Hok.
          - rewrite Hno in Hok. destruct Hok as [Hw _]. rewrite Ep in Hw. inversion Hw; auto.
          - destruct Hok as [Hw _]. rewrite Ep in Hw. inversion Hw; auto. }
        unfold thread_ok. revert Hno. destruct (sh_lock (st_sh σ)) as [[o d]|]; intros Hno; [rewrite Hno|]; exact Hq.
      * apply Hth; auto.
    + intros o d El. destruct (Hlk o d El) as [Hd Hn]. split; auto.
      destruct (Nat.eq_dec o t) as [->|Hne].
      * rewrite (nth_upd_eq _ _ _ _ _ Et). discriminate.
      * rewrite nth_upd_ne by congruence. auto.
  - (* an operation *)
    destruct (exec_op re t (th_k th) (st_sh σ) (local_of th) o) as [[s' l']|] eqn:Ex; [|discriminate].
    inversion Hs; subst σ'; clear Hs. unfold inv; cbn [st_sh st_thr].
    set (th' := with_local th (r :: rest) o l').
    assert (Hnth : forall o0, nth_error (st_thr σ) o0 <> None -> nth_error (upd (st_thr σ) t th') o0 <> None).
    { intros o0 Hn. destruct (Nat.eq_dec o0 t) as [->|Hne].
      - rewrite (nth_upd_eq _ _ _ _ _ Et). discriminate.
      - rewrite nth_upd_ne by congruence. auto. }
    destruct (sh_lock (st_sh σ)) as [[ow d]|] eqn:El.
    + destruct (Hlk ow d eq_refl) as [Hd Hown].
      destruct (Nat.eqb ow t) eqn:Eo.
      * (* t owns the lock *)
        apply Nat.eqb_eq in Eo. subst ow.
        unfold thread_ok in Hok. rewrite Nat.eqb_refl in Hok.
        destruct Hok as (h & rs & Hp & Hc & Hrest). rewrite Ep in Hp. inversion Hp; subst h rs. clear Hp.
        destruct (is_lock_op o) eqn:Elo.
        -- destruct o; cbn in Elo; try discriminate.
           ++ (* Acquire, re-entrant *)
              cbn in Ex. rewrite El in Ex. cbn in Ex. rewrite Nat.eqb_refl in Ex.
              destruct re; [|discriminate]. inversion Ex; subst s' l'. cbn.
              split.
              ** intros t' th2 H'. destruct (nth_upd_inv _ _ _ _ _ _ _ Et H') as [[-> ->]|[Hne Hold]].
                 --- unfold thread_ok. rewrite Nat.eqb_refl. exists r, rest. cbn in Hc. auto.
                 --- pose proof (Hth t' th2 Hold) as H2. unfold thread_ok in *.
                     destruct (Nat.eqb t t') eqn:E2; auto. apply Nat.eqb_eq in E2. congruence.
              ** intros o d0 H0. inversion H0; subst. split; [lia|]. apply Hnth; auto.
           ++ (* Release *)
              cbn in Ex. rewrite El in Ex. cbn in Ex.
              destruct d as [|d0]; [inversion Hd|]. rewrite Nat.eqb_refl in Ex.
              inversion Ex; subst s' l'. cbn. clear Ex.
              destruct d0 as [|d1].
              ** (* depth 1 -> free; the call's operations are exhausted *)
                 cbn in Hc. destruct r; [|discriminate].
                 split; [|intros ? ? H0; discriminate].
                 intros t' th2 H'. destruct (nth_upd_inv _ _ _ _ _ _ _ Et H') as [[-> ->]|[Hne Hold]].
                 --- cbn. split; [constructor; auto|]. unfold in_flight. cbn. apply andb_false_r.
                 --- pose proof (Hth t' th2 Hold) as H2. unfold thread_ok in H2.
                     destruct (Nat.eqb t t') eqn:E2; [apply Nat.eqb_eq in E2; congruence|]. exact H2.
              ** cbn in Hc.
                 split.
                 --- intros t' th2 H'. destruct (nth_upd_inv _ _ _ _ _ _ _ Et H') as [[-> ->]|[Hne Hold]].
                     +++ unfold thread_ok. rewrite Nat.eqb_refl. exists r, rest. auto.
                     +++ pose proof (Hth t' th2 Hold) as H2. unfold thread_ok in *.
                         destruct (Nat.eqb t t') eqn:E2; auto. apply Nat.eqb_eq in E2. congruence.
                 --- intros o d0 H0. inversion H0; subst. split; [lia|]. apply Hnth; auto.
        -- (* some other operation: lock unchanged *)
           rewrite (closes_other _ _ _ Elo) in Hc. apply andb_prop in Hc. destruct Hc as [_ Hc].
           pose proof (exec_other_lock _ _ _ _ _ _ _ _ Elo Ex) as Hl. rewrite El in Hl.
           split.
           ++ intros t' th2 H'. rewrite Hl. destruct (nth_upd_inv _ _ _ _ _ _ _ Et H') as [[-> ->]|[Hne Hold]].
              ** unfold thread_ok. rewrite Nat.eqb_refl. exists r, rest. auto.
              ** apply Hth; auto.
           ++ intros o0 d0 H0. rewrite Hl in H0. inversion H0; subst. split; auto.
      * (* the lock is held by another thread *)
        unfold thread_ok in Hok. rewrite Eo in Hok. destruct Hok as [Hw Hq]. rewrite Ep in Hw.
        inversion Hw as [|? ? Hh Hrest]; subst.
        destruct (wb_step_shape _ _ Hh) as [[-> Hr]|[-> Hr]].
        -- cbn in Ex. inversion Ex; subst s' l'. rewrite El.
           split.
           ++ intros t' th2 H'. destruct (nth_upd_inv _ _ _ _ _ _ _ Et H') as [[-> ->]|[Hne Hold]].
              ** unfold thread_ok. rewrite Eo. split; [constructor; auto|].
                 unfold in_flight in *. rewrite Ep in Hq. cbn in *. rewrite andb_true_r in Hq. rewrite Hq. reflexivity.
              ** apply Hth; auto.
           ++ intros o0 d0 H0. inversion H0; subst. split; auto.
        -- cbn in Ex. rewrite El in Ex. cbn in Ex. rewrite Eo in Ex. discriminate.
    + (* the lock is free *)
      unfold thread_ok in Hok. destruct Hok as [Hw Hq]. rewrite Ep in Hw.
      inversion Hw as [|? ? Hh Hrest]; subst.
      destruct (wb_step_shape _ _ Hh) as [[-> Hr]|[-> Hr]].
      * cbn in Ex. inversion Ex; subst s' l'. rewrite El.
        split; [|intros ? ? H0; discriminate].
        intros t' th2 H'. destruct (nth_upd_inv _ _ _ _ _ _ _ Et H') as [[-> ->]|[Hne Hold]].
        -- cbn. split; [constructor; auto|].
           unfold in_flight in *. rewrite Ep in Hq. cbn in *. rewrite andb_true_r in Hq. rewrite Hq. reflexivity.
        -- pose proof (Hth t' th2 Hold) as H2. exact H2.
      * cbn in Ex. rewrite El in Ex. cbn in Ex. inversion Ex; subst s' l'. cbn.
        split.
        -- intros t' th2 H'. destruct (nth_upd_inv _ _ _ _ _ _ _ Et H') as [[-> ->]|[Hne Hold]].
           ++ unfold thread_ok. rewrite Nat.eqb_refl. exists r, rest. auto.
           ++ pose proof (Hth t' th2 Hold) as H2. unfold thread_ok.
              destruct (Nat.eqb t t') eqn:E2; [apply Nat.eqb_eq in E2; congruence|]. exact H2.
        -- intros o0 d0 H0. inversion H0; subst. split; [lia|]. apply Hnth. congruence.
Qed.

Lemma inv_reachable : forall re σ0 σ, inv σ0 -> reachable re σ0 σ -> inv σ.
Proof. intros re σ0 σ H0 Hr. induction Hr; auto. eapply inv_step; eauto. Qed.

Lemma run_reachable : forall re sched σ0 σ, reachable re σ0 σ -> reachable re σ0 (run re sched σ).
Proof.
  induction sched as [|t r IH]; intros σ0 σ H; cbn; auto.
  destruct (step re σ t) as [σ'|] eqn:E; auto. apply IH. eapply reach_step; eauto.
Qed.

(* ---- mutual exclusion --------------------------------------------------------------------- *)

Lemma inv_mutex : forall σ t1 t2 th1 th2, inv σ ->
  nth_error (st_thr σ) t1 = Some th1 -> nth_error (st_thr σ) t2 = Some th2 ->
  in_flight th1 = true -> in_flight th2 = true -> t1 = t2.
Proof.
  intros σ t1 t2 th1 th2 [Hth _] H1 H2 F1 F2.
  pose proof (Hth _ _ H1) as K1. pose proof (Hth _ _ H2) as K2. unfold thread_ok in *.
  destruct (sh_lock (st_sh σ)) as [[o d]|].
  - destruct (Nat.eqb o t1) eqn:E1; [|destruct K1; congruence].
    destruct (Nat.eqb o t2) eqn:E2; [|destruct K2; congruence].
    apply Nat.eqb_eq in E1, E2. congruence.
  - destruct K1; congruence.
Qed.

(* while a thread is inside a bracket every other thread is outside its call bodies *)
Lemma inv_owner_exclusive : forall σ o d t th, inv σ ->
  sh_lock (st_sh σ) = Some (o, d) -> nth_error (st_thr σ) t = Some th -> t <> o ->
  progs_wb (th_prog th) /\ in_flight th = false.
Proof.
  intros σ o d t th [Hth _] El Ht Hne. pose proof (Hth _ _ Ht) as K. unfold thread_ok in K.
  rewrite El in K. destruct (Nat.eqb o t) eqn:E; [apply Nat.eqb_eq in E; congruence|]. exact K.
Qed.

(* ---- no deadlock (re-entrant lock) ---------------------------------------------------------- *)

Lemma not_all_done : forall l, forallb thread_done l = false ->
  exists t th, nth_error l t = Some th /\ th_prog th <> [].
Proof.
  induction l as [|x l IH]; cbn; intros H; [discriminate|].
  destruct (thread_done x) eqn:E; cbn in H.
  - destruct (IH H) as (t & th & Ht & Hp). exists (S t), th. auto.
  - exists O, x. split; auto. unfold thread_done in E. destruct (th_prog x); congruence.
Qed.

Lemma inv_progress : forall σ, inv σ ->
  (exists t σ', step true σ t = Some σ') \/ all_done σ = true.
Proof.
  intros σ [Hth Hlk]. destruct (sh_lock (st_sh σ)) as [[o d]|] eqn:El.
  - left. destruct (Hlk o d eq_refl) as [Hd Hn].
    destruct (nth_error (st_thr σ) o) as [th|] eqn:Eo; [|congruence].
    pose proof (Hth _ _ Eo) as K. unfold thread_ok in K. rewrite Nat.eqb_refl in K.
    destruct K as (h & rest & Hp & Hc & _).
    destruct d as [|d0]; [inversion Hd|].
    destruct h as [|op r]; [cbn in Hc; discriminate|].
    exists o. unfold step. rewrite Eo, Hp.
    destruct (is_lock_op op) eqn:Elo.
    + destruct op; cbn in Elo; try discriminate; cbn; rewrite El; cbn; rewrite Nat.eqb_refl; eexists; reflexivity.
    + destruct (exec_other_enabled true o (th_k th) (st_sh σ) (local_of th) op Elo) as (s' & l' & Hx).
      rewrite Hx. eexists; reflexivity.
  - destruct (all_done σ) eqn:Ed; [right; reflexivity|left].
    destruct (not_all_done _ Ed) as (t & th & Ht & Hp).
    pose proof (Hth _ _ Ht) as K. unfold thread_ok in K. destruct K as [Hw _].
    destruct (th_prog th) as [|h rest] eqn:Ep; [congruence|].
    exists t. unfold step. rewrite Ht, Ep. destruct h as [|op r]; [eexists; reflexivity|].
    inversion Hw as [|? ? Hh _]; subst.
    destruct (wb_step_shape _ _ Hh) as [[-> _]|[-> _]]; cbn; [|rewrite El; cbn]; eexists; reflexivity.
Qed.

(* with a NON re-entrant lock a nested acquisition blocks for ever *)
Lemma nonreentrant_deadlock :
  let P := [[[Acquire; Acquire; Release; Release]]] in
  let σ := run false [0; 0; 0; 0]%nat (init 0 P) in
  all_done σ = false /\ forall t, step false σ t = None.
Proof.
  cbn. split; [reflexivity|]. intros [|[|t]]; reflexivity.
Qed.

(* ---- unrolled skeletons ------------------------------------------------------------------- *)

Lemma closes_app_nolock : forall body d r, no_lock_ops body = true -> (1 <= d)%nat ->
  closes d (body ++ r) = closes d r.
Proof.
  induction body as [|o b IH]; intros d r Hn Hd; [reflexivity|].
  cbn in Hn. apply andb_prop in Hn. destruct Hn as [Ho Hb].
  assert (Elo : is_lock_op o = false).
  { unfold is_lock_op. destruct o; cbn in *; auto; discriminate. }
  change ((o :: b) ++ r) with (o :: (b ++ r)).
  rewrite (closes_other _ _ _ Elo). rewrite IH by auto.
  destruct d; [inversion Hd|]. reflexivity.
Qed.

Lemma closes_repeat : forall n body d r, no_lock_ops body = true -> (1 <= d)%nat ->
  closes d (repeat_ops n body ++ r) = closes d r.
Proof.
  induction n as [|n IH]; intros body d r Hn Hd; cbn; auto.
  rewrite <- app_assoc. rewrite closes_app_nolock by auto. apply IH; auto.
Qed.

(* ---- top-level forms (initial states of arbitrary programs, any schedule) ------------------ *)

Definition wb_program (P : list (list (list lop))) : Prop := Forall progs_wb P.

Theorem mutex_all_schedules : forall re tid0 P σ t1 t2 th1 th2,
  wb_program P -> reachable re (init tid0 P) σ ->
  nth_error (st_thr σ) t1 = Some th1 -> nth_error (st_thr σ) t2 = Some th2 ->
  in_flight th1 = true -> in_flight th2 = true -> t1 = t2.
Proof.
  intros re tid0 P σ t1 t2 th1 th2 HP Hr. eapply inv_mutex.
  eapply inv_reachable; eauto. apply inv_init; auto.
Qed.

Theorem mutex_run : forall re tid0 P sched t1 t2 th1 th2,
  wb_program P ->
  nth_error (st_thr (run re sched (init tid0 P))) t1 = Some th1 ->
  nth_error (st_thr (run re sched (init tid0 P))) t2 = Some th2 ->
  in_flight th1 = true -> in_flight th2 = true -> t1 = t2.
Proof.
  intros re tid0 P sched t1 t2 th1 th2 HP. eapply mutex_all_schedules; eauto.
  apply run_reachable. constructor.
Qed.

Theorem no_deadlock_all_schedules : forall tid0 P σ,
  wb_program P -> reachable true (init tid0 P) σ ->
  (exists t σ', step true σ t = Some σ') \/ all_done σ = true.
Proof.
  intros tid0 P σ HP Hr. apply inv_progress. eapply inv_reachable; eauto. apply inv_init; auto.
Qed.

(* others are outside every call body while somebody holds the lock *)
Theorem exclusive_all_schedules : forall re tid0 P σ o d t th,
  wb_program P -> reachable re (init tid0 P) σ ->
  sh_lock (st_sh σ) = Some (o, d) -> nth_error (st_thr σ) t = Some th -> t <> o ->
  in_flight th = false /\
  match th_prog th with
  | (op :: _) :: _ => op = ConnectCheck \/ op = Acquire
  | _ => True
  end.
Proof.
  intros re tid0 P σ o d t th HP Hr El Ht Hne.
  assert (Hi : inv σ) by (eapply inv_reachable; eauto; apply inv_init; auto).
  destruct (inv_owner_exclusive _ _ _ _ _ Hi El Ht Hne) as [Hw Hq]. split; auto.
  destruct (th_prog th) as [|[|op r] rest]; auto.
  inversion Hw as [|? ? Hh _]; subst. destruct (wb_step_shape _ _ Hh) as [[-> _]|[-> _]]; auto.
Qed.

(* a program in which every call is the same skeleton *)
Lemma wb_program_uniform : forall call calls,
  well_bracketed call = true -> wb_program (map (fun n => repeat call n) calls).
Proof.
  intros call calls H. unfold wb_program. rewrite Forall_forall. intros p Hp.
  apply in_map_iff in Hp. destruct Hp as (n & <- & _).
  unfold progs_wb. rewrite Forall_forall. intros sk Hs. apply repeat_spec in Hs. subst; auto.
Qed.
