#!/bin/bash
# tools/mutone.sh <file> <line> <old> <new> <Cxx> [Cxx…]
#   one hand-picked one-token mutant: replaces the first occurrence of <old> by <new> on <line> of <file> in a private
#   worktree of /repo, checks the baseline tests still pass, runs the given checks from a private copy of /verif, cleans up.
f="$1"; l="$2"; old="$3"; new="$4"; shift 4
n="mo$$"
d=$(/verif/tools/scratch.sh "$n") || exit 2
/venv/bin/python - "$d/repo/$f" "$l" "$old" "$new" <<'PY' || { /verif/tools/scratch.sh "$n" --rm; exit 2; }
import sys
p, l, old, new = sys.argv[1], int(sys.argv[2]), sys.argv[3], sys.argv[4]
lines = open(p).read().split("\n")
assert old in lines[l - 1], lines[l - 1]
lines[l - 1] = lines[l - 1].replace(old, new, 1)
open(p, "w").write("\n".join(lines))
print("mutant:", lines[l - 1].strip())
PY
( cd "$d/repo" && /venv/bin/python -m pytest -q -p no:cacheprovider --timeout=900 --continue-on-collection-errors 2>&1 | tail -1 )
for p in "$@"; do
  ( cd "$d/verif" && VERIF_REPO="$d/repo" timeout 1800 ./check "$p" --tier quick 2>&1 | grep -E "^VIOLATION|^$p:|FATAL|Traceback" | cut -c1-260 )
done
/verif/tools/scratch.sh "$n" --rm
