"""GenFramerB.v — CRC-16 (utilities.py), RTU and binary framers, RTU frame-size oracle data.

Every anchored function body is matched against a *template* (exact statement shape,
docstrings and logging dropped) in which the constants / slice bounds / arithmetic the
proofs talk about are holes `H_<name>`; the holes are translated into `Expr` terms or
integer constants.  Anything that does not match its template is a TranslatorFail
(fail closed).  No semantics here: the Gallina interpreters are theories/{Crc,FrRtu,FrBin}.v.
"""
import ast
from . import core
from .core import Src, ExprTr, TranslatorFail, coq_z, coq_str, coq_list, const_int


# ------------------------------------------------------------------ template matcher

def _clean(stmts):
    out = []
    for s in stmts:
        if core.is_docstring(s) or core.is_log_call(s):
            continue
        out.append(s)
    return out


def _match(src, t, a, holes, where):
    """structural comparison of template node t with actual node a; Name('H_x') in the
    template binds hole x to the actual expression"""
    if isinstance(t, ast.Name) and t.id.startswith("H_"):
        if not isinstance(a, ast.expr):
            src.fail(a, "%s: hole %s does not face an expression" % (where, t.id))
        if t.id in holes and ast.dump(holes[t.id]) != ast.dump(a):
            src.fail(a, "%s: hole %s bound twice to different expressions" % (where, t.id))
        holes[t.id] = a
        return
    if type(t) is not type(a):
        src.fail(a if hasattr(a, "lineno") else None,
                 "%s: expected %s, found %s" % (where, _show(t), _show(a)))
    for f in t._fields:
        tv, av = getattr(t, f, None), getattr(a, f, None)
        if f in ("ctx", "type_comment", "kind"):
            continue
        if isinstance(tv, list):
            if f in ("body", "orelse", "finalbody"):
                tv, av = _clean(tv), _clean(av)
                if not tv and not av:
                    continue
            if not isinstance(av, list) or len(tv) != len(av):
                src.fail(a if hasattr(a, "lineno") else None,
                         "%s: expected %s, found %s" % (where, _show(t), _show(a)))
            for x, y in zip(tv, av):
                _match(src, x, y, holes, where)
        elif isinstance(tv, ast.AST):
            if not isinstance(av, ast.AST):
                src.fail(a if hasattr(a, "lineno") else None,
                         "%s: expected %s, found %s" % (where, _show(t), _show(a)))
            _match(src, tv, av, holes, where)
        else:
            if tv != av:
                src.fail(a if hasattr(a, "lineno") else None,
                         "%s: expected %s, found %s" % (where, _show(t), _show(a)))


def _show(n):
    try:
        return ast.unparse(n).split("\n")[0][:100]
    except Exception:
        return repr(n)


def match_body(src, fn, template):
    """match the body of function node fn against template source; returns holes"""
    tb = _clean(ast.parse(template).body)
    ab = _clean(fn.body)
    holes = {}
    where = fn.name
    if len(tb) != len(ab):
        src.fail(fn, "%s: %d statements expected, %d found" % (where, len(tb), len(ab)))
    for t, a in zip(tb, ab):
        _match(src, t, a, holes, where)
    return holes


def rewrite_calls(node):
    """byte2int(x) is the identity on Python 3 ints: atoms are named by source text"""
    return node


# ------------------------------------------------------------------ class table resolution

MSG_FILES = ["pymodbus/pdu.py", "pymodbus/bit_read_message.py", "pymodbus/bit_write_message.py",
             "pymodbus/register_read_message.py", "pymodbus/register_write_message.py",
             "pymodbus/diag_message.py", "pymodbus/file_message.py", "pymodbus/mei_message.py",
             "pymodbus/other_message.py"]

FIFO_T = """
hi_byte = byte2int(buffer[H_hi])
lo_byte = byte2int(buffer[H_lo])
return H_e
"""
MEI_T = """
size = H_start
count = byte2int(buffer[H_cnt])
while count > 0:
    _, object_length = struct.unpack('>BB', buffer[size:size + 2])
    size += object_length + H_step
    count -= 1
return size + H_tail
"""
PDU_CALC_T = """
if hasattr(cls, '_rtu_frame_size'):
    return cls._rtu_frame_size
elif hasattr(cls, '_rtu_byte_count_pos'):
    return rtuFrameSize(buffer, cls._rtu_byte_count_pos)
else:
    raise NotImplementedException('Cannot determine RTU frame size for %s' % cls.__name__)
"""


class Classes:
    def __init__(self):
        self.where = {}
        for rel in MSG_FILES:
            s = Src(rel)
            for n in s.mod.body:
                if isinstance(n, ast.ClassDef):
                    if n.name in self.where:
                        s.fail(n, "class %s defined twice" % n.name)
                    self.where[n.name] = (s, n)

    def mro(self, name):
        out = []
        while name not in ("object", "Singleton", "Exception"):
            if name not in self.where:
                raise TranslatorFail("pymodbus/*_message.py", 0, "class %s not found" % name)
            s, n = self.where[name]
            out.append((s, n))
            if len(n.bases) != 1 or not isinstance(n.bases[0], ast.Name):
                s.fail(n, "class %s: expected exactly one simple base class" % name)
            name = n.bases[0].id
        return out

    def attr(self, name, attr):
        """first class-level integer `attr = <const>` along the MRO (None if absent)"""
        for s, n in self.mro(name):
            for st in n.body:
                if isinstance(st, ast.Assign) and len(st.targets) == 1 and \
                        isinstance(st.targets[0], ast.Name) and st.targets[0].id == attr:
                    return const_int(s, st.value)
        return None

    def rule(self, name):
        for s, n in self.mro(name):
            for st in n.body:
                if isinstance(st, ast.FunctionDef) and st.name == "calculateRtuFrameSize":
                    if not (len(st.decorator_list) == 1 and ast.unparse(st.decorator_list[0]) == "classmethod"):
                        s.fail(st, "calculateRtuFrameSize must be a classmethod")
                    if n.name == "ModbusPDU":
                        match_body(s, st, PDU_CALC_T)
                        fs = self.attr(name, "_rtu_frame_size")
                        if fs is not None:
                            return "RFixed %s" % coq_z(fs)
                        bp = self.attr(name, "_rtu_byte_count_pos")
                        if bp is not None:
                            return "RByteCount %s" % coq_z(bp)
                        return "RNone"
                    if n.name == "ReadFifoQueueResponse":
                        h = match_body(s, st, FIFO_T)
                        tr = ExprTr(s, {"hi_byte", "lo_byte"})
                        return "RFifo %s %s %s" % (coq_z(const_int(s, h["H_hi"])), coq_z(const_int(s, h["H_lo"])),
                                                   tr.tr(h["H_e"]))
                    if n.name == "ReadDeviceInformationResponse":
                        h = match_body(s, st, MEI_T)
                        return "RMei %s %s %s %s" % tuple(coq_z(const_int(s, h[k]))
                                                          for k in ("H_start", "H_cnt", "H_step", "H_tail"))
                    s.fail(st, "unrecognised calculateRtuFrameSize override in %s" % n.name)
        raise TranslatorFail("pymodbus/pdu.py", 0, "no calculateRtuFrameSize for %s" % name)

    def row(self, name):
        fc = self.attr(name, "function_code")
        if fc is None:
            raise TranslatorFail("pymodbus", 0, "class %s has no function_code" % name)
        sub = self.attr(name, "sub_function_code")
        return "{| cr_name := %s; cr_fc := %s; cr_sub := %s; cr_rule := %s |}" % (
            coq_str(name), coq_z(fc), "None" if sub is None else "Some %s" % coq_z(sub), self.rule(name))


LOOKUP_T = "return self.__lookup.get(function_code, H_default)"


def decoder(fac, classes, cls):
    rows, subrows = [], []
    tbl = fac.class_attr(cls, "__function_table")
    sub = fac.class_attr(cls, "__sub_function_table")
    for node, out in ((tbl, rows), (sub, subrows)):
        if not isinstance(node, ast.List) or not all(isinstance(e, ast.Name) for e in node.elts):
            fac.fail(fac.cls(cls), "%s: function tables must be lists of class names" % cls)
        for e in node.elts:
            out.append(classes.row(e.id))
    h = match_body(fac, fac.func(cls, "lookupPduClass"), LOOKUP_T)
    if not isinstance(h["H_default"], ast.Name):
        fac.fail(fac.func(cls, "lookupPduClass"), "default class must be a name")
    init = ast.unparse(fac.func(cls, "__init__"))
    if "self.__lookup = dict([(f.function_code, f) for f in self.__function_table])" not in init:
        fac.fail(fac.func(cls, "__init__"), "%s.__init__: __lookup must be built from __function_table by function_code" % cls)
    return ("{| dc_classes := %s;\n     dc_subclasses := %s;\n     dc_default := %s |}" % (
        "[\n      " + ";\n      ".join(rows) + "]", "[\n      " + ";\n      ".join(subrows) + "]",
        classes.rule(h["H_default"].id)))


# ------------------------------------------------------------------ utilities.py

TABLE_T = """
result = []
for byte in range(H_range):
    crc = H_init
    for _ in range(H_rounds):
        if H_test:
            crc = H_then
        else:
            crc >>= H_else_shift
        byte >>= H_byte_shift
    result.append(crc)
return result
"""
CRC_T = """
crc = H_init
for a in data:
    idx = __crc16_table[H_idx]
    crc = H_upd
swapped = H_swap
return swapped
"""
CHECK_T = "return H_check"
SIZE_T = "return H_size"


def gen_crc(D):
    u = Src("pymodbus/utilities.py")
    h = match_body(u, u.func(None, "__generate_crc16_table"), TABLE_T)
    tr = ExprTr(u, {"byte", "crc"})
    D["cc_tab_range"] = coq_z(const_int(u, h["H_range"]))
    D["cc_tab_init"] = coq_z(const_int(u, h["H_init"]))
    D["cc_tab_rounds"] = coq_z(const_int(u, h["H_rounds"]))
    D["cc_tab_test"] = tr.tr(h["H_test"])
    D["cc_tab_then"] = tr.tr(h["H_then"])
    D["cc_tab_else"] = "(EBin Shr (EAtom \"crc\") (EInt %s))" % coq_z(nonneg(u, h["H_else_shift"]))
    D["cc_tab_byte"] = "(EBin Shr (EAtom \"byte\") (EInt %s))" % coq_z(nonneg(u, h["H_byte_shift"]))
    # the table is built once at import: `__crc16_table = __generate_crc16_table()`
    if ast.unparse(u.module_const("__crc16_table")) != "__generate_crc16_table()":
        u.fail(None, "__crc16_table must be __generate_crc16_table()")
    h = match_body(u, u.func(None, "computeCRC"), CRC_T)
    D["cc_init"] = coq_z(const_int(u, h["H_init"]))
    D["cc_idx"] = ExprTr(u, {"crc", "byte2int(a)"}).tr(h["H_idx"])
    D["cc_upd"] = ExprTr(u, {"crc", "idx"}).tr(h["H_upd"])
    D["cc_swap"] = ExprTr(u, {"crc"}).tr(h["H_swap"])
    h = match_body(u, u.func(None, "checkCRC"), CHECK_T)
    D["cc_check"] = ExprTr(u, {"computeCRC(data)", "check"}).tr_bool(h["H_check"])
    h = match_body(u, u.func(None, "rtuFrameSize"), SIZE_T)
    D["cc_rtu_size"] = ExprTr(u, {"byte2int(data[byte_count_pos])", "byte_count_pos"}).tr(h["H_size"])
    c = Src("pymodbus/compat.py")
    if "byte2int = lambda b: b" not in c.text:
        c.fail(None, "compat.byte2int is expected to be the identity on Python 3")


def nonneg(src, node):
    v = const_int(src, node)
    if v < 0:
        src.fail(node, "negative shift count")
    return v


# ------------------------------------------------------------------ rtu_framer.py

RTU_INIT_T = """
self._buffer = b''
self._header = {'uid': H_uid, 'len': H_len, 'crc': H_crc}
self._hsize = H_hsize
self._end = b'\\r\\n'
self._min_frame_size = H_min
self.decoder = decoder
self.client = client
"""
RTU_CHECK_T = """
try:
    self.populateHeader()
    frame_size = self._header['len']
    data = self._buffer[:H_data_hi]
    crc = self._buffer[H_crc_lo:H_crc_hi]
    crc_val = H_crc_val
    if checkCRC(data, crc_val):
        return True
    else:
        self.resetFrame()
        return False
except (IndexError, KeyError, struct.error):
    return False
"""
RTU_ADVANCE_T = """
try:
    self._buffer = self._buffer[H_adv:]
except KeyError:
    self.resetFrame()
self._header = {}
"""
RTU_RESET_T = """
self._buffer = b''
self._header = {}
"""
RTU_READY_T = """
if H_ready:
    if not self._header:
        try:
            self.populateHeader()
        except IndexError:
            self._header = {}
            return False
    return self._header and H_ready2
else:
    return False
"""
RTU_POP_T = """
data = data if data else self._buffer
self._header['uid'] = byte2int(data[0])
func_code = byte2int(data[1])
pdu_class = self.decoder.lookupPduClass(func_code)
size = pdu_class.calculateRtuFrameSize(data)
self._header['len'] = size
self._header['crc'] = data[H_lo:H_hi]
"""
ADD_T = "self._buffer += message"
RTU_GET_T = """
start = H_start
end = H_end
buffer = self._buffer[start:end]
if H_cond:
    return buffer
return b''
"""
RTU_RESULT_T = """
result.unit_id = self._header['uid']
result.transaction_id = self._header['uid']
"""
RTU_PIP_T = """
if not isinstance(unit, (list, tuple)):
    unit = [unit]
self.addToFrame(data)
single = kwargs.get('single', False)
while self.isFrameReady():
    if self.checkFrame():
        if self._validate_unit_id(unit, single):
            self._process(callback)
        else:
            self.advanceFrame()
    elif self._buffer:
        self._header = {}
        break
    else:
        self.resetFrame()
else:
    pass
"""
RTU_BUILD_T = """
data = message.encode()
packet = struct.pack(RTU_FRAME_HEADER, message.unit_id, message.function_code) + data
packet += struct.pack(H_crcfmt, computeCRC(packet))
message.transaction_id = message.unit_id
return packet
"""
RTU_PROCESS_T = """
data = self.getRawFrame() if error else self.getFrame()
result = self.decoder.decode(data)
if result is None:
    raise ModbusIOException('Unable to decode request')
elif error and result.function_code < 128:
    raise InvalidMessageReceivedException(result)
else:
    self.populateResult(result)
    self.advanceFrame()
    callback(result)
"""
VALIDATE_T = """
if single:
    return True
else:
    if 0 in units or 255 in units:
        return True
    return self._header['uid'] in units
"""


def str_const(src, node):
    if not (isinstance(node, ast.Constant) and isinstance(node.value, str)):
        src.fail(node, "expected a string literal")
    return node.value


def frame_header_fmt(fr, name):
    """RTU_FRAME_HEADER = BYTE_ORDER + FRAME_HEADER with the two constants of framer/__init__.py"""
    ini = Src("pymodbus/framer/__init__.py")
    if ast.unparse(fr.module_const(name)) != "BYTE_ORDER + FRAME_HEADER":
        fr.fail(None, "%s must be BYTE_ORDER + FRAME_HEADER" % name)
    return str_const(ini, ini.module_const("BYTE_ORDER")) + str_const(ini, ini.module_const("FRAME_HEADER"))


def pip_else_ok(fn):
    """the RTU processIncomingPacket ends with `else: <logging only>`: normalise to pass"""
    return fn


def gen_rtu(D):
    fr = Src("pymodbus/framer/rtu_framer.py")
    C = "ModbusRtuFramer"
    h = match_body(fr, fr.func(C, "__init__"), RTU_INIT_T)
    D["rc_hsize"] = coq_z(const_int(fr, h["H_hsize"]))
    D["rc_min_frame"] = coq_z(const_int(fr, h["H_min"]))
    D["rc_init_uid"] = coq_z(const_int(fr, h["H_uid"]))
    D["rc_init_len"] = coq_z(const_int(fr, h["H_len"]))
    D["rc_init_crc"] = coq_list([coq_z(ord(c)) for c in str_const(fr, h["H_crc"])])
    h = match_body(fr, fr.func(C, "isFrameReady"), RTU_READY_T)
    D["rc_ready"] = ExprTr(fr, {"len(self._buffer)", "self._hsize"}).tr_bool(h["H_ready"])
    D["rc_ready2"] = ExprTr(fr, {"len(self._buffer)", "self._header['len']"}).tr_bool(h["H_ready2"])
    h = match_body(fr, fr.func(C, "populateHeader"), RTU_POP_T)
    tr = ExprTr(fr, {"size"})
    D["rc_pop_crc_lo"], D["rc_pop_crc_hi"] = tr.tr(h["H_lo"]), tr.tr(h["H_hi"])
    h = match_body(fr, fr.func(C, "checkFrame"), RTU_CHECK_T)
    tr = ExprTr(fr, {"frame_size"})
    D["rc_chk_data_hi"] = tr.tr(h["H_data_hi"])
    D["rc_chk_crc_lo"], D["rc_chk_crc_hi"] = tr.tr(h["H_crc_lo"]), tr.tr(h["H_crc_hi"])
    D["rc_chk_crc_val"] = ExprTr(fr, {"byte2int(crc[0])", "byte2int(crc[1])"}).tr(h["H_crc_val"])
    h = match_body(fr, fr.func(C, "getFrame"), RTU_GET_T)
    tr = ExprTr(fr, {"self._hsize", "self._header['len']", "end"})
    D["rc_get_start"], D["rc_get_end"] = tr.tr(h["H_start"]), tr.tr(h["H_end"])
    D["rc_get_cond"] = tr.tr_bool(h["H_cond"])
    h = match_body(fr, fr.func(C, "advanceFrame"), RTU_ADVANCE_T)
    D["rc_adv"] = ExprTr(fr, {"self._header['len']"}).tr(h["H_adv"])
    match_body(fr, fr.func(C, "resetFrame"), RTU_RESET_T)
    match_body(fr, fr.func(C, "addToFrame"), ADD_T)
    match_body(fr, fr.func(C, "populateResult"), RTU_RESULT_T)
    match_body(fr, fr.func(C, "_process"), RTU_PROCESS_T)
    pip = fr.func(C, "processIncomingPacket")
    # the final `else:` holds only a logging call; give the template's `pass` something to face
    top = _clean(pip.body)
    if top and isinstance(top[-1], (ast.If, ast.While)) and top[-1].orelse and not _clean(top[-1].orelse):
        top[-1].orelse = [ast.Pass()]
    match_body(fr, pip, RTU_PIP_T)
    h = match_body(fr, fr.func(C, "buildPacket"), RTU_BUILD_T)
    D["rc_hdr_fmt"] = coq_str(frame_header_fmt(fr, "RTU_FRAME_HEADER"))
    D["rc_crc_fmt"] = coq_str(str_const(fr, h["H_crcfmt"]))
    ini = Src("pymodbus/framer/__init__.py")
    match_body(ini, ini.func("ModbusFramer", "_validate_unit_id"), VALIDATE_T)


# ------------------------------------------------------------------ binary_framer.py

BIN_INIT_T = """
self._buffer = b''
self._header = {'crc': H_crc, 'len': H_len, 'uid': H_uid}
self._hsize = H_hsize
self._start = H_start
self._end = H_end
self._repeat = [b'}'[0], b'{'[0]]
self.decoder = decoder
self.client = client
"""
BIN_CHECK_T = """
start = self._buffer.find(self._start)
if start == -1:
    return False
if start > 0:
    self._buffer = self._buffer[start:]
end = self._buffer.find(self._end)
if end != -1:
    self._header['len'] = end
    self._header['uid'] = struct.unpack('>B', self._buffer[H_uid_lo:H_uid_hi])[0]
    self._header['crc'] = struct.unpack('>H', self._buffer[H_crc_lo:H_crc_hi])[0]
    data = self._buffer[H_data_lo:H_data_hi]
    return checkCRC(data, self._header['crc'])
return False
"""
BIN_ADVANCE_T = """
self._buffer = self._buffer[H_adv:]
self._header = {'crc': H_crc, 'len': H_len, 'uid': H_uid}
"""
BIN_RESET_T = """
self._buffer = b''
self._header = {'crc': H_crc, 'len': H_len, 'uid': H_uid}
"""
BIN_READY_T = "return H_ready"
BIN_RESULT_T = "result.unit_id = self._header['uid']"
BIN_PIP_T = """
self.addToFrame(data)
if not isinstance(unit, (list, tuple)):
    unit = [unit]
single = kwargs.get('single', False)
while self.isFrameReady():
    if self.checkFrame():
        if self._validate_unit_id(unit, single):
            result = self.decoder.decode(self.getFrame())
            if result is None:
                raise ModbusIOException('Unable to decode response')
            self.populateResult(result)
            self.advanceFrame()
            callback(result)
        else:
            self.resetFrame()
            break
    else:
        self.resetFrame()
        break
"""
BIN_BUILD_T = """
data = self._preflight(message.encode())
packet = struct.pack(BINARY_FRAME_HEADER, message.unit_id, message.function_code) + data
packet += struct.pack(H_crcfmt, computeCRC(packet))
packet = self._start + packet + self._end
return packet
"""
BIN_PREFLIGHT_T = """
array = bytearray()
for d in data:
    if d in self._repeat:
        array.append(d)
    array.append(d)
return bytes(array)
"""


def one_byte(src, node):
    if not (isinstance(node, ast.Constant) and isinstance(node.value, bytes) and len(node.value) == 1):
        src.fail(node, "expected a one-byte bytes literal")
    return node.value[0]


def gen_bin(D):
    fr = Src("pymodbus/framer/binary_framer.py")
    C = "ModbusBinaryFramer"
    h = match_body(fr, fr.func(C, "__init__"), BIN_INIT_T)
    init = tuple(const_int(fr, h[k]) for k in ("H_uid", "H_len", "H_crc"))
    D["bc_hsize"] = coq_z(const_int(fr, h["H_hsize"]))
    D["bc_start"] = coq_z(one_byte(fr, h["H_start"]))
    D["bc_end"] = coq_z(one_byte(fr, h["H_end"]))
    D["bc_repeat"] = coq_list([coq_z(ord("}")), coq_z(ord("{"))])
    D["bc_init_uid"], D["bc_init_len"], D["bc_init_crc"] = (coq_z(x) for x in init)
    h = match_body(fr, fr.func(C, "isFrameReady"), BIN_READY_T)
    D["bc_ready"] = ExprTr(fr, {"len(self._buffer)"}).tr_bool(h["H_ready"])
    h = match_body(fr, fr.func(C, "checkFrame"), BIN_CHECK_T)
    D["bc_uid_lo"], D["bc_uid_hi"] = coq_z(const_int(fr, h["H_uid_lo"])), coq_z(const_int(fr, h["H_uid_hi"]))
    tr = ExprTr(fr, {"start", "end"})
    D["bc_crc_lo"], D["bc_crc_hi"] = tr.tr(h["H_crc_lo"]), tr.tr(h["H_crc_hi"])
    D["bc_data_lo"], D["bc_data_hi"] = tr.tr(h["H_data_lo"]), tr.tr(h["H_data_hi"])
    h = match_body(fr, fr.func(C, "getFrame"), RTU_GET_T)
    tr = ExprTr(fr, {"self._hsize", "self._header['len']", "end"})
    D["bc_get_start"], D["bc_get_end"] = tr.tr(h["H_start"]), tr.tr(h["H_end"])
    D["bc_get_cond"] = tr.tr_bool(h["H_cond"])
    for name, t in (("advanceFrame", BIN_ADVANCE_T), ("resetFrame", BIN_RESET_T)):
        h = match_body(fr, fr.func(C, name), t)
        if tuple(const_int(fr, h[k]) for k in ("H_uid", "H_len", "H_crc")) != init:
            fr.fail(fr.func(C, name), "%s restores a header different from __init__'s" % name)
        if name == "advanceFrame":
            D["bc_adv"] = ExprTr(fr, {"self._header['len']"}).tr(h["H_adv"])
    match_body(fr, fr.func(C, "addToFrame"), ADD_T)
    match_body(fr, fr.func(C, "populateResult"), BIN_RESULT_T)
    match_body(fr, fr.func(C, "processIncomingPacket"), BIN_PIP_T)
    match_body(fr, fr.func(C, "_preflight"), BIN_PREFLIGHT_T)
    h = match_body(fr, fr.func(C, "buildPacket"), BIN_BUILD_T)
    D["bc_hdr_fmt"] = coq_str(frame_header_fmt(fr, "BINARY_FRAME_HEADER"))
    D["bc_crc_fmt"] = coq_str(str_const(fr, h["H_crcfmt"]))


# ------------------------------------------------------------------ output

def record(name, typ, D, keys):
    return "Definition %s : %s := {|\n  %s\n|}.\n" % (name, typ, ";\n  ".join("%s := %s" % (k, D[k]) for k in keys))


def generate():
    D = {}
    gen_crc(D)
    gen_rtu(D)
    gen_bin(D)
    classes = Classes()
    fac = Src("pymodbus/factory.py")
    out = [core.HEADER, "From PM.theories Require Import FrBCode.\nOpen Scope list_scope.\n"]
    out.append(record("crc", "crc_code", D, [k for k in D if k.startswith("cc_")]))
    out.append(record("rtu", "rtu_code", D, [k for k in D if k.startswith("rc_")]))
    out.append(record("bin", "bin_code", D, [k for k in D if k.startswith("bc_")]))
    out.append("Definition server_decoder : decoder_code :=\n  %s.\n" % decoder(fac, classes, "ServerDecoder"))
    out.append("Definition client_decoder : decoder_code :=\n  %s.\n" % decoder(fac, classes, "ClientDecoder"))
    return {"GenFramerB.v": "\n".join(out)}
