(* Props/C19.v — placeholder while the proofs are being written. *)
From PM.theories Require Import Base Struct Payload.
From PM.Generated Require Import GenPayload.
Open Scope list_scope.
Open Scope Z_scope.

Example C19_nonvacuous :
  to_string code Big Big [U32 0x11223344] = Ok (map Z.to_N [0x11; 0x22; 0x33; 0x44]) /\
  to_string code Big Little [U32 0x11223344] = Ok (map Z.to_N [0x33; 0x44; 0x11; 0x22]) /\
  to_string code Little Big [U32 0x11223344] = Ok (map Z.to_N [0x22; 0x11; 0x44; 0x33]) /\
  to_string code Little Little [U32 0x11223344] = Ok (map Z.to_N [0x44; 0x33; 0x22; 0x11]).
Proof. vm_compute. repeat split. Qed.
Print Assumptions C19_nonvacuous.
