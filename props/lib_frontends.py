"""Driving the real pymodbus server front-ends in-process (shared by props/c12.py and props/c17.py).

Seven front-ends: SyncTcp / SyncSerial / SyncUdp (server/sync.py handlers, built with __new__ and a
fake request/server), AioTcp / AioUdp (server/async_io.py protocol objects on a private event loop
with a recording transport), TwTcp / TwUdp (server/asynchronous.py protocol objects with a
recording transport).  No sockets, no threads.  Every step (one chunk, one datagram, one transport
fault, or the peer closing) returns a StepObs: which exception class reached the handler's `try`
(recorded by an instrumented processIncomingPacket / the scripted recv), what the handler then did
(running flag, resetFrame called by the HANDLER, transport closed, exception escaped), the bytes it
sent and the arguments it handed to the framer.

Independent frame/PDU builders (struct only; own CRC/LRC) are here too so that request bytes and
expected responses never come from the code under test.
"""
import asyncio
import socket
import struct

from lib.pyx import pyexn

FRONTENDS = ["SyncTcp", "SyncSerial", "SyncUdp", "AioTcp", "AioUdp", "TwTcp", "TwUdp"]
STREAM_FES = ["SyncTcp", "AioTcp", "TwTcp"]
DGRAM_FES = ["SyncUdp", "AioUdp", "TwUdp"]
FRAMER_NAMES = ["socket", "rtu", "ascii", "binary", "tls"]
TABLES = ["di", "co", "hr", "ir"]
IDENT = {0: "VendorX", 1: "PC-17", 2: "1.2.3", 3: "http://v.example", 4: "Prod", 5: "Model", 6: "App"}


def framer_class(name):
    from pymodbus import transaction as T
    from pymodbus.framer.tls_framer import ModbusTlsFramer
    return {"socket": T.ModbusSocketFramer, "rtu": T.ModbusRtuFramer, "ascii": T.ModbusAsciiFramer,
            "binary": T.ModbusBinaryFramer, "tls": ModbusTlsFramer}[name]


# ----------------------------------------------------------------------------- singletons / context

def reset_control():
    from pymodbus.device import ModbusControlBlock
    cb = ModbusControlBlock()
    cb.reset()
    cb.clearEvents()
    cb.ListenOnly = False
    cb.Mode = "ASCII"
    cb.Delimiter = "\r"
    cb.Plus.reset()
    for k in range(7):
        cb.Identity[k] = IDENT[k]
    return cb


def init_value(unit, table, i):
    if table in ("di", "co"):
        return (unit + i + (1 if table == "di" else 0)) % 2
    return (unit * 1000 + (500 if table == "ir" else 0) + i * 7) & 0xFFFF


def make_context(spec):
    """spec = {"single": bool, "units": [ids], "size": n, "base": first block address (default 0),
    "zero_mode": bool (default True: wire address = block address; False: block address = wire + 1)}"""
    from pymodbus.datastore import ModbusSequentialDataBlock, ModbusSlaveContext, ModbusServerContext
    n = spec.get("size", 16)
    base = spec.get("base", 0)

    def slave(u):
        if spec.get("defaults"):
            # no block given at all: the four default tables of ModbusSlaveContext (65536 zero cells each) — four
            # SEPARATE tables, per unit
            return ModbusSlaveContext(zero_mode=spec.get("zero_mode", True))
        blocks = {t: ModbusSequentialDataBlock(base, [init_value(u, t, i) for i in range(n)]) for t in TABLES}
        if spec.get("poison"):
            # a holding register holding a float: FC22 on it makes request.execute() raise TypeError
            # (`float & int`), which only the catch-all of execute()/_execute() turns into exception 04
            blocks["hr"].values[n - 1] = 1.5
        return ModbusSlaveContext(di=blocks["di"], co=blocks["co"], hr=blocks["hr"], ir=blocks["ir"],
                                  zero_mode=spec.get("zero_mode", True))
    if spec["single"]:
        return ModbusServerContext(slaves=slave(0), single=True)
    return ModbusServerContext(slaves={u: slave(u) for u in spec["units"]}, single=False)


def dump_context(ctx):
    """{unit: {table: [ints]}} — full dump of every block"""
    out = {}
    for u in sorted(ctx.slaves()):
        sl = ctx[u]
        out[u] = {t: [int(v) for v in sl.store[t[0]].values] for t in TABLES}
    return out


def spec_initial_dump(spec):
    n = spec.get("size", 16)
    units = [0] if spec["single"] else sorted(spec["units"])
    if spec.get("defaults"):
        return {u: {t: [0] * n for t in TABLES} for u in units}
    return {u: {t: [init_value(u, t, i) for i in range(n)] for t in TABLES} for u in units}


# ----------------------------------------------------------------------------- instrumentation

class Rec:
    """per-connection recorder"""

    def __init__(self):
        self.reset_step()
        self.sent = []          # all bytes objects written, in order, whole life of the connection
        self.closed = False

    def reset_step(self):
        self.pip_calls = []     # (units, single, datalen)
        self.pip_raised = []    # aligned with pip_calls: exception object or None
        self.raised = None      # exception object that left processIncomingPacket / recv
        self.delivered = 0
        self.cb_raised = []
        self.handler_resets = 0
        self.step_sent = []
        self.in_pip = False
        self.closed_now = False
        self.resets_at_exit = None
        self.eof_spin = False


def diff_cells(before, after, base=0):
    """changed cells as (unit, table, BLOCK address, old, new); -1 = the cell does not exist (a table
    that grew or shrank is reported cell by cell)"""
    out = []
    for u in sorted(before):
        for ti, t in enumerate(("co", "hr", "di", "ir")):
            b, a = before[u][t], after[u][t]
            if b is a or b == a:
                continue
            for i in range(max(len(b), len(a))):
                x = b[i] if i < len(b) else -1
                y = a[i] if i < len(a) else -1
                if x != y:
                    out.append((u, ti, base + i, x, y))
    return out


def instrument(framer, rec, run=None):
    orig_pip = framer.processIncomingPacket
    orig_reset = framer.resetFrame

    def pip(*a, **kw):
        args = dict(zip(("data", "callback", "unit"), a))
        args.update(kw)
        cb = args["callback"]

        def wrapped(req):
            rec.delivered += 1
            before = run._dump() if run is not None else None
            try:
                return cb(req)
            except BaseException as e:  # noqa: BLE001
                rec.cb_raised.append(e)
                raise
            finally:
                if run is not None:
                    run.cells += diff_cells(before, run._dump(), run.base)
                    run.executed.append((getattr(req, "function_code", None), getattr(req, "unit_id", None)))
        units = args.get("unit", "MISSING")
        rec.pip_calls.append((list(units) if isinstance(units, (list, tuple)) else units,
                              args.get("single", "MISSING"), len(args["data"])))
        rec.in_pip = True
        # the call is forwarded EXACTLY as the handler made it (same positional/keyword split): only the
        # callback is wrapped — how a front-end passes `unit` is part of what is under test
        a2 = list(a)
        kw2 = dict(kw)
        if len(a2) > 1:
            a2[1] = wrapped
        else:
            kw2["callback"] = wrapped
        try:
            orig_pip(*a2, **kw2)
        except BaseException as e:  # noqa: BLE001
            rec.raised = e
            rec.pip_raised.append(e)
            raise
        else:
            rec.pip_raised.append(None)
        finally:
            rec.in_pip = False

    def reset():
        if not rec.in_pip:
            rec.handler_resets += 1
        return orig_reset()
    framer.processIncomingPacket = pip
    framer.resetFrame = reset


def framer_snapshot(framer):
    h = framer._header
    return (bytes(framer._buffer), tuple(sorted((k, repr(v)) for k, v in h.items())) if isinstance(h, dict) else repr(h))


def raised_name(e):
    """the class of what reached the handler's try, in the vocabulary of Ladder.v's [raised]"""
    if e is None:
        return None
    if isinstance(e, socket.timeout):
        return "RTimeout"
    if isinstance(e, OSError):
        return "RSockErr"
    if isinstance(e, asyncio.CancelledError):
        return "RCancelled"
    if not isinstance(e, Exception):
        return "RBaseExc"
    return "(RPy %s)" % pyexn(e)


class StepObs:
    def __init__(self, kind, rec, escaped, running, framer, store_changed, listen_only=False):
        self.kind = kind                      # data | empty | timeout | sockerr
        self.raised = raised_name(rec.raised)
        self.raised_repr = repr(rec.raised)[:120] if rec.raised is not None else None
        self.escaped = raised_name(escaped)
        self.escaped_repr = repr(escaped)[:120] if escaped is not None else None
        self.running = bool(running)
        self.resets = rec.handler_resets
        self.closed = rec.closed_now
        self.delivered = rec.delivered
        self.cb_raised = [raised_name(e) for e in rec.cb_raised]
        self.pip_calls = list(rec.pip_calls)
        self.pip_raised = [raised_name(e) for e in rec.pip_raised]
        self.eof_spin = getattr(rec, "eof_spin", False)
        self.out = list(rec.step_sent)
        self.store_changed = store_changed
        self.listen_only = listen_only
        self.snapshot = framer_snapshot(framer) if framer is not None else None

    def action(self):
        """what the handler did, in the vocabulary of Ladder.v's [action]"""
        if self.escaped is not None:
            return "Escape"
        if self.closed:
            return "CloseTransport"
        if not self.running:
            return "StopReset" if self.resets else "Stop"
        return "ResetFrame" if self.resets else "Continue"

    def to_json(self):
        return {"kind": self.kind, "raised": self.raised, "raised_repr": self.raised_repr, "escaped": self.escaped,
                "escaped_repr": self.escaped_repr, "action": self.action(), "delivered": self.delivered,
                "cb_raised": self.cb_raised, "out": [o.hex() for o in self.out], "store_changed": self.store_changed,
                "pip": [[u, s, n] for u, s, n in self.pip_calls]}


# ----------------------------------------------------------------------------- fake transports

class FakeServer:
    def __init__(self, ctx, framer_cls, cfg):
        from pymodbus.factory import ServerDecoder
        from pymodbus.device import ModbusControlBlock
        self.context = ctx
        self.framer = framer_cls
        self.decoder = ServerDecoder()
        self.control = ModbusControlBlock()
        self.threads = []
        self.active_connections = {}
        self.ignore_missing_slaves = cfg.get("ignore_missing_slaves", False)
        self.broadcast_enable = cfg.get("broadcast_enable", False)


class SyncRequest:
    """the `request` of a stream handler: scripted recv, recording send"""

    def __init__(self, rec, handler_ref, serial):
        self.rec, self.h, self.serial = rec, handler_ref, serial
        self.script = []
        self.pending = b""
        self.send_fault = None
        self.eof = False
        self.eof_reads = 0

    def recv(self, n):
        # a connection the peer has closed keeps answering b'' — a handler that goes on reading it spins for
        # ever; after 64 such reads the step is ended through the scripted exit and flagged (rec.eof_spin)
        if self.eof and not self.serial and not self.script and not self.pending:
            self.eof_reads += 1
            if self.eof_reads <= 64:
                return b""
            self.rec.eof_spin = True
        # like a socket: at most n bytes of what the peer has written (the handlers ask for 1024)
        if self.pending:
            out, self.pending = self.pending[:n], self.pending[n:]
            return out
        if self.script:
            item = self.script.pop(0)
            if isinstance(item, BaseException):
                self.rec.raised = item
                raise item
            if len(item) == 0:
                self.eof = True
            out, self.pending = item[:n], item[n:]
            return out
        # leave the loop without any other effect (see module docstring of props/c12.py)
        self.rec.resets_at_exit = self.rec.handler_resets
        if self.serial:
            self.h[0].running = False
            return b""
        self.h[0]._verif_exit = True
        raise OSError("verif: end of scripted step")

    def send(self, data):
        if self.send_fault is not None:
            e, self.send_fault = self.send_fault, None
            raise e
        self.rec.sent.append(bytes(data))
        self.rec.step_sent.append(bytes(data))
        return len(data)


class UdpSocket:
    def __init__(self, rec):
        self.rec = rec

    def sendto(self, data, addr):
        self.rec.sent.append(bytes(data))
        self.rec.step_sent.append(bytes(data))
        return len(data)


class AioTransport:
    def __init__(self, rec, peer):
        self.rec, self.peer = rec, peer

    def get_extra_info(self, name, default=None):
        return {"sockname": ("127.0.0.1", 5020), "peername": self.peer}.get(name, default)

    def write(self, data):
        self.rec.sent.append(bytes(data))
        self.rec.step_sent.append(bytes(data))

    def sendto(self, data, addr=None):
        self.rec.sent.append(bytes(data))
        self.rec.step_sent.append(bytes(data))

    def close(self):
        self.rec.closed = True
        self.rec.closed_now = True

    def is_closing(self):
        return self.rec.closed


class TwTransport:
    def __init__(self, rec):
        self.rec = rec

    def getHost(self):
        return "127.0.0.1:5020"

    def getPeer(self):
        return "127.0.0.1:40000"

    def write(self, data, addr=None):
        self.rec.sent.append(bytes(data))
        self.rec.step_sent.append(bytes(data))

    def loseConnection(self):
        self.rec.closed = True
        self.rec.closed_now = True


# ----------------------------------------------------------------------------- the runs

class Conn:
    def __init__(self, cid):
        self.cid = cid
        self.rec = Rec()
        self.handler = None
        self.framer = None
        self.request = None
        self.peer = ("127.0.0.1", 40000 + cid)
        self.alive = True


class Run:
    """One server (one shared context) of front-end `fe`, any number of connections / peers."""

    def __init__(self, fe, framer_name, ctxspec, cfg=None):
        self.fe, self.framer_name, self.cfg = fe, framer_name, dict(cfg or {})
        self.control = reset_control()
        self.ctx = make_context(ctxspec)
        self.base = ctxspec.get("base", 0)
        self.fcls = framer_class(framer_name)
        self.conns = {}
        self.cells = []         # (unit, table 0=co 1=hr 2=di 3=ir, address, old, new) per executed request, in order
        self.executed = []      # (function_code, unit_id) of every request handed to execute
        self.all_handlers = []
        self.loop = None
        self.shared = None        # the one protocol object of the datagram servers
        self.shared_rec = None
        if fe.startswith("Sync") or fe.startswith("Aio"):
            self.server = FakeServer(self.ctx, self.fcls, self.cfg)
        if fe.startswith("Aio"):
            self.loop = asyncio.new_event_loop()
        if fe == "TwTcp":
            from pymodbus.server.asynchronous import ModbusServerFactory
            self.factory = ModbusServerFactory(self.ctx, framer=self.fcls,
                                               ignore_missing_slaves=self.cfg.get("ignore_missing_slaves", False))
        if fe == "TwUdp":
            from pymodbus.server.asynchronous import ModbusUdpProtocol
            self.shared = ModbusUdpProtocol(self.ctx, framer=self.fcls,
                                            ignore_missing_slaves=self.cfg.get("ignore_missing_slaves", False))
            self.shared_rec = Rec()
            self.shared.transport = TwTransport(self.shared_rec)
            instrument(self.shared.framer, self.shared_rec, self)
        if fe == "AioUdp":
            from pymodbus.server.async_io import ModbusDisconnectedRequestHandler as H
            self.shared_rec = Rec()

            async def mk():
                h = H(self.server)
                h.connection_made(AioTransport(self.shared_rec, None))
                return h
            self.shared = self.loop.run_until_complete(mk())
            instrument(self.shared.framer, self.shared_rec, self)

    # ---- connections

    def open(self, cid):
        c = Conn(cid)
        self.conns[cid] = c
        fe = self.fe
        if fe in ("SyncTcp", "SyncSerial"):
            from pymodbus.server import sync as S
            H = S.ModbusConnectedRequestHandler if fe == "SyncTcp" else S.ModbusSingleRequestHandler
            h = H.__new__(H)
            ref = [h]
            c.request = SyncRequest(c.rec, ref, serial=(fe == "SyncSerial"))
            h.request, h.client_address, h.server = c.request, c.peer, self.server
            h.setup()
            c.handler, c.framer = h, h.framer
            instrument(c.framer, c.rec, self)
        elif fe == "AioTcp":
            from pymodbus.server.async_io import ModbusConnectedRequestHandler as H

            async def mk():
                h = H(self.server)
                h.connection_made(AioTransport(c.rec, c.peer))
                return h
            c.handler = self.loop.run_until_complete(mk())
            self.all_handlers.append(c.handler)
            c.framer = c.handler.framer
            instrument(c.framer, c.rec, self)
        elif fe == "TwTcp":
            p = self.factory.buildProtocol(None)
            p.makeConnection(TwTransport(c.rec))
            c.handler, c.framer = p, p.framer
            instrument(c.framer, c.rec, self)
        else:   # datagram front-ends: a "connection" is just a peer address
            if self.shared is not None:
                c.rec = self.shared_rec
                c.handler, c.framer = self.shared, self.shared.framer
        return c

    def _dump(self):
        return dump_context(self.ctx)

    def feed(self, cid, item, send_fault=None):
        """item: bytes (a chunk / datagram; b'' = peer closed, stream front-ends) or an exception
        instance raised by the transport read (sync stream handlers only)."""
        c = self.conns[cid]
        fe = self.fe
        before = self._dump()
        lo_before = bool(self.control.ListenOnly)
        escaped = None
        kind = "data"
        if isinstance(item, BaseException):
            kind = "timeout" if isinstance(item, socket.timeout) else "sockerr"
        elif len(item) == 0:
            kind = "empty"
        c.rec.reset_step()
        if fe in ("SyncTcp", "SyncSerial"):
            h = c.handler
            c.request.script = [item]
            c.request.send_fault = send_fault
            h.running = True
            h._verif_exit = False
            try:
                h.handle()
            except BaseException as e:  # noqa: BLE001
                escaped = e
            # the loop is left through the scripted exit (see SyncRequest.recv) unless the handler
            # itself decided to stop; the serial handler never stops by itself
            running = True if (fe == "SyncSerial" or h._verif_exit) else h.running
            if c.rec.resets_at_exit is not None:
                c.rec.handler_resets = c.rec.resets_at_exit
            obs = StepObs(kind, c.rec, escaped, running, c.framer, self._dump() != before, lo_before)
        elif fe == "SyncUdp":
            from pymodbus.server import sync as S
            H = S.ModbusDisconnectedRequestHandler
            h = H.__new__(H)
            c.rec = Rec()
            rec = c.rec
            h.request, h.client_address, h.server = (item, UdpSocket(rec)), c.peer, self.server
            framer = None
            try:
                h.setup()
                framer = h.framer
                instrument(framer, rec, self)
                h.handle()
            except BaseException as e:  # noqa: BLE001
                escaped = e
            finally:
                try:
                    h.finish()
                except Exception:  # noqa: BLE001
                    pass
            c.handler, c.framer = h, framer
            obs = StepObs(kind, rec, escaped, h.running, framer, self._dump() != before, lo_before)
            obs.first_raised = None
        elif fe in ("AioTcp", "AioUdp"):
            h = c.handler

            async def go():
                if fe == "AioTcp":
                    h.data_received(item)
                else:
                    h.datagram_received(item, c.peer)
                for _ in range(4):
                    await asyncio.sleep(0)
                if c.rec.closed_now and fe == "AioTcp":
                    # a real asyncio transport's close() schedules connection_lost(None)
                    h.connection_lost(None)
                    for _ in range(3):
                        await asyncio.sleep(0)
            try:
                self.loop.run_until_complete(go())
            except BaseException as e:  # noqa: BLE001
                escaped = e
            t = h.handler_task
            if escaped is None and t is not None and t.done() and not t.cancelled() and not c.rec.closed_now:
                escaped = t.exception()
            if not h.receive_queue.empty():
                escaped = escaped or RuntimeError("verif: asyncio handler did not drain its queue")
            obs = StepObs(kind, c.rec, escaped, c.rec.closed_now or (h.running and not (t is not None and t.done())), c.framer,
                          self._dump() != before, lo_before)
        elif fe == "TwTcp":
            try:
                c.handler.dataReceived(item)
            except BaseException as e:  # noqa: BLE001
                escaped = e
            obs = StepObs(kind, c.rec, escaped, True, c.framer, self._dump() != before, lo_before)
        elif fe == "TwUdp":
            try:
                self.shared.datagramReceived(item, c.peer)
            except BaseException as e:  # noqa: BLE001
                escaped = e
            obs = StepObs(kind, c.rec, escaped, True, c.framer, self._dump() != before, lo_before)
        else:
            raise ValueError(fe)
        if escaped is not None and c.rec.raised is None:
            # raised before/outside the framer call (e.g. the Twisted UDP log line)
            obs.raised = raised_name(escaped)
            obs.raised_repr = repr(escaped)[:120]
        return obs

    def close(self):
        if self.loop is not None:
            async def fin():
                hs = list(self.all_handlers)
                if self.shared is not None:
                    hs.append(self.shared)
                for h in hs:
                    try:
                        if h.handler_task is not None and not h.handler_task.done():
                            h.connection_lost(None)
                    except Exception:  # noqa: BLE001
                        pass
                for _ in range(3):
                    await asyncio.sleep(0)
                for h in hs:   # no task may stay pending on a closed loop
                    t = h.handler_task
                    if t is not None and not t.done():
                        h.running = False
                        t.cancel()
                for _ in range(3):
                    await asyncio.sleep(0)
                for h in hs:
                    t = h.handler_task
                    if t is not None and t.done() and not t.cancelled():
                        t.exception()   # retrieve, so that nothing is logged at GC
            try:
                self.loop.run_until_complete(fin())
            except BaseException:  # noqa: BLE001
                pass
            self.loop.close()
            self.loop = None
        for c in self.conns.values():
            if self.fe in ("SyncTcp", "SyncSerial") and c.handler is not None:
                try:
                    c.handler.finish()
                except Exception:  # noqa: BLE001
                    pass
        reset_control()


# ----------------------------------------------------------------------------- independent builders

def crc16(data):
    crc = 0xFFFF
    for b in data:
        crc ^= b
        for _ in range(8):
            crc = (crc >> 1) ^ 0xA001 if crc & 1 else crc >> 1
    return crc


def lrc(data):
    return (-sum(data)) & 0xFF


def frame(framer_name, tid, uid, pdu, pid=0, escape=False):
    """escape=True: the binary framing's sender-side doubling of '{' '}' inside the PDU data (what
    buildPacket does for responses)"""
    if framer_name == "socket":
        return struct.pack(">HHHB", tid, pid, len(pdu) + 1, uid) + pdu
    if framer_name == "tls":
        return pdu
    body = bytes([uid]) + pdu
    if framer_name == "rtu":
        c = crc16(body)
        return body + bytes([c & 0xFF, c >> 8])          # CRC low byte first on the wire
    if framer_name == "ascii":
        return b":" + (body + bytes([lrc(body)])).hex().upper().encode() + b"\r\n"
    if framer_name == "binary":
        if escape:    # buildPacket computes the CRC over the already doubled bytes
            body = bytes([uid, pdu[0]]) + pdu[1:].replace(b"}", b"}}").replace(b"{", b"{{")
        c = crc16(body)
        return b"{" + body + bytes([c & 0xFF, c >> 8]) + b"}"
    raise ValueError(framer_name)


def pdu_read(fc, addr, count):
    return struct.pack(">BHH", fc, addr, count)


def pdu_write_coil(addr, on):
    return struct.pack(">BHH", 5, addr, 0xFF00 if on else 0)


def pdu_write_reg(addr, val):
    return struct.pack(">BHH", 6, addr, val)


def pdu_write_coils(addr, bits):
    by = bytearray((len(bits) + 7) // 8)
    for i, b in enumerate(bits):
        if b:
            by[i // 8] |= 1 << (i % 8)
    return struct.pack(">BHHB", 15, addr, len(bits), len(by)) + bytes(by)


def pdu_write_regs(addr, vals):
    return struct.pack(">BHHB", 16, addr, len(vals), 2 * len(vals)) + b"".join(struct.pack(">H", v) for v in vals)


def pdu_mask(addr, and_mask, or_mask):
    return struct.pack(">BHHH", 22, addr, and_mask, or_mask)


def pdu_rwm(raddr, rcount, waddr, vals):
    return struct.pack(">BHHHHB", 23, raddr, rcount, waddr, len(vals), 2 * len(vals)) + \
        b"".join(struct.pack(">H", v) for v in vals)


def pdu_devinfo(read_code, object_id):
    return struct.pack(">BBBB", 0x2B, 0x0E, read_code, object_id)


def pdu_diag(sub, data=0):
    return struct.pack(">BHH", 8, sub, data)


def expected_read_response_pdu(fc, values):
    """spec: FC1/2 pack bits LSB-first, FC3/4 big-endian words"""
    if fc in (1, 2):
        by = bytearray((len(values) + 7) // 8)
        for i, b in enumerate(values):
            if b:
                by[i // 8] |= 1 << (i % 8)
        return bytes([fc, len(by)]) + bytes(by)
    return bytes([fc, 2 * len(values)]) + b"".join(struct.pack(">H", v) for v in values)
