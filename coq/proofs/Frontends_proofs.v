(* Frontends_proofs.v — lemmas behind Props/C12.v and Props/C17.v that are GENERIC in the skeleton
   record (no generated file is imported here).  The instantiations with the skeletons regenerated
   from pymodbus/server/*.py live in FrontendsC12_proofs.v and FrontendsC17_proofs.v, so that a
   change that breaks one property's obligations does not take the other's down. *)
From PM.theories Require Import Base Ladder Frontends.
Open Scope list_scope.
Open Scope Z_scope.
Arguments step_action : simpl never.
Arguments apply_action : simpl never.

(* ------------------------------------------------------------------------------------- *)
(* Part 1 — generic facts                                                                  *)
(* ------------------------------------------------------------------------------------- *)

Lemma step_action_none : forall L b, step_action L b None <> Escape.
Proof.
  intros L b. unfold step_action, handle_outcome.
  destruct b; destruct (ls_empty L); cbn; discriminate.
Qed.

Lemma with_stop_escape : forall a, with_stop a = Escape -> a = Escape.
Proof. intros a; destruct a; cbn; congruence. Qed.

(* a ladder is total on a class of exceptions when no member of the class falls through *)
Definition total_on (P : raised -> bool) (l : ladder) : Prop :=
  forall r, P r = true -> first_match l r <> None /\ first_match l r <> Some Escape.

Lemma step_action_total : forall L P, total_on P (ls_ladder L) ->
  forall b r, P r = true -> step_action L b (Some r) <> Escape.
Proof.
  intros L P HT b r HP. destruct (HT r HP) as [H1 H2].
  unfold step_action, handle_outcome.
  destruct (first_match (ls_ladder L) r) as [a|] eqn:Hf; [|congruence].
  assert (a <> Escape) by congruence.
  destruct b; destruct (ls_empty L); try assumption.
  intro Hw. apply with_stop_escape in Hw. contradiction.
Qed.

Section Generic.
  Variables FS Req Resp World : Type.
  Variable C : fe_code.
  Variable E : env FS Req Resp World.

  Notation serve_step := (serve_step FS Req Resp World C E).
  Notation serve_activation := (serve_activation FS Req Resp World C E).
  Notation serve_event := (serve_event FS Req Resp World C E).
  Notation deliver := (deliver FS Req Resp World E).
  Notation callback := (callback FS Req Resp World E).
  Notation conn_state := (conn_state FS Req Resp World C E).
  Notation open_conn := (open_conn FS Req Resp World E).
  Notation fresh_conn := (fresh_conn FS Req Resp World E).
  Notation fresh_server := (fresh_server FS Req Resp World E).
  Notation run_events := (run_events FS Req Resp World C E).
  Notation run_alone := (run_alone FS Req Resp World C E).

  (* the world after running the callback over the delivered requests *)
  Fixpoint exec_fold (X : exec_skel) (c : cfg) (w : World) (ds : list (FS * Req)) : World :=
    match ds with
    | [] => w
    | (_, r) :: t => match callback X c w r with
                     | CbSent _ w' _ => exec_fold X c w' t
                     | CbRaised _ w' _ => w'
                     end
    end.

  Lemma deliver_world : forall X c ds w ff exn acc,
    fst (fst (fst (deliver X c w ds ff exn acc))) = exec_fold X c w ds.
  Proof.
    induction ds as [|[f r] t IH]; intros; cbn; [reflexivity|].
    destruct (callback X c w r); cbn; [apply IH|reflexivity].
  Qed.

  (* the exception that ends an activation is always an ordinary Python Exception of the
     framer/decoder/execute layer, a transport fault, or nothing *)
  Definition no_escape_on_ordinary (L : loop_skel) : Prop :=
    forall b r, ordinary r = true -> step_action L b (Some r) <> Escape.

  Notation serve_data := (serve_data FS Req Resp World C E).

  Lemma serve_data_no_escape : forall fe c w cs bs,
    no_escape_on_ordinary (fc_loop C fe) ->
    snd (serve_data fe c w cs bs) <> Escape.
  Proof.
    intros fe c w cs bs H. unfold Frontends.serve_data.
    destruct (ls_units (fc_loop C fe)).
    1-3: destruct (e_recv _ _ _ _ E _ (cs_f _ cs) bs) as [[ds ff] exn];
         destruct (deliver (fc_exec C fe) c w ds ff exn []) as [[[w' f'] outs] exn'];
         cbn; destruct exn'; cbn; [apply H; reflexivity | apply step_action_none].
    cbn. apply H. reflexivity.
  Qed.

  Lemma serve_step_no_escape : forall fe c w cs i,
    no_escape_on_ordinary (fc_loop C fe) ->
    snd (serve_step fe c w cs i) <> Escape.
  Proof.
    intros fe c w cs i H. unfold Frontends.serve_step.
    destruct (pre_raise (fc_loop C fe)); [cbn; apply H; reflexivity|].
    destruct (ls_listen_gate (fc_loop C fe) && e_listen_only _ _ _ _ E w); [cbn; discriminate|].
    destruct i as [bs| |]; try (cbn; apply H; reflexivity).
    destruct (is_empty bs && empty_skips (fc_loop C fe)); [cbn; discriminate|].
    apply serve_data_no_escape; assumption.
  Qed.

  Lemma serve_activation_no_escape : forall fe c w cs i,
    no_escape_on_ordinary (fc_loop C fe) ->
    snd (serve_activation fe c w cs i) <> Escape.
  Proof.
    intros fe c w cs i H. unfold Frontends.serve_activation.
    destruct (ls_site (fc_loop C fe)); try (apply serve_step_no_escape; assumption).
    pose proof (serve_step_no_escape fe c w cs i H) as H1.
    destruct (serve_step fe c w cs i) as [[[w1 cs1] o1] a1]. cbn in H1.
    destruct (continues a1) eqn:Hc; [|exact H1].
    pose proof (serve_step_no_escape fe c w1 cs1 (IData []) H) as H2.
    destruct (serve_step fe c w1 cs1 (IData [])) as [[[w2 cs2] o2] a2]. cbn in H2 |- *.
    destruct a1; cbn in Hc; try discriminate; try exact H2.
    destruct a2; try exact H2; discriminate.
  Qed.

  Lemma serve_event_no_escape : forall fe c sv k i,
    no_escape_on_ordinary (fc_loop C fe) ->
    snd (serve_event fe c sv k i) <> Escape.
  Proof.
    intros fe c sv k i H. unfold Frontends.serve_event.
    pose proof (serve_activation_no_escape fe c (sv_world _ _ sv) (conn_state fe sv k) i H) as H1.
    destruct (serve_activation fe c (sv_world _ _ sv) (conn_state fe sv k) i) as [[[w' cs'] outs] a].
    exact H1.
  Qed.

  (* ---- the shared world changes only through the callback on delivered requests -------- *)

  Lemma serve_data_world : forall fe c w cs bs,
    fst (fst (fst (serve_data fe c w cs bs))) = w \/
    fst (fst (fst (serve_data fe c w cs bs))) =
      exec_fold (fc_exec C fe) c w
        (fst (fst (e_recv _ _ _ _ E (fargs_for FS Req Resp World E (fc_loop C fe) c w (is_empty bs)) (cs_f _ cs) bs))).
  Proof.
    intros. unfold Frontends.serve_data.
    destruct (ls_units (fc_loop C fe)); [right|right|right|left; reflexivity].
    all: destruct (e_recv _ _ _ _ E _ (cs_f _ cs) bs) as [[ds ff] exn];
         pose proof (deliver_world (fc_exec C fe) c ds w ff exn []) as Hd;
         destruct (deliver (fc_exec C fe) c w ds ff exn []) as [[[w' f'] outs] exn'];
         cbn in *; exact Hd.
  Qed.

  Lemma serve_step_world : forall fe c w cs i,
    fst (fst (fst (serve_step fe c w cs i))) = w \/
    exists bs, i = IData bs /\
      fst (fst (fst (serve_step fe c w cs i))) =
        exec_fold (fc_exec C fe) c w
          (fst (fst (e_recv _ _ _ _ E (fargs_for FS Req Resp World E (fc_loop C fe) c w (is_empty bs)) (cs_f _ cs) bs))).
  Proof.
    intros. unfold Frontends.serve_step.
    destruct (pre_raise (fc_loop C fe)); [left; reflexivity|].
    destruct (ls_listen_gate (fc_loop C fe) && e_listen_only _ _ _ _ E w); [left; reflexivity|].
    destruct i as [bs| |]; try (left; reflexivity).
    destruct (is_empty bs && empty_skips (fc_loop C fe)); [left; reflexivity|].
    destruct (serve_data_world fe c w cs bs) as [H|H]; [left; exact H|right; exists bs; split; [reflexivity|exact H]].
  Qed.

  Lemma serve_step_nothing_delivered : forall fe c w cs bs,
    fst (fst (e_recv _ _ _ _ E (fargs_for FS Req Resp World E (fc_loop C fe) c w (is_empty bs)) (cs_f _ cs) bs)) = [] ->
    fst (fst (fst (serve_step fe c w cs (IData bs)))) = w.
  Proof.
    intros fe c w cs bs H.
    destruct (serve_step_world fe c w cs (IData bs)) as [Hw|[bs' [Hi Hw]]]; [exact Hw|].
    inversion Hi; subst bs'. rewrite Hw, H. reflexivity.
  Qed.

  Lemma serve_step_fault_world : forall fe c w cs i,
    (i = ITimeout \/ i = ISockErr) -> fst (fst (fst (serve_step fe c w cs i))) = w.
  Proof.
    intros fe c w cs i Hi.
    destruct (serve_step_world fe c w cs i) as [Hw|[bs [Hb _]]]; [exact Hw|].
    destruct Hi; subst i; discriminate.
  Qed.

  (* ---- connection table ---------------------------------------------------------------- *)

  Lemma conn_get_put_same : forall l k s, conn_get FS (conn_put FS l k s) k = Some s.
  Proof.
    induction l as [|[j s0] t IH]; intros; cbn.
    - rewrite Nat.eqb_refl. reflexivity.
    - destruct (Nat.eqb j k) eqn:Hj; cbn; rewrite Hj; [reflexivity|apply IH].
  Qed.

  Lemma conn_get_put_other : forall l k j s, j <> k -> conn_get FS (conn_put FS l k s) j = conn_get FS l j.
  Proof.
    induction l as [|[i s0] t IH]; intros k j s Hjk; cbn.
    - destruct (Nat.eqb k j) eqn:H; [apply Nat.eqb_eq in H; congruence|reflexivity].
    - destruct (Nat.eqb i k) eqn:Hik; cbn.
      + destruct (Nat.eqb i j) eqn:Hij; [|reflexivity].
        apply Nat.eqb_eq in Hik. apply Nat.eqb_eq in Hij. congruence.
      + destruct (Nat.eqb i j); [reflexivity|apply IH; assumption].
  Qed.

  (* a new connection starts from the initial framer state whatever happened before *)
  Lemma fresh_connection_state : forall fe sv k,
    ls_site (fc_loop C fe) <> PerServer ->
    conn_state fe (open_conn sv k) k = fresh_conn.
  Proof.
    intros fe sv k H. unfold Frontends.conn_state, Frontends.open_conn.
    destruct (ls_site (fc_loop C fe)); [|reflexivity|congruence].
    cbn. rewrite conn_get_put_same. reflexivity.
  Qed.

  (* ... so what it answers depends on the shared world only *)
  Lemma fresh_connection_answer : forall fe c sv k i,
    ls_site (fc_loop C fe) <> PerServer ->
    let r1 := serve_event fe c (open_conn sv k) k i in
    let r2 := serve_event fe c (open_conn (fresh_server (sv_world _ _ sv)) k) k i in
    snd (fst r1) = snd (fst r2) /\ snd r1 = snd r2 /\ sv_world _ _ (fst (fst r1)) = sv_world _ _ (fst (fst r2)).
  Proof.
    intros fe c sv k i H. cbn zeta. unfold Frontends.serve_event.
    rewrite !fresh_connection_state by assumption.
    change (sv_world _ _ (open_conn sv k)) with (sv_world _ _ sv).
    change (sv_world _ _ (open_conn (fresh_server (sv_world _ _ sv)) k)) with (sv_world _ _ sv).
    destruct (serve_activation fe c (sv_world _ _ sv) fresh_conn i) as [[[w' cs'] outs] a].
    destruct (ls_site (fc_loop C fe)); cbn; repeat split; reflexivity.
  Qed.

  (* a step on connection k leaves the framer state of every other connection alone *)
  Lemma conn_private : forall fe c sv k j i,
    ls_site (fc_loop C fe) <> PerServer -> j <> k ->
    conn_state fe (fst (fst (serve_event fe c sv k i))) j = conn_state fe sv j.
  Proof.
    intros fe c sv k j i H Hjk. unfold Frontends.serve_event.
    destruct (serve_activation fe c (sv_world _ _ sv) (conn_state fe sv k) i) as [[[w' cs'] outs] a].
    unfold Frontends.conn_state.
    destruct (ls_site (fc_loop C fe)); cbn; [|reflexivity|congruence].
    rewrite conn_get_put_other by assumption. reflexivity.
  Qed.

  Lemma conn_own : forall fe c sv k i,
    ls_site (fc_loop C fe) = PerConnection ->
    conn_state fe (fst (fst (serve_event fe c sv k i))) k =
    snd (fst (fst (serve_activation fe c (sv_world _ _ sv) (conn_state fe sv k) i))).
  Proof.
    intros fe c sv k i H. unfold Frontends.serve_event.
    destruct (serve_activation fe c (sv_world _ _ sv) (conn_state fe sv k) i) as [[[w' cs'] outs] a].
    unfold Frontends.conn_state. rewrite H. cbn. rewrite conn_get_put_same. reflexivity.
  Qed.

  (* ---- interleaving ---------------------------------------------------------------------- *)

  Definition mine (k : nat) (lg : list (logrec World)) : list (logrec World) :=
    filter (fun r => Nat.eqb (lg_conn _ r) k) lg.

  Lemma interleave : forall fe c k evs sv,
    ls_site (fc_loop C fe) = PerConnection ->
    let '(svf, lg) := run_events fe c sv evs in
    run_alone fe c (conn_state fe sv k) (map (fun r => (lg_world _ r, lg_input _ r)) (mine k lg)) =
    (conn_state fe svf k, map (fun r => (lg_out _ r, lg_action _ r)) (mine k lg)).
  Proof.
    intros fe c k evs. induction evs as [|[j i] t IH]; intros sv Hs; cbn.
    - reflexivity.
    - destruct (serve_event fe c sv j i) as [[sv' o] a] eqn:Hev.
      specialize (IH sv' Hs).
      destruct (run_events fe c sv' t) as [svf lg]. cbn.
      destruct (Nat.eqb j k) eqn:Hjk; cbn.
      + apply Nat.eqb_eq in Hjk. subst j.
        pose proof (conn_own fe c sv k i Hs) as Hown. rewrite Hev in Hown. cbn [fst snd] in Hown.
        unfold Frontends.serve_event in Hev.
        destruct (serve_activation fe c (sv_world _ _ sv) (conn_state fe sv k) i) as [[[w' cs'] outs] a'] eqn:Hact.
        cbn [fst snd] in Hown.
        injection Hev as Hsv Ho Ha. subst o a.
        unfold mine in *. rewrite <- Hown, IH. reflexivity.
      + apply Nat.eqb_neq in Hjk.
        assert (Hk : conn_state fe sv' k = conn_state fe sv k).
        { pose proof (conn_private fe c sv j k i) as Hp. rewrite Hev in Hp. cbn in Hp.
          apply Hp; [rewrite Hs; discriminate|congruence]. }
        unfold mine in *. rewrite <- Hk. exact IH.
  Qed.
End Generic.

