(* Props/C14.v — Predicted reply length equals the length the server really sends.
   ONLY statements; proofs are in proofs/Sizes_proofs.v.  Every theorem is about the
   expression trees of Generated/GenSizes.v, which gen/gen_sizes.py regenerates on every run
   from the get_response_pdu_size bodies of bit_read_message.py, bit_write_message.py,
   register_read_message.py, register_write_message.py, diag_message.py and from
   _set_adu_size / _calculate_response_length / _calculate_exception_length / execute / _recv
   of transaction.py.  Quantities are unbounded Z. *)
From PM.theories Require Import Base Expr Sizes.
From PM.Generated Require Import GenSizes.
From PM.proofs Require Import Sizes_proofs.
Open Scope string_scope.
Open Scope list_scope.
Open Scope Z_scope.

(* --- the prediction equals the spec's normal-response PDU length ------------------------ *)

(* every predicting request class of the quantifier (FC 1-6, 8/sub, 15, 16, 23), every quantity,
   outside the three delimited defects below *)
Theorem C14_pdu_size : forall q,
  request_ok q = true -> known_defect q = false -> predicting q = true ->
  predicted_pdu_size (class_of q) (attrs_of q) = spec_response_pdu_len q.
Proof. exact pdu_size_all. Qed.
Print Assumptions C14_pdu_size.

(* the ceil(n/8) case spelled out: for EVERY integer n, no sweep *)
Theorem C14_read_bits_size : forall cls n,
  cls = "ReadCoilsRequest" \/ cls = "ReadDiscreteInputsRequest" ->
  predicted_pdu_size cls (attrs n 0 MNone) = Some (1 + 1 + (n + 7) / 8).
Proof. exact read_bits_size. Qed.
Print Assumptions C14_read_bits_size.

Theorem C14_read_registers_size : forall cls n,
  cls = "ReadHoldingRegistersRequest" \/ cls = "ReadInputRegistersRequest" ->
  predicted_pdu_size cls (attrs n 0 MNone) = Some (1 + 1 + 2 * n).
Proof. exact read_regs_size. Qed.
Print Assumptions C14_read_registers_size.

(* mask write (FC 22) does not predict: the property does not constrain it *)
Theorem C14_mask_write_not_predicting : forall a, predicted_pdu_size (class_of QMaskWrite) a = None.
Proof. exact mask_write_does_not_predict. Qed.
Print Assumptions C14_mask_write_not_predicting.

(* the full statement, kept visible; it is FALSE for the unchanged tree (three witnesses) *)
Definition C14_full_statement : Prop := forall q,
  request_ok q = true -> predicting q = true ->
  predicted_pdu_size (class_of q) (attrs_of q) = spec_response_pdu_len q.

Theorem C14_pdu_size_refuted : ~ C14_full_statement.
Proof. exact full_statement_refuted. Qed.
Print Assumptions C14_pdu_size_refuted.

Theorem C14_modbus_plus_get_refuted :
  predicted_pdu_size (class_of QPlusGet) (attrs_of QPlusGet) = Some 117 /\ spec_response_pdu_len QPlusGet = Some 115.
Proof. exact plus_get_refuted. Qed.
Print Assumptions C14_modbus_plus_get_refuted.

Theorem C14_modbus_plus_clear_refuted :
  predicted_pdu_size (class_of QPlusClear) (attrs_of QPlusClear) = Some 7 /\ spec_response_pdu_len QPlusClear = Some 5.
Proof. exact plus_clear_refuted. Qed.
Print Assumptions C14_modbus_plus_clear_refuted.

Theorem C14_listen_only_refuted :
  predicted_pdu_size (class_of QDiagListenOnly) (attrs_of QDiagListenOnly) = Some 5
  /\ spec_response_pdu_len QDiagListenOnly = None.
Proof. exact listen_only_refuted. Qed.
Print Assumptions C14_listen_only_refuted.

(* --- per-framing overhead --------------------------------------------------------------- *)

(* the length the client expects for a p-byte PDU is the real ADU length: RTU 1+p+2, ASCII
   1+2*(1+p+1)+2 characters (the doubling rule), binary 1+1+p+2+1, TLS p *)
Theorem C14_adu_overhead : forall f p,
  serial f = true -> p <> 0 ->
  expected_response_length f (Some p) = Some (spec_adu_len f p).
Proof. exact adu_overhead. Qed.
Print Assumptions C14_adu_overhead.

(* the five base sizes, incl. TCP 7 (MBAP) although execute() does not use the prediction there *)
Theorem C14_base_adu_sizes : forall f p,
  calc_response_length f p = Some (base_adu_size f + p) /\
  base_adu_size f = spec_adu_len f 0.
Proof. exact base_adu_identity. Qed.
Print Assumptions C14_base_adu_sizes.

Theorem C14_exception_len : forall f,
  calc_exception_length f = Some (spec_adu_len f exception_pdu_len).
Proof. exact exception_len. Qed.
Print Assumptions C14_exception_len.

(* --- the client reads exactly the frame --------------------------------------------------- *)

Theorem C14_reads_exactly : forall f p fc mbap,
  stream_framing f = true -> 1 <= p -> 0 <= fc < 128 ->
  exists m r,
    recv_plan f (expected_response_length f (Some p)) (spec_adu_len f p) fc mbap
      = ([Some m; Some r], RecvDone (Some (spec_adu_len f p)))
    /\ 0 < m /\ 0 <= r /\ m + r = spec_adu_len f p.
Proof. exact reads_exactly_normal. Qed.
Print Assumptions C14_reads_exactly.

Theorem C14_reads_exactly_exception : forall f p fc mbap,
  stream_framing f = true -> 1 <= p -> 128 <= fc ->
  exists m r,
    recv_plan f (expected_response_length f (Some p)) (spec_adu_len f exception_pdu_len) fc mbap
      = ([Some m; Some r], RecvDone (Some (spec_adu_len f exception_pdu_len)))
    /\ 0 < m /\ 0 <= r /\ m + r = spec_adu_len f exception_pdu_len.
Proof. exact reads_exactly_exception. Qed.
Print Assumptions C14_reads_exactly_exception.

(* end to end: a request of the quantifier outside the delimited defects, a stream framing, the
   normal reply the spec defines: the client's two reads take exactly that frame *)
Theorem C14_end_to_end : forall q f fc mbap p,
  request_ok q = true -> known_defect q = false -> predicting q = true ->
  stream_framing f = true -> 0 <= fc < 128 -> spec_response_pdu_len q = Some p ->
  exists m r,
    recv_plan f (expected_response_length f (predicted_pdu_size (class_of q) (attrs_of q)))
              (spec_adu_len f p) fc mbap
      = ([Some m; Some r], RecvDone (Some (spec_adu_len f p)))
    /\ 0 < m /\ 0 <= r /\ m + r = spec_adu_len f p.
Proof. exact end_to_end. Qed.
Print Assumptions C14_end_to_end.

(* TLS framing: a normal reply is taken whole by the first read ... *)
Theorem C14_tls_reads_exactly : forall p fc mbap,
  1 <= p ->
  recv_plan FTls (expected_response_length FTls (Some p)) (spec_adu_len FTls p) fc mbap
  = ([Some p; Some 0], RecvDone (Some p)).
Proof. exact tls_reads_exactly. Qed.
Print Assumptions C14_tls_reads_exactly.

(* ... but an exception reply (2 bytes) is not: the client asks for the p predicted bytes at
   once, gets 2, and raises InvalidMessageReceivedException (finding F-C14-tls-exception-reply) *)
Theorem C14_tls_exception_refuted : forall p fc mbap,
  2 < p ->
  recv_plan FTls (expected_response_length FTls (Some p)) (spec_adu_len FTls exception_pdu_len) fc mbap
  = ([Some p], RecvRaises InvalidMessageExc)
  /\ spec_adu_len FTls exception_pdu_len < p.
Proof. exact tls_exception_refuted. Qed.
Print Assumptions C14_tls_exception_refuted.

(* binary framing with esc > 0 escaped data bytes: the client asks for esc bytes fewer than
   the frame holds (finding F-C14-binary-escape) *)
Theorem C14_binary_escape_refuted : forall p esc fc mbap,
  1 <= p -> 0 < esc -> 0 <= fc < 128 ->
  asked_sum (fst (recv_plan FBinary (expected_response_length FBinary (Some p))
                            (spec_adu_len FBinary p + esc) fc mbap))
  = Some (spec_adu_len FBinary p)
  /\ spec_adu_len FBinary p < spec_adu_len FBinary p + esc.
Proof. exact binary_escape_refuted. Qed.
Print Assumptions C14_binary_escape_refuted.

(* TCP (socket framer): the 8-byte read (MBAP header + function code), then length - 2 bytes,
   take exactly the frame; normal and exception replies; the prediction is not used *)
Theorem C14_tcp_reads_exactly : forall p fc pred,
  1 <= p -> 0 <= fc < 128 ->
  recv_plan FSocket (expected_response_length FSocket pred) (spec_adu_len FSocket p) fc (1 + p)
  = ([Some 8; Some (p - 1)], RecvDone (Some (spec_adu_len FSocket p))).
Proof. exact tcp_reads_exactly. Qed.
Print Assumptions C14_tcp_reads_exactly.

Theorem C14_tcp_reads_exactly_exception : forall fc pred mbap,
  128 <= fc ->
  recv_plan FSocket (expected_response_length FSocket pred) (spec_adu_len FSocket exception_pdu_len) fc mbap
  = ([Some 8; Some 1], RecvDone (Some (spec_adu_len FSocket exception_pdu_len))).
Proof. exact tcp_reads_exactly_exception. Qed.
Print Assumptions C14_tcp_reads_exactly_exception.

(* EVERY diagnostic request class found in diag_message.py (GenSizes.diag_table: enumerated from
   the source on every run, each registered in factory.py): it is the class of a sub-function the
   spec defines, and outside the delimited defects its prediction is the spec length.  A new
   class in the source makes this theorem fail (fail closed). *)
Theorem C14_diag_all_classes : forall sub cls,
  In (sub, cls) diag_table ->
  class_of (diag_request sub) = cls /\ In sub spec_diag_subs /\
  (known_defect (diag_request sub) = false ->
   predicted_pdu_size cls (attrs_of (diag_request sub)) = spec_response_pdu_len (diag_request sub)).
Proof. exact diag_all_classes. Qed.
Print Assumptions C14_diag_all_classes.

Theorem C14_diag_table_complete : map fst diag_table = spec_diag_subs.
Proof. exact (proj2 diag_table_checked). Qed.
Print Assumptions C14_diag_table_complete.

Example C14_nonvacuous :
  request_ok (QReadCoils 19) = true /\ known_defect (QReadCoils 19) = false /\ predicting (QReadCoils 19) = true
  /\ predicted_pdu_size (class_of (QReadCoils 19)) (attrs_of (QReadCoils 19)) = Some 5
  /\ stream_framing FAscii = true
  /\ fst (recv_plan FAscii (expected_response_length FAscii (Some 5)) 17 1 0) = [Some 5; Some 12].
Proof. repeat split. Qed.
