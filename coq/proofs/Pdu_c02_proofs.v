(* Pdu_c02_proofs.v — C02: encode is pure (idempotent on the object, same bytes), decode does not
   accumulate, round trip through the matching decoder. *)
From PM.theories Require Import Base Struct PduCls PduSpec Pdu CorrPdu.
From PM.Generated Require Import GenPdu.
From PM.proofs Require Import Struct_proofs Pdu_bits_proofs Pdu_proofs Pdu_more_proofs Pdu_dec_proofs Pdu_dec2_proofs.
From Coq Require Import ZifyBool.
Open Scope string_scope.
Open Scope list_scope.
Open Scope Z_scope.
Ltac Zify.zify_post_hook ::= Z.to_euclidean_division_equations.

(* ---- encode twice ------------------------------------------------------------------------------ *)

Theorem encode_pure o b o1 : encode_st o = (Ok b, o1) -> encode_st o1 = (Ok b, o1).
Proof.
  destruct o; cbn [encode_st]; intros H;
    try (injection H as H <-; cbn [encode_st]; f_equal; exact H);
    try (injection H as <- <-; reflexivity).
  - (* write multiple coils: byte_count is recomputed from the value list *)
    destruct (pk [FH; FH; FB] [address; zlen values; (zlen values + 7) / 8]) as [h|e] eqn:E; [injection H as <- <-|discriminate H].
    cbn [encode_st]. rewrite E. reflexivity.
  - (* file records: three encoders selected by class *)
    destruct (cls_eqb c ReadFileRecordRequest) eqn:E1; [|destruct (cls_eqb c ReadFileRecordResponse) eqn:E2];
      injection H as H <-; cbn [encode_st]; rewrite E1, ?E2; f_equal; exact H.
  - (* device information: bookkeeping attributes are recomputed from the information dict *)
    destruct (pk [FB; FB; FB] [sub_function_code; read_code; conformity]) as [p|e] eqn:Ep; [|discriminate H].
    destruct (mei_objs (mei_items information) (253 - 6) 0 []) as [[[[objs space] n] oos]|e] eqn:Em; [|discriminate H].
    match type of H with context [pk [FB; FB; FB] ?l] => destruct (pk [FB; FB; FB] l) as [q|e] eqn:Eq; [|discriminate H] end.
    injection H as <- <-. cbn [encode_st]. rewrite Ep, Em.
    destruct oos as [oid|]; rewrite Eq; reflexivity.
Qed.

(* the only attributes encode assigns are derived ones: WriteMultipleCoilsRequest.byte_count and the
   bookkeeping of ReadDeviceInformationResponse *)
Theorem encode_state o b o1 : encode_st o = (Ok b, o1) ->
  mem_cls (class_of o) [WriteMultipleCoilsRequest; ReadDeviceInformationResponse] = false -> o1 = o.
Proof.
  destruct o; cbn [encode_st class_of]; intros H Hc; try discriminate Hc;
    try (injection H as _ <-; reflexivity).
  destruct (cls_eqb c ReadFileRecordRequest); [|destruct (cls_eqb c ReadFileRecordResponse)]; injection H as _ <-; reflexivity.
Qed.

Theorem encode_state_coils a vals bc b o1 : encode_st (OWriteCoilsReq a vals bc) = (Ok b, o1) ->
  o1 = OWriteCoilsReq a vals ((zlen vals + 7) / 8).
Proof.
  cbn [encode_st]. destruct (pk [FH; FH; FB] [a; zlen vals; (zlen vals + 7) / 8]); intros H; [injection H as _ <-; reflexivity|discriminate H].
Qed.

(* ---- decode into a used object ---------------------------------------------------------------- *)

Theorem decode_fresh o data o' :
  wf_shape o = true -> class_of o <> ReadWriteMultipleRegistersResponse ->
  decode_into o data = Ok o' ->
  exists f, decode_into (fresh_like o) data = Ok f /\ blank f = blank o'.
Proof.
  intros Hs Hc H. unfold wf_shape in Hs.
  destruct o; cbn [fresh_like class_of] in *;
    try (destruct c; try discriminate Hs; try congruence; cbn [fresh] in *);
    try (exists o'; split; [exact H|reflexivity]).
  (* device information: space_left is the only attribute decode leaves alone *)
  cbn [fresh decode_into] in *.
  destruct (upk [FB; FB; FB; FB; FB; FB] (bslice data 0 6)) as [d|e]; [|discriminate H]. cbn [bind] in *.
  destruct d as [|a [|b [|c [|d [|e [|f [|g t]]]]]]]; try discriminate H.
  destruct (dec_mei_objs (length data) (skipn 6 data) []) as [info|e']; [|discriminate H]. cbn [bind] in *.
  injection H as <-. eexists. split; reflexivity.
Qed.

Theorem decode_fresh_rwm_refuted :
  exists o data o', wf_shape o = true /\ decode_into o data = Ok o' /\
    forall f, decode_into (fresh_like o) data = Ok f -> blank f <> blank o'.
Proof.
  exists (ORegsRsp ReadWriteMultipleRegistersResponse [1; 2]), [4; 0; 1; 0; 2]%N,
         (ORegsRsp ReadWriteMultipleRegistersResponse [1; 2; 1; 2]).
  repeat split. intros f H. vm_compute in H. injection H as <-. discriminate.
Qed.

(* ---- round trip --------------------------------------------------------------------------------- *)

Theorem roundtrip o m :
  abs o = Some m -> mem_cls (class_of o) conforming_encode = true -> conforming_decode m = true ->
  exists b o' d, py_pdu o = Ok b /\ py_decode (msg_is_request m) b = Ok o' /\ class_of o' = spec_class m /\
                 abs o' = Some d /\ msg_matches m d = true.
Proof.
  intros Ha Hc Hd. destruct (abs_inv o m Ha) as [_ Hwf].
  destruct (decode_conforms m Hwf Hd) as (o' & d & H1 & H0 & H2 & H3).
  exists (spec_pdu m), o', d. repeat split; try assumption. now apply encode_conforms.
Qed.

Theorem fifo_roundtrip_refuted :
  exists o b o', class_of o = ReadFifoQueueResponse /\ py_pdu o = Ok b /\ py_decode false b = Ok o' /\ obj_match o o' = false.
Proof. exists (OFifoRsp [4660; 22136]). eexists. eexists. repeat split; vm_compute; reflexivity. Qed.

Theorem file_response_roundtrip_refuted :
  exists o b o', class_of o = ReadFileRecordResponse /\ py_pdu o = Ok b /\ py_decode false b = Ok o' /\ obj_match o o' = false.
Proof.
  exists (OFileRecs ReadFileRecordResponse [mk_frec 0 0 [13; 254; 0; 32]%N 2 5]). eexists. eexists.
  repeat split; vm_compute; reflexivity.
Qed.

Theorem slave_id_roundtrip_refuted :
  exists o b o', class_of o = ReportSlaveIdResponse /\ py_pdu o = Ok b /\ py_decode false b = Ok o' /\ obj_match o o' = false.
Proof. exists (OSlaveIdRsp [17; 34]%N true None). eexists. eexists. repeat split; vm_compute; reflexivity. Qed.

Theorem diag_request_roundtrip_refuted :
  exists o b, class_of o = ReturnQueryDataRequest /\ py_pdu o = Ok b /\ py_decode true b = Raise StructError.
Proof. exists (ODiag ReturnQueryDataRequest 0 (DList [1; 2])). eexists. repeat split; vm_compute; reflexivity. Qed.

(* ---- re-encoding a decoded object ---------------------------------------------------------------- *)

Lemma list_eqb_eq {A} (eqb : A -> A -> bool) (Heq : forall x y, eqb x y = true -> x = y) :
  forall l l', list_eqb eqb l l' = true -> l = l'.
Proof.
  induction l as [|x t IH]; intros [|y t'] H; try discriminate H; [reflexivity|].
  cbn in H. apply andb_true_iff in H as [H1 H2]. f_equal; [now apply Heq|now apply IH].
Qed.
Lemma zl_eqb_eq l l' : zl_eqb l l' = true -> l = l'.
Proof. apply list_eqb_eq. intros x y H. now apply Z.eqb_eq. Qed.
Lemma bl_eqb_eq l l' : list_eqb beqb l l' = true -> l = l'.
Proof. apply list_eqb_eq. intros x y H. now apply Bool.eqb_prop. Qed.

Lemma sub_read_eqb_eq x y : sub_read_eqb x y = true -> x = y.
Proof.
  destruct x, y. unfold sub_read_eqb. cbn. intros H. split_andb H. apply Z.eqb_eq in H, H0, H1. now subst.
Qed.
Lemma sub_write_eqb_eq x y : sub_write_eqb x y = true -> x = y.
Proof.
  destruct x, y. unfold sub_write_eqb. cbn. intros H. split_andb H. apply Z.eqb_eq in H, H1. apply zl_eqb_eq in H0. now subst.
Qed.
Lemma bytes_eqb_eq l l' : bytes_eqb l l' = true -> l = l'.
Proof. apply list_eqb_eq. intros x y H. now apply N.eqb_eq. Qed.
Lemma object_eqb_eq x y : object_eqb x y = true -> x = y.
Proof.
  destruct x, y. unfold object_eqb. cbn. intros H. split_andb H. apply Z.eqb_eq in H. apply bytes_eqb_eq in H0. now subst.
Qed.

Definition is_bits_rsp (m : msg) : bool :=
  match m with MReadCoilsRsp _ | MReadDiscreteRsp _ => true | _ => false end.

Ltac reflect_all :=
  repeat match goal with
  | H : (_ =? _) = true |- _ => apply Z.eqb_eq in H
  | H : zl_eqb _ _ = true |- _ => apply zl_eqb_eq in H
  | H : list_eqb beqb _ _ = true |- _ => apply bl_eqb_eq in H
  | H : beqb _ _ = true |- _ => apply Bool.eqb_prop in H
  | H : list_eqb sub_read_eqb _ _ = true |- _ => apply (list_eqb_eq _ sub_read_eqb_eq) in H
  | H : list_eqb sub_write_eqb _ _ = true |- _ => apply (list_eqb_eq _ sub_write_eqb_eq) in H
  | H : list_eqb object_eqb _ _ = true |- _ => apply (list_eqb_eq _ object_eqb_eq) in H
  end.

Lemma matches_eq m d : conforming_decode m = true -> is_bits_rsp m = false -> msg_matches m d = true -> d = m.
Proof.
  intros Hc Hb H.
  destruct m; try discriminate Hc; try discriminate Hb;
    destruct d; cbn [msg_matches] in H; try discriminate H;
    split_andb H; reflect_all; subst; reflexivity.
Qed.

Lemma abs_class_conforming o d : abs o = Some d -> conforming_decode d = true ->
  mem_cls (class_of o) conforming_encode = true.
Proof.
  intros Ha Hc. apply abs_inv in Ha as [Hr _].
  destruct o; cbn [abs_raw class_of] in *;
    try (destruct c; try discriminate Hr; reflexivity);
    try reflexivity.
  - (* file records: not in the proved decode kinds *)
    destruct c; try discriminate Hr;
      repeat match type of Hr with (if ?b then _ else _) = _ => destruct b; [|discriminate Hr] end;
      repeat match type of Hr with match ?x with _ => _ end = _ => destruct x; [|discriminate Hr] end;
      try (injection Hr as <-; discriminate Hc); try reflexivity.
  - injection Hr as <-. discriminate Hc.
  - discriminate Hr.
Qed.

Lemma in_bytes b : (b < 256)%N -> In b (map N.of_nat (seq 0 256)).
Proof. intros H. apply in_map_iff. exists (N.to_nat b). split; [apply N2Nat.id|apply in_seq; lia]. Qed.

Lemma bits_value_byte_bits b : (b < 256)%N -> bits_value (byte_bits b) = b.
Proof.
  intros H.
  assert (G : forallb (fun x => (bits_value (byte_bits x) =? x)%N) (map N.of_nat (seq 0 256)) = true) by (vm_compute; reflexivity).
  rewrite forallb_forall in G. specialize (G b (in_bytes b H)). now apply N.eqb_eq in G.
Qed.

Lemma pack_unpack bs : wfb bs = true -> spec_pack_bits (spec_unpack_bits bs) = bs.
Proof.
  induction bs as [|b t IH]; intros H; [reflexivity|].
  cbn [wfb forallb] in H. apply andb_true_iff in H as [Hb Ht]. unfold byteb in Hb. apply N.ltb_lt in Hb.
  unfold spec_unpack_bits in *. cbn [flat_map]. unfold byte_bits at 1. cbn [app spec_pack_bits].
  fold (byte_bits b). rewrite bits_value_byte_bits by exact Hb. now rewrite IH.
Qed.

Lemma reencode_bits c cs (K : list bool -> msg) :
  (c = ReadCoilsResponse /\ K = MReadCoilsRsp) \/ (c = ReadDiscreteInputsResponse /\ K = MReadDiscreteRsp) ->
  spec_wf (K cs) = true ->
  py_decode false (spec_pdu (K cs)) = Ok (OBitsRsp c (spec_unpack_bits (spec_pack_bits cs)) (Some (bit_byte_count (len cs)))) /\
  py_pdu (OBitsRsp c (spec_unpack_bits (spec_pack_bits cs)) (Some (bit_byte_count (len cs)))) = Ok (spec_pdu (K cs)).
Proof.
  intros Hk Hwf.
  assert (Hw : is_u8 (bit_byte_count (len cs)) = true) by (destruct Hk as [[-> ->]|[-> ->]]; exact Hwf).
  assert (Hl : bit_byte_count (len (spec_unpack_bits (spec_pack_bits cs))) = bit_byte_count (len cs)).
  { unfold len. rewrite spec_unpack_length. pose proof (spec_pack_bits_length cs) as Hp.
    unfold bit_byte_count in *. lia. }
  split.
  - destruct Hk as [[-> ->]|[-> ->]]; dec_open; unfold u8; cbn [app data0 bind skipn]; rewrite py_unpack_spec;
      unfold reclass; cbn [obj_sub class_of]; unfold is_u8 in Hw; rewrite Z2N.id by lia; reflexivity.
  - destruct Hk as [[-> ->]|[-> ->]];
      (erewrite enc_conf_bits; [|unfold abs; cbn [abs_raw spec_wf]; rewrite padded_wf by exact Hw; reflexivity]);
      cbn [spec_pdu]; rewrite Hl, pack_unpack by apply spec_pack_bits_wfb; reflexivity.
Qed.

Theorem reencode m : spec_wf m = true -> conforming_decode m = true ->
  exists o', py_decode (msg_is_request m) (spec_pdu m) = Ok o' /\ py_pdu o' = Ok (spec_pdu m).
Proof.
  intros Hwf Hc. destruct (is_bits_rsp m) eqn:Eb.
  - destruct m; try discriminate Eb.
    + destruct (reencode_bits ReadCoilsResponse coils MReadCoilsRsp (or_introl (conj eq_refl eq_refl)) Hwf) as [H1 H2].
      eexists. split; [exact H1|exact H2].
    + destruct (reencode_bits ReadDiscreteInputsResponse inputs MReadDiscreteRsp (or_intror (conj eq_refl eq_refl)) Hwf) as [H1 H2].
      eexists. split; [exact H1|exact H2].
  - destruct (decode_conforms m Hwf Hc) as (o' & d & H1 & _ & H2 & H3).
    pose proof (matches_eq m d Hc Eb H3) as ->.
    exists o'. split; [exact H1|]. apply encode_conforms; [|exact H2].
    now apply (abs_class_conforming o' m).
Qed.

(* ---- the instance after a raising decode ------------------------------------------------------------ *)

Theorem decode_raise_atomic o data :
  wf_shape o = true -> mem_cls (class_of o) atomic_decode = true -> decode_partial o data = o.
Proof.
  intros Hs Hc. unfold wf_shape in Hs.
  destruct o; cbn [class_of] in Hc; try reflexivity; try (vm_compute in Hc; discriminate Hc);
    destruct c; try (vm_compute in Hc; discriminate Hc); try discriminate Hs; reflexivity.
Qed.

Theorem decode_partial_class o data : class_of (decode_partial o data) = class_of o.
Proof.
  destruct o; cbn [decode_partial]; try reflexivity;
    repeat match goal with
           | |- context [match ?x with _ => _ end] => destruct x; try reflexivity
           | |- context [if ?b then _ else _] => destruct b; try reflexivity
           end.
Qed.

(* register responses: what a raising decode leaves is a prefix of the words on the wire (after the old
   list, for the accumulating ReadWriteMultipleRegistersResponse) *)
Lemma read_words_prefix_ok : forall k data n l, (length data <= k)%nat ->
  read_words data n = Ok l -> read_words_prefix data n = l.
Proof.
  induction k as [|k IH]; intros data n l Hk; destruct data as [|h [|lo t]];
    cbn [read_words read_words_prefix]; destruct (n <=? 0); intros H;
    try (injection H as <-; reflexivity); try discriminate H; try (cbn [length] in Hk; lia).
  destruct (read_words t (n - 1)) as [r|] eqn:E; [|discriminate H]. injection H as <-.
  f_equal. apply IH; [cbn [length] in Hk; lia|exact E].
Qed.

(* a decode that succeeds and the partial-state function agree on the register list *)
Theorem decode_partial_regs_complete c regs data r :
  cls_eqb c ReadWriteMultipleRegistersResponse = false ->
  decode_into (ORegsRsp c regs) data = Ok r -> decode_partial (ORegsRsp c regs) data = r.
Proof.
  intros Hc. cbn [decode_into decode_partial]. destruct (data0 data) as [bc|e]; [|discriminate]. cbn [bind]. rewrite Hc.
  destruct (read_words (skipn 1 data) (range_len 1 (bc + 1) 2)) as [ws|e] eqn:E; [|discriminate]. cbn [bind].
  intros H. injection H as <-. now rewrite (read_words_prefix_ok _ _ _ _ (le_n _) E).
Qed.
