(* Shared_proofs.v — every shared-state entry in the files a property is anchored in is an audited one. *)
From Coq Require Import List Bool String.
From PM.theories Require Import Base SharedAudit.
From PM.Generated Require Import GenShared.
Import ListNotations.
Open Scope string_scope.
Open Scope list_scope.

Definition all_pids : list string := map fst anchors.

Definition is_nil {A} (l : list A) : bool := match l with [] => true | _ => false end.
Lemma is_nil_spec : forall A (l : list A), is_nil l = true -> l = [].
Proof. intros A l H. destruct l; [reflexivity | discriminate]. Qed.

Definition clean_b (pid : string) : bool := is_nil (unaudited_for shared_state anchors common_files pid).

Lemma shared_ok_all : forallb clean_b all_pids = true.
Proof. vm_compute. reflexivity. Qed.

(* generic (no generated constant is unfolded below this line) *)
Lemma unaudited_nil_spec : forall (S : list entry) A c pid,
  unaudited_for S A c pid = [] ->
  forall e, In e S -> relevant A c pid e = true -> mem_entry e audited = true.
Proof.
  intros S A c pid H e He Hr. unfold unaudited_for in H.
  destruct (mem_entry e audited) eqn:E; [reflexivity|].
  assert (In e (filter (fun e0 => relevant A c pid e0 && negb (mem_entry e0 audited)) S)) as Hin.
  { apply filter_In. split; [exact He|]. rewrite Hr, E. reflexivity. }
  rewrite H in Hin. contradiction.
Qed.

Lemma all_pids_are : all_pids = ["C01"; "C02"; "C03"; "C04"; "C05"; "C06"; "C07"; "C08"; "C09"; "C10";
                                "C11"; "C12"; "C13"; "C14"; "C15"; "C16"; "C17"; "C18"; "C19"; "C20"].
Proof. vm_compute. reflexivity. Qed.

(* by enumeration of the twenty property ids (each case one vm_compute): no conversion problem with
   a variable property id is ever handed to the kernel *)
Lemma shared_ok : forall pid, In pid all_pids -> unaudited_for shared_state anchors common_files pid = [].
Proof.
  intros pid H. rewrite all_pids_are in H. cbn [In] in H.
  repeat (destruct H as [H|H]; [subst pid; vm_compute; reflexivity|]). contradiction.
Qed.

(* unfolded: an entry of the inventory in a relevant file is in the audited list *)
Lemma shared_entries_audited : forall pid e, In pid all_pids -> In e shared_state ->
  relevant anchors common_files pid e = true -> mem_entry e audited = true.
Proof.
  intros pid e Hp He Hr. exact (unaudited_nil_spec _ _ _ _ (shared_ok pid Hp) e He Hr).
Qed.

(* the audit is not stale: every audited entry still exists in the source *)
Lemma audited_all_present : forallb (fun e => mem_entry e shared_state) audited = true.
Proof. vm_compute. reflexivity. Qed.

