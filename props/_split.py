"""Helper for properties whose machinery is built in two halves (framers: TCP/ASCII/TLS
and RTU/binary).  Each half is a module exposing, per property id:
    GENERATORS, PROP_FILES[pid], CASE_DEPS, suites_for(pid, tier), classify_for(pid, suite, desc),
    replay_finding_for(pid, finding), replay_case_for(pid, suite, desc), extra_checks_for(pid, tier) (optional),
    TRUSTED, ASSUMPTIONS, RULE[pid], MANIFEST_PART[pid] (dict text/note)
"""
import importlib


def parts(names):
    out = []
    for n in names:
        try:
            out.append(importlib.import_module("props." + n))
        except ModuleNotFoundError:
            pass
    return out


def build(pid, names, g):
    ps = [p for p in parts(names) if pid in getattr(p, "PROP_FILES", {})]
    g["ID"] = pid
    g["GENERATORS"] = sorted(set(x for p in ps for x in p.GENERATORS))
    g["PROP_FILES"] = [f for p in ps for f in p.PROP_FILES[pid]]
    g["PROP_FILE"] = g["PROP_FILES"][0] if g["PROP_FILES"] else pid
    g["CASE_DEPS"] = sorted(set(x for p in ps for x in p.CASE_DEPS))
    g["TRUSTED"] = [x for p in ps for x in getattr(p, "TRUSTED", [])]
    g["ASSUMPTIONS"] = [x for p in ps for x in getattr(p, "ASSUMPTIONS", [])]
    g["RULE"] = " || ".join(p.RULE[pid] for p in ps if pid in getattr(p, "RULE", {}))

    def suites(tier):
        return [s for p in ps for s in p.suites_for(pid, tier)]

    def classify(suite, desc):
        for p in ps:
            r = p.classify_for(pid, suite, desc) if hasattr(p, "classify_for") else None
            if r is not None:
                return r
        return None

    def replay_finding(f):
        for p in ps:
            if hasattr(p, "replay_finding_for"):
                r = p.replay_finding_for(pid, f)
                if r is not None:
                    return r
        return None

    def replay_case(suite, desc):
        for p in ps:
            if hasattr(p, "replay_case_for"):
                r = p.replay_case_for(pid, suite, desc)
                if r is not None:
                    return r
        return True

    def extra_checks(tier):
        out = {}
        for p in ps:
            if hasattr(p, "extra_checks_for"):
                out.update(p.extra_checks_for(pid, tier) or {})
        return out

    g.update(suites=suites, classify=classify, replay_finding=replay_finding,
             replay_case=replay_case, extra_checks=extra_checks)
    mp = [p.MANIFEST_PART[pid] for p in ps if pid in getattr(p, "MANIFEST_PART", {})]
    if ps and len(mp) == len(ps):
        g["MANIFEST"] = {"text": " ".join(m["text"] for m in mp), "note": " ".join(m["note"] for m in mp),
                         "design_ref": "DESIGN.md section 8 (%s)" % pid}
