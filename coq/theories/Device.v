(* Device.v — the ModbusControlBlock singleton of pymodbus/device.py as a record, with the
   operations the execute() methods of other_message.py / diag_message.py use.
   Hand-modelled (the method bodies are shape-checked by gen/gen_exec_other.py and tied by
   the correspondence suites named other_...); the counter name -> index table is generated.
   Identity is handled by DevInfo.v (C20); here only what ReportSlaveIdRequest reads: the
   non-empty Basic identity objects, as bytes.  No proofs in this file. *)
From PM.theories Require Import Base.
Open Scope list_scope.
Open Scope Z_scope.

Record device := {
  d_counters : list Z;          (* ModbusCountersHandler.__data: indices 0..8 (8 = Event) *)
  d_diag : list bool;           (* __diagnostic: 16 flags, bit 0 first *)
  d_events : list bytes;        (* __events: each event's encode(), newest first, at most 64 *)
  d_listen : bool;              (* __listen_only *)
  d_delim : bytes;              (* __delimiter *)
  d_plus : list Z;              (* ModbusPlusStatistics.__data values, flattened in order (110 bytes) *)
  d_ident : list bytes          (* the non-empty Basic identity objects (0..2), in object order *)
}.

Definition device0 : device :=
  {| d_counters := repeat 0 9; d_diag := repeat false 16; d_events := []; d_listen := false;
     d_delim := [13%N]; d_plus := repeat 0 110; d_ident := [] |}.

(* ---- ModbusCountersHandler *)
Definition counter (d : device) (i : nat) : res Z :=
  match nth_error (d_counters d) i with Some v => Ok v | None => Raise KeyError end.

Fixpoint set_nth_z (l : list Z) (i : nat) (v : Z) : list Z :=
  match l, i with
  | [], _ => []
  | _ :: t, O => v :: t
  | h :: t, S k => h :: set_nth_z t k v
  end.

Definition set_counter (d : device) (i : nat) (v : Z) : device :=
  {| d_counters := set_nth_z (d_counters d) i v; d_diag := d_diag d; d_events := d_events d;
     d_listen := d_listen d; d_delim := d_delim d; d_plus := d_plus d; d_ident := d_ident d |}.

(* summary(): count, result = 1, 0; for i in itervalues(data): if i != 0: result |= count; count <<= 1 *)
Fixpoint summary_from (cs : list Z) (count result : Z) : Z :=
  match cs with
  | [] => result
  | c :: t => summary_from t (Z.shiftl count 1) (if c =? 0 then result else Z.lor result count)
  end.
Definition summary (d : device) : Z := summary_from (d_counters d) 1 0.

(* ---- ModbusControlBlock *)
(* reset(): events, counters, diagnostic register *)
Definition reset (d : device) : device :=
  {| d_counters := repeat 0 9; d_diag := repeat false 16; d_events := [];
     d_listen := d_listen d; d_delim := d_delim d; d_plus := d_plus d; d_ident := d_ident d |}.

Definition get_events (d : device) : bytes := concat (d_events d).

(* addEvent(event): insert(0, event); chomp to 64; Counter.Event += 1 *)
Definition add_event (d : device) (e : bytes) : device :=
  let d1 := {| d_counters := d_counters d; d_diag := d_diag d; d_events := firstn 64 (e :: d_events d);
               d_listen := d_listen d; d_delim := d_delim d; d_plus := d_plus d; d_ident := d_ident d |} in
  match counter d1 8 with Ok v => set_counter d1 8 (v + 1) | Raise _ => d1 end.

Definition set_listen (d : device) (b : bool) : device :=
  {| d_counters := d_counters d; d_diag := d_diag d; d_events := d_events d;
     d_listen := b; d_delim := d_delim d; d_plus := d_plus d; d_ident := d_ident d |}.

Definition set_delim (d : device) (b : bytes) : device :=
  {| d_counters := d_counters d; d_diag := d_diag d; d_events := d_events d;
     d_listen := d_listen d; d_delim := b; d_plus := d_plus d; d_ident := d_ident d |}.

(* ---- ModbusPlusStatistics *)
Definition plus_reset (d : device) : device :=
  {| d_counters := d_counters d; d_diag := d_diag d; d_events := d_events d;
     d_listen := d_listen d; d_delim := d_delim d; d_plus := map (fun _ => 0) (d_plus d); d_ident := d_ident d |}.

(* encode(): for c in range(0, len(values), 2): total.append((values[c] << 8) | values[c+1]) *)
Fixpoint plus_words (vs : list Z) : res (list Z) :=
  match vs with
  | [] => Ok []
  | [_] => Raise IndexError
  | hi :: lo :: t => do r <- plus_words t; Ok (Z.lor (Z.shiftl hi 8) lo :: r)
  end.
Definition plus_encode (d : device) : res (list Z) := plus_words (d_plus d).

(* ---- '-'.join(DeviceInformationFactory.get(_MCB).values()).encode() *)
Fixpoint join_dash (l : list bytes) : bytes :=
  match l with
  | [] => []
  | [x] => x
  | x :: t => x ++ [45%N] ++ join_dash t
  end.
Definition slave_identifier (d : device) (dflt : bytes) : bytes :=
  match join_dash (d_ident d) with [] => dflt | b => b end.
