(* Client_proofs.v — lemmas about the client transaction model (theories/Client.v) instantiated with the
   skeleton REGENERATED from pymodbus/transaction.py (Generated/GenClient.v).
   [body_is_step] is the bridge: the interpretation of the generated loop body equals the hand-written
   [step]; every change of the loop's branch structure in the source breaks it (and everything below). *)
From Coq Require Import ZifyBool.
From PM.theories Require Import Base Expr Client CorrClient.
From PM.Generated Require Import GenClient.
Open Scope list_scope.
Open Scope Z_scope.

Section S.
Variable FS : Type.
Variable F : framer FS.

Notation transactF := (transact code FS F).

(* bookkeeping of _no_response_devices after _transact *)
Definition nr_update (E : lenv) (st : lst) : lst :=
  match l_resp st with
  | [] => if zmem (r_unit (e_req E)) (l_noresp st) then st
          else set_noresp st (l_noresp st ++ [r_unit (e_req E)])
  | _ => if zmem (r_unit (e_req E)) (l_noresp st)
         then set_noresp st (zremove1 (r_unit (e_req E)) (l_noresp st)) else st
  end.

Definition unit_match (E : lenv) (m : mbap) : bool :=
  match mb_unit m with Some u => u =? r_unit (e_req E) | None => false end.
Definition len_match (E : lenv) (m : mbap) : bool :=
  match mb_len m with
  | Some a => opt_truthy (e_exp E) && match e_exp E with Some b => a =? b | None => false end
  | None => false end.

Definition retry_tail (E : lenv) (st : lst) : lst * flow :=
  match decode_data 7 (c_framing (e_cfg E)) (l_resp st) with
  | Raise e => (st, FRaise e)
  | Ok m =>
      let st3 := set_mbap st m in
      if unit_match E m then (st3, FBreak)
      else if len_match E m then (st3, FBreak)
      else (set_retries (set_bcast (set_full (set_sleep st3
              (2 ^ (retries_eff code (e_cfg E) - l_retries st + 1))) false) false) (l_retries st - 1), FNext)
  end.

Definition step (E : lenv) (st : lst) : lst * flow :=
  let '(w, conn, r) := transactF (c_framing (e_cfg E)) (l_w st) (l_conn st) (e_req E) (e_tid E)
                                (e_exp E) (l_full st) (l_bcast st) in
  match r with
  | Raise e => (set_resp st w conn [], FRaise e)
  | Ok bs =>
      let st2 := nr_update E (set_resp st w conn bs) in
      match bs with
      | [] => if c_roe (e_cfg E) then retry_tail E st2 else (st2, FBreak)
      | _ => if c_roi (e_cfg E) then retry_tail E st2 else (st2, FBreak)
      end
  end.

Lemma body_is_step : forall E st, run_list code FS F E (g_loop_body code) st = step E st.
Proof.
  intros E st. unfold step.
  cbn [g_loop_body code run_list run_stmt].
  destruct (transactF _ _ _ _ _ _ _ _) as [[w conn] r].
  destruct r as [bs | e]; [| reflexivity].
  unfold nr_update, retry_tail, unit_match, len_match.
  destruct bs as [|b bs']; cbn -[Z.pow zmem zremove1 decode_data];
  destruct (zmem (r_unit (e_req E)) (l_noresp st)) eqn:Hm; cbn -[Z.pow zmem zremove1 decode_data];
  destruct (c_roe (e_cfg E)) eqn:Hroe; destruct (c_roi (e_cfg E)) eqn:Hroi; cbn -[Z.pow zmem zremove1 decode_data]; try reflexivity.
  all: destruct (decode_data 7 (c_framing (e_cfg E)) _) as [m|e]; cbn -[Z.pow zmem zremove1 decode_data]; try reflexivity.
  all: destruct (mb_unit m) as [u|]; cbn -[Z.pow]; [destruct (u =? r_unit (e_req E)); cbn -[Z.pow]; try reflexivity|].
  all: destruct (mb_len m) as [a|]; cbn -[Z.pow]; try reflexivity.
  all: destruct (e_exp E) as [x|]; cbn -[Z.pow]; try reflexivity.
  all: destruct (negb (x =? 0)); cbn -[Z.pow]; try reflexivity.
  all: destruct (a =? x); cbn -[Z.pow]; try reflexivity.
Qed.

(* ---------------- counting the frames written *)
Definition is_send (c : call) : bool := match c with CSend _ => true | _ => false end.
Definition sends_of (cs : list call) : Z := zlen (filter is_send cs).
Definition wsends (w : world) : Z := sends_of (w_calls w).

Lemma sends_of_rev cs : sends_of (rev cs) = sends_of cs.
Proof.
  unfold sends_of, zlen. induction cs as [|c t IH]; [reflexivity|].
  cbn [rev]. rewrite filter_app, app_length. cbn [filter].
  destruct (is_send c); cbn [length]; lia.
Qed.

Lemma sends_of_cons c cs : sends_of (c :: cs) = (if is_send c then 1 else 0) + sends_of cs.
Proof. unfold sends_of, zlen. cbn [filter]. destruct (is_send c); cbn [length]; lia. Qed.

Lemma pop_sends w c e w' : pop w c = (e, w') -> wsends w' = (if is_send c then 1 else 0) + wsends w.
Proof.
  unfold pop, wsends. destruct (w_script w); intro H; inversion H; subst; cbn [w_calls]; apply sends_of_cons.
Qed.

Lemma t_connect_sends w conn w' b : t_connect w conn = (w', b) -> wsends w' = wsends w.
Proof.
  unfold t_connect. destruct conn; [intro H; inversion H; reflexivity|].
  destruct (pop w CConnect) as [e w1] eqn:Hp. apply pop_sends in Hp. cbn [is_send] in Hp.
  destruct e; intro H; inversion H; subst; lia.
Qed.

Lemma t_send_sends w p w' r : t_send w p = (w', r) -> wsends w' = 1 + wsends w.
Proof.
  unfold t_send. destruct (pop w (CSend p)) as [e w1] eqn:Hp. apply pop_sends in Hp. cbn [is_send] in Hp.
  destruct e; intro H; inversion H; subst; lia.
Qed.

Lemma t_recv_sends w sz w' r : t_recv w sz = (w', r) -> wsends w' = wsends w.
Proof.
  unfold t_recv. destruct (pop w (CRecv sz)) as [e w1] eqn:Hp. apply pop_sends in Hp. cbn [is_send] in Hp.
  destruct e; intro H; inversion H; subst; lia.
Qed.

Lemma recv_model_sends fr w exp full w' r :
  recv_model code fr w exp full = (w', r) -> wsends w' = wsends w.
Proof.
  unfold recv_model. destruct full; [apply t_recv_sends|].
  destruct (t_recv w (Some (g_min_size code fr))) as [w1 r1] eqn:H1. apply t_recv_sends in H1.
  destruct r1 as [rm|e]; [|intro H; inversion H; subst; lia].
  destruct (negb _); [intro H; inversion H; subst; lia|].
  assert (G : forall x w2 r2, (let '(w2, r2) := t_recv w1 x in
              match r2 with Raise e => (w2, Raise e) | Ok rest => (w2, Ok (rm ++ rest)) end) = (w2, r2)
              -> wsends w2 = wsends w).
  { intros x w2 r2. destruct (t_recv w1 x) as [w3 r3] eqn:H3. apply t_recv_sends in H3.
    destruct r3; intro H; inversion H; subst; lia. }
  destruct rm as [|b0 rm']; [apply G|].
  destruct (func_code fr (b0 :: rm')) as [fc|e]; [|intro H; inversion H; subst; lia].
  destruct (fc <? g_err_threshold code); apply G.
Qed.

Lemma transact_sends fr w conn rq tid exp full bc w' conn' r :
  transactF fr w conn rq tid exp full bc = (w', conn', r) -> wsends w <= wsends w' <= wsends w + 1.
Proof.
  unfold transact. destruct (t_connect w conn) as [w1 c1] eqn:Hc. apply t_connect_sends in Hc.
  destruct (negb c1); [intro H; inversion H; subst; lia|].
  destruct (t_send w1 (f_build F rq tid)) as [w2 rs] eqn:Hs. apply t_send_sends in Hs.
  destruct rs as [u|e].
  - destruct bc; [intro H; inversion H; subst; lia|].
    destruct (recv_model code fr w2 exp full) as [w3 rr] eqn:Hr. apply recv_model_sends in Hr.
    destruct rr as [bs|e]; [|destruct (caught code e)]; intro H; inversion H; subst; lia.
  - destruct (caught code e); intro H; inversion H; subst; lia.
Qed.

Lemma guard_gt r : guard code r = (r >? 0).
Proof. unfold guard. cbn. destruct (r >? 0); reflexivity. Qed.

Lemma nr_update_same E st :
  l_w (nr_update E st) = l_w st /\ l_retries (nr_update E st) = l_retries st /\
  l_conn (nr_update E st) = l_conn st /\ l_resp (nr_update E st) = l_resp st /\
  l_full (nr_update E st) = l_full st /\ l_bcast (nr_update E st) = l_bcast st /\
  l_sleeps (nr_update E st) = l_sleeps st.
Proof.
  unfold nr_update. destruct (l_resp st) eqn:Hq; destruct (zmem _ _); cbn; rewrite ?Hq; repeat split; reflexivity.
Qed.

Lemma retry_tail_props E st st' f : retry_tail E st = (st', f) ->
  l_w st' = l_w st /\ l_conn st' = l_conn st /\ l_resp st' = l_resp st /\ l_noresp st' = l_noresp st /\
  (f = FNext -> l_retries st' = l_retries st - 1 /\ l_full st' = false /\ l_bcast st' = false) /\
  (f <> FNext -> l_retries st' = l_retries st /\ l_sleeps st' = l_sleeps st).
Proof.
  unfold retry_tail. destruct (decode_data _ _ _) as [m|e].
  - destruct (unit_match E m); [|destruct (len_match E m)]; intro H; inversion H; subst; cbn;
      repeat split; try reflexivity;
      try (intro X; try discriminate X; try (exfalso; apply X; reflexivity); cbn; repeat split; reflexivity).
    all: try congruence.
  - intro H; inversion H; subst; repeat split; try reflexivity;
      try (intro X; try discriminate X; cbn; repeat split; reflexivity).
    all: try congruence.
Qed.

Lemma step_props E st st' f : step E st = (st', f) ->
  wsends (l_w st) <= wsends (l_w st') <= wsends (l_w st) + 1 /\
  (f = FNext -> l_retries st' = l_retries st - 1) /\ (f <> FNext -> l_retries st' = l_retries st).
Proof.
  unfold step. destruct (transactF _ _ _ _ _ _ _ _) as [[w conn] r] eqn:Ht. apply transact_sends in Ht.
  destruct r as [bs|e].
  - pose proof (nr_update_same E (set_resp st w conn bs)) as (Hw & Hr & _). cbn in Hw, Hr.
    assert (G : forall st' f, retry_tail E (nr_update E (set_resp st w conn bs)) = (st', f) ->
              wsends (l_w st) <= wsends (l_w st') <= wsends (l_w st) + 1 /\
              (f = FNext -> l_retries st' = l_retries st - 1) /\ (f <> FNext -> l_retries st' = l_retries st)).
    { intros s2 f2 H2. apply retry_tail_props in H2. destruct H2 as (A & _ & _ & _ & B & C).
      rewrite A, Hw. split; [lia|]. split; intro X; [destruct (B X) as (B1 & _)| destruct (C X) as (C1 & _)]; lia. }
    destruct bs; [destruct (c_roe (e_cfg E))|destruct (c_roi (e_cfg E))]; try apply G;
      intro H; inversion H; subst; rewrite Hw, Hr; (split; [lia|split; [discriminate|reflexivity]]).
  - intro H; inversion H; subst; cbn. split; [lia|split; [discriminate|reflexivity]].
Qed.

Lemma loop_sends E : forall fuel st st' fin, loop code FS F E fuel st = (st', fin) ->
  wsends (l_w st) <= wsends (l_w st') <= wsends (l_w st) + Z.max 0 (l_retries st).
Proof.
  induction fuel as [|k IH]; intros st st' fin H; cbn [loop] in H.
  - inversion H; subst; lia.
  - rewrite guard_gt in H. destruct (l_retries st >? 0) eqn:Hg; [|inversion H; subst; lia].
    rewrite body_is_step in H. destruct (step E st) as [st1 f] eqn:Hs. apply step_props in Hs.
    destruct Hs as (A & B & C). destruct f.
    + apply IH in H. specialize (B eq_refl). lia.
    + inversion H; subst; lia.
    + inversion H; subst; lia.
Qed.

Lemma loop_fuel E : forall k st, l_retries st < Z.of_nat (S k) -> snd (loop code FS F E (S k) st) <> LOutOfFuel.
Proof.
  induction k as [|k IH]; intros st Hr.
  - cbn [loop]. rewrite guard_gt. destruct (l_retries st >? 0) eqn:Hg; [lia|]. cbn. discriminate.
  - remember (S k) as n. cbn [loop]. rewrite guard_gt. destruct (l_retries st >? 0) eqn:Hg; [|cbn; discriminate].
    rewrite body_is_step. destruct (step E st) as [st1 f] eqn:Hs. apply step_props in Hs.
    destruct Hs as (A & B & C). destruct f; [|cbn; discriminate|cbn; discriminate].
    subst n. apply IH. specialize (B eq_refl). lia.
Qed.

Definition retries_given (c : cfg) : Z := match c_retries_kw c with Some r => r | None => 3 end.

Lemma retries_eff_given c : 0 <= retries_given c -> retries_eff code c = retries_given c.
Proof.
  unfold retries_eff, retries_given, py_or. cbn [code g_retries_default g_retries_or].
  destruct (c_retries_kw c) as [r|]; [destruct (r =? 0) eqn:Hz; lia|reflexivity].
Qed.

Ltac break_exec H :=
  repeat match type of H with
         | context [let '(_, _) := ?x in _] => destruct x eqn:?
         | context [match ?x with _ => _ end] => destruct x eqn:?
         | context [if ?x then _ else _] => destruct x eqn:?
         end.

Theorem execute_sends c st rq sc st' o : 0 <= retries_given c ->
  execute code FS F c st rq sc = (st', o) -> sends_of (o_calls o) <= 1 + retries_given c.
Proof.
  intros Hr H. unfold execute in H. rewrite (retries_eff_given c Hr) in H.
  destruct (t_connect _ (s_conn st)) as [w1 conn1] eqn:Hc. apply t_connect_sends in Hc.
  unfold wsends in Hc. cbn [w_calls] in Hc. change (sends_of []) with 0 in Hc.
  destruct (negb conn1).
  { inversion H; subst. cbn [o_calls mk_out]. rewrite sends_of_rev. unfold wsends in Hc. lia. }
  destruct (c_bcast c && (r_unit rq =? 0)).
  { destruct (transactF _ _ _ _ _ _ _ _) as [[w2 conn2] r] eqn:Ht. apply transact_sends in Ht.
    inversion H; subst. cbn [o_calls mk_out]. rewrite sends_of_rev. unfold wsends in *. lia. }
  destruct (loop _ _ _ _ _ _) as [l1 fin] eqn:Hl. apply loop_sends in Hl. cbn [l_w l_retries] in Hl.
  assert (G : wsends (l_w l1) <= 1 + retries_given c).
  { cbn [g_retries_bump code] in Hl. unfold wsends in *. lia. }
  destruct fin.
  - destruct (f_process F _ _ _) as [[fs2 ms] ex].
    destruct ex as [e|].
    + destruct e; inversion H; subst; cbn [o_calls mk_out]; rewrite sends_of_rev; exact G.
    + destruct (d_pop _ _) as [r tx2]. destruct r as [m|].
      * inversion H; subst; cbn [o_calls mk_out]; rewrite sends_of_rev; exact G.
      * destruct tx2.
        -- inversion H; subst; cbn [o_calls mk_out]; rewrite sends_of_rev; exact G.
        -- destruct (d_pop _ _) as [r' tx3].
           inversion H; subst; cbn [o_calls mk_out]; rewrite sends_of_rev; exact G.
  - inversion H; subst; cbn [o_calls mk_out]; rewrite sends_of_rev; exact G.
  - inversion H; subst; cbn [o_calls mk_out]; rewrite sends_of_rev; exact G.
Qed.

Theorem execute_not_stuck c st rq sc : o_res (snd (execute code FS F c st rq sc)) <> RStuck.
Proof.
  unfold execute.
  destruct (t_connect _ (s_conn st)) as [w1 conn1].
  destruct (negb conn1); [cbn; discriminate|].
  destruct (c_bcast c && (r_unit rq =? 0)).
  { destruct (transactF _ _ _ _ _ _ _ _) as [[w2 conn2] r]. destruct r; cbn; discriminate. }
  match goal with |- context [loop code FS F ?E (S ?k) ?l0] =>
    pose proof (loop_fuel E k l0) as Hf; destruct (loop code FS F E (S k) l0) as [l1 fin] end.
  destruct fin.
  - destruct (f_process F _ _ _) as [[fs2 ms] ex].
    destruct ex as [e|]; [destruct e; cbn; discriminate|].
    destruct (d_pop _ _) as [r tx2]. destruct r; [cbn; discriminate|].
    destruct tx2; [cbn; discriminate|]. destruct (d_pop _ _) as [r' tx3]. destruct r'; cbn; discriminate.
  - cbn; discriminate.
  - exfalso. apply Hf; [|reflexivity]. cbn [l_retries]. lia.
Qed.

(* ---------------- which exceptions can escape *)
Lemma py_int16_raise bs e : py_int16 bs = Raise e -> e = ValueError.
Proof.
  unfold py_int16. destruct bs as [|a [|b [|c t]]]; try (intro H; inversion H; reflexivity).
  - destruct (hexval a); intro H; inversion H; reflexivity.
  - destruct (hexval a), (hexval b); try discriminate;
      repeat match goal with |- context [if ?x then _ else _] => destruct x end;
      intro H; inversion H; reflexivity.
Qed.

Lemma decode_data_raise hs fr d e : decode_data hs fr d = Raise e -> fr = FAscii /\ e = ValueError.
Proof.
  unfold decode_data. destruct fr; try (destruct (_ >? _); discriminate).
  destruct (zlen d >? 1); [|discriminate].
  destruct (py_int16 (firstn 2 (skipn 1 d))) eqn:H1; cbn [bind].
  - destruct (py_int16 (firstn 2 (skipn 3 d))) eqn:H2; cbn [bind]; [discriminate|].
    intro H; inversion H; subst. split; [reflexivity|]. eapply py_int16_raise; eassumption.
  - intro H; inversion H; subst. split; [reflexivity|]. eapply py_int16_raise; eassumption.
Qed.

Lemma t_recv_raise w sz w' e : t_recv w sz = (w', Raise e) -> e = OtherExc.
Proof. unfold t_recv. destruct (pop _ _) as [ev w1]. destruct ev; intro H; inversion H; reflexivity. Qed.

Lemma recv_model_raise fr w exp full w' e : recv_model code fr w exp full = (w', Raise e) ->
  caught code e = true \/ (fr = FAscii /\ e = ValueError).
Proof.
  unfold recv_model. destruct full.
  { intro H. apply t_recv_raise in H. subst. left. reflexivity. }
  destruct (t_recv w (Some (g_min_size code fr))) as [w1 r1] eqn:H1.
  destruct r1 as [rm|e1]; [|intro H; inversion H; subst; apply t_recv_raise in H1; subst; left; reflexivity].
  destruct (negb _); [intro H; inversion H; subst; left; reflexivity|].
  assert (G : forall x w2, (let '(w2, r2) := t_recv w1 x in
              match r2 with Raise e => (w2, Raise e) | Ok rest => (w2, Ok (rm ++ rest)) end) = (w2, Raise e)
              -> caught code e = true \/ (fr = FAscii /\ e = ValueError)).
  { intros x w2. destruct (t_recv w1 x) as [w3 r3] eqn:H3.
    destruct r3; intro H; inversion H; subst. apply t_recv_raise in H3. subst. left. reflexivity. }
  destruct rm as [|b0 rm']; [apply G|].
  destruct (func_code fr (b0 :: rm')) as [fc|e2] eqn:Hf.
  - destruct (fc <? g_err_threshold code); apply G.
  - intro H; inversion H; subst. right. unfold func_code in Hf.
    destruct fr; try discriminate. split; [reflexivity|]. eapply py_int16_raise; eassumption.
Qed.

Lemma transact_raise fr w conn rq tid exp full bc w' conn' e :
  transactF fr w conn rq tid exp full bc = (w', conn', Raise e) ->
  (e = ConnectionExc /\ conn' = false) \/ (fr = FAscii /\ e = ValueError).
Proof.
  unfold transact. destruct (t_connect w conn) as [w1 c1].
  destruct c1; cbn [negb]; [|intro H; inversion H; subst; left; split; reflexivity].
  destruct (t_send w1 (f_build F rq tid)) as [w2 rs] eqn:Hs.
  destruct rs as [u|e1].
  - destruct bc; [discriminate|].
    destruct (recv_model code fr w2 exp full) as [w3 rr] eqn:Hr.
    destruct rr as [bs|e2]; [discriminate|].
    apply recv_model_raise in Hr. destruct (caught code e2) eqn:Hc; [discriminate|].
    intro H; inversion H; subst. destruct Hr as [Hr|Hr]; [congruence|right; exact Hr].
  - unfold t_send in Hs. destruct (pop _ _) as [ev w3]. destruct ev; inversion Hs; subst; cbn; discriminate.
Qed.

Lemma step_raise E st st' e : step E st = (st', FRaise e) ->
  (e = ConnectionExc /\ l_conn st' = false) \/ (c_framing (e_cfg E) = FAscii /\ e = ValueError).
Proof.
  unfold step. destruct (transactF _ _ _ _ _ _ _ _) as [[w conn] r] eqn:Ht.
  destruct r as [bs|e1].
  - assert (G : forall s, retry_tail E s = (st', FRaise e) -> c_framing (e_cfg E) = FAscii /\ e = ValueError).
    { intro s. unfold retry_tail. destruct (decode_data _ _ _) as [m|e2] eqn:Hd.
      - destruct (unit_match E m); [|destruct (len_match E m)]; discriminate.
      - intro H; inversion H; subst. eapply decode_data_raise; eassumption. }
    destruct bs; [destruct (c_roe (e_cfg E))|destruct (c_roi (e_cfg E))]; try discriminate;
      intro H; right; eapply G; eassumption.
  - intro H; inversion H; subst. apply transact_raise in Ht. cbn [l_conn set_resp]. exact Ht.
Qed.

Lemma loop_raise E : forall fuel st st' e, loop code FS F E fuel st = (st', LRaised e) ->
  (e = ConnectionExc /\ l_conn st' = false) \/ (c_framing (e_cfg E) = FAscii /\ e = ValueError).
Proof.
  induction fuel as [|k IH]; intros st st' e H; cbn [loop] in H; [discriminate|].
  destruct (guard code (l_retries st)); [|discriminate].
  rewrite body_is_step in H. destruct (step E st) as [st1 f] eqn:Hs. destruct f.
  - eapply IH; eassumption.
  - discriminate.
  - inversion H; subst. eapply step_raise; eassumption.
Qed.

(* ---------------- the transaction table *)
Lemma last_cons {A} : forall (l : list A) (a d : A), last (a :: l) d = last l a.
Proof.
  induction l as [|b l IH]; intros a d; [reflexivity|].
  change (last (a :: b :: l) d) with (last (b :: l) d). rewrite (IH b d), (IH b a). reflexivity.
Qed.

Lemma add_all_one key : forall ms m0, add_all [(key, m0)] key ms = [(key, last ms m0)].
Proof.
  unfold add_all. induction ms as [|a ms IH]; intro m0; [reflexivity|].
  cbn [fold_left d_set]. rewrite Z.eqb_refl. rewrite IH. rewrite last_cons. reflexivity.
Qed.

Lemma add_all_nil key ms : add_all [] key ms = match ms with [] => [] | a :: t => [(key, last t a)] end.
Proof. destruct ms as [|a t]; [reflexivity|]. unfold add_all. cbn [fold_left d_set]. apply add_all_one. Qed.

Lemma last_in {A} : forall (l : list A) (d : A), In (last l d) (d :: l).
Proof.
  induction l as [|a l IH]; intro d; [left; reflexivity|].
  rewrite last_cons. right. apply IH.
Qed.

Definition proc_clean : Prop :=
  forall fs d u fs' ms e, f_process F fs d u = (fs', ms, Some e) -> ms = [].
Definition framer_raises_io : Prop :=
  forall fs d u fs' ms e, f_process F fs d u = (fs', ms, Some e) -> e = ModbusIOExc.

Definition tid_ok (t : Z) : Prop := 0 <= t < 65536.

Lemma next_tid_mod t : 0 <= t -> next_tid code t = (t + 1) mod 65536.
Proof.
  intro Ht. unfold next_tid. cbn. change 65535 with (Z.ones 16). rewrite Z.land_ones by lia. reflexivity.
Qed.

(* what one call of execute does, as a relation between the states and the outcome: the result is
   a reply delivered by processIncomingPacket on the (reset) framer from the bytes the last
   _transact returned, or an error object, or ...; the table is empty again afterwards *)
Theorem execute_cases c st rq sc st' o :
  s_tx st = [] -> execute code FS F c st rq sc = (st', o) ->
  (s_tid st' = s_tid st \/ s_tid st' = next_tid code (s_tid st)) /\
  match o_res o with
  | RReply m => exists fs resp fs' ms,
        (fs = s_fs st \/ fs = f_reset F (s_fs st)) /\ (f_nonempty F (s_fs st) = true -> fs = f_reset F (s_fs st)) /\
        f_process F fs resp (r_unit rq) = (fs', ms, None) /\ In m ms /\ s_tx st' = []
  | RErr (Some fc) => fc = r_fc rq /\ s_tx st' = []
  | RErr None => exists fs resp fs' ms, f_process F fs resp (r_unit rq) = (fs', ms, Some ModbusIOExc) /\
                   (ms = [] -> s_tx st' = [])
  | RBroadcast => c_bcast c = true /\ r_unit rq = 0 /\ s_tx st' = []
  | RNone => False
  | RStuck => False
  | RRaise e =>
      (e = ConnectionExc /\ s_conn st' = false /\ s_tx st' = []) \/
      (c_framing c = FAscii /\ e = ValueError /\ s_tx st' = []) \/
      (exists fs resp fs' ms, f_process F fs resp (r_unit rq) = (fs', ms, Some e) /\ e <> ModbusIOExc /\
                              (ms = [] -> s_tx st' = []))
  end.
Proof.
  intros Htx H. pose proof (execute_not_stuck c st rq sc) as Hns. rewrite H in Hns. cbn [snd] in Hns.
  unfold execute in H. rewrite Htx in H.
  destruct (t_connect _ (s_conn st)) as [w1 conn1] eqn:Hc.
  destruct conn1; cbn [negb] in H.
  2:{ inversion H; subst. cbn. split; [left; reflexivity|]. left. repeat split; reflexivity. }
  destruct (c_bcast c && (r_unit rq =? 0)) eqn:Hb.
  { destruct (transactF _ _ _ _ _ _ _ _) as [[w2 conn2] r] eqn:Ht.
    apply andb_prop in Hb. destruct Hb as [Hb1 Hb2]. apply Z.eqb_eq in Hb2.
    destruct r as [bs|e]; inversion H; subst; cbn; (split; [right; reflexivity|]).
    - repeat split; assumption.
    - apply transact_raise in Ht. destruct Ht as [[-> ->]|[Ha ->]]; [left|right; left]; repeat split; try reflexivity; assumption. }
  destruct (loop _ _ _ _ _ _) as [l1 fin] eqn:Hl.
  destruct fin.
  - destruct (f_process F _ _ _) as [[fs2 ms] ex] eqn:Hp.
    assert (Hfs : forall fs, fs = (if f_nonempty F (s_fs st) then f_reset F (s_fs st) else s_fs st) ->
               (fs = s_fs st \/ fs = f_reset F (s_fs st)) /\ (f_nonempty F (s_fs st) = true -> fs = f_reset F (s_fs st))).
    { intros fs ->. destruct (f_nonempty F (s_fs st)); split; auto; discriminate. }
    rewrite add_all_nil in H.
    destruct ex as [e|].
    + destruct e; inversion H; subst; cbn; (split; [right; reflexivity|]);
        try (right; right; do 4 eexists; split; [exact Hp|split; [discriminate|intros ->; reflexivity]]).
      do 4 eexists; split; [exact Hp|intros ->; reflexivity].
    + destruct ms as [|a t].
      * cbn [d_pop] in H. inversion H; subst; cbn. split; [right; reflexivity|]. split; reflexivity.
      * cbn [d_pop] in H. rewrite Z.eqb_refl in H. inversion H; subst; cbn. split; [right; reflexivity|].
        do 4 eexists. destruct (Hfs _ eq_refl) as [A B].
        split; [exact A|]. split; [exact B|]. split; [exact Hp|]. split; [apply last_in|reflexivity].
  - inversion H; subst; cbn. split; [right; reflexivity|].
    apply loop_raise in Hl. cbn [e_cfg] in Hl.
    destruct Hl as [[-> Hd]|[Ha ->]]; [left|right; left]; repeat split; try reflexivity; assumption.
  - inversion H; subst. cbn in Hns. congruence.
Qed.

(* ---------------- healthy and empty attempts *)
Definition serves (fr : framing) (exp : option Z) (full : bool) (reply : bytes) (sc : list tev) : Prop :=
  forall w rest, w_script w = sc ++ rest ->
    exists w', recv_model code fr w exp full = (w', Ok reply) /\ w_script w' = rest.

Definition attempt (conn : bool) (sc : list tev) : list tev := (if conn then [] else [Nothing]) ++ Nothing :: sc.

Lemma pop_script w c (e : tev) (t : list tev) : w_script w = e :: t -> exists w', pop w c = (e, w') /\ w_script w' = t.
Proof. intro H. unfold pop. rewrite H. eexists; split; reflexivity. Qed.

Lemma connect_script w (conn : bool) (rest : list tev) :
  w_script w = (if conn then [] else [Nothing]) ++ rest ->
  exists w', t_connect w conn = (w', true) /\ w_script w' = rest.
Proof.
  unfold t_connect. destruct conn; cbn [app]; intro H.
  - exists w. split; [reflexivity|exact H].
  - destruct (pop_script w CConnect _ _ H) as (w' & Hp & Hs). rewrite Hp. exists w'. split; [reflexivity|exact Hs].
Qed.

Lemma transact_healthy fr (conn : bool) rq tid exp full reply sc w (rest : list tev) :
  serves fr exp full reply sc -> w_script w = attempt conn sc ++ rest ->
  exists w', transactF fr w conn rq tid exp full false = (w', true, Ok reply) /\ w_script w' = rest.
Proof.
  intros Hs Hw. unfold attempt in Hw. rewrite <- app_assoc in Hw.
  destruct (connect_script w conn _ Hw) as (w1 & Hc & H1).
  unfold transact. rewrite Hc. cbn [negb].
  cbn [app] in H1. destruct (pop_script w1 (CSend (f_build F rq tid)) _ _ H1) as (w2 & Hp & H2).
  unfold t_send. rewrite Hp.
  destruct (Hs w2 rest H2) as (w3 & Hr & H3). rewrite Hr. exists w3. split; [reflexivity|exact H3].
Qed.

Lemma min_size_pos fr : 0 < g_min_size code fr.
Proof. destruct fr; cbn; lia. Qed.

Lemma transact_empty fr (conn : bool) rq tid exp full w (rest : list tev) :
  w_script w = (if conn then [] else [Nothing]) ++ [Nothing; Nothing] ++ rest ->
  exists w', transactF fr w conn rq tid exp full false = (w', full, Ok []) /\ w_script w' = rest.
Proof.
  intro Hw. destruct (connect_script w conn _ Hw) as (w1 & Hc & H1).
  unfold transact. rewrite Hc. cbn [negb]. cbn [app] in H1.
  destruct (pop_script w1 (CSend (f_build F rq tid)) _ _ H1) as (w2 & Hp & H2).
  unfold t_send. rewrite Hp. unfold recv_model. destruct full.
  - destruct (pop_script w2 (CRecv exp) _ _ H2) as (w3 & Hp3 & H3).
    unfold t_recv. rewrite Hp3. exists w3. split; [reflexivity|exact H3].
  - destruct (pop_script w2 (CRecv (Some (g_min_size code fr))) _ _ H2) as (w3 & Hp3 & H3).
    unfold t_recv. rewrite Hp3. pose proof (min_size_pos fr) as Hm.
    replace (negb (zlen (@nil N) =? g_min_size code fr)) with true
      by (symmetry; apply negb_true_iff; apply Z.eqb_neq; unfold zlen; cbn [length Z.of_nat]; lia).
    cbn. exists w3. split; [reflexivity|exact H3].
Qed.

Lemma decode_empty fr : decode_data 7 fr [] = Ok mbap0.
Proof. destruct fr; reflexivity. Qed.

(* one empty attempt with retry_on_empty: the loop goes round *)
Lemma step_empty E st rest :
  c_roe (e_cfg E) = true -> l_bcast st = false ->
  w_script (l_w st) = (if l_conn st then [] else [Nothing]) ++ [Nothing; Nothing] ++ rest ->
  exists st', step E st = (st', FNext) /\ w_script (l_w st') = rest /\ l_conn st' = l_full st /\
              l_full st' = false /\ l_bcast st' = false /\ l_retries st' = l_retries st - 1.
Proof.
  intros Hroe Hb Hw. unfold step. rewrite Hb.
  destruct (transact_empty (c_framing (e_cfg E)) (l_conn st) (e_req E) (e_tid E) (e_exp E) (l_full st) (l_w st) rest Hw)
    as (w' & Ht & Hs).
  rewrite Ht. rewrite Hroe.
  pose proof (nr_update_same E (set_resp st w' (l_full st) [])) as (A & B & Cc & D & _).
  cbn [set_resp l_w l_retries l_conn l_resp] in A, B, Cc, D.
  unfold retry_tail. rewrite D. rewrite decode_empty. cbn [unit_match len_match mbap0 mb_unit mb_len].
  eexists. split; [reflexivity|].
  cbn [l_w l_conn l_full l_bcast l_retries set_retries set_bcast set_full set_sleep set_mbap].
  rewrite A, B, Cc. repeat split; try reflexivity; assumption.
Qed.

(* a healthy attempt ends the loop with the reply *)
Lemma step_healthy E st reply sc rest :
  l_bcast st = false -> reply <> [] ->
  serves (c_framing (e_cfg E)) (e_exp E) (l_full st) reply sc ->
  (c_roi (e_cfg E) = true ->
     exists m, decode_data 7 (c_framing (e_cfg E)) reply = Ok m /\ mb_unit m = Some (r_unit (e_req E))) ->
  w_script (l_w st) = attempt (l_conn st) sc ++ rest ->
  exists st', step E st = (st', FBreak) /\ l_resp st' = reply /\ w_script (l_w st') = rest /\ l_conn st' = true.
Proof.
  intros Hb Hne Hs Hu Hw. unfold step. rewrite Hb.
  destruct (transact_healthy _ (l_conn st) (e_req E) (e_tid E) _ _ _ _ _ _ Hs Hw) as (w' & Ht & Hsc).
  rewrite Ht.
  pose proof (nr_update_same E (set_resp st w' true reply)) as (A & B & Cc & D & _).
  cbn [set_resp l_w l_retries l_conn l_resp] in A, B, Cc, D.
  destruct reply as [|b0 r0]; [congruence|].
  destruct (c_roi (e_cfg E)) eqn:Hroi.
  - destruct (Hu eq_refl) as (m & Hd & Hm). unfold retry_tail. rewrite D, Hd.
    unfold unit_match. rewrite Hm, Z.eqb_refl.
    eexists. split; [reflexivity|]. cbn [l_w l_conn l_resp set_mbap].
    rewrite A, Cc, D. repeat split; try reflexivity; assumption.
  - eexists. split; [reflexivity|]. rewrite A, Cc, D. repeat split; try reflexivity; assumption.
Qed.

Fixpoint empties (j : nat) (conn full : bool) : list tev :=
  match j with
  | O => []
  | S k => (if conn then [] else [Nothing]) ++ [Nothing; Nothing] ++ empties k full false
  end.
Fixpoint after_empties (j : nat) (conn full : bool) : bool * bool :=
  match j with O => (conn, full) | S k => after_empties k full false end.

Lemma loop_empties_then_healthy E reply sc rest :
  reply <> [] ->
  (c_roi (e_cfg E) = true ->
     exists m, decode_data 7 (c_framing (e_cfg E)) reply = Ok m /\ mb_unit m = Some (r_unit (e_req E))) ->
  forall j fuel st,
    (j = O \/ c_roe (e_cfg E) = true) ->
    l_bcast st = false -> Z.of_nat j < l_retries st -> (j < fuel)%nat ->
    serves (c_framing (e_cfg E)) (e_exp E) (snd (after_empties j (l_conn st) (l_full st))) reply sc ->
    w_script (l_w st) = empties j (l_conn st) (l_full st)
                        ++ attempt (fst (after_empties j (l_conn st) (l_full st))) sc ++ rest ->
    exists st', loop code FS F E fuel st = (st', LDone) /\ l_resp st' = reply /\ w_script (l_w st') = rest.
Proof.
  intros Hne Hu. induction j as [|j IH]; intros fuel st Hroe Hb Hr Hf Hs Hw.
  - destruct fuel as [|k]; [lia|]. cbn [loop]. rewrite guard_gt.
    replace (l_retries st >? 0) with true by (symmetry; apply Z.gtb_lt; lia).
    rewrite body_is_step. cbn [empties after_empties fst snd app] in *.
    destruct (step_healthy E st reply sc rest Hb Hne Hs Hu Hw) as (st' & Hst & A & B & _).
    rewrite Hst. exists st'. repeat split; assumption.
  - destruct fuel as [|k]; [lia|]. cbn [loop]. rewrite guard_gt.
    replace (l_retries st >? 0) with true by (symmetry; apply Z.gtb_lt; lia).
    rewrite body_is_step. cbn [empties after_empties] in *.
    rewrite <- !app_assoc in Hw.
    destruct Hroe as [Hroe|Hroe]; [discriminate|].
    destruct (step_empty E st _ Hroe Hb Hw) as (st1 & Hst & A & B & Cc & D & G).
    rewrite Hst. apply IH.
    + right; assumption.
    + assumption.
    + lia.
    + lia.
    + rewrite B, Cc. exact Hs.
    + rewrite A, B, Cc. reflexivity.
Qed.

(* ---------------- execute on top of a loop that ends with a reply *)
Definition full_of (c : cfg) (st : cstate FS) (rq : req) : bool :=
  if c_udp c then true else zmem (r_unit rq) (s_noresp st).
Definition exp_of (c : cfg) (rq : req) : option Z :=
  if c_udp c then (if opt_truthy (expected_length code c rq) then expected_length code c rq else Some (g_read_size code))
  else expected_length code c rq.
Definition env_of_call (c : cfg) (st : cstate FS) (rq : req) : lenv :=
  {| e_cfg := c; e_req := rq; e_tid := next_tid code (s_tid st); e_exp := exp_of c rq |}.
Definition start_of (c : cfg) (st : cstate FS) (rq : req) (w1 : world) : lst :=
  {| l_w := w1; l_conn := true; l_retries := retries_eff code c + g_retries_bump code; l_full := full_of c st rq;
     l_bcast := false; l_resp := []; l_noresp := s_noresp st; l_mbap := mbap0; l_sleeps := [] |}.

Definition conformant_frame (reply : bytes) (u : Z) (m : msg) : Prop :=
  forall fs, f_nonempty F fs = false -> exists fs', f_process F fs reply u = (fs', [m], None).
Definition reset_empties : Prop := forall fs, f_nonempty F (f_reset F fs) = false.

Lemma execute_of_loop c st rq script w1 l1 reply m :
  s_tx st = [] -> c_bcast c && (r_unit rq =? 0) = false ->
  t_connect {| w_script := script; w_calls := [] |} (s_conn st) = (w1, true) ->
  loop code FS F (env_of_call c st rq) (S (Z.to_nat (retries_eff code c + g_retries_bump code))) (start_of c st rq w1)
    = (l1, LDone) ->
  l_resp l1 = reply -> reset_empties -> conformant_frame reply (r_unit rq) m ->
  exists st' o, execute code FS F c st rq script = (st', o) /\ o_res o = RReply m /\ s_tx st' = [] /\
                w_script (l_w l1) = skipn 0 (w_script (l_w l1)) /\ s_tid st' = next_tid code (s_tid st).
Proof.
  intros Htx Hb Hc Hl Hr Hreset Hframe.
  unfold execute. rewrite Hc. cbn [negb]. rewrite Hb.
  unfold env_of_call, start_of, exp_of, full_of in Hl.
  assert (Hne : f_nonempty F (if f_nonempty F (s_fs st) then f_reset F (s_fs st) else s_fs st) = false)
    by (destruct (f_nonempty F (s_fs st)) eqn:Hq; [apply Hreset|exact Hq]).
  destruct (Hframe _ Hne) as (fs' & Hp).
  destruct (c_udp c); rewrite Hl, Hr, Hp, Htx, add_all_nil; cbn [d_pop last]; rewrite Z.eqb_refl;
    (do 2 eexists; split; [reflexivity|]; cbn; repeat split; reflexivity).
Qed.

(* after j empty replies (j <= retries, retry_on_empty set when j > 0) a healthy attempt is returned;
   j = 0 is "a conformant reply is returned decoded" / "the client is ready" *)
Theorem execute_empties_then_reply c st rq reply sc rest m (j : nat) :
  s_tx st = [] -> c_bcast c && (r_unit rq =? 0) = false ->
  0 <= retries_given c -> Z.of_nat j <= retries_given c -> (j = O \/ c_roe c = true) ->
  reply <> [] ->
  (c_roi c = true -> exists mb, decode_data 7 (c_framing c) reply = Ok mb /\ mb_unit mb = Some (r_unit rq)) ->
  reset_empties -> conformant_frame reply (r_unit rq) m ->
  serves (c_framing c) (exp_of c rq) (snd (after_empties j true (full_of c st rq))) reply sc ->
  exists st' o,
    execute code FS F c st rq
      ((if s_conn st then [] else [Nothing]) ++ empties j true (full_of c st rq)
         ++ attempt (fst (after_empties j true (full_of c st rq))) sc ++ rest) = (st', o)
    /\ o_res o = RReply m /\ s_tx st' = [] /\ s_tid st' = next_tid code (s_tid st).
Proof.
  intros Htx Hb Hr0 Hj Hroe Hne Hu Hreset Hframe Hs.
  set (script := (if s_conn st then [] else [Nothing]) ++ _).
  destruct (connect_script {| w_script := script; w_calls := [] |} (s_conn st) _ eq_refl) as (w1 & Hc & H1).
  pose proof (retries_eff_given c Hr0) as He.
  destruct (loop_empties_then_healthy (env_of_call c st rq) reply sc rest Hne Hu j
              (S (Z.to_nat (retries_eff code c + g_retries_bump code))) (start_of c st rq w1)) as (l1 & Hl & Hresp & _).
  - exact Hroe.
  - reflexivity.
  - cbn [start_of l_retries g_retries_bump code]. lia.
  - cbn [g_retries_bump code]. lia.
  - exact Hs.
  - exact H1.
  - destruct (execute_of_loop c st rq script w1 l1 reply m Htx Hb Hc Hl Hresp Hreset Hframe) as (st' & o & A & B & Cc & _ & D).
    exists st', o. repeat split; assumption.
Qed.

(* ---------------- retry_on_invalid: foreign replies (another unit answers) *)
Definition foreign (E : lenv) (g : bytes) : Prop :=
  g <> [] /\ exists mb, decode_data 7 (c_framing (e_cfg E)) g = Ok mb /\ unit_match E mb = false /\ len_match E mb = false.

Lemma step_foreign E st g sc rest :
  c_roi (e_cfg E) = true -> l_bcast st = false -> foreign E g ->
  serves (c_framing (e_cfg E)) (e_exp E) (l_full st) g sc ->
  w_script (l_w st) = attempt (l_conn st) sc ++ rest ->
  exists st', step E st = (st', FNext) /\ w_script (l_w st') = rest /\ l_conn st' = true /\
              l_full st' = false /\ l_bcast st' = false /\ l_retries st' = l_retries st - 1.
Proof.
  intros Hroi Hb (Hne & mb & Hd & Hum & Hlm) Hs Hw. unfold step. rewrite Hb.
  destruct (transact_healthy _ (l_conn st) (e_req E) (e_tid E) _ _ _ _ _ _ Hs Hw) as (w' & Ht & Hsc).
  rewrite Ht.
  pose proof (nr_update_same E (set_resp st w' true g)) as (A & B & Cc & D & _).
  cbn [set_resp l_w l_retries l_conn l_resp] in A, B, Cc, D.
  destruct g as [|b0 g0]; [congruence|]. rewrite Hroi.
  unfold retry_tail. rewrite D, Hd, Hum, Hlm.
  eexists. split; [reflexivity|].
  cbn [l_w l_conn l_full l_bcast l_retries set_retries set_bcast set_full set_sleep set_mbap].
  rewrite A, B. repeat split; try reflexivity; assumption.
Qed.

Fixpoint foreign_script (l : list (bytes * list tev)) (conn : bool) : list tev :=
  match l with [] => [] | (g, sc) :: t => attempt conn sc ++ foreign_script t true end.
Fixpoint foreign_ok (E : lenv) (full : bool) (l : list (bytes * list tev)) : Prop :=
  match l with
  | [] => True
  | (g, sc) :: t => foreign E g /\ serves (c_framing (e_cfg E)) (e_exp E) full g sc /\ foreign_ok E false t
  end.
Definition after_foreign (l : list (bytes * list tev)) (conn full : bool) : bool * bool :=
  match l with [] => (conn, full) | _ => (true, false) end.

Lemma loop_foreign_then_healthy E reply sc rest :
  reply <> [] ->
  (c_roi (e_cfg E) = true ->
     exists m, decode_data 7 (c_framing (e_cfg E)) reply = Ok m /\ mb_unit m = Some (r_unit (e_req E))) ->
  forall l fuel st,
    (l = [] \/ c_roi (e_cfg E) = true) ->
    l_bcast st = false -> zlen l < l_retries st -> (length l < fuel)%nat ->
    foreign_ok E (l_full st) l ->
    serves (c_framing (e_cfg E)) (e_exp E) (snd (after_foreign l (l_conn st) (l_full st))) reply sc ->
    w_script (l_w st) = foreign_script l (l_conn st)
                        ++ attempt (fst (after_foreign l (l_conn st) (l_full st))) sc ++ rest ->
    exists st', loop code FS F E fuel st = (st', LDone) /\ l_resp st' = reply /\ w_script (l_w st') = rest.
Proof.
  intros Hne Hu. induction l as [|[g scg] t IH]; intros fuel st Hroi Hb Hr Hf Hok Hs Hw.
  - destruct fuel as [|k]; [cbn in Hf; lia|]. cbn [loop]. rewrite guard_gt. unfold zlen in Hr. cbn [length] in Hr.
    replace (l_retries st >? 0) with true by (symmetry; apply Z.gtb_lt; lia).
    rewrite body_is_step. cbn [foreign_script after_foreign fst snd app] in *.
    destruct (step_healthy E st reply sc rest Hb Hne Hs Hu Hw) as (st' & Hst & A & B & _).
    rewrite Hst. exists st'. repeat split; assumption.
  - destruct fuel as [|k]; [cbn in Hf; lia|]. cbn [loop]. rewrite guard_gt.
    unfold zlen in Hr. cbn [length] in Hr, Hf.
    replace (l_retries st >? 0) with true by (symmetry; apply Z.gtb_lt; lia).
    rewrite body_is_step. cbn [foreign_script foreign_ok after_foreign fst snd] in *.
    destruct Hroi as [Hroi|Hroi]; [discriminate|]. destruct Hok as (Hfg & Hsg & Hokt).
    rewrite <- app_assoc in Hw.
    destruct (step_foreign E st g scg _ Hroi Hb Hfg Hsg Hw) as (st1 & Hst & A & B & Cc & D & G).
    rewrite Hst. apply IH.
    + right; assumption.
    + assumption.
    + unfold zlen. lia.
    + lia.
    + rewrite Cc. exact Hokt.
    + rewrite B, Cc. destruct t; exact Hs.
    + rewrite A, B, Cc. destruct t; reflexivity.
Qed.

Theorem execute_foreign_then_reply c st rq reply sc rest m (l : list (bytes * list tev)) :
  s_tx st = [] -> c_bcast c && (r_unit rq =? 0) = false ->
  0 <= retries_given c -> zlen l <= retries_given c -> (l = [] \/ c_roi c = true) ->
  reply <> [] ->
  (c_roi c = true -> exists mb, decode_data 7 (c_framing c) reply = Ok mb /\ mb_unit mb = Some (r_unit rq)) ->
  reset_empties -> conformant_frame reply (r_unit rq) m ->
  foreign_ok (env_of_call c st rq) (full_of c st rq) l ->
  serves (c_framing c) (exp_of c rq) (snd (after_foreign l true (full_of c st rq))) reply sc ->
  exists st' o,
    execute code FS F c st rq
      ((if s_conn st then [] else [Nothing]) ++ foreign_script l true
         ++ attempt (fst (after_foreign l true (full_of c st rq))) sc ++ rest) = (st', o)
    /\ o_res o = RReply m /\ s_tx st' = [] /\ s_tid st' = next_tid code (s_tid st).
Proof.
  intros Htx Hb Hr0 Hj Hroi Hne Hu Hreset Hframe Hok Hs.
  set (script := (if s_conn st then [] else [Nothing]) ++ _).
  destruct (connect_script {| w_script := script; w_calls := [] |} (s_conn st) _ eq_refl) as (w1 & Hc & H1).
  pose proof (retries_eff_given c Hr0) as He.
  destruct (loop_foreign_then_healthy (env_of_call c st rq) reply sc rest Hne Hu l
              (S (Z.to_nat (retries_eff code c + g_retries_bump code))) (start_of c st rq w1)) as (l1 & Hl & Hresp & _).
  - exact Hroi.
  - reflexivity.
  - cbn [start_of l_retries g_retries_bump code]. lia.
  - cbn [g_retries_bump code]. unfold zlen in Hj. lia.
  - exact Hok.
  - exact Hs.
  - exact H1.
  - destruct (execute_of_loop c st rq script w1 l1 reply m Htx Hb Hc Hl Hresp Hreset Hframe) as (st' & o & A & B & Cc & _ & D).
    exists st', o. repeat split; assumption.
Qed.
End S.

Section Deadline.
Variable delta : Z.
Hypothesis delta_pos : 0 < delta.

(* deadline_progress: every iteration of the loop receives at least one byte or sees the clock advance by >= delta *)
Definition progress (k : tick) : Prop := 0 <= k_dt k /\ (k_bytes k <> [] \/ delta <= k_dt k).

Lemma firstn_len_pos (n : Z) (l : bytes) : 0 < n -> l <> [] -> 1 <= zlen (firstn (Z.to_nat n) l) <= n.
Proof.
  intros Hn Hl. unfold zlen. rewrite firstn_length. destruct l as [|a l]; [congruence|]. cbn [length]. lia.
Qed.

Lemma firstn_len_le (n : Z) (l : bytes) : 0 <= zlen (firstn (Z.to_nat n) l) <= Z.max 0 n.
Proof. unfold zlen. rewrite firstn_length. lia. Qed.

Lemma tcp_recv_loop_terminates s : 0 < s ->
  forall ticks now end_ got b,
    Forall progress ticks -> 0 <= b -> end_ - now < b * delta ->
    0 <= s - zlen got -> (s - zlen got) + b <= zlen ticks ->
    exists bs, tcp_recv_loop (Some s) (s - zlen got) now end_ got ticks = Some bs /\ zlen bs <= s.
Proof.
  intros Hs. induction ticks as [|k t IH]; intros now end_ got b Hp Hb He Hg Hl.
  - unfold zlen in Hl. cbn [length] in Hl. assert (s - zlen got = 0) by (unfold zlen in *; lia).
    cbn [tcp_recv_loop]. replace (s - zlen got >? 0) with false by lia. exists got. split; [reflexivity|lia].
  - cbn [tcp_recv_loop]. destruct (s - zlen got >? 0) eqn:Hr; [|exists got; split; [reflexivity|lia]].
    replace (s =? 0) with false by lia.
    inversion Hp as [|k' t' Hk Ht]; subst. destruct Hk as (Hdt & Hk).
    set (data := firstn (Z.to_nat (s - zlen got)) (k_bytes k)).
    assert (Hr' : 0 < s - zlen got) by (apply Z.gtb_lt; exact Hr).
    assert (Hd : 0 <= zlen data <= s - zlen got).
    { pose proof (firstn_len_le (s - zlen got) (k_bytes k)) as Hx. fold data in Hx. lia. }
    assert (Hgl : zlen (got ++ data) = zlen got + zlen data) by (unfold zlen; rewrite app_length; lia).
    destruct (now + k_dt k >? end_) eqn:Hend.
    + exists (got ++ data). split; [reflexivity|lia].
    + unfold zlen in Hl. cbn [length] in Hl.
      destruct Hk as [Hbytes|Hclock].
      * assert (1 <= zlen data) by (pose proof (firstn_len_pos (s - zlen got) (k_bytes k) Hr' Hbytes) as Hy; fold data in Hy; lia).
        apply (IH (now + k_dt k) end_ (got ++ data) b); try assumption; try lia. unfold zlen in *. lia.
      * destruct (Z.eq_dec b 0) as [->|Hb0]; [lia|].
        apply (IH (now + k_dt k) end_ (got ++ data) (b - 1)); try assumption; try lia. unfold zlen in *. lia.
Qed.

Theorem tcp_recv_terminates s now timeout ticks b :
  0 < s -> Forall progress ticks -> 0 <= b -> timeout < b * delta -> s + b <= zlen ticks ->
  exists bs, tcp_recv (Some s) now timeout ticks = Some bs /\ zlen bs <= s.
Proof.
  intros Hs Hp Hb Ht Hl. unfold tcp_recv.
  pose proof (tcp_recv_loop_terminates s Hs ticks now (now + timeout) [] b Hp Hb) as H.
  change (zlen (@nil N)) with 0 in H. rewrite Z.sub_0_r in H. apply H; lia.
Qed.
End Deadline.

(* ------------------------------------------------------------------ witnesses
   The framer tables below are the transitions RECORDED from the real framers by the harness
   (props/lib_client.py) for these very inputs; the same inputs are replayed against the real client on
   every run (findings/C08.json, findings/C13.json: replay_finding). *)

Definition st0 (tid : Z) : cstate Z := Build_cstate tid [] 0 [] false.
Definition rq_rh : req := {| r_unit := 5; r_fc := 3; r_psize := Some 8; r_id := 11005 |}.

(* TCP: a well-formed frame carrying transaction id 78 answers request 1 *)
Definition tab_tid : ftable := {| ft_nonempty := [(0, false)]; ft_reset := [];
   ft_process := [(0, [0;78;0;0;0;9;5;3;6;1;2;1;3;1;4]%N, 5, (0, [{| m_tid := 78; m_uid := 5; m_fc := 3; m_id := 1 |}], None))];
   ft_build := [(11005, 1, [0;1;0;0;0;6;5;3;0;2;0;3]%N)] |}.
Definition cfg_tcp0 : cfg := {| c_framing := FTcp; c_udp := false; c_retries_kw := Some 0; c_roe := false; c_roi := false; c_bcast := false |}.
Definition sc_tid : list tev := [Nothing; Nothing; Data [0;78;0;0;0;9;5;3]%N; Data [6;1;2;1;3;1;4]%N].

Lemma pairing_tid_refuted :
  exists (T : ftable) c st rq sc m,
    s_tx st = [] /\ c_framing c = FTcp /\
    o_res (snd (execute code Z (table_framer T) c st rq sc)) = RReply m /\
    m_tid m <> next_tid code (s_tid st).
Proof.
  exists tab_tid, cfg_tcp0, (st0 0), rq_rh, sc_tid, {| m_tid := 78; m_uid := 5; m_fc := 3; m_id := 1 |}.
  vm_compute. repeat split; discriminate.
Qed.

(* RTU: a ReadCoilsResponse (function 1) from the right unit answers a register read (function 3) *)
Definition tab_fc : ftable := {| ft_nonempty := [(0, false)]; ft_reset := [];
   ft_process := [(0, [5;1;1;5;144;187]%N, 5, (1, [{| m_tid := 5; m_uid := 5; m_fc := 1; m_id := 1 |}], None))];
   ft_build := [(11005, 1, [5;3;0;2;0;3;165;143]%N)] |}.
Definition cfg_rtu0 : cfg := {| c_framing := FRtu; c_udp := false; c_retries_kw := Some 0; c_roe := false; c_roi := false; c_bcast := false |}.
Definition sc_fc : list tev := [Nothing; Nothing; Data [5;1]%N; Data [1;5;144;187]%N].

Lemma pairing_fc_refuted :
  exists (T : ftable) c st rq sc m,
    s_tx st = [] /\
    o_res (snd (execute code Z (table_framer T) c st rq sc)) = RReply m /\
    m_uid m = r_unit rq /\ m_fc m <> r_fc rq /\ m_fc m <> Z.lor (r_fc rq) 128.
Proof.
  exists tab_fc, cfg_rtu0, (st0 0), rq_rh, sc_fc, {| m_tid := 5; m_uid := 5; m_fc := 1; m_id := 1 |}.
  vm_compute. repeat split; discriminate.
Qed.

(* ASCII: non-hex bytes in the function-code field: ValueError escapes *)
Definition tab_ascii : ftable := {| ft_nonempty := [(0, false)]; ft_reset := []; ft_process := [];
   ft_build := [(11005, 1, [58;48;53;48;51;48;48;48;50;48;48;48;51;70;51;13;10]%N)] |}.
Definition cfg_ascii0 : cfg := {| c_framing := FAscii; c_udp := false; c_retries_kw := Some 0; c_roe := false; c_roi := false; c_bcast := false |}.

Lemma no_raise_refuted_ascii :
  exists (T : ftable) c st rq sc,
    s_tx st = [] /\ o_res (snd (execute code Z (table_framer T) c st rq sc)) = RRaise ValueError.
Proof.
  exists tab_ascii, cfg_ascii0, (st0 0), rq_rh, [Nothing; Nothing; Data [58;122;122;255;0]%N].
  vm_compute. split; reflexivity.
Qed.

(* UDP: a good frame followed by one the decoder rejects, in one datagram: the first call returns the
   ModbusIOException object but leaves the delivered message in the table; the next call, left without a
   reply, returns None *)
Definition tab_none : ftable := {| ft_nonempty := [(0, false); (1, true)]; ft_reset := [(1, 0)];
   ft_process := [(0, [0;21;0;0;0;9;5;3;6;1;2;1;3;1;4;0;21;0;0;0;3;5;96;1]%N, 5,
                   (1, [{| m_tid := 21; m_uid := 5; m_fc := 3; m_id := 1 |}], Some ModbusIOExc)); (0, [], 5, (0, [], None))];
   ft_build := [(11005, 21, [0;21;0;0;0;6;5;3;0;2;0;3]%N); (11005, 22, [0;22;0;0;0;6;5;3;0;2;0;3]%N)] |}.
Definition cfg_udp0 : cfg := {| c_framing := FTcp; c_udp := true; c_retries_kw := Some 0; c_roe := false; c_roi := false; c_bcast := false |}.

Lemma none_refuted :
  exists (T : ftable) c st rq sc1 sc2,
    s_tx st = [] /\
    let '(st1, o1) := execute code Z (table_framer T) c st rq sc1 in
    o_res o1 = RErr None /\ s_tx st1 <> [] /\
    o_res (snd (execute code Z (table_framer T) c st1 rq sc2)) = RNone.
Proof.
  exists tab_none, cfg_udp0, (st0 20), rq_rh,
    [Nothing; Nothing; Data [0;21;0;0;0;9;5;3;6;1;2;1;3;1;4;0;21;0;0;0;3;5;96;1]%N], [Nothing; RaiseOSError].
  vm_compute. repeat split; discriminate.
Qed.

(* ------------------------------------------------------------------ the hypotheses are satisfiable:
   a small total framer that satisfies reset_empties / conformant_frame / proc_clean / framer_raises_io *)
Definition demo_tcp : framer unit := {|
  f_nonempty := fun _ => false;
  f_reset := fun s => s;
  f_build := fun rq tid => [Z.to_N (tid / 256); Z.to_N (tid mod 256); 0; 0; 0; 6; Z.to_N (r_unit rq); Z.to_N (r_fc rq); 0; 2; 0; 3]%N;
  f_process := fun s d u =>
    if (8 <=? zlen d) && ((u =? 0) || (u =? 255) || (nthb d 6 =? u))
    then (s, [{| m_tid := nthb d 0 * 256 + nthb d 1; m_uid := nthb d 6; m_fc := nthb d 7; m_id := 0 |}], None)
    else (s, [], None)
|}.

Definition reply_rh (tid : Z) : bytes := [Z.to_N (tid / 256); Z.to_N (tid mod 256); 0;0;0;9;5;3;6;1;2;1;3;1;4]%N.

Lemma serves_demo exp : serves FTcp exp false (reply_rh 0) [Data (firstn 8 (reply_rh 0)); Data (skipn 8 (reply_rh 0))].
Proof.
  intros w rest Hw. change (reply_rh 0) with [0;0;0;0;0;9;5;3;6;1;2;1;3;1;4]%N in *.
  cbn [app firstn skipn] in Hw.
  unfold recv_model. cbn [g_min_size code].
  destruct (pop_script w (CRecv (Some 8)) _ _ Hw) as (w1 & Hp & H1).
  unfold t_recv at 1. rewrite Hp. cbn -[pop t_recv]. change (Pos.to_nat 8) with 8%nat. cbn -[pop t_recv].
  destruct (pop_script w1 (CRecv (Some 7)) _ _ H1) as (w2 & Hp2 & H2).
  unfold t_recv. rewrite Hp2. cbn. change (Pos.to_nat 7) with 7%nat. cbn. exists w2. split; [reflexivity|exact H2].
Qed.

Definition cfg_retry : cfg := {| c_framing := FTcp; c_udp := false; c_retries_kw := Some 2; c_roe := true; c_roi := true; c_bcast := false |}.

(* tid wraps 65535 -> 0; two empty replies, then the healthy one, retries = 2 *)
Lemma retry_example :
  exists st' o,
    execute code unit demo_tcp cfg_retry (Build_cstate 65535 [] tt [] false) rq_rh
      ([Nothing] ++ empties 2 true false
         ++ attempt false [Data (firstn 8 (reply_rh 0)); Data (skipn 8 (reply_rh 0))] ++ [])
      = (st', o)
    /\ o_res o = RReply {| m_tid := 0; m_uid := 5; m_fc := 3; m_id := 0 |} /\ s_tx st' = [] /\ s_tid st' = 0.
Proof.
  pose proof (execute_empties_then_reply unit demo_tcp cfg_retry (Build_cstate 65535 [] tt [] false) rq_rh
                (reply_rh 0) [Data (firstn 8 (reply_rh 0)); Data (skipn 8 (reply_rh 0))] []
                {| m_tid := 0; m_uid := 5; m_fc := 3; m_id := 0 |} 2%nat) as H.
  destruct H as (st' & o & A & B & Cc & D).
  - reflexivity.
  - reflexivity.
  - cbn; lia.
  - cbn; lia.
  - right; reflexivity.
  - discriminate.
  - intros _. exists {| mb_unit := Some 5; mb_len := Some 9 |}. split; reflexivity.
  - intros fs. reflexivity.
  - intros fs _. exists fs. reflexivity.
  - apply serves_demo.
  - exists st', o. repeat split; assumption.
Qed.

(* ------------------------------------------------------------------ corollaries in the shape Props/ states them *)
Section Corollaries.
Variable FS : Type.
Variable F : framer FS.

Lemma execute_inv c st rq sc st' o :
  s_tx st = [] -> tid_ok (s_tid st) -> proc_clean FS F ->
  execute code FS F c st rq sc = (st', o) ->
  s_tx st' = [] /\ tid_ok (s_tid st') /\ (s_tid st' = s_tid st \/ s_tid st' = (s_tid st + 1) mod 65536).
Proof.
  intros Htx Ht Hpc H. pose proof (execute_cases FS F c st rq sc st' o Htx H) as (Hid & Hc).
  assert (Htid : tid_ok (s_tid st') /\ (s_tid st' = s_tid st \/ s_tid st' = (s_tid st + 1) mod 65536)).
  { unfold tid_ok in *. rewrite next_tid_mod in Hid by lia.
    destruct Hid as [-> | ->]; (split; [|auto]); try lia.
    apply Z.mod_pos_bound; lia. }
  split; [|exact Htid].
  destruct (o_res o) as [m|fc| | |e|].
  - destruct Hc as (fs & resp & fs' & ms & _ & _ & _ & _ & X). exact X.
  - destruct fc as [fc|].
    + destruct Hc as [_ X]. exact X.
    + destruct Hc as (fs & resp & fs' & ms & Hp & X). apply X. eapply Hpc. exact Hp.
  - destruct Hc as (_ & _ & X). exact X.
  - contradiction.
  - destruct Hc as [(_ & _ & X)|[(_ & _ & X)|(fs & resp & fs' & ms & Hp & _ & X)]]; try exact X.
    apply X. eapply Hpc. exact Hp.
  - contradiction.
Qed.

Lemma execute_no_raise c st rq sc st' o :
  s_tx st = [] -> c_framing c <> FAscii -> framer_raises_io FS F ->
  execute code FS F c st rq sc = (st', o) ->
  match o_res o with
  | RReply _ | RErr _ | RBroadcast => True
  | RRaise e => e = ConnectionExc /\ s_conn st' = false       (* the connection could not be established *)
  | RNone | RStuck => False
  end.
Proof.
  intros Htx Hfr Hio H. pose proof (execute_cases FS F c st rq sc st' o Htx H) as (_ & Hc).
  destruct (o_res o) as [m|fc| | |e|]; try exact I; try contradiction.
  destruct Hc as [(A & B & _)|[(A & _)|(fs & resp & fs' & ms & Hp & Hne & _)]].
  - split; assumption.
  - contradiction.
  - exfalso. apply Hne. eapply Hio. exact Hp.
Qed.

Lemma execute_from_this_call c st rq sc st' o m :
  s_tx st = [] -> execute code FS F c st rq sc = (st', o) -> o_res o = RReply m ->
  exists fs resp fs' ms,
    (fs = s_fs st \/ fs = f_reset F (s_fs st)) /\ (f_nonempty F (s_fs st) = true -> fs = f_reset F (s_fs st)) /\
    f_process F fs resp (r_unit rq) = (fs', ms, None) /\ In m ms.
Proof.
  intros Htx H Hr. pose proof (execute_cases FS F c st rq sc st' o Htx H) as (_ & Hc). rewrite Hr in Hc.
  destruct Hc as (fs & resp & fs' & ms & A & B & Cc & D & _). exists fs, resp, fs', ms. repeat split; assumption.
Qed.

(* the framers' unit filter (_validate_unit_id): what is delivered for unit u carries unit u, unless u is 0 or 255 *)
Definition unit_filter : Prop :=
  forall fs d u fs' ms ex m, f_process F fs d u = (fs', ms, ex) -> In m ms -> u <> 0 -> u <> 255 -> m_uid m = u.

Lemma execute_pairing_unit c st rq sc st' o m :
  s_tx st = [] -> unit_filter -> r_unit rq <> 0 -> r_unit rq <> 255 ->
  execute code FS F c st rq sc = (st', o) -> o_res o = RReply m -> m_uid m = r_unit rq.
Proof.
  intros Htx Hf H0 H255 H Hr.
  destruct (execute_from_this_call c st rq sc st' o m Htx H Hr) as (fs & resp & fs' & ms & _ & _ & Hp & Hin).
  eapply Hf; eassumption.
Qed.

(* after ANY script (faults) the client is ready: a healthy transport returns the own reply *)
Lemma execute_ready c st rq1 faults st1 o1 rq reply sc rest m :
  s_tx st = [] -> tid_ok (s_tid st) -> proc_clean FS F ->
  execute code FS F c st rq1 faults = (st1, o1) ->
  c_bcast c && (r_unit rq =? 0) = false -> 0 <= retries_given c -> reply <> [] ->
  (c_roi c = true -> exists mb, decode_data 7 (c_framing c) reply = Ok mb /\ mb_unit mb = Some (r_unit rq)) ->
  reset_empties FS F -> conformant_frame FS F reply (r_unit rq) m ->
  serves (c_framing c) (exp_of c rq) (full_of FS c st1 rq) reply sc ->
  exists st2 o2,
    execute code FS F c st1 rq ((if s_conn st1 then [] else [Nothing]) ++ attempt true sc ++ rest) = (st2, o2)
    /\ o_res o2 = RReply m /\ s_tx st2 = [] /\ s_tid st2 = (s_tid st1 + 1) mod 65536.
Proof.
  intros Htx Ht Hpc H1 Hb Hr Hne Hu Hreset Hframe Hs.
  destruct (execute_inv c st rq1 faults st1 o1 Htx Ht Hpc H1) as (Htx1 & Ht1 & _).
  destruct (execute_empties_then_reply FS F c st1 rq reply sc rest m 0%nat Htx1 Hb Hr) as (st2 & o2 & A & B & Cc & D);
    try assumption.
  - left; reflexivity.
  - exists st2, o2. repeat split; try assumption. rewrite D. apply next_tid_mod. unfold tid_ok in Ht1. lia.
Qed.
End Corollaries.

(* ------------------------------------------------------------------ after repairs 10/11 of /repo (RTU framer loops over
   the frames of a read; a frame of another unit is skipped, not reset): a frame of unit 6 followed by the own exception
   reply of unit 5 in ONE read returns the own reply.  T = transitions recorded from the repaired ModbusRtuFramer. *)
Definition tab_foreign_own : ftable := {| ft_nonempty := [(0, false)]; ft_reset := [];
   ft_process := [(0, [6;1;1;5;144;255;5;131;2;129;48]%N, 5, (1, [{| m_tid := 5; m_uid := 5; m_fc := 131; m_id := 1 |}], None))];
   ft_build := [(12005, 8, [5;3;0;0;0;20;68;65]%N)] |}.
Definition rq_big : req := {| r_unit := 5; r_fc := 3; r_psize := Some 42; r_id := 12005 |}.

Lemma foreign_then_own_example :
  exists m, o_res (snd (execute code Z (table_framer tab_foreign_own) cfg_rtu0 (st0 7) rq_big
                        [Nothing; Nothing; Data [6;1]%N; Data [1;5;144;255;5;131;2;129;48]%N])) = RReply m
            /\ m_uid m = r_unit rq_big /\ m_fc m = Z.lor (r_fc rq_big) 128.
Proof. eexists. vm_compute. repeat split. Qed.

(* ------------------------------------------------------------------ isError(): how callers tell the results apart *)
Lemma is_error_fc_exact fc : is_error_fc code fc = (fc >? 128).
Proof. unfold is_error_fc. cbn. destruct (fc >? 128); reflexivity. Qed.

Lemma zrange_in : forall n lo x, lo <= x < lo + Z.of_nat n -> In x (zrange lo n).
Proof.
  induction n as [|n IH]; intros lo x H; [lia|]. cbn [zrange].
  destruct (Z.eq_dec x lo) as [->|Hne]; [left; reflexivity|right; apply IH; lia].
Qed.

Lemma is_error_iff_exception fc : 1 <= fc <= 127 ->
  is_error_fc code (Z.lor fc 128) = true /\ is_error_fc code fc = false.
Proof.
  intros H.
  assert (A : forallb (fun f => is_error_fc code (Z.lor f 128) && negb (is_error_fc code f)) (zrange 1 127) = true)
    by (vm_compute; reflexivity).
  rewrite forallb_forall in A. specialize (A fc (zrange_in 127 1 fc ltac:(lia))).
  apply andb_true_iff in A. destruct A as [A1 A2]. split; [exact A1|]. apply negb_true_iff. exact A2.
Qed.

Lemma error_object_is_error fc : is_error_of code (RErr fc) = Some true.
Proof. reflexivity. Qed.

Lemma reply_is_error m : is_error_of code (RReply m) = Some (m_fc m >? 128).
Proof. cbn [is_error_of]. rewrite is_error_fc_exact. reflexivity. Qed.
