(* Payload.v — executable model of pymodbus/payload.py (BinaryPayloadBuilder /
   BinaryPayloadDecoder).  NO proofs here.

   The model is an interpreter of the data the translator regenerates from the source on
   every run ([payload_code], instance [PM.Generated.GenPayload.code]): the WC table, the
   shape / format character / pointer increment / slice width of every add_* and decode_*
   method, the constants of _pack_words and _unpack_words, of build, to_registers,
   fromRegisters, to_coils, fromCoils, and the Endian constants.  Hand-written (tied by
   the correspondence check, and pinned verbatim by the translator): the bit-string
   helpers pack_bitstring / unpack_bitstring, Python slicing, struct (theories/Struct.v).

   Floats are IEEE bit patterns: a value [VNum KF32 w] stands for the float whose
   binary32 encoding is the unsigned 32-bit integer [w]; struct's 'e' / 'f' / 'd' are
   therefore modelled as the unsigned fields H / I / Q of the same width.  The step
   Python float <-> bit pattern is outside the model (see docs/C19.md). *)
From PM.theories Require Import Base Struct.
Open Scope string_scope.
Open Scope list_scope.
Open Scope Z_scope.

(* ---------------------------------------------------------------- generated data *)

Inductive add_shape :=
| AddDirect (c : string)      (* fstring = self._byteorder + c ; append(pack(fstring, value)) *)
| AddWords (c : string)       (* fstring = c ; append(self._pack_words(fstring, value)) *)
| AddBits                     (* append(pack_bitstring(values)) *)
| AddString.                  (* append(pack(byteorder + str(len(value)) + 's', value)) *)

Inductive dec_shape :=
| DecDirect (inc w : nat) (c : string)    (* ptr += inc; handle = payload[ptr-w:ptr]; unpack(byteorder + c, handle)[0] *)
| DecWords (inc w : nat) (c p : string)   (* …; handle = _unpack_words(c, handle); unpack(p + c, handle)[0] *)
| DecBits (inc w : nat)                   (* …; unpack_bitstring(handle) *)
| DecString.                              (* ptr += size; payload[ptr-size:ptr] *)

Record words_steps := {
  ws_div : Z;               (* wc = WC.get(fstring.lower()) // ws_div *)
  ws_up_prefix : string;    (* up = "<prefix>{wc}<char>" *)
  ws_up_char : string;
  ws_rev_on : string;       (* value of the Endian constant compared with self._wordorder before `reversed` *)
  ws_word_char : string     (* each word packed with self._byteorder + <char> *)
}.

Record payload_code := {
  pc_big : string;          (* Endian.Big *)
  pc_little : string;       (* Endian.Little *)
  pc_wc : list (string * Z);
  pc_add : list (string * add_shape);
  pc_dec : list (string * dec_shape);
  pc_net_prefix : string;   (* _pack_words: pack("<prefix>{}".format(fstring), value) *)
  pc_pack_words : words_steps;
  pc_unpack_words : words_steps;
  pc_pad_byte : N;          (* build: string + b'\x00' * (length % 2) *)
  pc_pad_mod : nat;
  pc_chunk_width : nat;     (* build: string[i:i+2] for i in range(0, length, 2) *)
  pc_chunk_step : nat;
  pc_reg_prefix : string;   (* to_registers: '!H' *)
  pc_reg_char : string;
  pc_reg_repack_char : string;   (* to_registers with repack: self._byteorder + 'H' *)
  pc_from_reg_prefix : string;   (* fromRegisters: pack('!H', x) *)
  pc_from_reg_char : string;
  pc_coil_bits : nat;            (* to_coils: format(reg, '016b') *)
  pc_from_coils_mod : nat;       (* fromCoils: padding = len(coils) % 8 *)
  pc_from_coils_passes_wordorder : bool   (* fromCoils: klass(payload, byteorder[, wordorder]) *)
}.

(* ---------------------------------------------------------------- values *)

Inductive endian := Big | Little.

Inductive kind := KU8 | KU16 | KU32 | KU64 | KI8 | KI16 | KI32 | KI64 | KF16 | KF32 | KF64.

Inductive value :=
| VNum (k : kind) (x : Z)     (* integers: the number; floats: the IEEE bit pattern *)
| VBits (b : list bool)
| VStr (s : bytes).

Definition U8 := VNum KU8.   Definition U16 := VNum KU16. Definition U32 := VNum KU32. Definition U64 := VNum KU64.
Definition I8 := VNum KI8.   Definition I16 := VNum KI16. Definition I32 := VNum KI32. Definition I64 := VNum KI64.
Definition F16 := VNum KF16. Definition F32 := VNum KF32. Definition F64 := VNum KF64.
Definition Bits := VBits.    Definition Str := VStr.

(* what the caller of the decoder must know: which decode_* to call, how many
   decode_bits() calls (one per byte), the size argument of decode_string *)
Inductive ty := TNum (k : kind) | TBits (calls : nat) | TStr (size : nat).

Definition type_of (v : value) : ty :=
  match v with
  | VNum k _ => TNum k
  | VBits b => TBits (Nat.div (length b + 7) 8)
  | VStr s => TStr (length s)
  end.

Definition types (vs : list value) : list ty := map type_of vs.

Definition kind_tag (k : kind) : string :=
  match k with
  | KU8 => "8bit_uint" | KU16 => "16bit_uint" | KU32 => "32bit_uint" | KU64 => "64bit_uint"
  | KI8 => "8bit_int" | KI16 => "16bit_int" | KI32 => "32bit_int" | KI64 => "64bit_int"
  | KF16 => "16bit_float" | KF32 => "32bit_float" | KF64 => "64bit_float"
  end.

Definition add_name (v : value) : string :=
  match v with
  | VNum k _ => "add_" ++ kind_tag k
  | VBits _ => "add_bits"
  | VStr _ => "add_string"
  end.

Definition dec_name (t : ty) : string :=
  match t with
  | TNum k => "decode_" ++ kind_tag k
  | TBits _ => "decode_bits"
  | TStr _ => "decode_string"
  end.

(* ---------------------------------------------------------------- Python / struct glue *)

Fixpoint lookup {A} (n : string) (l : list (string * A)) : option A :=
  match l with
  | [] => None
  | (k, a) :: t => if String.eqb k n then Some a else lookup n t
  end.

(* obj.method where the method does not exist *)
Definition get_method {A} (n : string) (l : list (string * A)) : res A :=
  match lookup n l with Some a => Ok a | None => Raise AttributeError end.

(* struct byte-order prefixes with standard sizes; native '@' / '=' are not modelled *)
Definition prefix_big (p : string) : res bool :=
  if String.eqb p ">" then Ok true
  else if String.eqb p "!" then Ok true
  else if String.eqb p "<" then Ok false
  else Raise OtherExc.

(* struct format characters; e / f / d carry IEEE bit patterns (see header) *)
Definition fmt_of_char (c : string) : res fmtc :=
  if String.eqb c "B" then Ok FB else if String.eqb c "b" then Ok Fb
  else if String.eqb c "H" then Ok FH else if String.eqb c "h" then Ok Fh
  else if String.eqb c "I" then Ok FI else if String.eqb c "i" then Ok Fi
  else if String.eqb c "L" then Ok FI else if String.eqb c "l" then Ok Fi
  else if String.eqb c "Q" then Ok FQ else if String.eqb c "q" then Ok Fq
  else if String.eqb c "e" then Ok FH
  else if String.eqb c "f" then Ok FI
  else if String.eqb c "d" then Ok FQ
  else Raise StructError.

(* str.lower() on the one-character format strings in use *)
Definition lower_char (c : string) : string :=
  if String.eqb c "B" then "b" else if String.eqb c "H" then "h"
  else if String.eqb c "I" then "i" else if String.eqb c "L" then "l"
  else if String.eqb c "Q" then "q" else c.

Definition endian_str (C : payload_code) (e : endian) : string :=
  match e with Big => pc_big C | Little => pc_little C end.

Fixpoint map_res {A B} (f : A -> res B) (l : list A) : res (list B) :=
  match l with
  | [] => Ok []
  | x :: t => do y <- f x; do r <- map_res f t; Ok (y :: r)
  end.

(* data[a:b] with Python's treatment of negative and out-of-range bounds (step 1) *)
Definition pyslice {A} (l : list A) (a b : Z) : list A :=
  let L := Z.of_nat (length l) in
  let norm := fun x => if x <? 0 then Z.max 0 (x + L) else Z.min x L in
  firstn (Z.to_nat (norm b - norm a)) (skipn (Z.to_nat (norm a)) l).

(* unpack(fmt, handle)[0] for a one-field format *)
Definition unpack_one (big : bool) (f : fmtc) (handle : bytes) : res Z :=
  do l <- unpack big [f] handle;
  match l with x :: _ => Ok x | [] => Raise IndexError end.

(* ---------------------------------------------------------------- utilities.py (hand model) *)

(* one byte from up to 8 bits, first bit = least significant *)
Fixpoint byte_of_bits (b : list bool) : N :=
  match b with
  | [] => 0%N
  | x :: t => ((if x then 1 else 0) + 2 * byte_of_bits t)%N
  end.

(* pack_bitstring: 8 bits per byte, LSB first; a final group of 1..7 bits is padded
   with zero bits at the most significant end *)
Fixpoint pack_bitstring (b : list bool) : bytes :=
  match b with
  | [] => []
  | b0 :: b1 :: b2 :: b3 :: b4 :: b5 :: b6 :: b7 :: t =>
      byte_of_bits [b0; b1; b2; b3; b4; b5; b6; b7] :: pack_bitstring t
  | part => [byte_of_bits part]
  end.

Fixpoint bits_of_byte (n : nat) (v : N) : list bool :=
  match n with
  | O => []
  | S k => N.odd v :: bits_of_byte k (N.div2 v)
  end.

(* unpack_bitstring: 8 bits per byte, LSB first *)
Definition unpack_bitstring (s : bytes) : list bool := flat_map (bits_of_byte 8) s.

(* ---------------------------------------------------------------- _pack_words / _unpack_words *)

Section WithCode.
Variable C : payload_code.

Definition wc_get (c : string) : res Z :=
  match lookup c (pc_wc C) with Some w => Ok w | None => Raise TypeError end.   (* None // 2 *)

(* the common tail of _pack_words and _unpack_words: bytes -> words -> (reversed) -> bytes *)
Definition run_words (ws : words_steps) (bo wo : endian) (c : string) (bs : bytes) : res bytes :=
  do w <- wc_get (lower_char c);
  if ws_div ws =? 0 then Raise ZeroDivisionError else
  let wc := w / ws_div ws in
  do upbig <- prefix_big (ws_up_prefix ws);
  do upf <- fmt_of_char (ws_up_char ws);
  do words <- unpack upbig (repeat upf (Z.to_nat wc)) bs;
  let words' := if String.eqb (endian_str C wo) (ws_rev_on ws) then rev words else words in
  do bobig <- prefix_big (endian_str C bo);
  do wf <- fmt_of_char (ws_word_char ws);
  do chunks <- map_res (pack1 bobig wf) words';
  Ok (concat chunks).

Definition pack_words (bo wo : endian) (c : string) (x : Z) : res bytes :=
  do nbig <- prefix_big (pc_net_prefix C);
  do f <- fmt_of_char c;
  do net <- pack1 nbig f x;
  run_words (pc_pack_words C) bo wo c net.

(* ---------------------------------------------------------------- builder *)

Definition run_add (bo wo : endian) (sh : add_shape) (v : value) : res bytes :=
  match sh, v with
  | AddDirect c, VNum _ x =>
      do big <- prefix_big (endian_str C bo);
      do f <- fmt_of_char c;
      pack1 big f x
  | AddWords c, VNum _ x => pack_words bo wo c x
  | AddBits, VBits b => Ok (pack_bitstring b)
  | AddString, VStr s => Ok s
  | _, _ => Raise TypeError
  end.

Definition add_value (bo wo : endian) (v : value) : res bytes :=
  do sh <- get_method (add_name v) (pc_add C);
  run_add bo wo sh v.

(* builder.to_string() after add_* of every value in order *)
Fixpoint to_string (bo wo : endian) (vs : list value) : res bytes :=
  match vs with
  | [] => Ok []
  | v :: t => do b <- add_value bo wo v; do r <- to_string bo wo t; Ok (b ++ r)
  end.

(* range(0, len, step) *)
Definition range_step (len step : nat) : list nat :=
  map (fun k => (k * step)%nat) (seq 0 (Nat.div (len + step - 1) step)).

(* builder.build(): list of two-byte strings *)
Definition build_chunks (s : bytes) : res (list bytes) :=
  if Nat.eqb (pc_pad_mod C) 0 then Raise ZeroDivisionError else
  if Nat.eqb (pc_chunk_step C) 0 then Raise ValueError else
  let len := length s in
  let s' := s ++ repeat (pc_pad_byte C) (Nat.modulo len (pc_pad_mod C)) in
  Ok (map (fun i => pyslice s' (Z.of_nat i) (Z.of_nat (i + pc_chunk_width C))) (range_step len (pc_chunk_step C))).

Definition to_registers (bo : endian) (repack : bool) (s : bytes) : res (list Z) :=
  do chunks <- build_chunks s;
  do big <- prefix_big (if repack then endian_str C bo else pc_reg_prefix C);
  do f <- fmt_of_char (if repack then pc_reg_repack_char C else pc_reg_char C);
  map_res (unpack_one big f) chunks.

Fixpoint bits_msb (n : nat) (v : Z) : list bool :=
  match n with
  | O => []
  | S k => Z.testbit v (Z.of_nat k) :: bits_msb k v
  end.

(* to_coils: format(reg, '016b') — exactly 16 characters for 0 <= reg < 65536 *)
Definition to_coils (regs : list Z) : list bool := flat_map (bits_msb (pc_coil_bits C)) regs.

(* ---------------------------------------------------------------- decoder *)

(* BinaryPayloadDecoder.fromRegisters: the payload bytes *)
Definition from_registers (regs : list Z) : res bytes :=
  do big <- prefix_big (pc_from_reg_prefix C);
  do f <- fmt_of_char (pc_from_reg_char C);
  do chunks <- map_res (pack1 big f) regs;
  Ok (concat chunks).

(* bit_chunks(coils) with the default size 8 *)
Fixpoint chunks8 {A} (l : list A) : list (list A) :=
  match l with
  | [] => []
  | b0 :: b1 :: b2 :: b3 :: b4 :: b5 :: b6 :: b7 :: t => [b0; b1; b2; b3; b4; b5; b6; b7] :: chunks8 t
  | part => [part]
  end.

(* fromCoils: payload bytes, and the word order the decoder ends up with *)
Definition from_coils (coils : list bool) : res bytes :=
  if Nat.eqb (pc_from_coils_mod C) 0 then Raise ZeroDivisionError else
  let padding := Nat.modulo (length coils) (pc_from_coils_mod C) in
  let coils' := repeat false padding ++ coils in
  Ok (flat_map (fun ch => pack_bitstring (rev ch)) (chunks8 coils')).

Definition from_coils_wordorder (wo : endian) : endian :=
  if pc_from_coils_passes_wordorder C then wo else Big.

Definition handle_of (payload : bytes) (ptr' w : nat) : bytes :=
  pyslice payload (Z.of_nat ptr' - Z.of_nat w) (Z.of_nat ptr').

(* one decode_<numeric>() call: value and new pointer *)
Definition run_dec_num (bo wo : endian) (sh : dec_shape) (payload : bytes) (ptr : nat) : res (Z * nat) :=
  match sh with
  | DecDirect inc w c =>
      let ptr' := (ptr + inc)%nat in
      do big <- prefix_big (endian_str C bo);
      do f <- fmt_of_char c;
      do x <- unpack_one big f (handle_of payload ptr' w);
      Ok (x, ptr')
  | DecWords inc w c p =>
      let ptr' := (ptr + inc)%nat in
      do h <- run_words (pc_unpack_words C) bo wo c (handle_of payload ptr' w);
      do big <- prefix_big p;
      do f <- fmt_of_char c;
      do x <- unpack_one big f h;
      Ok (x, ptr')
  | _ => Raise TypeError
  end.

(* n successive decode_bits() calls, results concatenated *)
Fixpoint run_dec_bits (inc w : nat) (n : nat) (payload : bytes) (ptr : nat) : list bool * nat :=
  match n with
  | O => ([], ptr)
  | S k =>
      let ptr' := (ptr + inc)%nat in
      let b := unpack_bitstring (handle_of payload ptr' w) in
      let '(r, p) := run_dec_bits inc w k payload ptr' in
      (b ++ r, p)
  end.

Definition decode1 (bo wo : endian) (t : ty) (payload : bytes) (ptr : nat) : res (value * nat) :=
  do sh <- get_method (dec_name t) (pc_dec C);
  match t, sh with
  | TNum k, _ => do '(x, p) <- run_dec_num bo wo sh payload ptr; Ok (VNum k x, p)
  | TBits n, DecBits inc w => let '(b, p) := run_dec_bits inc w n payload ptr in Ok (VBits b, p)
  | TStr size, DecString => let ptr' := (ptr + size)%nat in Ok (VStr (handle_of payload ptr' size), ptr')
  | _, _ => Raise TypeError
  end.

Fixpoint decode_from (bo wo : endian) (tys : list ty) (payload : bytes) (ptr : nat) : res (list value * nat) :=
  match tys with
  | [] => Ok ([], ptr)
  | t :: ts =>
      do '(v, p) <- decode1 bo wo t payload ptr;
      do '(r, q) <- decode_from bo wo ts payload p;
      Ok (v :: r, q)
  end.

(* a fresh decoder (pointer 0) running the decode calls for [tys] in order:
   the decoded values and the final pointer *)
Definition decode_seq (bo wo : endian) (tys : list ty) (payload : bytes) : res (list value * nat) :=
  decode_from bo wo tys payload O.

End WithCode.

(* ---------------------------------------------------------------- spec side (independent of the code) *)

Definition kind_width (k : kind) : nat :=
  match k with
  | KU8 | KI8 => 1 | KU16 | KI16 | KF16 => 2 | KU32 | KI32 | KF32 => 4 | KU64 | KI64 | KF64 => 8
  end%nat.

Definition kind_signed (k : kind) : bool :=
  match k with KI8 | KI16 | KI32 | KI64 => true | _ => false end.

(* full range of each type; floats: every bit pattern of the width *)
Definition in_kind_range (k : kind) (x : Z) : bool :=
  let m := 2 ^ (8 * Z.of_nat (kind_width k)) in
  if kind_signed k then (- (m / 2) <=? x) && (x <? m / 2) else (0 <=? x) && (x <? m).

Definition wf_value (v : value) : bool :=
  match v with
  | VNum k x => in_kind_range k x
  | VBits b => Nat.eqb (Nat.modulo (length b) 8) 0
  | VStr s => wfb s
  end.

Definition wf_values (vs : list value) : bool := forallb wf_value vs.

(* network-order (big-endian, two's complement) bytes of a numeric value *)
Definition net_bytes (k : kind) (x : Z) : bytes :=
  rev (le_bytes (kind_width k) (x mod 2 ^ (8 * Z.of_nat (kind_width k)))).

(* list of 16-bit words (as two-byte lists) of an even-length byte string *)
Fixpoint words16 (bs : bytes) : list bytes :=
  match bs with
  | a :: b :: t => [a; b] :: words16 t
  | _ => []
  end.

(* the conventional register image of a multi-register value whose network-order bytes are B *)
Definition image (bo wo : endian) (B : bytes) : bytes :=
  let ws := match wo with Big => words16 B | Little => rev (words16 B) end in
  concat (match bo with Big => ws | Little => map (@rev N) ws end).
