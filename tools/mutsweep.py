#!/usr/bin/env python3
"""tools/mutsweep.py [-j N] [-k PER_FILE] [--seed S] [--files f1,f2,…] [--out results.jsonl]

Systematic one-token mutation sweep over the files the properties are anchored in.

For every sampled mutant (comparison flip, +/- flip, and/or flip, dropped `not`, True/False flip,
integer literal +1, struct byte-order flip, shift/mask flip) it
  1. writes the mutated file into a private git worktree of /repo (under /tmp, removed at the end),
  2. runs the pinned baseline; a mutant the 354 baseline tests notice is discarded ("tests"),
  3. runs, from a private copy of /verif, the quick check of every property anchored in that file until
     one prints a VIOLATION line ("caught", with the property and whether a failing input was found),
  4. otherwise records it as "survived" (to be judged by hand: equivalent / outside every property /
     a hole in a check).
Nothing is written into /repo or /verif except the result file given with --out.
"""
import argparse
import collections
import io
import json
import os
import random
import re
import subprocess
import sys
import tokenize
import ast
import xml.etree.ElementTree as ET
from concurrent.futures import ThreadPoolExecutor

VERIF = "/verif"
REPO = "/repo"

FLIP = {"<": "<=", "<=": "<", ">": ">=", ">=": ">", "==": "!=", "!=": "==",
        "<<": ">>", ">>": "<<", "&": "|", "|": "&"}
NAMEFLIP = {"and": "or", "or": "and", "True": "False", "False": "True"}
STRUCT_RE = re.compile(r"""^[bruBRU]*(['"])([<>!])([0-9xcbB?hHiIlLqQfdsp]+)\1$""")


def anchor_map():
    m = collections.defaultdict(list)
    for line in open(os.path.join(VERIF, "properties.jsonl")):
        d = json.loads(line)
        for f in d["anchors"]["files"]:
            m[f].append(d["id"])
    # properties that depend on a file without naming it as an anchor (found by the first sweep: the RTU size
    # table of C03 reads the message classes, C04's add-on models the control block and the other requests)
    for f in list(m):
        if f.endswith("_message.py") or f.endswith("device.py"):
            for p in ("C03", "C04"):
                if p not in m[f]:
                    m[f].append(p)
    if "C09" not in m["pymodbus/diag_message.py"]:
        m["pymodbus/diag_message.py"].append("C09")
    return m


def skip_lines(src):
    """lines of __str__/__repr__ bodies, module-level __all__, logging calls"""
    skip = set()
    tree = ast.parse(src)
    for node in ast.walk(tree):
        if isinstance(node, (ast.FunctionDef, ast.AsyncFunctionDef)) and node.name in ("__str__", "__repr__", "summary"):
            skip.update(range(node.lineno, node.end_lineno + 1))
        if isinstance(node, ast.Expr) and isinstance(node.value, ast.Call):
            f = node.value.func
            if isinstance(f, ast.Attribute) and isinstance(f.value, ast.Name) and f.value.id in ("_logger", "logging", "log"):
                skip.update(range(node.lineno, node.end_lineno + 1))
        if isinstance(node, ast.Assign) and any(isinstance(t, ast.Name) and t.id == "__all__" for t in node.targets):
            skip.update(range(node.lineno, node.end_lineno + 1))
        if isinstance(node, (ast.Import, ast.ImportFrom)):
            skip.update(range(node.lineno, node.end_lineno + 1))
    return skip


def mutants(path):
    """yield (line, col, old, new, kind) one-token edits of the file"""
    src = open(path).read()
    skip = skip_lines(src)
    toks = list(tokenize.generate_tokens(io.StringIO(src).readline))
    out = []
    for i, t in enumerate(toks):
        (ln, col) = t.start
        if ln in skip:
            continue
        line = t.line
        if "_logger" in line or "isEnabledFor" in line or "IS_PYTHON3" in line or "__name__" in line:
            continue
        prev = toks[i - 1] if i else None
        nxt = toks[i + 1] if i + 1 < len(toks) else None
        if t.type == tokenize.OP:
            if t.string in FLIP:
                out.append((ln, col, t.string, FLIP[t.string], "cmp" if t.string[0] in "<>=!" and t.string not in ("<<", ">>") else "bit"))
            elif t.string in "+-" and len(t.string) == 1:
                binary = prev is not None and (prev.type in (tokenize.NAME, tokenize.NUMBER, tokenize.STRING) and prev.string not in
                                               ("return", "in", "and", "or", "not", "if", "else", "elif", "print", "yield", "lambda")
                                               or prev.string in (")", "]"))
                if binary:
                    out.append((ln, col, t.string, "-" if t.string == "+" else "+", "arith"))
        elif t.type == tokenize.NAME:
            if t.string in NAMEFLIP:
                out.append((ln, col, t.string, NAMEFLIP[t.string], "bool"))
            elif t.string == "not" and nxt is not None and nxt.string != "in" and (prev is None or prev.string != "is"):
                out.append((ln, col, "not ", "", "not"))
        elif t.type == tokenize.NUMBER:
            s = t.string
            try:
                v = int(s, 0)
            except ValueError:
                continue
            new = ("0x%0*x" % (len(s) - 2, v + 1)) if s.lower().startswith("0x") else str(v + 1)
            out.append((ln, col, s, new, "num"))
        elif t.type == tokenize.STRING:
            mm = STRUCT_RE.match(t.string)
            if mm and ("pack" in line or "calcsize" in line or "HEADER" in line or "format" in line.lower()):
                flipped = t.string.replace(mm.group(2), "<" if mm.group(2) in ">!" else ">", 1)
                out.append((ln, col, t.string, flipped, "struct"))
    return src, out


def apply(src, m):
    ln, col, old, new, _ = m
    lines = src.split("\n")
    l = lines[ln - 1]
    assert l[col:col + len(old)] == old, (l, col, old)
    lines[ln - 1] = l[:col] + new + l[col + len(old):]
    return "\n".join(lines)


STABLE = None


def baseline_ok(repo, tag):
    global STABLE
    if STABLE is None:
        STABLE = json.load(open("/root/.vp/BASELINE.json"))["stable_pass"]
    junit = "/tmp/ms_%s.junit.xml" % tag
    try:
        subprocess.run(["/venv/bin/python", "-m", "pytest", "-q", "-p", "no:cacheprovider", "--timeout=900",
                        "--continue-on-collection-errors", "--junitxml=" + junit],
                       cwd=repo, stdout=subprocess.DEVNULL, stderr=subprocess.DEVNULL, timeout=1200,
                       env=dict(os.environ, PYTHONPATH=repo, PYTHONHASHSEED="0"))
        passed = set()
        for tc in ET.parse(junit).iter("testcase"):
            if not any(c.tag in ("failure", "error", "skipped") for c in tc):
                passed.add(tc.get("classname") + "::" + tc.get("name"))
    except Exception:
        return False
    return all(x in passed for x in STABLE)


def run_check(verif, repo, prop):
    env = dict(os.environ, VERIF_REPO=repo, VERIF_JOBS=os.environ.get("MS_JOBS", "5"), VERIF_SEED=os.environ.get("VERIF_SEED", "0"))
    try:
        p = subprocess.run(["timeout", "1500", "./check", prop, "--tier", "quick"], cwd=verif, env=env,
                           capture_output=True, text=True, timeout=1600)
        out = p.stdout + p.stderr
        rc = p.returncode
    except subprocess.TimeoutExpired:
        return "timeout", ""
    viol = re.search(r"^VIOLATION.*$", out, re.M)
    if viol:
        return ("no-input" if "no-failing-input-found" in viol.group(0) else "input"), viol.group(0)
    if rc != 0:
        return "error", out[-300:]
    return None, ""


def worker_dirs(i):
    d = "/tmp/ms_w%d" % i
    subprocess.run(["git", "-C", REPO, "worktree", "remove", "--force", d + "/repo"], capture_output=True)
    subprocess.run(["rm", "-rf", d])
    os.makedirs(d)
    subprocess.run(["rsync", "-a", "--exclude", ".git", "--exclude", "replays", "--exclude", "coq/cases", VERIF + "/", d + "/verif/"], check=True)
    subprocess.run(["git", "-C", REPO, "worktree", "add", "-q", "--detach", d + "/repo", "HEAD"], check=True)
    return d


def cleanup(i):
    d = "/tmp/ms_w%d" % i
    subprocess.run(["git", "-C", REPO, "worktree", "remove", "--force", d + "/repo"], capture_output=True)
    subprocess.run(["rm", "-rf", d])
    subprocess.run(["git", "-C", REPO, "worktree", "prune"])


def main():
    ap = argparse.ArgumentParser()
    ap.add_argument("-j", type=int, default=4)
    ap.add_argument("-k", type=int, default=12)
    ap.add_argument("--seed", type=int, default=1)
    ap.add_argument("--files", default="")
    ap.add_argument("--out", default="/tmp/mutsweep.jsonl")
    ap.add_argument("--list", action="store_true")
    ap.add_argument("--skip-props", default="", help="comma list of properties not to run (e.g. checks being edited)")
    a = ap.parse_args()
    amap = anchor_map()
    skipp = set(x for x in a.skip_props.split(",") if x)
    for f in amap:
        amap[f] = [p for p in amap[f] if p not in skipp]
    files = [f for f in (a.files.split(",") if a.files else sorted(amap)) if f]
    rnd = random.Random(a.seed)
    jobs = []
    for f in files:
        src, ms = mutants(os.path.join(REPO, f))
        by = collections.defaultdict(list)
        for m in ms:
            by[m[4]].append(m)
        pick = []
        kinds = sorted(by)
        for kind in kinds:
            rnd.shuffle(by[kind])
        while len(pick) < a.k and any(by.values()):
            for kind in kinds:
                if by[kind] and len(pick) < a.k:
                    pick.append(by[kind].pop())
        for m in pick:
            jobs.append((f, m))
        if a.list:
            print(f, len(ms), "candidates;", len(pick), "picked")
    if a.list:
        for f, m in jobs:
            print(f, m)
        return
    done = set()
    if os.path.exists(a.out):
        for line in open(a.out):
            r = json.loads(line)
            done.add((r["file"], r["line"], r["col"], r["new"]))
    jobs = [(f, m) for f, m in jobs if (f, m[0], m[1], m[3]) not in done]
    print("%d mutants to run" % len(jobs), flush=True)
    import queue
    import threading
    q = queue.Queue()
    for j in jobs:
        q.put(j)
    lock = threading.Lock()

    def work(i):
        d = worker_dirs(i)
        repo, verif = d + "/repo", d + "/verif"
        while True:
            try:
                f, m = q.get_nowait()
            except queue.Empty:
                break
            path = os.path.join(repo, f)
            orig = open(os.path.join(REPO, f)).read()
            rec = {"file": f, "line": m[0], "col": m[1], "old": m[2], "new": m[3], "kind": m[4],
                   "text": orig.split("\n")[m[0] - 1].strip()[:160], "props": amap[f]}
            try:
                mutated = apply(orig, m)
                try:
                    compile(mutated, f, "exec")
                except SyntaxError:
                    rec["result"] = "syntax"
                else:
                    open(path, "w").write(mutated)
                    if not baseline_ok(repo, "w%d" % i):
                        rec["result"] = "tests"
                    else:
                        rec["result"] = "survived"
                        rec["ran"] = []
                        for p in amap[f]:
                            how, line = run_check(verif, repo, p)
                            rec["ran"].append([p, how])
                            if how in ("input", "no-input"):
                                rec["result"] = "caught"
                                rec["by"] = p
                                rec["how"] = how
                                break
            except Exception as e:  # noqa
                rec["result"] = "harness-error"
                rec["error"] = repr(e)[:300]
            finally:
                open(path, "w").write(orig)
            with lock:
                with open(a.out, "a") as fo:
                    fo.write(json.dumps(rec) + "\n")
                print(rec["result"], rec.get("by", ""), rec.get("how", ""), f, m[0], m[2], "->", m[3], flush=True)
        cleanup(i)

    with ThreadPoolExecutor(max_workers=a.j) as ex:
        list(ex.map(work, range(a.j)))


if __name__ == "__main__":
    main()
