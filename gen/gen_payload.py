"""GenPayload.v — payload builder / decoder (pymodbus/payload.py, constants.py, utilities.py).

Every method body is normalised (parse + unparse, docstrings / logging / comments dropped)
and matched against an exact template; the holes of the template (format characters,
struct prefixes, pointer increments, slice widths, the WC table, the word divisor, the
Endian constant that triggers `reversed`, pad byte / modulus / chunk width of `build`,
the register format of to_registers / fromRegisters) are printed as Coq data.  Anything
else raises TranslatorFail (fail closed).  The bit-string helpers of utilities.py have
irregular loop bodies: they are pinned verbatim (any edit = TranslatorFail) and modelled
by hand in theories/Payload.v.
"""
import ast
import re
from . import core
from .core import Src, TranslatorFail, coq_z, coq_str, coq_list, coq_bool


def stmts_of(fn):
    """normalised statement texts of a function body (docstring / logging dropped)"""
    return [ast.unparse(s) for s in fn.body if not (core.is_docstring(s) or core.is_log_call(s))]


def match_body(src, fn, templates, what=None):
    """templates: list of regexes (full match, one per statement).  Returns merged groupdict;
    a hole name occurring twice must capture the same text (use suffix _2 … and check)."""
    got = stmts_of(fn)
    name = what or fn.name
    if len(got) != len(templates):
        src.fail(fn, "%s: expected %d statements, found %d:\n%s" % (name, len(templates), len(got), "\n".join(got)))
    out = {}
    for i, (g, t) in enumerate(zip(got, templates)):
        m = re.fullmatch(t, g, re.S)
        if not m:
            src.fail(fn, "%s: statement %d has an unrecognised shape:\n  %s\n  -- expected to match --\n  %s" % (name, i + 1, g, t))
        for k, v in m.groupdict().items():
            if k in out and out[k] != v:
                src.fail(fn, "%s: hole %s captured two different texts (%r, %r)" % (name, k, out[k], v))
            out[k] = v
    return out


def py_guard_body(src, fn):
    """add_16bit_float / decode_16bit_float: `if IS_PYTHON3 and PYTHON_VERSION.minor >= 6: <body> else: warning`
    -> a FunctionDef-like object with the guarded body (the harness runs on python >= 3.6)."""
    body = [s for s in fn.body if not (core.is_docstring(s) or core.is_log_call(s))]
    if len(body) == 1 and isinstance(body[0], ast.If) and \
            ast.unparse(body[0].test) == "IS_PYTHON3 and PYTHON_VERSION.minor >= 6" and \
            all(core.is_log_call(s) for s in body[0].orelse) and body[0].orelse:
        clone = ast.FunctionDef(name=fn.name, args=fn.args, body=body[0].body, decorator_list=[], lineno=fn.lineno)
        return clone
    return fn


CH = r"[A-Za-z]"
PFX = r"[!<>=@]"
INT = r"\d+"

# ------------------------------------------------------------------ builder methods

ADD_DIRECT = [r"fstring = self\._byteorder \+ '(?P<c>%s)'" % CH,
              r"self\._payload\.append\(pack\(fstring, value\)\)"]
ADD_WORDS = [r"fstring = '(?P<c>%s)'" % CH,
             r"p_string = self\._pack_words\(fstring, value\)",
             r"self\._payload\.append\(p_string\)"]
ADD_BITS = [r"value = pack_bitstring\(values\)",
            r"self\._payload\.append\(value\)"]
ADD_STRING = [r"value = make_byte_string\(value\)",
              r"fstring = self\._byteorder \+ str\(len\(value\)\) \+ 's'",
              r"self\._payload\.append\(pack\(fstring, value\)\)"]

# ------------------------------------------------------------------ decoder methods

DEC_DIRECT = [r"self\._pointer \+= (?P<inc>%s)" % INT,
              r"fstring = self\._byteorder \+ '(?P<c>%s)'" % CH,
              r"handle = self\._payload\[self\._pointer - (?P<w>%s):self\._pointer\]" % INT,
              r"handle = make_byte_string\(handle\)",
              r"return unpack\(fstring, handle\)\[0\]"]
DEC_WORDS = [r"self\._pointer \+= (?P<inc>%s)" % INT,
             r"fstring = '(?P<c>%s)'" % CH,
             r"handle = self\._payload\[self\._pointer - (?P<w>%s):self\._pointer\]" % INT,
             r"handle = self\._unpack_words\(fstring, handle\)",
             r"return unpack\('(?P<p>%s)' \+ fstring, handle\)\[0\]" % PFX]
DEC_BITS = [r"self\._pointer \+= (?P<inc>%s)" % INT,
            r"handle = self\._payload\[self\._pointer - (?P<w>%s):self\._pointer\]" % INT,
            r"handle = make_byte_string\(handle\)",
            r"return unpack_bitstring\(handle\)"]
DEC_STRING = [r"self\._pointer \+= size",
              r"s = self\._payload\[self\._pointer - size:self\._pointer\]",
              r"return s"]

NUM_METHODS = ["8bit_uint", "16bit_uint", "32bit_uint", "64bit_uint",
               "8bit_int", "16bit_int", "32bit_int", "64bit_int",
               "16bit_float", "32bit_float", "64bit_float"]

PACK_WORDS = [r"value = pack\('(?P<net>%s)\{\}'\.format\(fstring\), value\)" % PFX,
              r"wc = WC\.get\(fstring\.lower\(\)\) // (?P<div>%s)" % INT,
              r"up = '(?P<upp>%s)\{\}(?P<upc>%s)'\.format\(wc\)" % (PFX, CH),
              r"payload = unpack\(up, value\)",
              r"if self\._wordorder == Endian\.(?P<revon>\w+):\n    payload = list\(reversed\(payload\)\)",
              r"fstring = self\._byteorder \+ '(?P<wchar>%s)'" % CH,
              r"payload = \[pack\(fstring, word\) for word in payload\]",
              r"payload = b''\.join\(payload\)",
              r"return payload"]
UNPACK_WORDS = [r"handle = make_byte_string\(handle\)",
                r"wc = WC\.get\(fstring\.lower\(\)\) // (?P<div>%s)" % INT,
                r"up = '(?P<upp>%s)\{\}(?P<upc>%s)'\.format\(wc\)" % (PFX, CH),
                r"handle = unpack\(up, handle\)",
                r"if self\._wordorder == Endian\.(?P<revon>\w+):\n    handle = list\(reversed\(handle\)\)",
                r"pk = self\._byteorder \+ '(?P<wchar>%s)'" % CH,
                r"handle = \[pack\(pk, p\) for p in handle\]",
                r"handle = b''\.join\(handle\)",
                r"return handle"]

BUILD = [r"string = self\.to_string\(\)",
         r"length = len\(string\)",
         r"string = string \+ b'\\x(?P<pad>[0-9a-f]{2})' \* \(length %% (?P<mod>%s)\)" % INT,
         r"return \[string\[i:i \+ (?P<cw>%s)\] for i in range\(0, length, (?P<step>%s)\)\]" % (INT, INT)]
TO_STRING = [r"return b''\.join\(self\._payload\)"]
TO_REGISTERS = [r"fstring = '(?P<p>%s)(?P<c>%s)'" % (PFX, CH),
                r"payload = self\.build\(\)",
                r"if self\._repack:\n    payload = \[unpack\(self\._byteorder \+ '(?P<rc>%s)', value\)\[0\] for value in payload\]\n"
                r"else:\n    payload = \[unpack\(fstring, value\)\[0\] for value in payload\]" % CH,
                r"return payload"]
FROM_REGISTERS = [r"if isinstance\(registers, list\):\n    payload = b''\.join\(\(pack\('(?P<p>%s)(?P<c>%s)', x\) for x in registers\)\)\n"
                  r"    return klass\(payload, byteorder, wordorder\)" % (PFX, CH),
                  r"raise ParameterException\('Invalid collection of registers supplied'\)"]
TO_COILS = [r"payload = self\.to_registers\(\)",
            r"coils = \[bool\(int\(bit\)\) for reg in payload for bit in format\(reg, '0(?P<bits>%s)b'\)\]" % INT,
            r"return coils"]
FROM_COILS = [r"if isinstance\(coils, list\):\n    payload = b''\n    padding = len\(coils\) % (?P<mod>\d+)\n"
              r"    if padding:\n        extra = \[False\] \* padding\n        coils = extra \+ coils\n"
              r"    chunks = klass\.bit_chunks\(coils\)\n    for chunk in chunks:\n"
              r"        payload \+= pack_bitstring\(chunk\[::-1\]\)\n"
              r"    return klass\(payload, byteorder(?P<wo>(, wordorder)?)\)",
              r"raise ParameterException\('Invalid collection of coils supplied'\)"]
BIT_CHUNKS = [r"chunks = \[coils\[i:i \+ size\] for i in range\(0, len\(coils\), size\)\]",
              r"return chunks"]
BUILDER_INIT = [r"self\._payload = payload or \[\]", r"self\._byteorder = byteorder",
                r"self\._wordorder = wordorder", r"self\._repack = repack"]
DECODER_INIT = [r"self\._payload = payload", r"self\._pointer = 0", r"self\._byteorder = byteorder",
                r"self\._wordorder = wordorder"]

PACK_BITSTRING = """
ret = b''
i = packed = 0
for bit in bits:
    if bit:
        packed += 128
    i += 1
    if i == 8:
        ret += int2byte(packed)
        i = packed = 0
    else:
        packed >>= 1
if 0 < i < 8:
    packed >>= (7 - i)
    ret += int2byte(packed)
return ret
"""
UNPACK_BITSTRING = """
byte_count = len(string)
bits = []
for byte in range(byte_count):
    if IS_PYTHON3:
        value = byte2int(int(string[byte]))
    else:
        value = byte2int(string[byte])
    for _ in range(8):
        bits.append((value & 1) == 1)
        value >>= 1
return bits
"""
MAKE_BYTE_STRING = """
if IS_PYTHON3 and isinstance(s, string_types):
    s = s.encode()
return s
"""


def pin(src, fn, code):
    got = "\n".join(stmts_of(fn))
    want = "\n".join(ast.unparse(s) for s in ast.parse(code).body)
    if got != want:
        src.fail(fn, "body of %s differs from the pinned text the hand model was written against:\n%s" % (fn.name, got))


def words_record(g):
    return ("{| ws_div := %s; ws_up_prefix := %s; ws_up_char := %s; ws_rev_on := %s; ws_word_char := %s |}"
            % (coq_z(int(g["div"])), coq_str(g["upp"]), coq_str(g["upc"]), coq_str(g["revon"]), coq_str(g["wchar"])))


def generate():
    pl = Src("pymodbus/payload.py")
    cst = Src("pymodbus/constants.py")
    ut = Src("pymodbus/utilities.py")
    B, D = "BinaryPayloadBuilder", "BinaryPayloadDecoder"

    # ---- imports the model relies on (names bound to the struct / utilities functions)
    want_imports = {"from struct import pack, unpack", "from pymodbus.constants import Endian",
                    "from pymodbus.utilities import pack_bitstring", "from pymodbus.utilities import unpack_bitstring",
                    "from pymodbus.utilities import make_byte_string"}
    have = {ast.unparse(n) for n in pl.mod.body if isinstance(n, (ast.Import, ast.ImportFrom))}
    if not want_imports <= have:
        pl.fail(pl.mod.body[0], "payload.py imports changed: missing %s" % sorted(want_imports - have))
    for n in pl.mod.body:   # no module-level rebinding of pack / unpack / WC
        if isinstance(n, (ast.FunctionDef, ast.ClassDef)) and n.name in ("pack", "unpack", "WC", "Endian", "reversed"):
            pl.fail(n, "module-level redefinition of %s" % n.name)
    for cls in (B, D):
        bases = [ast.unparse(b) for b in pl.cls(cls).bases]
        if bases not in (["IPayloadBuilder"], ["object"]):
            pl.fail(pl.cls(cls), "unexpected base classes of %s: %s" % (cls, bases))

    # ---- Endian constants
    endian = {}
    for name in ("Auto", "Big", "Little"):
        v = cst.class_attr("Endian", name)
        if not (isinstance(v, ast.Constant) and isinstance(v.value, str) and len(v.value) == 1):
            cst.fail(cst.cls("Endian"), "Endian.%s is not a one-character string constant" % name)
        endian[name] = v.value

    # ---- WC table
    wc = pl.module_const("WC")
    if not isinstance(wc, ast.Dict):
        pl.fail(wc, "WC is not a dict literal")
    wc_items = []
    for k, v in zip(wc.keys, wc.values):
        if not (isinstance(k, ast.Constant) and isinstance(k.value, str) and len(k.value) == 1):
            pl.fail(wc, "WC key is not a one-character string")
        wc_items.append("(%s, %s)" % (coq_str(k.value), coq_z(core.const_int(pl, v))))
    if sum(1 for n in pl.mod.body if isinstance(n, ast.Assign) and ast.unparse(n.targets[0]) == "WC") != 1:
        pl.fail(wc, "WC assigned more than once")

    # ---- constructors (attribute wiring) and default orders
    match_body(pl, pl.func(B, "__init__"), BUILDER_INIT)
    match_body(pl, pl.func(D, "__init__"), DECODER_INIT)
    a = pl.func(B, "__init__").args
    if [x.arg for x in a.args] != ["self", "payload", "byteorder", "wordorder", "repack"] or \
            [ast.unparse(d) for d in a.defaults] != ["None", "Endian.Little", "Endian.Big", "False"]:
        pl.fail(pl.func(B, "__init__"), "builder constructor signature changed")
    a = pl.func(D, "__init__").args
    if [x.arg for x in a.args] != ["self", "payload", "byteorder", "wordorder"] or \
            [ast.unparse(d) for d in a.defaults] != ["Endian.Little", "Endian.Big"]:
        pl.fail(pl.func(D, "__init__"), "decoder constructor signature changed")

    # ---- add_* / decode_*
    adds, decs = [], []
    for m in NUM_METHODS:
        fn = py_guard_body(pl, pl.func(B, "add_" + m))
        got = stmts_of(fn)
        if len(got) == len(ADD_DIRECT):
            g = match_body(pl, fn, ADD_DIRECT)
            adds.append("(%s, AddDirect %s)" % (coq_str("add_" + m), coq_str(g["c"])))
        else:
            g = match_body(pl, fn, ADD_WORDS)
            adds.append("(%s, AddWords %s)" % (coq_str("add_" + m), coq_str(g["c"])))
        fn = py_guard_body(pl, pl.func(D, "decode_" + m))
        got = stmts_of(fn)
        if any("_unpack_words" in s for s in got):
            g = match_body(pl, fn, DEC_WORDS)
            decs.append("(%s, DecWords %s%%nat %s%%nat %s %s)" % (coq_str("decode_" + m), g["inc"], g["w"], coq_str(g["c"]), coq_str(g["p"])))
        else:
            g = match_body(pl, fn, DEC_DIRECT)
            decs.append("(%s, DecDirect %s%%nat %s%%nat %s)" % (coq_str("decode_" + m), g["inc"], g["w"], coq_str(g["c"])))
        if int(g["inc"]) > 64 or int(g["w"]) > 64:
            pl.fail(fn, "pointer increment beyond 64 bytes")
    match_body(pl, pl.func(B, "add_bits"), ADD_BITS)
    adds.append("(%s, AddBits)" % coq_str("add_bits"))
    match_body(pl, pl.func(B, "add_string"), ADD_STRING)
    adds.append("(%s, AddString)" % coq_str("add_string"))
    g = match_body(pl, pl.func(D, "decode_bits"), DEC_BITS)
    if int(g["inc"]) > 64 or int(g["w"]) > 64:
        pl.fail(pl.func(D, "decode_bits"), "pointer increment beyond 64 bytes")
    decs.append("(%s, DecBits %s%%nat %s%%nat)" % (coq_str("decode_bits"), g["inc"], g["w"]))
    fn = pl.func(D, "decode_string")
    match_body(pl, fn, DEC_STRING)
    if [x.arg for x in fn.args.args] != ["self", "size"]:
        pl.fail(fn, "decode_string signature changed")
    decs.append("(%s, DecString)" % coq_str("decode_string"))

    # ---- _pack_words / _unpack_words
    gp = match_body(pl, pl.func(B, "_pack_words"), PACK_WORDS)
    gu = match_body(pl, pl.func(D, "_unpack_words"), UNPACK_WORDS)
    for g, fn in ((gp, "_pack_words"), (gu, "_unpack_words")):
        if g["revon"] not in endian:
            pl.fail(pl.func(B if fn == "_pack_words" else D, fn), "unknown Endian constant %s" % g["revon"])
        g["revon"] = endian[g["revon"]]

    # ---- build / to_string / to_registers / fromRegisters / coils
    match_body(pl, pl.func(B, "to_string"), TO_STRING)
    gb = match_body(pl, pl.func(B, "build"), BUILD)
    gr = match_body(pl, pl.func(B, "to_registers"), TO_REGISTERS)
    gf = match_body(pl, pl.func(D, "fromRegisters"), FROM_REGISTERS)
    gc = match_body(pl, pl.func(B, "to_coils"), TO_COILS)
    gfc = match_body(pl, pl.func(D, "fromCoils"), FROM_COILS)
    match_body(pl, pl.func(D, "bit_chunks"), BIT_CHUNKS)
    a = pl.func(D, "bit_chunks").args
    if [x.arg for x in a.args] != ["cls", "coils", "size"] or [ast.unparse(d) for d in a.defaults] != ["8"]:
        pl.fail(pl.func(D, "bit_chunks"), "bit_chunks signature changed")
    for f in ("fromRegisters", "fromCoils"):
        a = pl.func(D, f).args
        if [x.arg for x in a.args][1:] != ["registers" if f == "fromRegisters" else "coils", "byteorder", "wordorder"] or \
                [ast.unparse(d) for d in a.defaults] != ["Endian.Little", "Endian.Big"]:
            pl.fail(pl.func(D, f), "%s signature changed" % f)

    # ---- utilities pinned verbatim
    pin(ut, ut.func(None, "pack_bitstring"), PACK_BITSTRING)
    pin(ut, ut.func(None, "unpack_bitstring"), UNPACK_BITSTRING)
    pin(ut, ut.func(None, "make_byte_string"), MAKE_BYTE_STRING)

    text = core.HEADER + """
From PM.theories Require Import Payload.
Open Scope list_scope.

Definition code : payload_code := {|
  pc_big := %s;
  pc_little := %s;
  pc_wc := %s;
  pc_add := %s;
  pc_dec := %s;
  pc_net_prefix := %s;
  pc_pack_words := %s;
  pc_unpack_words := %s;
  pc_pad_byte := %s%%N;
  pc_pad_mod := %s%%nat;
  pc_chunk_width := %s%%nat;
  pc_chunk_step := %s%%nat;
  pc_reg_prefix := %s;
  pc_reg_char := %s;
  pc_reg_repack_char := %s;
  pc_from_reg_prefix := %s;
  pc_from_reg_char := %s;
  pc_coil_bits := %s%%nat;
  pc_from_coils_mod := %s%%nat;
  pc_from_coils_passes_wordorder := %s
|}.
""" % (coq_str(endian["Big"]), coq_str(endian["Little"]),
       coq_list(wc_items), coq_list(adds), coq_list(decs),
       coq_str(gp["net"]), words_record(gp), words_record(gu),
       int(gb["pad"], 16), int(gb["mod"]), int(gb["cw"]), int(gb["step"]),
       coq_str(gr["p"]), coq_str(gr["c"]), coq_str(gr["rc"]),
       coq_str(gf["p"]), coq_str(gf["c"]),
       int(gc["bits"]), int(gfc["mod"]), coq_bool(bool(gfc["wo"])))
    return {"GenPayload.v": text}
