(* Payload_proofs.v — lemmas about the payload model (theories/Payload.v).
   Part 1: byte / word algebra, independent of the code.
   Part 2: the model instantiated with [spec_code], the layout the method names promise
           (add_32bit_uint = 32-bit unsigned, …).  Props/C19.v shows that the generated
           [GenPayload.code] IS [spec_code] (by reflexivity) and transports the theorems. *)
From PM.theories Require Import Base Struct Payload.
From PM.proofs Require Import Struct_proofs.
From PM.Generated Require GenPayload.
From Coq Require Import ZifyBool ZifyNat.
Open Scope string_scope.
Open Scope list_scope.
Open Scope Z_scope.
Ltac Zify.zify_post_hook ::= Z.to_euclidean_division_equations.

(* ================================================================= part 1: words *)

Definition len2 (w : bytes) : Prop := length w = 2%nat.

Lemma wfb_app a b : wfb (a ++ b) = wfb a && wfb b.
Proof. unfold wfb. apply forallb_app. Qed.

Lemma wfb_rev a : wfb (rev a) = wfb a.
Proof.
  induction a as [|x t IH]; [reflexivity|]. cbn [rev]. rewrite wfb_app, IH. cbn [wfb forallb].
  rewrite andb_true_r. apply andb_comm.
Qed.

(* induction two elements at a time *)
Lemma even_list_ind (P : bytes -> Prop) :
  P [] -> (forall a b t, P t -> P (a :: b :: t)) ->
  forall n l, length l = (2 * n)%nat -> P l.
Proof.
  intros H0 H2 n. induction n as [|n IH]; intros l Hl.
  - destruct l; [exact H0|cbn in Hl; lia].
  - destruct l as [|a [|b t]]; cbn [length] in Hl; try lia. apply H2, IH. lia.
Qed.

Lemma words16_len2 l : Forall len2 (words16 l).
Proof.
  assert (H : forall n l, (length l <= n)%nat -> Forall len2 (words16 l)).
  { intros n. induction n as [|n IH]; intros l0 Hl.
    - destruct l0; [constructor|cbn in Hl; lia].
    - destruct l0 as [|a [|b t]]; cbn [words16]; try constructor; [reflexivity|].
      apply IH. cbn [length] in Hl. lia. }
  apply (H (length l)). lia.
Qed.

Lemma concat_words16 n l : length l = (2 * n)%nat -> concat (words16 l) = l.
Proof.
  revert l. apply (even_list_ind (fun l => concat (words16 l) = l)); [reflexivity|].
  intros a b t IH. cbn [words16 concat app]. now rewrite IH.
Qed.

Lemma words16_concat ws : Forall len2 ws -> words16 (concat ws) = ws.
Proof.
  induction 1 as [|w ws Hw _ IH]; [reflexivity|].
  destruct w as [|a [|b [|c w]]]; unfold len2 in Hw; cbn [length] in Hw; try lia.
  cbn [concat app words16]. now rewrite IH.
Qed.

Lemma Forall_len2_rev ws : Forall len2 ws -> Forall len2 (rev ws).
Proof. intros H. apply Forall_forall. intros x Hx. apply in_rev in Hx. rewrite Forall_forall in H. auto. Qed.

Lemma Forall_len2_map_rev ws : Forall len2 ws -> Forall len2 (map (@rev N) ws).
Proof.
  intros H. apply Forall_forall. intros x Hx. apply in_map_iff in Hx as (y & <- & Hy).
  rewrite Forall_forall in H. unfold len2. rewrite rev_length. now apply H.
Qed.

Lemma length_concat_len2 ws : Forall len2 ws -> length (concat ws) = (2 * length ws)%nat.
Proof.
  induction 1 as [|w ws Hw _ IH]; [reflexivity|]. cbn [concat length]. rewrite app_length, IH.
  unfold len2 in Hw. lia.
Qed.

Lemma length_words16 n l : length l = (2 * n)%nat -> length (words16 l) = n.
Proof.
  revert n. assert (H : forall m l n, (length l <= m)%nat -> length l = (2 * n)%nat -> length (words16 l) = n).
  { intros m. induction m as [|m IH]; intros l0 n Hm Hl.
    - destruct l0; cbn in *; lia.
    - destruct l0 as [|a [|b t]]; cbn [length words16] in *; try lia.
      destruct n as [|n]; [lia|]. f_equal. apply IH; lia. }
  intros n. apply (H (length l)). lia.
Qed.

Lemma map_rev_involutive (ws : list bytes) : map (@rev N) (map (@rev N) ws) = ws.
Proof. rewrite map_map. rewrite <- (map_id ws) at 2. apply map_ext. intros. apply rev_involutive. Qed.

(* image = concat (g (h (words16 B))) *)
Definition img_words (bo wo : endian) (ws : list bytes) : list bytes :=
  let ws' := match wo with Big => ws | Little => rev ws end in
  match bo with Big => ws' | Little => map (@rev N) ws' end.

Lemma image_img_words bo wo B : image bo wo B = concat (img_words bo wo (words16 B)).
Proof. destruct bo, wo; reflexivity. Qed.

Lemma img_words_len2 bo wo ws : Forall len2 ws -> Forall len2 (img_words bo wo ws).
Proof.
  intros H. destruct bo, wo; cbn [img_words]; auto using Forall_len2_rev, Forall_len2_map_rev.
Qed.

Lemma img_words_involutive bo wo ws : img_words bo wo (img_words bo wo ws) = ws.
Proof.
  destruct bo, wo; cbn [img_words]; rewrite ?rev_involutive; try reflexivity.
  - apply map_rev_involutive.
  - rewrite <- map_rev, rev_involutive. apply map_rev_involutive.
Qed.

Lemma img_words_length bo wo ws : length (img_words bo wo ws) = length ws.
Proof. destruct bo, wo; cbn [img_words]; rewrite ?map_length, ?rev_length; reflexivity. Qed.

Lemma image_length bo wo n B : length B = (2 * n)%nat -> length (image bo wo B) = (2 * n)%nat.
Proof.
  intros H. rewrite image_img_words, length_concat_len2 by apply img_words_len2, words16_len2.
  rewrite img_words_length, (length_words16 n) by exact H. reflexivity.
Qed.

Theorem image_involutive bo wo n B : length B = (2 * n)%nat -> image bo wo (image bo wo B) = B.
Proof.
  intros H. rewrite (image_img_words bo wo (image bo wo B)), image_img_words.
  rewrite words16_concat by apply img_words_len2, words16_len2.
  rewrite img_words_involutive. apply (concat_words16 n), H.
Qed.

Lemma wfb_concat ws : wfb (concat ws) = forallb wfb ws.
Proof. induction ws as [|w ws IH]; [reflexivity|]. cbn [concat forallb]. now rewrite wfb_app, IH. Qed.

Lemma forallb_wfb_words16 n l : length l = (2 * n)%nat -> forallb wfb (words16 l) = wfb l.
Proof. intros H. rewrite <- wfb_concat, (concat_words16 n) by exact H. reflexivity. Qed.

Lemma forallb_rev {A} (f : A -> bool) l : forallb f (rev l) = forallb f l.
Proof.
  induction l as [|x t IH]; [reflexivity|]. cbn [rev forallb]. rewrite forallb_app, IH. cbn [forallb].
  rewrite andb_true_r. apply andb_comm.
Qed.

Lemma img_words_wfb bo wo ws : forallb wfb (img_words bo wo ws) = forallb wfb ws.
Proof.
  destruct bo, wo; cbn [img_words]; rewrite ?forallb_rev; try reflexivity.
  - induction ws as [|w ws IH]; [reflexivity|]. cbn [map forallb]. now rewrite wfb_rev, IH.
  - rewrite <- (forallb_rev wfb ws). induction (rev ws) as [|w l IH]; [reflexivity|].
    cbn [map forallb]. now rewrite wfb_rev, IH.
Qed.

Lemma image_wfb bo wo n B : length B = (2 * n)%nat -> wfb (image bo wo B) = wfb B.
Proof.
  intros H. rewrite image_img_words, wfb_concat, img_words_wfb. apply (forallb_wfb_words16 n), H.
Qed.

(* ---- the struct view of a 16-bit word ---- *)

Definition word_val (w : bytes) : Z := unpack1 true FH w.

Lemma byteb_lt b : byteb b = true -> (b < 256)%N.
Proof. unfold byteb. apply N.ltb_lt. Qed.

Lemma pack1_word big a b :
  wfb [a; b] = true ->
  pack1 big FH (word_val [a; b]) = Ok (if big then [a; b] else [b; a]).
Proof.
  intros Hw. unfold word_val, unpack1. cbn [rev app].
  pose proof (le_value_bound [b; a]) as Hb.
  assert (Hw' : wfb [b; a] = true).
  { cbn [wfb forallb] in *. rewrite !andb_true_r in *. apply andb_true_iff in Hw as [H1 H2].
    now rewrite H1, H2. }
  specialize (Hb Hw'). cbn [length] in Hb. change (pow256 2) with 65536 in Hb.
  unfold of_unsigned. cbn [fsigned andb].
  unfold pack1, in_range. cbn [fsigned fwidth]. change (pow256 2) with 65536.
  replace ((0 <=? le_value [b; a]) && (le_value [b; a] <? 65536)) with true by lia.
  unfold to_unsigned. replace (le_value [b; a] <? 0) with false by lia.
  change 2%nat with (length [b; a]). rewrite le_bytes_le_value by exact Hw'.
  destruct big; reflexivity.
Qed.

Lemma fmt_size_repeat_FH n : fmt_size (repeat FH n) = (2 * n)%nat.
Proof.
  induction n as [|n IH]; [reflexivity|]. cbn [repeat]. unfold fmt_size in *. cbn [fold_right fwidth].
  rewrite IH. lia.
Qed.

Lemma unpack_go_words n : forall l,
  length l = (2 * n)%nat -> unpack_go true (repeat FH n) l = map word_val (words16 l).
Proof.
  induction n as [|n IH]; intros l H0.
  - destruct l; [reflexivity|cbn in H0; lia].
  - destruct l as [|a [|b t]]; cbn [length] in H0; try lia.
    cbn [repeat unpack_go fwidth firstn skipn words16 map]. f_equal. apply IH. lia.
Qed.

Lemma unpack_words n l :
  length l = (2 * n)%nat -> unpack true (repeat FH n) l = Ok (map word_val (words16 l)).
Proof.
  intros Hl. unfold unpack. rewrite fmt_size_repeat_FH, Hl, Nat.eqb_refl. f_equal.
  apply unpack_go_words, Hl.
Qed.

Lemma map_res_pack_words big ws :
  Forall len2 ws -> forallb wfb ws = true ->
  map_res (pack1 big FH) (map word_val ws) = Ok (if big then ws else map (@rev N) ws).
Proof.
  induction 1 as [|w ws Hw _ IH]; intros Hb.
  - destruct big; reflexivity.
  - cbn [forallb] in Hb. apply andb_true_iff in Hb as [Hb1 Hb2].
    destruct w as [|a [|b [|c w]]]; unfold len2 in Hw; cbn [length] in Hw; try lia.
    cbn [map map_res]. rewrite pack1_word by exact Hb1. cbn [bind]. rewrite IH by exact Hb2. cbn [bind].
    destruct big; reflexivity.
Qed.

Lemma map_word_val_rev ws : rev (map word_val ws) = map word_val (rev ws).
Proof. symmetry. apply map_rev. Qed.

(* ================================================================= part 2: spec_code *)

Definition spec_words : words_steps :=
  {| ws_div := 2; ws_up_prefix := "!"; ws_up_char := "H"; ws_rev_on := "<"; ws_word_char := "H" |}.

Definition spec_code : payload_code := {|
  pc_big := ">";
  pc_little := "<";
  pc_wc := [("b", 1); ("h", 2); ("e", 2); ("i", 4); ("l", 4); ("q", 8); ("f", 4); ("d", 8)];
  pc_add := [("add_8bit_uint", AddDirect "B"); ("add_16bit_uint", AddDirect "H"); ("add_32bit_uint", AddWords "I");
             ("add_64bit_uint", AddWords "Q"); ("add_8bit_int", AddDirect "b"); ("add_16bit_int", AddDirect "h");
             ("add_32bit_int", AddWords "i"); ("add_64bit_int", AddWords "q"); ("add_16bit_float", AddWords "e");
             ("add_32bit_float", AddWords "f"); ("add_64bit_float", AddWords "d"); ("add_bits", AddBits);
             ("add_string", AddString)];
  pc_dec := [("decode_8bit_uint", DecDirect 1 1 "B"); ("decode_16bit_uint", DecDirect 2 2 "H");
             ("decode_32bit_uint", DecWords 4 4 "I" "!"); ("decode_64bit_uint", DecWords 8 8 "Q" "!");
             ("decode_8bit_int", DecDirect 1 1 "b"); ("decode_16bit_int", DecDirect 2 2 "h");
             ("decode_32bit_int", DecWords 4 4 "i" "!"); ("decode_64bit_int", DecWords 8 8 "q" "!");
             ("decode_16bit_float", DecWords 2 2 "e" "!"); ("decode_32bit_float", DecWords 4 4 "f" "!");
             ("decode_64bit_float", DecWords 8 8 "d" "!"); ("decode_bits", DecBits 1 1); ("decode_string", DecString)];
  pc_net_prefix := "!";
  pc_pack_words := spec_words;
  pc_unpack_words := spec_words;
  pc_pad_byte := 0%N;
  pc_pad_mod := 2;
  pc_chunk_width := 2;
  pc_chunk_step := 2;
  pc_reg_prefix := "!";
  pc_reg_char := "H";
  pc_reg_repack_char := "H";
  pc_from_reg_prefix := "!";
  pc_from_reg_char := "H";
  pc_coil_bits := 16;
  pc_from_coils_mod := 8;
  pc_from_coils_passes_wordorder := false
|}.

Definition is_big (e : endian) : bool := match e with Big => true | Little => false end.

(* the struct field each type name promises *)
Definition kind_fmt (k : kind) : fmtc :=
  match k with
  | KU8 => FB | KU16 => FH | KU32 => FI | KU64 => FQ
  | KI8 => Fb | KI16 => Fh | KI32 => Fi | KI64 => Fq
  | KF16 => FH | KF32 => FI | KF64 => FQ
  end.

(* types that go through _pack_words / _unpack_words *)
Definition kind_words (k : kind) : bool :=
  match k with KU8 | KU16 | KI8 | KI16 => false | _ => true end.

Lemma kind_fmt_width k : fwidth (kind_fmt k) = kind_width k.
Proof. destruct k; reflexivity. Qed.

Lemma kind_fmt_range k x : in_range (kind_fmt k) x = in_kind_range k x.
Proof. destruct k; reflexivity. Qed.

(* ---- run_words on an even-length byte string = the conventional image ---- *)

Lemma run_words_image bo wo c w n bs :
  wc_get spec_code (lower_char c) = Ok w -> w / 2 = Z.of_nat n ->
  length bs = (2 * n)%nat -> wfb bs = true ->
  run_words spec_code spec_words bo wo c bs = Ok (image bo wo bs).
Proof.
  intros Hw Hn Hl Hb. unfold run_words. rewrite Hw. cbn [bind spec_words ws_div ws_up_prefix ws_up_char ws_rev_on ws_word_char].
  change (2 =? 0) with false. cbv iota. rewrite Hn, Nat2Z.id.
  change (prefix_big "!") with (@Ok bool true). change (fmt_of_char "H") with (@Ok fmtc FH). cbn [bind].
  rewrite (unpack_words n) by exact Hl. cbn [bind].
  assert (Hbo : prefix_big (endian_str spec_code bo) = Ok (is_big bo)) by (destruct bo; reflexivity).
  rewrite Hbo. cbn [bind].
  assert (Hwo : String.eqb (endian_str spec_code wo) "<" = negb (is_big wo)) by (destruct wo; reflexivity).
  rewrite Hwo. rewrite image_img_words.
  pose proof (words16_len2 bs) as H2. pose proof (forallb_wfb_words16 n bs Hl) as Hf. rewrite Hb in Hf.
  destruct wo; cbn [is_big negb].
  - rewrite map_res_pack_words by assumption. cbn [bind]. destruct bo; reflexivity.
  - rewrite map_word_val_rev.
    rewrite map_res_pack_words by (auto using Forall_len2_rev; now rewrite forallb_rev). cbn [bind].
    destruct bo; reflexivity.
Qed.

(* ---- encoding of one numeric value, in closed form ---- *)

Definition enc_num (bo wo : endian) (k : kind) (x : Z) : res bytes :=
  if kind_words k
  then do net <- pack1 true (kind_fmt k) x; Ok (image bo wo net)
  else pack1 (is_big bo) (kind_fmt k) x.

Lemma half_width k : kind_words k = true -> exists n, kind_width k = (2 * n)%nat.
Proof. destruct k; intros H; try discriminate; [exists 2%nat|exists 4%nat|exists 2%nat|exists 4%nat|exists 1%nat|exists 2%nat|exists 4%nat]; reflexivity. Qed.

Lemma add_num_spec bo wo k x : add_value spec_code bo wo (VNum k x) = enc_num bo wo k x.
Proof.
  assert (Hbo : prefix_big (endian_str spec_code bo) = Ok (is_big bo)) by (destruct bo; reflexivity).
  unfold enc_num.
  destruct (kind_words k) eqn:Hk.
  - (* words *)
    assert (Hsh : exists c w n, get_method (add_name (VNum k x)) (pc_add spec_code) = Ok (AddWords c) /\
                  fmt_of_char c = Ok (kind_fmt k) /\ wc_get spec_code (lower_char c) = Ok w /\
                  w / 2 = Z.of_nat n /\ kind_width k = (2 * n)%nat).
    { destruct k; try discriminate Hk.
      - exists "I", 4, 2%nat. repeat split.
      - exists "Q", 8, 4%nat. repeat split.
      - exists "i", 4, 2%nat. repeat split.
      - exists "q", 8, 4%nat. repeat split.
      - exists "e", 2, 1%nat. repeat split.
      - exists "f", 4, 2%nat. repeat split.
      - exists "d", 8, 4%nat. repeat split. }
    destruct Hsh as (c & w & n & Hm & Hf & Hw & Hn & Hkw).
    unfold add_value. rewrite Hm. cbn [bind run_add]. unfold pack_words.
    change (prefix_big (pc_net_prefix spec_code)) with (@Ok bool true). cbn [bind]. rewrite Hf. cbn [bind].
    destruct (pack1 true (kind_fmt k) x) as [net|e] eqn:Hp; [|reflexivity]. cbn [bind].
    change (pc_pack_words spec_code) with spec_words.
    apply (run_words_image bo wo c w n net Hw Hn).
    + rewrite (pack1_length _ _ _ _ Hp), kind_fmt_width. exact Hkw.
    + apply (pack1_wfb _ _ _ _ Hp).
  - (* direct *)
    assert (Hsh : exists c, get_method (add_name (VNum k x)) (pc_add spec_code) = Ok (AddDirect c) /\
                  fmt_of_char c = Ok (kind_fmt k)).
    { destruct k; try discriminate Hk; [exists "B"|exists "H"|exists "b"|exists "h"]; split; reflexivity. }
    destruct Hsh as (c & Hm & Hf).
    unfold add_value. rewrite Hm. cbn [bind run_add]. rewrite Hbo. cbn [bind]. rewrite Hf. reflexivity.
Qed.

Lemma enc_num_length bo wo k x b : enc_num bo wo k x = Ok b -> length b = kind_width k.
Proof.
  unfold enc_num. destruct (kind_words k) eqn:Hk.
  - destruct (pack1 true (kind_fmt k) x) as [net|] eqn:Hp; [|discriminate]. cbn [bind]. intros H. injection H as <-.
    destruct (half_width k Hk) as (n & Hn). rewrite (image_length bo wo n); [symmetry; exact Hn|].
    rewrite (pack1_length _ _ _ _ Hp), kind_fmt_width. exact Hn.
  - intros H. rewrite (pack1_length _ _ _ _ H). apply kind_fmt_width.
Qed.

Lemma enc_num_wfb bo wo k x b : enc_num bo wo k x = Ok b -> wfb b = true.
Proof.
  unfold enc_num. destruct (kind_words k) eqn:Hk.
  - destruct (pack1 true (kind_fmt k) x) as [net|] eqn:Hp; [|discriminate]. cbn [bind]. intros H. injection H as <-.
    destruct (half_width k Hk) as (n & Hn). rewrite (image_wfb bo wo n).
    + apply (pack1_wfb _ _ _ _ Hp).
    + rewrite (pack1_length _ _ _ _ Hp), kind_fmt_width. exact Hn.
  - apply pack1_wfb.
Qed.

Lemma enc_num_ok bo wo k x : in_kind_range k x = true -> exists b, enc_num bo wo k x = Ok b.
Proof.
  intros Hr. unfold enc_num, pack1. rewrite !kind_fmt_range, Hr. cbn [bind].
  destruct (kind_words k); eexists; reflexivity.
Qed.

(* ---- slicing ---- *)

Lemma handle_of_app {A} (pre x post : list A) :
  @pyslice A (pre ++ x ++ post) (Z.of_nat (length pre + length x) - Z.of_nat (length x)) (Z.of_nat (length pre + length x)) = x.
Proof.
  unfold pyslice. rewrite !app_length.
  set (L := Z.of_nat (length pre + (length x + length post))).
  replace (Z.of_nat (length pre + length x) - Z.of_nat (length x)) with (Z.of_nat (length pre)) by lia.
  replace (Z.of_nat (length pre) <? 0) with false by lia.
  replace (Z.of_nat (length pre + length x) <? 0) with false by lia.
  replace (Z.min (Z.of_nat (length pre)) L) with (Z.of_nat (length pre)) by lia.
  replace (Z.min (Z.of_nat (length pre + length x)) L) with (Z.of_nat (length pre + length x)) by lia.
  rewrite Nat2Z.id. replace (Z.to_nat (Z.of_nat (length pre + length x) - Z.of_nat (length pre))) with (length x) by lia.
  rewrite skipn_app, skipn_all, Nat.sub_diag. cbn [skipn app].
  rewrite firstn_app, firstn_all, Nat.sub_diag. cbn [firstn]. apply app_nil_r.
Qed.

Lemma handle_of_here pre x post n :
  length x = n -> handle_of (pre ++ x ++ post) (length pre + n) n = x.
Proof. intros <-. unfold handle_of. apply handle_of_app. Qed.

(* ---- decoding one numeric value ---- *)

Lemma unpack_one_pack1 big f x b : pack1 big f x = Ok b -> unpack_one big f b = Ok x.
Proof.
  intros H. unfold unpack_one.
  assert (Hp : pack big [f] [x] = Ok b).
  { cbn [pack]. rewrite H. cbn [bind]. now rewrite app_nil_r. }
  rewrite (unpack_pack _ _ _ _ Hp). reflexivity.
Qed.

Lemma dec_num_spec bo wo k x b pre post :
  enc_num bo wo k x = Ok b ->
  decode1 spec_code bo wo (TNum k) (pre ++ b ++ post) (length pre) = Ok (VNum k x, (length pre + length b)%nat).
Proof.
  intros He. pose proof (enc_num_length _ _ _ _ _ He) as Hlen.
  assert (Hbo : prefix_big (endian_str spec_code bo) = Ok (is_big bo)) by (destruct bo; reflexivity).
  unfold enc_num in He. destruct (kind_words k) eqn:Hk.
  - assert (Hsh : exists c w n, get_method (dec_name (TNum k)) (pc_dec spec_code) = Ok (DecWords (kind_width k) (kind_width k) c "!") /\
                  fmt_of_char c = Ok (kind_fmt k) /\ wc_get spec_code (lower_char c) = Ok w /\
                  w / 2 = Z.of_nat n /\ kind_width k = (2 * n)%nat).
    { destruct k; try discriminate Hk.
      - exists "I", 4, 2%nat. repeat split.
      - exists "Q", 8, 4%nat. repeat split.
      - exists "i", 4, 2%nat. repeat split.
      - exists "q", 8, 4%nat. repeat split.
      - exists "e", 2, 1%nat. repeat split.
      - exists "f", 4, 2%nat. repeat split.
      - exists "d", 8, 4%nat. repeat split. }
    destruct Hsh as (c & w & n & Hm & Hf & Hw & Hn & Hkw).
    destruct (pack1 true (kind_fmt k) x) as [net|] eqn:Hp; [|discriminate]. cbn [bind] in He. injection He as <-.
    assert (Hnl : length net = (2 * n)%nat) by (rewrite (pack1_length _ _ _ _ Hp), kind_fmt_width; exact Hkw).
    unfold decode1. rewrite Hm. cbn [bind run_dec_num].
    rewrite handle_of_here by (rewrite Hlen; reflexivity).
    change (pc_unpack_words spec_code) with spec_words.
    rewrite (run_words_image bo wo c w n (image bo wo net) Hw Hn).
    + cbn [bind]. rewrite (image_involutive bo wo n net Hnl).
      change (prefix_big "!") with (@Ok bool true). cbn [bind]. rewrite Hf. cbn [bind].
      rewrite (unpack_one_pack1 _ _ _ _ Hp). cbn [bind]. rewrite Hlen. reflexivity.
    + apply image_length, Hnl.
    + rewrite (image_wfb bo wo n net Hnl). apply (pack1_wfb _ _ _ _ Hp).
  - assert (Hsh : exists c, get_method (dec_name (TNum k)) (pc_dec spec_code) = Ok (DecDirect (kind_width k) (kind_width k) c) /\
                  fmt_of_char c = Ok (kind_fmt k)).
    { destruct k; try discriminate Hk; [exists "B"|exists "H"|exists "b"|exists "h"]; split; reflexivity. }
    destruct Hsh as (c & Hm & Hf).
    unfold decode1. rewrite Hm. cbn [bind run_dec_num]. rewrite Hbo. cbn [bind]. rewrite Hf. cbn [bind].
    rewrite handle_of_here by exact Hlen.
    rewrite (unpack_one_pack1 _ _ _ _ He). cbn [bind]. rewrite Hlen. reflexivity.
Qed.

(* ---- bit groups ---- *)

Lemma bits_byte_roundtrip b0 b1 b2 b3 b4 b5 b6 b7 :
  bits_of_byte 8 (byte_of_bits [b0; b1; b2; b3; b4; b5; b6; b7]) = [b0; b1; b2; b3; b4; b5; b6; b7].
Proof. destruct b0, b1, b2, b3, b4, b5, b6, b7; reflexivity. Qed.

Lemma byte_of_bits_bound b : (byte_of_bits b < 2 ^ N.of_nat (length b))%N.
Proof.
  induction b as [|x t IH]; [cbn; lia|].
  cbn [byte_of_bits length]. rewrite Nat2N.inj_succ, N.pow_succ_r'. destruct x; lia.
Qed.

Lemma byte_of_bits_byte b : (length b <= 8)%nat -> byteb (byte_of_bits b) = true.
Proof.
  intros H. unfold byteb. apply N.ltb_lt. pose proof (byte_of_bits_bound b) as Hb.
  assert (2 ^ N.of_nat (length b) <= 2 ^ 8)%N by (apply N.pow_le_mono_r; lia).
  change (2 ^ 8)%N with 256%N in *. lia.
Qed.

Lemma pack_bitstring_8 b0 b1 b2 b3 b4 b5 b6 b7 t :
  pack_bitstring (b0 :: b1 :: b2 :: b3 :: b4 :: b5 :: b6 :: b7 :: t) =
  byte_of_bits [b0; b1; b2; b3; b4; b5; b6; b7] :: pack_bitstring t.
Proof. reflexivity. Qed.

Lemma pack_bitstring_short b :
  (0 < length b < 8)%nat -> pack_bitstring b = [byte_of_bits b].
Proof.
  intros H.
  do 8 (destruct b as [|? b]; [first [reflexivity | cbn in H; lia]|]).
  cbn [length] in H. lia.
Qed.

(* lists, eight elements at a time *)
Lemma list8_ind {A} (P : list A -> Prop) :
  P [] -> (forall b, (0 < length b < 8)%nat -> P b) ->
  (forall b0 b1 b2 b3 b4 b5 b6 b7 t, P t -> P (b0 :: b1 :: b2 :: b3 :: b4 :: b5 :: b6 :: b7 :: t)) ->
  forall l, P l.
Proof.
  intros H0 Hs H8.
  assert (H : forall n l, (length l <= n)%nat -> P l).
  { intros n. induction n as [|n IH]; intros l Hl.
    - destruct l; [exact H0|cbn in Hl; lia].
    - destruct (Nat.ltb (length l) 8) eqn:E.
      + apply Nat.ltb_lt in E. destruct l; [exact H0|]. apply Hs. cbn [length] in *. lia.
      + apply Nat.ltb_ge in E.
        do 8 (destruct l as [|? l]; [cbn in E; lia|]).
        apply H8, IH. cbn [length] in Hl. lia. }
  intros l. apply (H (length l)). lia.
Qed.

Lemma pack_bitstring_wfb b : wfb (pack_bitstring b) = true.
Proof.
  induction b using list8_ind.
  - reflexivity.
  - rewrite pack_bitstring_short by assumption. cbn [wfb forallb]. rewrite byte_of_bits_byte by lia. reflexivity.
  - rewrite pack_bitstring_8. cbn [wfb forallb]. fold (wfb (pack_bitstring b)). rewrite IHb.
    rewrite byte_of_bits_byte by (cbn; lia). reflexivity.
Qed.

Lemma pack_bitstring_length b : length (pack_bitstring b) = Nat.div (length b + 7) 8.
Proof.
  induction b using list8_ind.
  - reflexivity.
  - rewrite pack_bitstring_short by assumption. cbn [length]. symmetry.
    assert (E : (length b + 7 = 1 * 8 + (length b - 1))%nat) by lia. rewrite E.
    rewrite Nat.div_add_l by lia. rewrite Nat.div_small by lia. reflexivity.
  - rewrite pack_bitstring_8. cbn [length]. rewrite IHb.
    replace (S (S (S (S (S (S (S (S (length b)))))))) + 7)%nat with (1 * 8 + (length b + 7))%nat by lia.
    rewrite Nat.div_add_l by lia. reflexivity.
Qed.

Definition bit_pad (b : list bool) : list bool :=
  b ++ repeat false (Nat.modulo (8 - Nat.modulo (length b) 8) 8).

Lemma bits_of_byte_short b :
  (length b <= 8)%nat -> bits_of_byte 8 (byte_of_bits b) = b ++ repeat false (8 - length b).
Proof.
  intros H.
  do 8 (destruct b as [|[] b]; [reflexivity| |]); try (cbn [length] in H; lia);
  destruct b; try (cbn [length] in H; lia).
  all: try apply bits_byte_roundtrip.
Qed.

(* n decode_bits() calls on the bytes of a packed bit group return the group, zero padded to whole bytes *)
Lemma dec_bits_spec b : forall pre post,
  run_dec_bits 1 1 (Nat.div (length b + 7) 8) (pre ++ pack_bitstring b ++ post) (length pre) =
  (bit_pad b, (length pre + Nat.div (length b + 7) 8)%nat).
Proof.
  induction b using list8_ind; intros pre post.
  - cbn. now rewrite Nat.add_0_r.
  - rewrite pack_bitstring_short by assumption.
    assert (E : Nat.div (length b + 7) 8 = 1%nat).
    { replace (length b + 7)%nat with (1 * 8 + (length b - 1))%nat by lia.
      rewrite Nat.div_add_l by lia. rewrite Nat.div_small by lia. reflexivity. }
    rewrite E. cbn [run_dec_bits].
    rewrite handle_of_here by reflexivity.
    unfold unpack_bitstring. cbn [flat_map]. rewrite !app_nil_r.
    rewrite bits_of_byte_short by lia. unfold bit_pad.
    rewrite (Nat.mod_small (length b) 8) by lia.
    rewrite (Nat.mod_small (8 - length b) 8) by lia. reflexivity.
  - rewrite pack_bitstring_8.
    assert (E : Nat.div (length (b0 :: b1 :: b2 :: b3 :: b4 :: b5 :: b6 :: b7 :: b) + 7) 8 = S (Nat.div (length b + 7) 8)).
    { cbn [length]. replace (S (S (S (S (S (S (S (S (length b)))))))) + 7)%nat with (1 * 8 + (length b + 7))%nat by lia.
      rewrite Nat.div_add_l by lia. reflexivity. }
    rewrite E. cbn [run_dec_bits].
    change (byte_of_bits [b0; b1; b2; b3; b4; b5; b6; b7] :: pack_bitstring b)
      with ([byte_of_bits [b0; b1; b2; b3; b4; b5; b6; b7]] ++ pack_bitstring b).
    rewrite <- (app_assoc [byte_of_bits [b0; b1; b2; b3; b4; b5; b6; b7]]).
    rewrite handle_of_here by reflexivity.
    rewrite (app_assoc pre [byte_of_bits [b0; b1; b2; b3; b4; b5; b6; b7]]).
    replace (length pre + 1)%nat with (length (pre ++ [byte_of_bits [b0; b1; b2; b3; b4; b5; b6; b7]]))
      by (rewrite app_length; reflexivity).
    rewrite IHb. unfold unpack_bitstring. cbn [flat_map]. rewrite app_nil_r, bits_byte_roundtrip.
    rewrite app_length. cbn [length plus]. f_equal; [|lia].
    assert (EL : length (b0 :: b1 :: b2 :: b3 :: b4 :: b5 :: b6 :: b7 :: b) = (length b + 1 * 8)%nat)
      by (cbn [length]; lia).
    unfold bit_pad. rewrite EL, Nat.mod_add by lia. reflexivity.
Qed.

Lemma bit_pad_wf b : Nat.eqb (Nat.modulo (length b) 8) 0 = true -> bit_pad b = b.
Proof.
  intros H. apply Nat.eqb_eq in H. unfold bit_pad. rewrite H. cbn. apply app_nil_r.
Qed.

(* ---- one value of any type ---- *)

(* what the decoder returns for a value: itself, bit groups zero padded to whole bytes *)
Definition decoded (v : value) : value :=
  match v with VBits b => VBits (bit_pad b) | _ => v end.

Lemma decoded_wf v : wf_value v = true -> decoded v = v.
Proof. destruct v; cbn [wf_value decoded]; intros H; [reflexivity| |reflexivity]. now rewrite bit_pad_wf. Qed.

(* the domain of the builder: numbers in range, strings of bytes, bit lists of any length *)
Definition in_domain (v : value) : bool :=
  match v with VNum k x => in_kind_range k x | VBits _ => true | VStr s => wfb s end.

Lemma wf_in_domain v : wf_value v = true -> in_domain v = true.
Proof. destruct v; cbn; auto. Qed.

Lemma add_value_ok bo wo v : in_domain v = true -> exists b, add_value spec_code bo wo v = Ok b.
Proof.
  destruct v as [k x|b|s]; cbn [in_domain]; intros H.
  - rewrite add_num_spec. apply enc_num_ok, H.
  - eexists. reflexivity.
  - eexists. reflexivity.
Qed.

Lemma add_value_wfb bo wo v b : in_domain v = true -> add_value spec_code bo wo v = Ok b -> wfb b = true.
Proof.
  destruct v as [k x|bs|s]; cbn [in_domain]; intros H Ha.
  - rewrite add_num_spec in Ha. apply (enc_num_wfb _ _ _ _ _ Ha).
  - cbv in Ha. injection Ha as <-. apply pack_bitstring_wfb.
  - cbv in Ha. injection Ha as <-. exact H.
Qed.

Lemma decode1_add bo wo v b pre post :
  add_value spec_code bo wo v = Ok b ->
  decode1 spec_code bo wo (type_of v) (pre ++ b ++ post) (length pre) = Ok (decoded v, (length pre + length b)%nat).
Proof.
  destruct v as [k x|bs|s]; intros Ha.
  - rewrite add_num_spec in Ha. apply dec_num_spec, Ha.
  - assert (Hb : b = pack_bitstring bs) by (cbv in Ha; now injection Ha as <-). subst b.
    unfold decode1. cbn [type_of dec_name].
    change (get_method "decode_bits" (pc_dec spec_code)) with (@Ok dec_shape (DecBits 1 1)). cbn [bind].
    rewrite dec_bits_spec, pack_bitstring_length. reflexivity.
  - assert (Hb : b = s) by (cbv in Ha; now injection Ha as <-). subst b.
    unfold decode1. cbn [type_of dec_name].
    change (get_method "decode_string" (pc_dec spec_code)) with (@Ok dec_shape DecString). cbn [bind].
    rewrite handle_of_here by reflexivity. reflexivity.
Qed.

(* ---- sequences ---- *)

Lemma to_string_ok bo wo vs : forallb in_domain vs = true -> exists s, to_string spec_code bo wo vs = Ok s.
Proof.
  induction vs as [|v vs IH]; intros H; [eexists; reflexivity|].
  cbn [forallb] in H. apply andb_true_iff in H as [Hv Hvs].
  destruct (add_value_ok bo wo v Hv) as (b & Hb). destruct (IH Hvs) as (s & Hs).
  exists (b ++ s). cbn [to_string]. rewrite Hb, Hs. reflexivity.
Qed.

Lemma to_string_wfb bo wo vs s :
  forallb in_domain vs = true -> to_string spec_code bo wo vs = Ok s -> wfb s = true.
Proof.
  revert s. induction vs as [|v vs IH]; intros s H Hs.
  - injection Hs as <-. reflexivity.
  - cbn [forallb] in H. apply andb_true_iff in H as [Hv Hvs]. cbn [to_string] in Hs.
    destruct (add_value spec_code bo wo v) as [b|] eqn:Hb; [|discriminate]. cbn [bind] in Hs.
    destruct (to_string spec_code bo wo vs) as [r|] eqn:Hr; [|discriminate]. cbn [bind] in Hs.
    injection Hs as <-. rewrite wfb_app, (add_value_wfb _ _ _ _ Hv Hb), (IH r Hvs eq_refl). reflexivity.
Qed.

Lemma decode_from_to_string bo wo vs : forall s pre post,
  to_string spec_code bo wo vs = Ok s ->
  decode_from spec_code bo wo (types vs) (pre ++ s ++ post) (length pre) =
  Ok (map decoded vs, (length pre + length s)%nat).
Proof.
  induction vs as [|v vs IH]; intros s pre post Hs.
  - injection Hs as <-. cbn. now rewrite Nat.add_0_r.
  - cbn [to_string] in Hs.
    destruct (add_value spec_code bo wo v) as [b|] eqn:Hb; [|discriminate]. cbn [bind] in Hs.
    destruct (to_string spec_code bo wo vs) as [r|] eqn:Hr; [|discriminate]. cbn [bind] in Hs.
    injection Hs as <-. cbn [types map decode_from].
    rewrite <- (app_assoc b r post).
    rewrite (decode1_add bo wo v b pre (r ++ post) Hb). cbn [bind].
    rewrite (app_assoc pre b (r ++ post)). rewrite <- (app_length pre b).
    fold (types vs). rewrite (IH r (pre ++ b) post eq_refl). cbn [bind].
    rewrite !app_length. f_equal. f_equal. lia.
Qed.

Lemma map_decoded_wf vs : wf_values vs = true -> map decoded vs = vs.
Proof.
  induction vs as [|v vs IH]; [reflexivity|]. unfold wf_values in *. cbn [forallb map]. intros H.
  apply andb_true_iff in H as [Hv Hvs]. now rewrite decoded_wf, IH.
Qed.

Lemma wf_values_domain vs : wf_values vs = true -> forallb in_domain vs = true.
Proof.
  unfold wf_values. induction vs as [|v vs IH]; [reflexivity|]. cbn [forallb]. intros H.
  apply andb_true_iff in H as [Hv Hvs]. now rewrite wf_in_domain, IH.
Qed.

(* raw transport, any trailing bytes: the decoder returns what was added and stops at the end *)
Theorem roundtrip_general bo wo vs post :
  forallb in_domain vs = true ->
  exists s, to_string spec_code bo wo vs = Ok s /\
            decode_seq spec_code bo wo (types vs) (s ++ post) = Ok (map decoded vs, length s).
Proof.
  intros H. destruct (to_string_ok bo wo vs H) as (s & Hs). exists s. split; [exact Hs|].
  unfold decode_seq. apply (decode_from_to_string bo wo vs s [] post Hs).
Qed.

Theorem roundtrip_spec bo wo vs :
  wf_values vs = true ->
  exists s, to_string spec_code bo wo vs = Ok s /\
            decode_seq spec_code bo wo (types vs) s = Ok (vs, length s).
Proof.
  intros H. destruct (roundtrip_general bo wo vs [] (wf_values_domain vs H)) as (s & Hs & Hd).
  exists s. split; [exact Hs|]. rewrite app_nil_r in Hd. rewrite Hd, map_decoded_wf by exact H. reflexivity.
Qed.

(* ---- registers ---- *)

(* the pad build() appends: one zero byte iff the length is odd *)
Definition reg_pad (s : bytes) : bytes := repeat 0%N (Nat.modulo (length s) 2).

Lemma reg_pad_cases s : reg_pad s = if Nat.odd (length s) then [0%N] else [].
Proof.
  unfold reg_pad. rewrite <- Nat.bit0_mod, Nat.bit0_odd. destruct (Nat.odd (length s)); reflexivity.
Qed.

Lemma padded_even s : length (s ++ reg_pad s) = (2 * Nat.div (length s + 1) 2)%nat.
Proof. unfold reg_pad. rewrite app_length, repeat_length. lia. Qed.

Lemma pyslice_mid {A} (pre x post : list A) :
  pyslice (pre ++ x ++ post) (Z.of_nat (length pre)) (Z.of_nat (length pre + length x)) = x.
Proof.
  rewrite <- (handle_of_app pre x post) at 3. f_equal. lia.
Qed.

Lemma slices_words16 n : forall (l pre : bytes) m,
  length l = (2 * n)%nat -> length pre = (2 * m)%nat ->
  map (fun i => pyslice (pre ++ l) (Z.of_nat i) (Z.of_nat (i + 2))) (map (fun k => (k * 2)%nat) (seq m n)) = words16 l.
Proof.
  induction n as [|n IH]; intros l pre m Hl Hp.
  - destruct l; [reflexivity|cbn in Hl; lia].
  - destruct l as [|a [|b t]]; cbn [length] in Hl; try lia.
    cbn [seq map words16]. f_equal.
    + change (a :: b :: t) with ([a; b] ++ t).
      replace (m * 2)%nat with (length pre) by lia.
      apply (pyslice_mid pre [a; b] t).
    + change (a :: b :: t) with ([a; b] ++ t). rewrite app_assoc.
      apply (IH t (pre ++ [a; b]) (S m)); [lia|]. rewrite app_length. cbn [length]. lia.
Qed.

Lemma build_chunks_spec s : build_chunks spec_code s = Ok (words16 (s ++ reg_pad s)).
Proof.
  unfold build_chunks. cbn [spec_code pc_pad_mod pc_chunk_step pc_pad_byte pc_chunk_width Nat.eqb].
  f_equal. fold (reg_pad s). unfold range_step.
  replace (Nat.div (length s + 2 - 1) 2) with (Nat.div (length s + 1) 2) by (f_equal; lia).
  apply (slices_words16 (Nat.div (length s + 1) 2) (s ++ reg_pad s) [] 0%nat); [apply padded_even|reflexivity].
Qed.

Lemma map_res_unpack_words ws :
  Forall len2 ws -> map_res (unpack_one true FH) ws = Ok (map word_val ws).
Proof.
  induction 1 as [|w ws Hw _ IH]; [reflexivity|].
  destruct w as [|a [|b [|c w]]]; unfold len2 in Hw; cbn [length] in Hw; try lia.
  cbn [map_res map]. rewrite IH. reflexivity.
Qed.

(* to_registers() without repack: the big-endian 16-bit words of the padded payload *)
Lemma to_registers_spec bo s :
  to_registers spec_code bo false s = Ok (map word_val (words16 (s ++ reg_pad s))).
Proof.
  unfold to_registers. rewrite build_chunks_spec. cbn [bind].
  change (prefix_big (pc_reg_prefix spec_code)) with (@Ok bool true).
  change (fmt_of_char (pc_reg_char spec_code)) with (@Ok fmtc FH). cbn [bind].
  apply map_res_unpack_words, words16_len2.
Qed.

Lemma from_registers_spec n s' :
  length s' = (2 * n)%nat -> wfb s' = true ->
  from_registers spec_code (map word_val (words16 s')) = Ok s'.
Proof.
  intros Hl Hw. unfold from_registers.
  change (prefix_big (pc_from_reg_prefix spec_code)) with (@Ok bool true).
  change (fmt_of_char (pc_from_reg_char spec_code)) with (@Ok fmtc FH). cbn [bind].
  rewrite map_res_pack_words; [|apply words16_len2|rewrite (forallb_wfb_words16 n) by exact Hl; exact Hw].
  cbn [bind]. f_equal. apply (concat_words16 n), Hl.
Qed.

Lemma reg_pad_wfb s : wfb (reg_pad s) = true.
Proof. rewrite reg_pad_cases. destruct (Nat.odd (length s)); reflexivity. Qed.

(* registers carry the payload unchanged, plus the pad byte *)
Theorem registers_roundtrip bo s :
  wfb s = true ->
  exists regs, to_registers spec_code bo false s = Ok regs /\
               from_registers spec_code regs = Ok (s ++ reg_pad s).
Proof.
  intros Hw. eexists. split; [apply to_registers_spec|].
  apply (from_registers_spec (Nat.div (length s + 1) 2)); [apply padded_even|].
  rewrite wfb_app, Hw, reg_pad_wfb. reflexivity.
Qed.

Theorem via_registers_general bo wo vs :
  forallb in_domain vs = true ->
  exists s regs, to_string spec_code bo wo vs = Ok s /\
    to_registers spec_code bo false s = Ok regs /\
    from_registers spec_code regs = Ok (s ++ reg_pad s) /\
    decode_seq spec_code bo wo (types vs) (s ++ reg_pad s) = Ok (map decoded vs, length s).
Proof.
  intros H. destruct (to_string_ok bo wo vs H) as (s & Hs).
  destruct (registers_roundtrip bo s (to_string_wfb bo wo vs s H Hs)) as (regs & Hr & Hf).
  exists s, regs. repeat split; try assumption.
  unfold decode_seq. apply (decode_from_to_string bo wo vs s [] (reg_pad s) Hs).
Qed.

Theorem via_registers_spec bo wo vs :
  wf_values vs = true ->
  exists s regs p, to_string spec_code bo wo vs = Ok s /\
    to_registers spec_code bo false s = Ok regs /\
    from_registers spec_code regs = Ok p /\
    p = s ++ (if Nat.odd (length s) then [0%N] else []) /\
    decode_seq spec_code bo wo (types vs) p = Ok (vs, length s).
Proof.
  intros H. destruct (via_registers_general bo wo vs (wf_values_domain vs H)) as (s & regs & Hs & Hr & Hf & Hd).
  exists s, regs, (s ++ reg_pad s). rewrite map_decoded_wf in Hd by exact H.
  repeat split; try assumption. now rewrite reg_pad_cases.
Qed.

(* ---- the register image of a numeric value ---- *)

Lemma pow256_kind k : pow256 (fwidth (kind_fmt k)) = 2 ^ (8 * Z.of_nat (kind_width k)).
Proof. destruct k; reflexivity. Qed.

Lemma kind_fmt_signed k : fsigned (kind_fmt k) = kind_signed k.
Proof. destruct k; reflexivity. Qed.

Lemma to_unsigned_mod k x :
  in_kind_range k x = true ->
  to_unsigned (kind_fmt k) x = x mod 2 ^ (8 * Z.of_nat (kind_width k)).
Proof.
  unfold in_kind_range, to_unsigned. rewrite pow256_kind.
  set (m := 2 ^ (8 * Z.of_nat (kind_width k))).
  assert (Hm : 0 < m) by (apply Z.pow_pos_nonneg; lia).
  intros H. destruct (x <? 0) eqn:E.
  - rewrite <- (Z.mod_add x 1 m) by lia. rewrite Z.mod_small; [lia|]. destruct (kind_signed k); lia.
  - rewrite Z.mod_small; [reflexivity|]. destruct (kind_signed k); lia.
Qed.

Lemma pack1_net k x :
  in_kind_range k x = true -> pack1 true (kind_fmt k) x = Ok (net_bytes k x).
Proof.
  intros H. unfold pack1. rewrite kind_fmt_range, H. unfold net_bytes.
  now rewrite (to_unsigned_mod k x H), kind_fmt_width.
Qed.

Lemma pack1_little_net k x :
  in_kind_range k x = true -> pack1 false (kind_fmt k) x = Ok (rev (net_bytes k x)).
Proof.
  intros H. unfold pack1. rewrite kind_fmt_range, H. unfold net_bytes.
  now rewrite (to_unsigned_mod k x H), kind_fmt_width, rev_involutive.
Qed.

Lemma net_bytes_length k x : length (net_bytes k x) = kind_width k.
Proof. unfold net_bytes. now rewrite rev_length, le_bytes_length. Qed.

(* every numeric value of two or more bytes is laid out as the conventional image of its
   network-order bytes; 16-bit values included (one word: nothing to reverse) *)
Theorem image_spec bo wo k x :
  (2 <= kind_width k)%nat -> in_kind_range k x = true ->
  add_value spec_code bo wo (VNum k x) = Ok (image bo wo (net_bytes k x)).
Proof.
  intros Hw Hr. rewrite add_num_spec. unfold enc_num. destruct (kind_words k) eqn:Hk.
  - rewrite (pack1_net k x Hr). reflexivity.
  - assert (H2 : kind_width k = 2%nat) by (destruct k; try discriminate Hk; try reflexivity; cbn in Hw; lia).
    pose proof (net_bytes_length k x) as Hl. rewrite H2 in Hl.
    destruct (net_bytes k x) as [|a [|b [|c t]]] eqn:En; cbn [length] in Hl; try lia.
    destruct bo; cbn [is_big].
    + rewrite (pack1_net k x Hr), En. destruct wo; reflexivity.
    + rewrite (pack1_little_net k x Hr), En. destruct wo; reflexivity.
Qed.

(* the convention in the words of the property text *)
Theorem image_convention n B :
  length B = (2 * n)%nat ->
  image Big Big B = B /\
  image Big Little B = concat (rev (words16 B)) /\
  (forall wo, image Little wo B = concat (map (@rev N) (words16 (image Big wo B)))).
Proof.
  intros H. split; [|split].
  - cbn [image]. apply (concat_words16 n), H.
  - reflexivity.
  - intros wo. rewrite (image_img_words Big wo B), words16_concat by apply img_words_len2, words16_len2.
    destruct wo; reflexivity.
Qed.

Lemma word_val_be a b : word_val [a; b] = rd_be16 a b.
Proof. unfold word_val, unpack1, of_unsigned, rd_be16. cbn [fsigned andb rev app le_value]. lia. Qed.

(* registers of a payload = big-endian reading of its 16-bit words *)
Definition regs_of (s : bytes) : list Z :=
  map (fun w => match w with [hi; lo] => rd_be16 hi lo | _ => 0 end) (words16 s).

Lemma regs_of_word_val s : map word_val (words16 s) = regs_of s.
Proof.
  unfold regs_of. apply map_ext_in. intros w Hw.
  pose proof (words16_len2 s) as H. rewrite Forall_forall in H. specialize (H w Hw).
  destruct w as [|a [|b [|c t]]]; unfold len2 in H; cbn [length] in H; try lia. apply word_val_be.
Qed.

Theorem register_image_spec bo wo k x :
  (2 <= kind_width k)%nat -> in_kind_range k x = true ->
  exists s, to_string spec_code bo wo [VNum k x] = Ok s /\
            s = image bo wo (net_bytes k x) /\
            to_registers spec_code bo false s = Ok (regs_of s).
Proof.
  intros Hw Hr. exists (image bo wo (net_bytes k x)). split; [|split; [reflexivity|]].
  - cbn [to_string]. rewrite (image_spec bo wo k x Hw Hr). cbn [bind]. now rewrite app_nil_r.
  - rewrite to_registers_spec.
    assert (He : exists n, kind_width k = (2 * n)%nat).
    { destruct k; cbn in Hw; try lia; [exists 1%nat|exists 2%nat|exists 4%nat|exists 1%nat|exists 2%nat|exists 4%nat|exists 1%nat|exists 2%nat|exists 4%nat]; reflexivity. }
    destruct He as (n & Hn).
    assert (Hl : length (image bo wo (net_bytes k x)) = (2 * n)%nat)
      by (apply image_length; rewrite net_bytes_length; exact Hn).
    unfold reg_pad. rewrite Hl. replace (Nat.modulo (2 * n) 2) with 0%nat by lia.
    cbn [repeat]. rewrite app_nil_r. now rewrite regs_of_word_val.
Qed.

(* ---- two's complement ---- *)

Definition unsigned_of (k : kind) : kind :=
  match k with KI8 => KU8 | KI16 => KU16 | KI32 => KU32 | KI64 => KU64 | _ => k end.

Lemma unsigned_of_width k : kind_width (unsigned_of k) = kind_width k.
Proof. destruct k; reflexivity. Qed.

(* a signed value and the unsigned value congruent to it modulo 2^bits have the same bytes *)
Theorem signed_bytes k x :
  net_bytes k x = net_bytes (unsigned_of k) (x mod 2 ^ (8 * Z.of_nat (kind_width k))).
Proof.
  unfold net_bytes. rewrite unsigned_of_width. now rewrite Z.mod_mod by (apply Z.pow_nonzero; lia).
Qed.

Lemma in_range_mod k x :
  in_kind_range (unsigned_of k) (x mod 2 ^ (8 * Z.of_nat (kind_width k))) = true.
Proof.
  unfold in_kind_range. rewrite unsigned_of_width.
  assert (Hs : kind_signed (unsigned_of k) = false) by (destruct k; reflexivity). rewrite Hs.
  set (m := 2 ^ (8 * Z.of_nat (kind_width k))).
  assert (Hm : 0 < m) by (apply Z.pow_pos_nonneg; lia).
  pose proof (Z.mod_pos_bound x m Hm). lia.
Qed.

Lemma enc_num_net bo wo k x :
  in_kind_range k x = true ->
  enc_num bo wo k x = Ok (if kind_words k then image bo wo (net_bytes k x)
                          else if is_big bo then net_bytes k x else rev (net_bytes k x)).
Proof.
  intros H. unfold enc_num. destruct (kind_words k).
  - now rewrite (pack1_net k x H).
  - destruct bo; cbn [is_big]; [apply pack1_net|apply pack1_little_net]; exact H.
Qed.

(* the builder writes a negative number exactly as it writes its two's-complement pattern *)
Theorem signed_encode bo wo k x :
  in_kind_range k x = true ->
  add_value spec_code bo wo (VNum k x) =
  add_value spec_code bo wo (VNum (unsigned_of k) (x mod 2 ^ (8 * Z.of_nat (kind_width k)))).
Proof.
  intros H. rewrite !add_num_spec.
  rewrite (enc_num_net bo wo k x H), (enc_num_net bo wo (unsigned_of k) _ (in_range_mod k x)).
  rewrite <- signed_bytes. destruct k; reflexivity.
Qed.

(* and the pattern of a negative number is 2^bits + x, with the top bit set *)
Theorem signed_pattern k x :
  kind_signed k = true -> in_kind_range k x = true ->
  let m := 2 ^ (8 * Z.of_nat (kind_width k)) in
  x mod m = (if x <? 0 then x + m else x) /\ (x < 0 <-> m / 2 <= x mod m).
Proof.
  intros Hs Hr m. unfold in_kind_range in Hr. rewrite Hs in Hr. fold m in Hr.
  assert (Hm : 0 < m) by (apply Z.pow_pos_nonneg; lia).
  destruct (x <? 0) eqn:E.
  - assert (Hx : x mod m = x + m).
    { rewrite <- (Z.mod_add x 1 m) by lia. rewrite Z.mod_small; lia. }
    rewrite Hx. split; [reflexivity|]. lia.
  - rewrite Z.mod_small by lia. split; [reflexivity|]. lia.
Qed.

(* ---- two's complement on the decoder side ---- *)

Lemma unpack_one_signed big f fu h u :
  fwidth f = fwidth fu -> fsigned f = true -> fsigned fu = false ->
  unpack_one big fu h = Ok u ->
  unpack_one big f h = Ok (if pow256 (fwidth f) / 2 <=? u then u - pow256 (fwidth f) else u).
Proof.
  intros Hw Hs Hu. unfold unpack_one, unpack, fmt_size. cbn [fold_right]. rewrite Hw.
  destruct (Nat.eqb (length h) (fwidth fu + 0)); [|discriminate]. cbn [bind unpack_go].
  intros H. injection H as <-. unfold unpack1, of_unsigned. rewrite Hs, Hu, Hw. cbn [andb]. reflexivity.
Qed.

(* reading the same bytes with the signed decoder instead of the unsigned one of the same
   width subtracts 2^bits exactly when the top bit is set *)
Theorem signed_decode bo wo k payload ptr u p :
  kind_signed k = true ->
  decode1 spec_code bo wo (TNum (unsigned_of k)) payload ptr = Ok (VNum (unsigned_of k) u, p) ->
  let m := 2 ^ (8 * Z.of_nat (kind_width k)) in
  decode1 spec_code bo wo (TNum k) payload ptr = Ok (VNum k (if m / 2 <=? u then u - m else u), p).
Proof.
  assert (Hbo : prefix_big (endian_str spec_code bo) = Ok (is_big bo)) by (destruct bo; reflexivity).
  intros Hs H m. destruct k; try discriminate Hs; cbn [unsigned_of] in H; unfold decode1 in *.
  - change (get_method (dec_name (TNum KU8)) (pc_dec spec_code)) with (@Ok dec_shape (DecDirect 1 1 "B")) in H.
    change (get_method (dec_name (TNum KI8)) (pc_dec spec_code)) with (@Ok dec_shape (DecDirect 1 1 "b")).
    cbn [bind run_dec_num] in *. rewrite Hbo in *. cbn [bind] in *.
    change (fmt_of_char "B") with (@Ok fmtc FB) in H. change (fmt_of_char "b") with (@Ok fmtc Fb). cbn [bind] in *.
    destruct (unpack_one (is_big bo) FB (handle_of payload (ptr + 1) 1)) as [x|] eqn:E; [|discriminate].
    cbn [bind] in H. injection H as <- <-.
    rewrite (unpack_one_signed _ Fb FB _ _ eq_refl eq_refl eq_refl E). reflexivity.
  - change (get_method (dec_name (TNum KU16)) (pc_dec spec_code)) with (@Ok dec_shape (DecDirect 2 2 "H")) in H.
    change (get_method (dec_name (TNum KI16)) (pc_dec spec_code)) with (@Ok dec_shape (DecDirect 2 2 "h")).
    cbn [bind run_dec_num] in *. rewrite Hbo in *. cbn [bind] in *.
    change (fmt_of_char "H") with (@Ok fmtc FH) in H. change (fmt_of_char "h") with (@Ok fmtc Fh). cbn [bind] in *.
    destruct (unpack_one (is_big bo) FH (handle_of payload (ptr + 2) 2)) as [x|] eqn:E; [|discriminate].
    cbn [bind] in H. injection H as <- <-.
    rewrite (unpack_one_signed _ Fh FH _ _ eq_refl eq_refl eq_refl E). reflexivity.
  - change (get_method (dec_name (TNum KU32)) (pc_dec spec_code)) with (@Ok dec_shape (DecWords 4 4 "I" "!")) in H.
    change (get_method (dec_name (TNum KI32)) (pc_dec spec_code)) with (@Ok dec_shape (DecWords 4 4 "i" "!")).
    cbn [bind run_dec_num] in *.
    change (run_words spec_code (pc_unpack_words spec_code) bo wo "I" (handle_of payload (ptr + 4) 4))
      with (run_words spec_code (pc_unpack_words spec_code) bo wo "i" (handle_of payload (ptr + 4) 4)) in H.
    destruct (run_words spec_code (pc_unpack_words spec_code) bo wo "i" (handle_of payload (ptr + 4) 4)) as [h|]; [|discriminate].
    cbn [bind] in *. change (prefix_big "!") with (@Ok bool true) in *. cbn [bind] in *.
    change (fmt_of_char "I") with (@Ok fmtc FI) in H. change (fmt_of_char "i") with (@Ok fmtc Fi). cbn [bind] in *.
    destruct (unpack_one true FI h) as [x|] eqn:E; [|discriminate].
    cbn [bind] in H. injection H as <- <-.
    rewrite (unpack_one_signed _ Fi FI _ _ eq_refl eq_refl eq_refl E). reflexivity.
  - change (get_method (dec_name (TNum KU64)) (pc_dec spec_code)) with (@Ok dec_shape (DecWords 8 8 "Q" "!")) in H.
    change (get_method (dec_name (TNum KI64)) (pc_dec spec_code)) with (@Ok dec_shape (DecWords 8 8 "q" "!")).
    cbn [bind run_dec_num] in *.
    change (run_words spec_code (pc_unpack_words spec_code) bo wo "Q" (handle_of payload (ptr + 8) 8))
      with (run_words spec_code (pc_unpack_words spec_code) bo wo "q" (handle_of payload (ptr + 8) 8)) in H.
    destruct (run_words spec_code (pc_unpack_words spec_code) bo wo "q" (handle_of payload (ptr + 8) 8)) as [h|]; [|discriminate].
    cbn [bind] in *. change (prefix_big "!") with (@Ok bool true) in *. cbn [bind] in *.
    change (fmt_of_char "Q") with (@Ok fmtc FQ) in H. change (fmt_of_char "q") with (@Ok fmtc Fq). cbn [bind] in *.
    destruct (unpack_one true FQ h) as [x|] eqn:E; [|discriminate].
    cbn [bind] in H. injection H as <- <-.
    rewrite (unpack_one_signed _ Fq FQ _ _ eq_refl eq_refl eq_refl E). reflexivity.
Qed.

(* ---- the repack option of the builder (non-default) ---- *)

(* with byte order Big, to_registers(repack=True) is to_registers() *)
Lemma to_registers_repack_big s : to_registers spec_code Big true s = to_registers spec_code Big false s.
Proof. reflexivity. Qed.

(* ---- coils: to_coils -> fromCoils carries the (padded) payload ---- *)

Definition msb8 (x : N) : list bool := bits_msb 8 (Z.of_N x).

Lemma testbit_low A B i : 0 <= B < 256 -> 0 <= i < 8 -> Z.testbit (A * 256 + B) i = Z.testbit B i.
Proof.
  intros HB Hi. rewrite <- (Z.mod_pow2_bits_low (A * 256 + B) 8 i) by lia.
  change (2 ^ 8) with 256. rewrite Z.add_comm, Z.mod_add by lia. rewrite Z.mod_small by lia. reflexivity.
Qed.

Lemma testbit_high A B i : 0 <= B < 256 -> 0 <= i -> Z.testbit (A * 256 + B) (i + 8) = Z.testbit A i.
Proof.
  intros HB Hi. rewrite <- Z.div_pow2_bits by lia. change (2 ^ 8) with 256.
  rewrite Z.add_comm, Z.div_add by lia. rewrite Z.div_small by lia. reflexivity.
Qed.

Lemma bits_msb_word a b :
  wfb [a; b] = true -> bits_msb 16 (word_val [a; b]) = msb8 a ++ msb8 b.
Proof.
  intros Hw. cbn [wfb forallb] in Hw. rewrite andb_true_r in Hw. apply andb_true_iff in Hw as [Ha Hb].
  apply byteb_lt in Ha. apply byteb_lt in Hb.
  rewrite word_val_be. unfold rd_be16, msb8.
  set (A := Z.of_N a). set (B := Z.of_N b). assert (HB : 0 <= B < 256) by (unfold B; lia).
  change (bits_msb 16 (A * 256 + B)) with
    [Z.testbit (A * 256 + B) (7 + 8); Z.testbit (A * 256 + B) (6 + 8); Z.testbit (A * 256 + B) (5 + 8);
     Z.testbit (A * 256 + B) (4 + 8); Z.testbit (A * 256 + B) (3 + 8); Z.testbit (A * 256 + B) (2 + 8);
     Z.testbit (A * 256 + B) (1 + 8); Z.testbit (A * 256 + B) (0 + 8);
     Z.testbit (A * 256 + B) 7; Z.testbit (A * 256 + B) 6; Z.testbit (A * 256 + B) 5; Z.testbit (A * 256 + B) 4;
     Z.testbit (A * 256 + B) 3; Z.testbit (A * 256 + B) 2; Z.testbit (A * 256 + B) 1; Z.testbit (A * 256 + B) 0].
  rewrite !(testbit_high A B) by lia. rewrite !(testbit_low A B) by lia. reflexivity.
Qed.

Lemma to_coils_bytes n s :
  length s = (2 * n)%nat -> wfb s = true ->
  to_coils spec_code (map word_val (words16 s)) = flat_map msb8 s.
Proof.
  revert s. unfold to_coils. change (pc_coil_bits spec_code) with 16%nat.
  apply (even_list_ind (fun s => wfb s = true ->
           flat_map (bits_msb 16) (map word_val (words16 s)) = flat_map msb8 s)); [reflexivity|].
  intros a b t IH Hw. change (a :: b :: t) with ([a; b] ++ t) in Hw. rewrite wfb_app in Hw.
  apply andb_true_iff in Hw as [Hab Ht].
  cbn [words16 map flat_map]. rewrite (bits_msb_word a b Hab), (IH Ht), <- app_assoc. reflexivity.
Qed.

Lemma msb8_explicit x : exists c0 c1 c2 c3 c4 c5 c6 c7, msb8 x = [c0; c1; c2; c3; c4; c5; c6; c7].
Proof. unfold msb8. cbn [bits_msb]. repeat eexists. Qed.

Lemma chunks8_flat_map_msb8 s : chunks8 (flat_map msb8 s) = map msb8 s.
Proof.
  induction s as [|x t IH]; [reflexivity|]. cbn [flat_map map].
  destruct (msb8_explicit x) as (c0 & c1 & c2 & c3 & c4 & c5 & c6 & c7 & E). rewrite E.
  cbn [app chunks8]. now rewrite IH.
Qed.

Lemma length_flat_map_msb8 s : length (flat_map msb8 s) = (8 * length s)%nat.
Proof.
  induction s as [|x t IH]; [reflexivity|]. cbn [flat_map]. rewrite app_length, IH.
  destruct (msb8_explicit x) as (c0 & c1 & c2 & c3 & c4 & c5 & c6 & c7 & E). rewrite E. cbn [length]. lia.
Qed.

Lemma all_bytes_check :
  forallb (fun x => list_eqb N.eqb (pack_bitstring (rev (msb8 x))) [x]) (map N.of_nat (seq 0 256)) = true.
Proof. vm_compute. reflexivity. Qed.

Lemma list_eqb_N_eq (a b : list N) : list_eqb N.eqb a b = true -> a = b.
Proof.
  revert b. induction a as [|x a IH]; intros [|y b] H; try discriminate; [reflexivity|].
  cbn [list_eqb] in H. apply andb_true_iff in H as [H1 H2]. apply N.eqb_eq in H1. subst. f_equal. now apply IH.
Qed.

Lemma pack_rev_msb8 x : byteb x = true -> pack_bitstring (rev (msb8 x)) = [x].
Proof.
  intros Hx. apply byteb_lt in Hx. pose proof all_bytes_check as H. rewrite forallb_forall in H.
  apply list_eqb_N_eq, H. apply in_map_iff. exists (N.to_nat x). split; [apply N2Nat.id|].
  apply in_seq. lia.
Qed.

Theorem from_coils_to_coils n s :
  length s = (2 * n)%nat -> wfb s = true ->
  from_coils spec_code (to_coils spec_code (map word_val (words16 s))) = Ok s.
Proof.
  intros Hl Hw. rewrite (to_coils_bytes n s Hl Hw). unfold from_coils.
  change (pc_from_coils_mod spec_code) with 8%nat. cbn [Nat.eqb].
  rewrite length_flat_map_msb8. replace (Nat.modulo (8 * length s) 8) with 0%nat
    by (symmetry; rewrite Nat.mul_comm; apply Nat.mod_mul; lia).
  cbn [repeat app]. rewrite chunks8_flat_map_msb8. f_equal.
  clear Hl. induction s as [|x t IH]; [reflexivity|].
  cbn [wfb forallb] in Hw. apply andb_true_iff in Hw as [Hx Ht]. fold (wfb t) in Ht.
  cbn [map flat_map]. rewrite (pack_rev_msb8 x Hx), (IH Ht). reflexivity.
Qed.

(* ================================================================= part 3: the generated code *)

(* The tie to the source: what the translator extracted from payload.py / constants.py on
   this run is exactly the layout the method names promise.  Any change of a format
   character, width, pointer increment, word-order test, pad, register format … breaks
   this [reflexivity]. *)
Lemma code_is_spec : GenPayload.code = spec_code.
Proof. reflexivity. Qed.

Notation code := GenPayload.code.

Theorem roundtrip_code bo wo vs :
  wf_values vs = true ->
  exists s, to_string code bo wo vs = Ok s /\ decode_seq code bo wo (types vs) s = Ok (vs, length s).
Proof. rewrite code_is_spec. apply roundtrip_spec. Qed.

Theorem roundtrip_general_code bo wo vs post :
  forallb in_domain vs = true ->
  exists s, to_string code bo wo vs = Ok s /\
            decode_seq code bo wo (types vs) (s ++ post) = Ok (map decoded vs, length s).
Proof. rewrite code_is_spec. apply roundtrip_general. Qed.

Theorem via_registers_code bo wo vs :
  wf_values vs = true ->
  exists s regs p, to_string code bo wo vs = Ok s /\
    to_registers code bo false s = Ok regs /\
    from_registers code regs = Ok p /\
    p = s ++ (if Nat.odd (length s) then [0%N] else []) /\
    decode_seq code bo wo (types vs) p = Ok (vs, length s).
Proof. rewrite code_is_spec. apply via_registers_spec. Qed.

Theorem registers_carry_payload_code bo s :
  wfb s = true ->
  exists regs, to_registers code bo false s = Ok regs /\
               regs = regs_of (s ++ (if Nat.odd (length s) then [0%N] else [])) /\
               from_registers code regs = Ok (s ++ (if Nat.odd (length s) then [0%N] else [])).
Proof.
  rewrite code_is_spec. intros H. destruct (registers_roundtrip bo s H) as (regs & Hr & Hf).
  exists regs. rewrite <- reg_pad_cases. repeat split; try assumption.
  rewrite to_registers_spec in Hr. injection Hr as <-. apply regs_of_word_val.
Qed.

Theorem image_code bo wo k x :
  (2 <= kind_width k)%nat -> in_kind_range k x = true ->
  add_value code bo wo (VNum k x) = Ok (image bo wo (net_bytes k x)).
Proof. rewrite code_is_spec. apply image_spec. Qed.

Theorem register_image_code bo wo k x :
  (2 <= kind_width k)%nat -> in_kind_range k x = true ->
  exists s, to_string code bo wo [VNum k x] = Ok s /\
            s = image bo wo (net_bytes k x) /\
            to_registers code bo false s = Ok (regs_of s).
Proof. rewrite code_is_spec. apply register_image_spec. Qed.

Theorem signed_encode_code bo wo k x :
  in_kind_range k x = true ->
  add_value code bo wo (VNum k x) =
  add_value code bo wo (VNum (unsigned_of k) (x mod 2 ^ (8 * Z.of_nat (kind_width k)))).
Proof. rewrite code_is_spec. apply signed_encode. Qed.

(* out-of-range numbers make the builder raise (struct.error), never wrap silently *)
Theorem out_of_range_raises_code bo wo k x :
  in_kind_range k x = false -> add_value code bo wo (VNum k x) = Raise StructError.
Proof.
  rewrite code_is_spec. intros H. rewrite add_num_spec. unfold enc_num, pack1.
  rewrite !kind_fmt_range, H. destruct (kind_words k); reflexivity.
Qed.

(* ---- repack=True: registers are read with the builder's byte order, fromRegisters always
        writes them big-endian: under byte order Little the bytes of every word come back swapped ---- *)

Definition via_registers_statement (repack : bool) (bo wo : endian) (vs : list value) : Prop :=
  exists s regs p, to_string code bo wo vs = Ok s /\
    to_registers code bo repack s = Ok regs /\
    from_registers code regs = Ok p /\
    decode_seq code bo wo (types vs) p = Ok (vs, length s).

Theorem via_registers_repack_partial repack bo wo vs :
  (repack = true -> bo = Big) -> wf_values vs = true -> via_registers_statement repack bo wo vs.
Proof.
  intros Hb H. destruct (via_registers_code bo wo vs H) as (s & regs & p & Hs & Hr & Hf & _ & Hd).
  exists s, regs, p. repeat split; try assumption.
  destruct repack; [|exact Hr]. rewrite (Hb eq_refl) in *. rewrite code_is_spec in *.
  rewrite to_registers_repack_big. exact Hr.
Qed.

Theorem via_registers_repack_refuted :
  exists bo wo vs, wf_values vs = true /\ ~ via_registers_statement true bo wo vs.
Proof.
  exists Little, Big, [U16 0x1234]. split; [reflexivity|].
  intros (s & regs & p & Hs & Hr & Hf & Hd).
  vm_compute in Hs. injection Hs as <-. vm_compute in Hr. injection Hr as <-.
  vm_compute in Hf. injection Hf as <-. vm_compute in Hd. discriminate Hd.
Qed.

(* ---- coil transport (to_coils -> fromCoils; not named by the property text):
        fromCoils drops its wordorder argument, the decoder it returns has word order Big ---- *)

Definition via_coils (bo wo : endian) (vs : list value) : res (list value * nat) :=
  do s <- to_string code bo wo vs;
  do regs <- to_registers code bo false s;
  do p <- from_coils code (to_coils code regs);
  decode_seq code bo (from_coils_wordorder code wo) (types vs) p.

Theorem via_coils_refuted :
  exists bo wo vs, wf_values vs = true /\ via_coils bo wo vs = Ok ([U32 0x33441122], 4%nat) /\ vs = [U32 0x11223344].
Proof. exists Big, Little, [U32 0x11223344]. vm_compute. repeat split. Qed.

(* with word order Big (the one the decoder silently gets) the coil transport is faithful *)
Theorem via_coils_partial bo vs :
  wf_values vs = true ->
  exists s, to_string code bo Big vs = Ok s /\ via_coils bo Big vs = Ok (vs, length s).
Proof.
  intros H. unfold via_coils. rewrite code_is_spec.
  destruct (via_registers_general bo Big vs (wf_values_domain vs H)) as (s & regs & Hs & Hr & _ & Hd).
  exists s. split; [exact Hs|]. rewrite Hs. cbn [bind]. rewrite Hr. cbn [bind].
  rewrite to_registers_spec in Hr. injection Hr as <-.
  rewrite (from_coils_to_coils (Nat.div (length s + 1) 2)); [|apply padded_even|].
  - cbn [bind]. change (from_coils_wordorder spec_code Big) with Big.
    rewrite Hd, map_decoded_wf by exact H. reflexivity.
  - rewrite wfb_app, reg_pad_wfb, andb_true_r. apply (to_string_wfb bo Big vs s (wf_values_domain vs H) Hs).
Qed.

Theorem signed_decode_code bo wo k payload ptr u p :
  kind_signed k = true ->
  decode1 code bo wo (TNum (unsigned_of k)) payload ptr = Ok (VNum (unsigned_of k) u, p) ->
  let m := 2 ^ (8 * Z.of_nat (kind_width k)) in
  decode1 code bo wo (TNum k) payload ptr = Ok (VNum k (if m / 2 <=? u then u - m else u), p).
Proof. rewrite code_is_spec. apply signed_decode. Qed.
