(* Props/C03_rtubin.v — C03, RTU / binary half: CRC-16/Modbus and the two CRC framings.
   ONLY statements; proofs are in proofs/Crc_proofs.v, proofs/FrB_*_proofs.v.
   [py_crc], [rtu_build], [rtu_recv], [bin_build], [bin_recv], [frame_size] are the models
   instantiated with the constants regenerated from utilities.py, rtu_framer.py,
   binary_framer.py and the class attributes of every registered message class
   (Generated/GenFramerB.v); [crc16_bitwise], [spec_adu_*], [spec_rx_*] are the spec side. *)
From PM.theories Require Import Base Expr Struct FrBCode Crc FrBCommon FrRtu FrBin FrSpecB.
From PM.Generated Require Import GenFramerB.
From PM.proofs Require Import Crc_proofs FrB_witness_proofs FrB_rtu_proofs FrB_bin_proofs FrB_rtu_client_proofs.
Open Scope list_scope.
Open Scope N_scope.

(* every one of the 256 entries of the table built by __generate_crc16_table is eight
   rounds of the bitwise step (shift right, xor 0xA001 when a 1 was shifted out) *)
Theorem C03_crc_table : forall i, i < 256 ->
  nth_error py_gen_table (N.to_nat i) = Some (Z.of_N (iter_shift 8 i)).
Proof. exact crc_table_entries. Qed.
Print Assumptions C03_crc_table.

(* computeCRC = bitwise CRC-16/Modbus (init 0xFFFF, poly 0xA001 reflected, LSB first), with
   the two bytes exchanged, for every byte string *)
Theorem C03_crc : forall bs, wfb bs = true ->
  py_crc bs = Ok (Z.of_N (swap16 (crc16_bitwise bs))).
Proof. exact py_crc_bitwise. Qed.
Print Assumptions C03_crc.

Theorem C03_check_crc : forall bs k, wfb bs = true ->
  py_check_crc bs k = Ok (Z.of_N (swap16 (crc16_bitwise bs)) =? k)%Z.
Proof. exact py_check_crc_spec. Qed.
Print Assumptions C03_check_crc.

(* the standard check value: "123456789" -> 0x4B37 (returned byte-swapped as 0x374B) *)
Example C03_crc_check_value :
  py_crc [49; 50; 51; 52; 53; 54; 55; 56; 57] = Ok 14155%Z /\
  crc16_bitwise [49; 50; 51; 52; 53; 54; 55; 56; 57] = 19255.
Proof. exact crc_check_value. Qed.

(* buildPacket of the RTU framer = unit, PDU, CRC-16 low byte first: every unit id, every
   function code, every payload *)
Theorem C03_build_rtu : forall uid fc data, uid < 256 -> fc < 256 -> wfb data = true ->
  rtu_build (Z.of_N uid) (Z.of_N fc) data = Ok (spec_adu_rtu uid (fc :: data)).
Proof. exact rtu_build_spec. Qed.
Print Assumptions C03_build_rtu.

(* a unit id outside 0..255 cannot be framed (struct.error) *)
Theorem C03_build_rtu_bad_unit : forall uid fc data, ~ (0 <= uid < 256)%Z ->
  rtu_build uid fc data = Raise StructError.
Proof. exact rtu_build_bad_unit. Qed.
Print Assumptions C03_build_rtu_bad_unit.

(* the RTU size oracle returns the true frame length whenever the frame has the shape its
   class attribute describes: fixed size, or a byte count at position p *)
Theorem C03_rtu_size_oracle : forall r f,
  (r = RFixed (zlen f)) \/
  (exists p b, r = RByteCount p /\ (0 <= p)%Z /\ nth_error f (Z.to_nat p) = Some b /\ (zb b = zlen f - p - 3)%Z) ->
  frame_size r f = Ok (zlen f).
Proof. exact size_oracle_shape. Qed.
Print Assumptions C03_rtu_size_oracle.

(* ... it is stable when more bytes follow and never takes a strict prefix for a whole frame *)
Theorem C03_rtu_size_oracle_stable : forall r f q, simple_rule r = true -> frame_size r f = Ok (zlen f) ->
  frame_size r (f ++ q) = Ok (zlen f) /\
  (forall b q', f = b ++ q' -> frame_size r b = Raise IndexError \/ frame_size r b = Ok (zlen f)).
Proof. exact simple_rule_oracle. Qed.
Print Assumptions C03_rtu_size_oracle_stable.

(* a whole valid frame handed to a fresh receiver is delivered exactly once, unit id kept,
   nothing left in the buffer: every unit id, every class whose size oracle is right for
   this frame ([valid_frame _ true]: PDU accepted by the decoder, unit accepted by the filter) *)
Theorem C03_whole_frame_rtu : forall cfg u pdu, valid_frame cfg true u pdu ->
  rtu_recv cfg rtu_init (spec_adu_rtu u pdu) = ({| r_buf := []; r_hdr := hdr_empty |}, [(pdu, Z.of_N u)], FOk).
Proof. exact rtu_whole_frame. Qed.
Print Assumptions C03_whole_frame_rtu.

(* ... and to ANY state reachable from rtu_init by rtu_recv / resetFrame ([rtu_inv]) whose buffer
   is empty, whatever header is left over *)
Theorem C03_whole_frame_rtu_any_state : forall cfg st u pdu,
  rtu_inv st -> r_buf st = [] -> valid_frame cfg true u pdu ->
  rtu_recv cfg st (spec_adu_rtu u pdu) = ({| r_buf := []; r_hdr := hdr_empty |}, [(pdu, Z.of_N u)], FOk).
Proof. exact rtu_whole_frame_any. Qed.
Print Assumptions C03_whole_frame_rtu_any_state.

(* [rtu_inv] (header {} , the initial dict, or populated over a non-empty buffer) is an invariant
   for decoder tables with prefix-stable size rules: initial state, resetFrame, every call whatever
   its exit; the request table and the response table minus FIFO / MEI are such tables *)
Theorem C03_rtu_invariant :
  rtu_inv rtu_init /\ (forall st, rtu_inv (rtu_reset st)) /\
  (forall cfg st chunk st' ds x, table_simple (cf_rules cfg) = true -> wfb (r_buf st ++ chunk) = true ->
     rtu_inv st -> rtu_recv cfg st chunk = (st', ds, x) -> rtu_inv st') /\
  table_simple server_decoder = true /\ table_simple client_simple = true /\
  (forall fc, fc <> 24%Z -> fc <> 43%Z -> lookup_rule client_simple fc = lookup_rule client_decoder fc).
Proof.
  split; [exact rtu_inv_init|]. split; [exact rtu_inv_reset|]. split; [exact rtu_inv_recv|].
  split; [exact server_simple_ok|]. split; [exact client_simple_ok|exact client_simple_lookup].
Qed.
Print Assumptions C03_rtu_invariant.

Example C03_nonvacuous :
  let cfg := {| cf_dec := fun _ => DMsg; cf_rules := server_decoder; cf_units := [1%Z]; cf_single := false |} in
  valid_frame cfg true 1 [3; 0; 1; 0; 2] /\ valid_frame cfg true 1 [16; 0; 1; 0; 1; 2; 123; 125] /\
  valid_frame cfg false 9 [3; 0; 1; 0; 2].
Proof. exact valid_frame_example. Qed.

(* ---- the full statement for one framing, kept visible *)
Definition C03_full_statement_binary : Prop :=
  forall (dec : bytes -> dres) uid fc data, wfb data = true -> (uid < 256) -> (fc < 256) ->
    dec (fc :: data) = DMsg ->
    let cfg := {| cf_dec := dec; cf_rules := server_decoder; cf_units := []; cf_single := true |} in
    bin_build (Z.of_N uid) (Z.of_N fc) data = Ok (spec_adu_binary uid (fc :: data)) /\
    bin_recv cfg bin_init (spec_adu_binary uid (fc :: data)) = (bin_init, [(fc :: data, Z.of_N uid)], FOk).

(* binary framer, strongest true statement: when neither unit, PDU nor CRC contains a delimiter
   ([no_delim]) the packet built is the specified '{' ... '}' frame, and handed whole to a receiver
   (fresh, or in any state whose buffer is empty) it is delivered exactly once, unit id kept *)
Theorem C03_binary_partial_build : forall uid fc data, uid < 256 -> fc < 256 -> wfb data = true ->
  no_delim (with_crc (uid :: fc :: data)) = true ->
  bin_build (Z.of_N uid) (Z.of_N fc) data = Ok (spec_adu_binary uid (fc :: data)).
Proof. exact bin_build_spec. Qed.
Print Assumptions C03_binary_partial_build.

Theorem C03_binary_partial : forall cfg u pdu, valid_bframe cfg u pdu ->
  bin_recv cfg bin_init (spec_adu_binary u pdu) = (bin_init, [(pdu, Z.of_N u)], FOk).
Proof. exact bin_whole_frame. Qed.
Print Assumptions C03_binary_partial.

Example C03_binary_nonvacuous :
  let cfg := {| cf_dec := fun _ => DMsg; cf_rules := server_decoder; cf_units := [1%Z]; cf_single := false |} in
  valid_bframe cfg 1 [3; 0; 1; 0; 2].
Proof. exact valid_bframe_example. Qed.

(* binary framer: refuted — a register value 0x7B7D is doubled by the sender, never un-doubled
   by the receiver; nothing is delivered (finding F-C03-binary-escaping) *)
Theorem C03_binary_refuted :
  let pdu := [6; 0; 5; 123; 125] in
  exists packet, bin_build 1 6 [0; 5; 123; 125] = Ok packet /\
    packet <> spec_adu_binary 1 pdu /\
    bin_recv cfg_server bin_init packet = (bin_init, [], FOk) /\
    spec_rx_binary (spec_adu_binary 1 pdu) = Some (pdu, 1).
Proof. exact binary_escaping_witness. Qed.
Print Assumptions C03_binary_refuted.

(* RTU size oracle: refuted for diagnostics with other than one data word
   (finding F-C03-rtu-size-oracle) *)
Theorem C03_rtu_size_oracle_refuted :
  let frame := spec_adu_rtu 1 [8; 0; 0; 0; 1; 0; 2] in
  frame_size (lookup_rule server_decoder 8) frame = Ok 8%Z /\ length frame = 10%nat /\
  crc_ok frame = true /\
  rtu_recv cfg_server rtu_init frame = (rtu_reset rtu_init, [], FOk).
Proof. exact rtu_size_oracle_witness. Qed.
Print Assumptions C03_rtu_size_oracle_refuted.
