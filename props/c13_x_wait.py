"""C13 add-on: ModbusSerialClient._wait_for_data (Props/C13_wait.v, gen/gen_waitdata.py, coq/theories/WaitData.v).

The REAL method runs on a fake serial port whose `in_waiting` follows a script (afterwards the last value repeats) under
a virtual clock (the module's time.time / time.sleep are patched: sleep advances the clock, nothing else does);
observed = (size returned, polls made), or that it was still polling after the poll budget."""
import types

from lib import common
from lib.coqrun import z
from lib.main import Case, Suite

GENERATORS = ["waitdata"]
PROP_FILES = ["C13_wait"]
CASE_DEPS = ["theories/CorrWaitData.vo", "Generated/GenWaitData.vo"]
TRUSTED = ["generated from source: the tests, comparison operator and sleep constant of _wait_for_data and the shape of "
           "ModbusSerialClient._recv (GenWaitData.v)",
           "modelled: the virtual clock is advanced by time.sleep only (a poll costs no time); in_waiting is an arbitrary "
           "function of the poll number"]
MANIFEST_ADD = {"text": "Add-on Props/C13_wait.v: the serial client's polling loop _wait_for_data over its generated code: with a "
                        "timeout set it ends after at most timeout/sleep + 1 polls whatever the line does "
                        "(C13_wait_terminates), what it hands to socket.read is 0 or a value in_waiting really showed, a reply "
                        "that arrived and stopped growing is read after three polls; without a timeout a silent line is "
                        "polled for ever (C13_wait_unbounded_refuted = the open finding).",
                "note": "Virtual time: the poll itself is taken to cost nothing."}
IMPORTS = ("From PM.theories Require Import Base WaitData CorrWaitData.\n"
           "From PM.Generated Require Import GenWaitData.\nOpen Scope Z_scope.\n")
F_HANG = "F-C13-serial-timeout0-wait-for-data-hangs"


class _Hang(Exception):
    pass


def run_wait(timeout_s, script, budget):
    """-> (size, polls) or None (still polling at the budget)"""
    from pymodbus.client import sync as S
    c = S.ModbusSerialClient(method="rtu", port="verif", timeout=timeout_s)
    state = {"t": 1000.0, "polls": 0}

    class Port:
        # the legacy pyserial spelling: `_in_waiting()` probes hasattr(socket, "in_waiting") first (which would run a
        # property getter once more per poll) and then calls inWaiting() exactly once per poll
        def inWaiting(self):
            k = state["polls"]
            state["polls"] += 1
            if state["polls"] > budget:
                raise _Hang()
            return script[k] if k < len(script) else (script[-1] if script else 0)
    c.socket = Port()
    fake_time = types.SimpleNamespace(time=lambda: state["t"],
                                      sleep=lambda d: state.__setitem__("t", state["t"] + d))
    old = S.time
    S.time = fake_time
    try:
        try:
            size = c._wait_for_data()
        except _Hang:
            return None
        return int(size), state["polls"]
    finally:
        S.time = old


def case(timeout_s, script, budget, label):
    res = run_wait(timeout_s, list(script), budget)
    tus = None if not timeout_s else int(round(timeout_s * 1000000))
    term = "{| wt_timeout_us := %s; wt_script := [%s]; wt_budget := %d%%nat; wt_result := %s |}" % (
        "None" if tus is None else "(Some %s)" % z(tus), "; ".join(z(x) for x in script), budget,
        "None" if res is None else "(Some (%s, %d%%nat))" % (z(res[0]), res[1]))
    desc = {"timeout_s": timeout_s, "script": list(script), "budget": budget, "observed": res}
    return Case(term, desc, kind="wait/" + label, nontrivial=res is not None and res[0] > 0)


def suites(tier):
    r = common.rng("C13.wait")
    cases = []
    # timeouts: whole and fractional multiples of the sleep constant, and the boundary elapsed == timeout
    timeouts = [0.01, 0.02, 0.025, 0.03, 0.05, 0.1, 0.3, 1, 3]
    fixed = [[], [0], [0, 0, 0], [5], [5, 5], [0, 5, 5], [0, 5, 0], [0, 3, 8, 8], [1, 2, 3, 4, 5, 6, 7, 8, 9, 10],
             [0, 0, 0, 0, 0, 0, 7, 7], [4, 0], [4, 2, 2], [9, 9, 9, 9]]
    for t in timeouts:
        for sc in fixed:
            cases.append(case(t, sc, 400, "timeout"))
        # bytes trickling in for as long as the wait lasts: only the timeout ends it
        cases.append(case(t, list(range(1, 380)), 400, "growing-for-ever"))
        for _ in range(6 if tier == "quick" else 60):
            n = r.choice([1, 2, 3, 5, 8, 20])
            sc, cur = [], 0
            for _ in range(n):
                cur = r.choice([cur, cur, cur + r.randrange(1, 9), 0 if r.random() < 0.1 else cur])
                sc.append(cur)
            cases.append(case(t, sc, 400, "random"))
    # no timeout (None and 0): ends only through the data
    for t in (None, 0):
        for sc in fixed:
            cases.append(case(t, sc, 60, "no-timeout"))
    return [Suite("waitdata", IMPORTS, "chk_wait code", cases, shard=400)]


def classify(suite, desc):
    if suite == "waitdata" and not desc["timeout_s"] and desc["observed"] is None and not any(desc["script"]):
        return F_HANG
    return None


def replay_case(suite, desc):
    if suite != "waitdata":
        return None
    res = run_wait(desc["timeout_s"], desc["script"], desc["budget"])
    if desc["timeout_s"]:
        tus = int(round(desc["timeout_s"] * 1000000))
        return res is None or res[1] > tus // 10000 + 1 or not (res[0] == 0 or res[0] in desc["script"])
    return res is None
