"""C11 — built in two halves, see props/_split.py, props/fr_tcpascii.py, props/fr_rtubin.py"""
from props import _split
_split.build("C11", ["fr_tcpascii", "fr_rtubin"], globals())
