"""Configuration wiring: the real Start*Server factories, server constructors, decoders and the Twisted client
protocol constructor called with marker arguments (nothing is served: serving loops, the reactor, the event loop
and serial ports are stubbed); what the built objects hold is compared with Generated/GenWiring.v +
GenFrontends.server_wiring (model) and judged against "what the user configured is what serves".

Used by the add-on modules props/c09_x_cfg.py, c10_x_cfg.py, c12_x_cfg.py, c16_x_cfg.py, c17_x_cfg.py."""
import asyncio
import ssl

from lib.coqrun import string
from lib.main import Case, Suite
from props import lib_frontends as L

GENERATORS = ["frontends", "wiring"]
CASE_DEPS = ["theories/CorrWiring.vo", "Generated/GenWiring.vo", "Generated/GenFrontends.vo"]
IMPORTS = ("From PM.theories Require Import Base Ladder Frontends CorrFrontends Wiring CorrWiring.\n"
           "From PM.Generated Require Import GenFrontends GenWiring.\n"
           "Open Scope string_scope. Open Scope list_scope.\n")
TRUSTED = ["hand-modelled, tied by correspondence only: Python's keyword binding of a call against a signature, "
           "`kwargs.pop`, and the truth value of an object (false only through __bool__/__len__ of its class) (Wiring.v)",
           "generated from source: every Start*Server factory (target class, argument binding, popped keys, **kwargs "
           "forwarding, custom-function registration), __bool__/__len__/metaclass facts of every class that travels through an "
           "`x or default`, the per-instance tables of both decoders (GenWiring.v); the constructors' assignments (GenFrontends.server_wiring)",
           "stubs standing in for the runtime: serve_forever of the sync servers, reactor.listenTCP/listenUDP/run, "
           "twisted SerialPort, serial.Serial, loop.create_datagram_endpoint — the factories' own code runs unmodified"]
ASSUMPTIONS = ["user-supplied handler and framer CLASSES declare no metaclass that makes the class object false"]

FACTORIES = ["sync.StartTcpServer", "sync.StartTlsServer", "sync.StartUdpServer", "sync.StartSerialServer",
             "async_io.StartTcpServer", "async_io.StartTlsServer", "async_io.StartUdpServer",
             "asynchronous.StartTcpServer", "asynchronous.StartUdpServer", "asynchronous.StartSerialServer"]
FLAG_DEFAULT = {"ignore_missing_slaves": "IgnoreMissingSlaves", "broadcast_enable": "broadcast_enable"}


def boolean(b):
    return "true" if b else "false"


class FakeSerial:
    def __init__(self, *a, **k):
        pass

    def write(self, b):
        return len(b)

    def read(self, n):
        return b""

    def close(self):
        pass


def _mods():
    from pymodbus.server import sync as S, async_io as A, asynchronous as T
    return {"sync": S, "async_io": A, "asynchronous": T}


def make_ctx(kind):
    from pymodbus.datastore import ModbusServerContext
    if kind == "empty-multi":           # legal: units are attached later with context[unit] = …
        return ModbusServerContext(slaves={}, single=False)
    return L.make_context({"single": True, "units": [0], "size": 4})


def custom_request_class(fc=0x55):
    from pymodbus.pdu import ModbusRequest

    class VerifCustomRequest(ModbusRequest):
        function_code = fc
        _rtu_frame_size = 8

        def __init__(self, **kw):
            ModbusRequest.__init__(self, **kw)

        def encode(self):
            return b""

        def decode(self, data):
            pass
    return VerifCustomRequest


def build_via_factory(name, given, ctxkind="single", flag_value=True):
    """call the REAL factory; -> (built server object or None, markers dict)"""
    from pymodbus.device import ModbusDeviceIdentification
    from pymodbus.transaction import ModbusRtuFramer
    M = _mods()
    mod, fn = name.split(".")
    S, A, T = M["sync"], M["async_io"], M["asynchronous"]
    L.reset_control()
    ctx = make_ctx(ctxkind)

    class MarkFramer(ModbusRtuFramer):
        pass
    target = {"StartTcpServer": "ModbusTcpServer", "StartTlsServer": "ModbusTlsServer", "StartUdpServer": "ModbusUdpServer",
              "StartSerialServer": "ModbusSerialServer"}[fn]
    base_handler = None
    if mod in ("sync", "async_io") and target != "ModbusSerialServer":
        base_handler = getattr(M[mod], "ModbusDisconnectedRequestHandler" if "Udp" in target else "ModbusConnectedRequestHandler")
    MarkHandler = type("MarkHandler", (base_handler,), {}) if base_handler else None
    updates = []
    orig_update = ModbusDeviceIdentification.update
    ModbusDeviceIdentification.update = lambda self, value: (updates.append(value), orig_update(self, value))[1]
    ident = ModbusDeviceIdentification() if given else None
    Custom = custom_request_class()
    kw = {}
    if given:
        kw = dict(framer=MarkFramer, identity=ident, ignore_missing_slaves=flag_value, custom_functions=[Custom])
        if mod != "asynchronous":
            kw["broadcast_enable"] = flag_value
        if MarkHandler is not None:
            kw["handler"] = MarkHandler
    captured = []
    undo = []

    def patch(obj, attr, val):
        had = attr in getattr(obj, "__dict__", {})
        old = getattr(obj, attr, None)
        setattr(obj, attr, val)
        undo.append((obj, attr, old, had))
    loop = None
    srv = None
    try:
        if mod == "sync":
            cls = getattr(S, target)
            patch(cls, "serve_forever", lambda self, *a, **k: captured.append(self))
            if target == "ModbusSerialServer":
                patch(S.serial, "Serial", FakeSerial)
                getattr(S, fn)(ctx if given else None, port="verif", **kw)
            else:
                if target == "ModbusTlsServer":
                    kw["sslctx"] = ssl.SSLContext(ssl.PROTOCOL_TLS_SERVER)
                getattr(S, fn)(ctx if given else None, address=("127.0.0.1", 0), **kw)
            srv = captured[0] if captured else None
        elif mod == "async_io":
            loop = asyncio.new_event_loop()
            loop.create_datagram_endpoint = lambda *a, **k: None
            if target == "ModbusTlsServer":
                kw["sslctx"] = ssl.SSLContext(ssl.PROTOCOL_TLS_SERVER)
            srv = loop.run_until_complete(getattr(A, fn)(ctx if given else None, address=("127.0.0.1", 0), loop=loop, **kw))
        else:
            from twisted.internet import reactor
            patch(reactor, "listenTCP", lambda port, factory, **k: captured.append(factory))
            patch(reactor, "listenUDP", lambda port, proto, **k: captured.append(proto))
            patch(reactor, "run", lambda *a, **k: None)
            if fn == "StartSerialServer":
                import twisted.internet.serialport as SP

                class FakePort:
                    def __init__(self, protocol, *a, **k):
                        captured.append(protocol.factory)
                patch(SP, "SerialPort", FakePort)
                T.StartSerialServer(ctx, defer_reactor_run=True, port="verif", **kw)
            else:
                getattr(T, fn)(ctx, address=("127.0.0.1", 0), defer_reactor_run=True, **kw)
            srv = captured[0] if captured else None
        return srv, {"flag_value": flag_value, "ctx": ctx, "MarkFramer": MarkFramer, "MarkHandler": MarkHandler, "ident": ident,
                     "updates": list(updates), "Custom": Custom, "mod": mod, "target": target}
    finally:
        for obj, attr, old, had in reversed(undo):
            if had:
                setattr(obj, attr, old)
            else:
                try:
                    delattr(obj, attr)
                except AttributeError:
                    setattr(obj, attr, old)
        ModbusDeviceIdentification.update = orig_update
        try:
            if mod == "sync" and target != "ModbusSerialServer" and srv is not None:
                srv.server_close()
            if mod == "async_io" and srv is not None and getattr(srv, "server_factory", None) is not None:
                srv.server_factory.close()
            if loop is not None:
                loop.close()
        except Exception:  # noqa: BLE001
            pass
        L.reset_control()


def observe(srv, m, given):
    """what the serving code will read from the built object, role by role: (is the user's marker, else what)"""
    from pymodbus.constants import Defaults
    from pymodbus.datastore import ModbusServerContext
    from pymodbus.factory import ServerDecoder
    mod, target = m["mod"], m["target"]
    obs = {}
    c = getattr(srv, "store", None) if mod == "asynchronous" else getattr(srv, "context", None)
    obs["context"] = (c is m["ctx"], "ModbusServerContext()" if isinstance(c, ModbusServerContext) and c is not m["ctx"] else repr(type(c)))
    f = getattr(srv, "framer", None)
    if mod == "asynchronous" and target == "ModbusUdpServer":
        obs["framer"] = (isinstance(f, m["MarkFramer"]), type(f).__name__)
    else:
        obs["framer"] = (f is m["MarkFramer"], getattr(f, "__name__", repr(f)))
    if mod != "asynchronous":
        h = getattr(srv, "handler", None)
        if target == "ModbusSerialServer":
            ok = h is not None and h.server is srv
            obs["handler"] = (False, type(h).__name__ if ok else "broken:" + repr(h))
        else:
            obs["handler"] = (h is m["MarkHandler"], getattr(h, "__name__", repr(h)))
    for flag, dname in FLAG_DEFAULT.items():
        if flag == "broadcast_enable" and mod == "asynchronous":
            continue
        v = getattr(srv, flag, "MISSING")
        fv = m.get("flag_value", True)
        served = (v is fv) or (type(v) is type(fv) and v == fv)          # the very value the user passed (1 stays 1)
        obs[flag] = (bool(given) and served, "Defaults." + dname if v == getattr(Defaults, dname) and not (given and served) else repr(v))
    obs["identity"] = (bool(given) and any(v is m["ident"] for v in m["updates"]), "no update" if not m["updates"] else "updated")
    if given:
        fc = m["Custom"].function_code
        here = srv.decoder.lookupPduClass(fc) is m["Custom"]
        leaked = ServerDecoder().lookupPduClass(fc) is m["Custom"]
        obs["custom"] = (here, "leaked" if leaked else "local")
    return obs


def factory_cases():
    cases = []
    for name in FACTORIES:
        for given, ctxkind, fv in ((True, "single", True), (True, "empty-multi", True), (True, "single", 1), (False, "single", True)):
            if not given and name.startswith("asynchronous."):
                continue                                   # the Twisted factories require a context
            try:
                srv, m = build_via_factory(name, given, ctxkind, flag_value=fv)
                if srv is None:
                    raise RuntimeError("factory built nothing")
                obs = observe(srv, m, given)
            except Exception as e:  # noqa: BLE001 — a factory that no longer works is reported role by role
                obs = {r: (False, "factory raised %s: %s" % (type(e).__name__, str(e)[:80]))
                       for r in ("context", "framer", "ignore_missing_slaves", "identity")}
            for role, (og, od) in sorted(obs.items()):
                g = given and not (name == "sync.StartSerialServer" and role == "handler")
                term = "{| fc_factory := %s; fc_role := %s; fc_given := %s; fc_obs_given := %s; fc_obs_default := %s |}" % (
                    string(name), string(role), boolean(g), boolean(og), string(od))
                cases.append(Case(term, {"factory": name, "role": role, "given": g, "context": ctxkind, "flag_value": repr(fv),
                                         "observed_is_given": og, "observed": od},
                                  kind="factory/%s" % name, nontrivial=True,
                                  key=(name, role, g, ctxkind, repr(fv))))
    return cases


# ----------------------------------------------------------------------------- truthiness

def truth_cases():
    """values that user-level code might call "empty" handed to every `x or default` site: they must be kept"""
    from pymodbus.client.asynchronous import twisted as tw
    from pymodbus.datastore import ModbusSlaveContext, ModbusSequentialDataBlock, ModbusSparseDataBlock
    from pymodbus.factory import ClientDecoder
    from pymodbus.transaction import (ModbusSocketFramer, ModbusRtuFramer, ModbusAsciiFramer, ModbusBinaryFramer)
    from props import c12
    out = []

    def add(site, cls, kept, extra=None):
        term = "{| tc_site := %s; tc_class := %s; tc_kept := %s |}" % (string(site), string(cls), boolean(kept))
        d = {"site": site, "class": cls, "kept": kept}
        d.update(extra or {})
        out.append(Case(term, d, kind="truth/%s" % cls, nontrivial=True, key=(site, cls)))
    # server constructors with an EMPTY multi-unit context
    for name in c12.SERVER_CLASSES:
        try:
            kept = construct_with_context(name, "empty-multi")
        except Exception as e:  # noqa: BLE001
            kept = False
            add(name, "ModbusServerContext", kept, {"error": "%s: %s" % (type(e).__name__, str(e)[:80])})
            continue
        add(name, "ModbusServerContext", kept)
    # Twisted client protocol with framer INSTANCES whose buffer is empty
    for F in (ModbusSocketFramer, ModbusRtuFramer, ModbusAsciiFramer, ModbusBinaryFramer):
        inst = F(ClientDecoder())
        for pname in ("ModbusClientProtocol", "ModbusTcpClientProtocol", "ModbusSerClientProtocol"):
            P = getattr(tw, pname)
            try:
                p = P(framer=inst)
                kept = p.framer is inst
            except Exception:  # noqa: BLE001
                kept = False
            add("twisted." + pname, F.__name__, kept)
    # ModbusSlaveContext.register(fc, fx, datablock) with blocks
    for B, mk in ((ModbusSequentialDataBlock, lambda: ModbusSequentialDataBlock(0, [0])),
                  (ModbusSparseDataBlock, lambda: ModbusSparseDataBlock({0: 0}))):
        sc = ModbusSlaveContext()
        blk = mk()
        sc.register(0x55, "x", blk)
        add("ModbusSlaveContext.register", B.__name__, sc.store["x"] is blk)
    return out


def construct_with_context(name, ctxkind):
    """build the real server class directly with the given kind of context; -> the object kept it"""
    M = _mods()
    mod, cls = name.split(".")
    S, A = M["sync"], M["async_io"]
    L.reset_control()
    ctx = make_ctx(ctxkind)
    old_serial = S.serial.Serial
    loop = None
    srv = None
    try:
        if mod == "sync" and cls == "ModbusSerialServer":
            S.serial.Serial = FakeSerial
            srv = S.ModbusSerialServer(ctx, port="verif")
        elif mod == "sync":
            kw = {"sslctx": ssl.SSLContext(ssl.PROTOCOL_TLS_SERVER)} if cls == "ModbusTlsServer" else {}
            srv = getattr(S, cls)(ctx, address=("127.0.0.1", 0), **kw)
        elif mod == "async_io":
            loop = asyncio.new_event_loop()
            loop.create_datagram_endpoint = lambda *a, **k: None
            kw = {"sslctx": ssl.SSLContext(ssl.PROTOCOL_TLS_SERVER)} if cls == "ModbusTlsServer" else {}
            srv = getattr(A, cls)(ctx, address=("127.0.0.1", 0), loop=loop, **kw)
        else:
            srv = getattr(M[mod], cls)(ctx)
        c = getattr(srv, "store", None) if mod == "asynchronous" else getattr(srv, "context", None)
        return c is ctx
    finally:
        S.serial.Serial = old_serial
        try:
            if mod == "sync" and cls != "ModbusSerialServer" and srv is not None:
                srv.server_close()
            if mod == "async_io" and srv is not None and getattr(srv, "server_factory", None) is not None:
                srv.server_factory.close()
            if loop is not None:
                loop.close()
        except Exception:  # noqa: BLE001
            pass
        L.reset_control()


# ----------------------------------------------------------------------------- decoders are per instance (python side)

def decoder_independence():
    """registering a custom function on ONE decoder (one server) must not reach another decoder instance; and a frame
    carrying that function code sent to the OTHER server is answered IllegalFunction with its store untouched"""
    from pymodbus.factory import ServerDecoder, ClientDecoder
    from pymodbus.pdu import ExceptionResponse
    fails, keys = [], []
    Custom = custom_request_class(0x56)
    for D in (ServerDecoder, ClientDecoder):
        a, b = D(), D()
        if not hasattr(a, "register"):
            continue
        keys.append(D.__name__)
        try:
            a.register(Custom)
        except Exception as e:  # noqa: BLE001 — ClientDecoder.register accepts responses only
            keys.append("%s.register refused: %s" % (D.__name__, type(e).__name__))
            continue
        c = D()
        got = {"registered_on_a": a.lookupPduClass(0x56) is Custom,
               "seen_by_earlier_b": b.lookupPduClass(0x56) is not ExceptionResponse,
               "seen_by_later_c": c.lookupPduClass(0x56) is not ExceptionResponse}
        if not got["registered_on_a"] or got["seen_by_earlier_b"] or got["seen_by_later_c"]:
            fails.append({"decoder": D.__name__, "custom_fc": 0x56, "observed": got,
                          "expected": "only the instance registered on knows function 0x56"})
    # two servers, one with the custom function: the other answers 01 and keeps its registers
    try:
        from pymodbus.server import sync as S
        L.reset_control()
        ctx1, ctx2 = make_ctx("single"), make_ctx("single")
        s1 = S.ModbusTcpServer(ctx1, address=("127.0.0.1", 0))
        s2 = S.ModbusTcpServer(ctx2, address=("127.0.0.1", 0))
        try:
            class Poke(custom_request_class(0x57)):
                def execute(self, context):
                    context.setValues(3, 0, [0xBEEF])
                    return None
            s1.decoder.register(Poke)
            keys.append("two-servers")
            r = s2.decoder.decode(bytes([0x57]))
            before = ctx2[0].getValues(3, 0, 1)
            if r is not None and type(r).__name__ != "IllegalFunctionRequest":
                r.execute(ctx2[0])
            after = ctx2[0].getValues(3, 0, 1)
            if type(r).__name__ != "IllegalFunctionRequest" or before != after:
                fails.append({"servers": "two sync.ModbusTcpServer objects; custom function 0x57 registered on the first only",
                              "second_server_decoded": type(r).__name__, "registers_before": before, "registers_after": after,
                              "expected": "IllegalFunctionRequest, registers unchanged"})
        finally:
            s1.server_close()
            s2.server_close()
            L.reset_control()
    except Exception as e:  # noqa: BLE001
        fails.append({"servers": "two-servers scenario crashed", "error": "%s: %s" % (type(e).__name__, str(e)[:120])})
    return {"evaluations": len(keys), "failures": fails, "broken": [], "samples": fails[:2], "keys": keys}


def suites(tier):
    return [Suite("factories", IMPORTS, "chk_factory factories server_wiring", factory_cases(), shard=400),
            Suite("truth", IMPORTS, "chk_truth truth_facts", truth_cases(), shard=400)]


def extra_checks(tier):
    return {"decoder_instances": decoder_independence()}


def classify(suite, desc):
    return None


def replay_case(suite, desc):
    if suite == "factories":
        srv, m = build_via_factory(desc["factory"], desc["given"] or desc["role"] == "handler", desc.get("context", "single"),
                                   flag_value=(1 if desc.get("flag_value") == "1" else True))
        obs = observe(srv, m, True)
        return desc["given"] and not obs.get(desc["role"], (False, ""))[0]
    if suite == "truth":
        for c in truth_cases():
            if c.desc["site"] == desc["site"] and c.desc["class"] == desc["class"]:
                return not c.desc["kept"]
        return None
    if suite == "decoder_instances":
        return bool(decoder_independence()["failures"])
    return None
