"""Everything that talks to Coq: regenerate Generated/*.v from /repo, (re)build with make,
read Print Assumptions output, and evaluate correspondence cases with vm_compute."""
import glob
import importlib
import os
import re
import shutil
import sys
from concurrent.futures import ThreadPoolExecutor

from . import common
from .common import COQ, GENERATED, CASES, VERIF

sys.path.insert(0, VERIF)
from gen import core as gencore  # noqa: E402

COQPROJECT_HEAD = ["-R . PM",
                   "-arg -w -arg -notation-overridden,-deprecated-hint-without-locality,"
                   "-deprecated-instance-without-locality,-deprecated-hint-rewrite-without-locality"]
SRC_DIRS = ["theories", "proofs", "Generated", "Props"]
REFDIR = os.path.join(COQ, "GeneratedRef")


# ------------------------------------------------------------------ regenerate

def regenerate(gen_names):
    """Run the translators.  Returns list of failures [{generator, error}] (empty = ok)
    and the list of files whose content changed."""
    os.makedirs(GENERATED, exist_ok=True)
    failures, changed = [], []
    for g in gen_names:
        try:
            mod = importlib.import_module("gen.gen_" + g)
            files = mod.generate()
        except gencore.TranslatorFail as e:
            failures.append({"generator": g, "error": str(e)})
            files = {}
            # keep the previous generated file; if there is none, fall back to the committed
            # reference copy so that the spec side / hunter can still be evaluated
            for ref in glob.glob(os.path.join(REFDIR, "*.v")):
                dst = os.path.join(GENERATED, os.path.basename(ref))
                if not os.path.exists(dst):
                    shutil.copy(ref, dst)
        except Exception as e:  # a crash of a translator is a broken tie too (fail closed)
            failures.append({"generator": g, "error": "TRANSLATOR-CRASH %s: %r" % (g, e)})
            files = {}
            for ref in glob.glob(os.path.join(REFDIR, "*.v")):
                dst = os.path.join(GENERATED, os.path.basename(ref))
                if not os.path.exists(dst):
                    shutil.copy(ref, dst)
        for name, text in files.items():
            if gencore.write_if_changed(os.path.join(GENERATED, name), text):
                changed.append(name)
    return failures, changed


def all_generators():
    return sorted(os.path.basename(p)[4:-3] for p in glob.glob(os.path.join(VERIF, "gen", "gen_*.py")))


def update_ref():
    os.makedirs(REFDIR, exist_ok=True)
    for p in glob.glob(os.path.join(GENERATED, "*.v")):
        shutil.copy(p, os.path.join(REFDIR, os.path.basename(p)))


def diff_from_ref():
    """names of generated files that differ from the committed reference (informational)"""
    out = []
    for p in sorted(glob.glob(os.path.join(GENERATED, "*.v"))):
        r = os.path.join(REFDIR, os.path.basename(p))
        try:
            if open(p).read() != open(r).read():
                out.append(os.path.basename(p))
        except OSError:
            out.append(os.path.basename(p))
    return out


# ------------------------------------------------------------------ build

def ensure_makefile():
    files = []
    for d in SRC_DIRS:
        files += sorted(glob.glob(os.path.join(COQ, d, "*.v")))
    rel = [os.path.relpath(f, COQ) for f in files]
    text = "\n".join(COQPROJECT_HEAD + rel) + "\n"
    cp = os.path.join(COQ, "_CoqProject")
    changed = gencore.write_if_changed(cp, text)
    if changed or not os.path.exists(os.path.join(COQ, "Makefile")):
        rc, out = common.run(["coq_makefile", "-f", "_CoqProject", "-o", "Makefile"], cwd=COQ, timeout=120)
        if rc != 0:
            raise RuntimeError("coq_makefile failed:\n" + out)


ERR_RE = re.compile(r'File "\./([^"]+)", line (\d+), characters [^\n]*\n(Error:(?:.|\n)*?)(?=\n(?:make|File |COQC|\Z))')


def enclosing_statement(relpath, line):
    try:
        lines = open(os.path.join(COQ, relpath)).read().split("\n")
    except OSError:
        return None
    for i in range(min(line, len(lines)) - 1, -1, -1):
        m = re.match(r"\s*(?:Local\s+)?(Lemma|Theorem|Example|Corollary|Definition|Fixpoint|Fact|Remark)\s+([A-Za-z0-9_']+)", lines[i])
        if m:
            return m.group(2)
    return None


def make(targets, timeout=1500, keep_going=False):
    """make the given .vo targets (paths relative to coq/).  Returns (ok, output, errors)
    where errors = [{file, line, statement, message}]."""
    ensure_makefile()
    cmd = ["make", "-j%d" % common.NPROC] + (["-k"] if keep_going else []) + list(targets)
    rc, out = common.run(["timeout", str(timeout)] + cmd, cwd=COQ, timeout=timeout + 30)
    errors = []
    for m in ERR_RE.finditer(out):
        errors.append({"file": m.group(1), "line": int(m.group(2)),
                       "statement": enclosing_statement(m.group(1), int(m.group(2))),
                       "message": m.group(3).strip()[:1500]})
    if rc != 0 and not errors:
        errors.append({"file": None, "line": 0, "statement": None, "message": out[-2000:]})
    return rc == 0, out, errors


def prove(prop_file, timeout=1500):
    """Re-check Props/<prop_file>.v from the current Generated files.  The Props file itself
    is always recompiled so its Print Assumptions output is captured.
    Returns dict(ok, theorems, assumptions{name: text}, errors, output)."""
    vo = os.path.join(COQ, "Props", prop_file + ".vo")
    with contextlib_suppress():
        os.remove(vo)
    ok, out, errors = make(["Props/%s.vo" % prop_file], timeout=timeout)
    src = open(os.path.join(COQ, "Props", prop_file + ".v")).read()
    theorems = re.findall(r"^(?:Theorem|Example)\s+([A-Za-z0-9_']+)", src, re.M)
    printed = re.findall(r"^Print Assumptions\s+([A-Za-z0-9_']+)\s*\.", src, re.M)
    assumptions = {}
    if ok:
        # the blocks appear in order after 'COQC Props/<file>.v'
        tail = out.split("Props/%s.v" % prop_file)[-1]
        blocks = re.split(r"(?m)^(?=Closed under the global context|Axioms:)", tail)
        blocks = [b.strip() for b in blocks if b.startswith("Closed under") or b.startswith("Axioms:")]
        for name, b in zip(printed, blocks):
            b = re.split(r"\n(?:make|COQC)", b)[0].strip()
            assumptions[name] = b
    return {"ok": ok, "theorems": theorems, "printed": printed, "assumptions": assumptions,
            "errors": errors, "output": out[-4000:]}


class contextlib_suppress:
    def __enter__(self):
        return self

    def __exit__(self, *a):
        return True


HYGIENE_RE = re.compile(r"\b(Admitted|admit|Axiom|Axioms|Parameter|Parameters|Conjecture|Hypothesis|Hypotheses|Variable|Variables|Unset\s+Guard|bypass_check|Admit\s+Obligations|type-in-type|impredicative-set|native_compute|Unset\s+Universe\s+Checking|Unset\s+Positivity)\b")


def strip_comments(text):
    out, depth, i = [], 0, 0
    while i < len(text):
        if text.startswith("(*", i):
            depth += 1
            i += 2
        elif text.startswith("*)", i) and depth:
            depth -= 1
            i += 2
        else:
            if depth == 0:
                out.append(text[i])
            elif text[i] == "\n":
                out.append("\n")
            i += 1
    return "".join(out)


def closure(prop_files, extra=()):
    """.v files (relative to coq/) in the dependency closure of Props/<f>.v, from coq_makefile's
    .Makefile.d; None if it cannot be determined (then everything is scanned)."""
    dpath = os.path.join(COQ, ".Makefile.d")
    try:
        text = open(dpath).read().replace("\\\n", " ")
    except OSError:
        return None
    deps = {}
    for line in text.split("\n"):
        if ":" not in line:
            continue
        lhs, rhs = line.split(":", 1)
        srcs = [x[:-3] for x in rhs.split() if x.endswith(".vo")]
        for t in lhs.split():
            if t.endswith(".vo"):
                deps.setdefault(t[:-3], set()).update(srcs)
    todo = ["Props/" + f for f in prop_files] + [e[:-3] if e.endswith(".vo") else e for e in extra]
    seen = set()
    while todo:
        x = todo.pop()
        if x in seen:
            continue
        seen.add(x)
        if x not in deps and not os.path.exists(os.path.join(COQ, x + ".v")):
            continue
        todo += list(deps.get(x, ()))
    out = sorted(x + ".v" for x in seen if os.path.exists(os.path.join(COQ, x + ".v")))
    return out or None


def hygiene(prop_files=None, extra=()):
    """No Admitted/admit/Axiom/Parameter/… in the development (comments excluded).
    Variable/Hypothesis are allowed only inside a Section.  With prop_files: only the
    dependency closure of those Props files (what the property's theorems rest on)."""
    bad = []
    files = None
    if prop_files:
        files = closure(prop_files, extra)
    if files is None:
        files = []
        for d in SRC_DIRS:
            files += [os.path.relpath(p, COQ) for p in sorted(glob.glob(os.path.join(COQ, d, "*.v")))]
    for d in [None]:
        for p in [os.path.join(COQ, f) for f in files]:
            text = strip_comments(open(p).read())
            depth = 0
            for ln, line in enumerate(text.split("\n"), 1):
                if re.match(r"\s*Section\s+\w+", line):
                    depth += 1
                if re.match(r"\s*End\s+\w+", line) and depth:
                    depth -= 1
                line_ns = re.sub(r'"[^"]*"', '""', line)
                for m in HYGIENE_RE.finditer(line_ns):
                    w = m.group(1)
                    if w in ("Variable", "Variables", "Hypothesis", "Hypotheses") and depth > 0:
                        continue
                    if w in ("Variable", "Variables", "Hypothesis", "Hypotheses", "Parameter", "Parameters", "Axiom", "Axioms") \
                            and not re.match(r"\s*(Local\s+|Global\s+)?" + w + r"\b", line_ns):
                        continue  # the word inside an identifier context, not a vernacular command
                    bad.append("%s:%d: %s" % (os.path.relpath(p, COQ), ln, line.strip()[:120]))
    return bad


# ------------------------------------------------------------------ correspondence cases

PAIR_RE = re.compile(r"=\s*\(\s*(\[[^\]]*\]|nil)\s*,\s*(\[[^\]]*\]|nil)\s*\)")


def _parse_idx(txt):
    txt = txt.strip()
    if txt in ("nil", "[]"):
        return []
    return [int(x) for x in re.findall(r"\d+", txt)]


def _run_shard(args):
    path, timeout = args
    rc, out = common.run(["timeout", str(timeout), "coqc", "-R", ".", "PM", os.path.relpath(path, COQ)],
                         cwd=COQ, timeout=timeout + 20)
    return path, rc, out


def eval_cases(suite, imports, chk, terms, shard=300, timeout=900):
    """Evaluate `run_cases (chk) [terms…]` inside Coq by vm_compute.
    Returns dict(disagree=[global idx], propfail=[global idx], errors=[text])."""
    os.makedirs(CASES, exist_ok=True)
    suite = "%s_p%d" % (suite, os.getpid())   # concurrent runs of one property must not clobber each other
    shards = []
    for k in range(0, len(terms), shard):
        path = os.path.join(CASES, "%s_%d.v" % (suite, k // shard))
        body = [imports, "Open Scope list_scope.", "Open Scope Z_scope.",
                "Definition cases := ["]
        body.append(";\n".join(terms[k:k + shard]))
        body.append("].")
        body.append("Eval vm_compute in (run_cases (%s) cases)." % chk)
        with open(path, "w") as f:
            f.write("\n".join(body) + "\n")
        shards.append((k, path))
    res = {"disagree": [], "propfail": [], "errors": []}
    with ThreadPoolExecutor(max_workers=common.NPROC) as ex:
        outs = list(ex.map(_run_shard, [(p, timeout) for _, p in shards]))
    for (k, path), (_, rc, out) in zip(shards, outs):
        m = PAIR_RE.search(out.replace("\n", " "))
        if rc != 0 or not m:
            res["errors"].append("%s: rc=%d %s" % (os.path.basename(path), rc, out[-1500:]))
            continue
        res["disagree"] += [k + i for i in _parse_idx(m.group(1))]
        res["propfail"] += [k + i for i in _parse_idx(m.group(2))]
        for ext in (".v", ".vo", ".vok", ".vos", ".glob"):
            with contextlib_suppress():
                os.remove(path[:-2] + ext)
        with contextlib_suppress():
            os.remove(os.path.join(os.path.dirname(path), "." + os.path.basename(path)[:-2] + ".aux"))
    return res


# ------------------------------------------------------------------ Coq term printing

def z(n):
    n = int(n)
    return "(%d)" % n if n < 0 else "%d" % n


def zlist(l):
    return "[" + "; ".join(z(x) for x in l) + "]"


def nat(n):
    return "%d%%nat" % int(n)


def boolean(b):
    return "true" if b else "false"


def string(s):
    return '"%s"%%string' % s.replace('"', '""')


def lst(items):
    return "[" + "; ".join(items) + "]"


def pairs(l):
    return "[" + "; ".join("(%s, %s)" % (z(a), z(b)) for a, b in l) + "]"
