"""C04 — Server executes data-access requests as a Modbus register file."""
from lib import common
from lib.main import Suite
from props import lib_exec as X

ID = "C04"
GENERATORS = ["store", "exec"]
PROP_FILE = "C04"
CASE_DEPS = X.CASE_DEPS
RULE = ("histories of 1-40 requests (FC 1-6, 15, 16, 22, 23, and unassigned function codes) decoded by the real "
        "ServerDecoder from PDU bytes (suite framers: by the socket / RTU / ASCII framer from a hand-built ADU) and executed through the execute wrappers of the sync / asyncio / Twisted "
        "front-ends (rotating) against real ModbusSlaveContexts; layouts enumerate start in {0,1,2,100,65530} x size in "
        "{1,2,9,125,2000,65536}, sparse blocks with holes, zero-mode on/off, shared tables; addresses are drawn at "
        "block boundaries, ~75% of requests valid so that the state evolves; every response and store dumps "
        "(full, or digest + touched neighbourhood above 300 cells) are compared in lock-step with the model and "
        "with the abstract data model ExecSpec, and the bytes bytes([fc]) + response.encode() of every response with "
        "the spec's response PDU (ExecWire.spec_rsp_pdu); suite bitreads: FC1/2 reads of 9..24 bits over mixed "
        "patterns; suite sharing: ModbusSlaveContext() default tables and eight blocks of two contexts built from "
        "one Python list object (model: distinct blocks), writes followed by reads of the sibling table; non-trivial = at least one normal (non-exception) response; "
        "distinct = distinct case terms")
TRUSTED = [
    "hand-modelled, tied by correspondence only: the attribute record a decoded request carries "
    "(ExecView.decode_attrs: FC5 keeps a bool, FC15 truncates the bit list to the quantity, FC16/23 word lists), "
    "Python list slices / dicts of the datastore (Store.v), the interpreter Exec.run of guard scripts",
    "generated from source on every run: the ten execute() bodies as guard scripts, exception codes, fc|0x80, "
    "ServerDecoder function table, response function codes, SlaveFailure arm of the front-ends (GenExec.v); "
    "datastore arithmetic and fx->table mapper (GenStore.v)",
    "spec side (oracle and theorem statements): coq/theories/ExecSpec.v, transcribed from the property text",
]
ASSUMPTIONS = ["requests reach execute() as objects decoded by ServerDecoder from a PDU (16-bit unsigned wire fields)",
               "block values are integers/booleans (booleans travel as 0/1)",
               "the slave context has all four table slots (ModbusSlaveContext always has)"]
MANIFEST = {
    "text": ("Coq theorems (Props/C04.v) over the guard scripts regenerated from the ten execute() methods and the "
             "datastore arithmetic regenerated from store.py/context.py: one request step commutes with the "
             "abstraction to the abstract Modbus data model (tables as maps address -> value, shared storage by "
             "aliasing) and yields the response the spec prescribes, for unbounded addresses/values, every block "
             "size/key set, zero-mode on/off; lifted to arbitrary finite request histories by induction; corollaries: "
             "read returns the latest write, a write touches only the addressed cells, read/write-multiple writes "
             "before reading, mask-write formula. Tests call execute() once against a mock context; the theorems "
             "cover all histories and layouts."),
    "note": ("Trusted: Coq kernel; translator shape matching; hand model of decoded attributes and Python "
             "lists/dicts, validated on every run by lock-step correspondence (responses + full store) through the "
             "real decoder and the three front-ends' execute wrappers; ExecSpec.v as the reading of the property."),
    "design_ref": "DESIGN.md section 8 (C04)",
}

STARTS = [0, 1, 2, 100, 65530]
SIZES = [1, 2, 9, 125, 2000, 65536]


def run_history(r, L, n, fe, p_valid=0.75, dumps=True, kind="history", framers=False):
    h = X.History(L, fe, framers=framers)
    small = all(len(X.desc_cells(d)) <= 40 for d in L["blocks"])
    done = 0
    tries = 0
    while done < n and tries < 4 * n + 10:
        tries += 1
        fc = r.choice(X.DATA_FCS + X.DATA_FCS + ["other"]) if r.random() < 0.97 else "other"
        w = X.gen_request(r, L, fc, valid=r.random() < p_valid)
        if not h.request(w):
            continue
        done += 1
        if dumps and small and r.random() < 0.15:
            h.dump()
    h.dump()
    return h.case(kind=kind)


def suite_histories(tier):
    r = common.rng("C04.histories")
    cases = []
    n = 260 if tier == "quick" else 15000
    for i in range(n):
        L = X.gen_layout(r)
        cases.append(run_history(r, L, r.choice([1, 2, 5, 10, 20, 40]), i, kind="history-small"))
    return Suite("histories", X.IMPORTS, X.CHK_HIST, cases, shard=20)


def suite_layouts(tier):
    """every start x size (sequential), zero-mode on/off; all four tables the same shape"""
    r = common.rng("C04.layouts")
    cases = []
    reps = 1 if tier == "quick" else 6
    i = 0
    for _ in range(reps):
        for start in STARTS:
            for size in SIZES:
                for zero in (False, True):
                    if size == 65536 and tier == "quick" and zero != (start % 2 == 0):
                        continue
                    L = X.gen_layout(r, shared=False, zero=zero, start=start, size=size, sparse=False)
                    nreq = r.choice([5, 10]) if size >= 2000 else r.choice([5, 10, 20])
                    cases.append(run_history(r, L, nreq, i, kind="layout-%d" % size))
                    i += 1
    return Suite("layouts", X.IMPORTS, X.CHK_HIST, cases, shard=6)


def suite_shared_sparse(tier):
    r = common.rng("C04.shared")
    cases = []
    n = 60 if tier == "quick" else 4000
    for i in range(n):
        if i % 2 == 0:
            L = X.gen_layout(r, shared=True)
            kind = "shared"
        else:
            L = X.gen_layout(r, shared=r.random() < 0.3, sparse=True)
            kind = "sparse"
        cases.append(run_history(r, L, r.choice([5, 10, 20, 40]), i, kind=kind))
    return Suite("shared_sparse", X.IMPORTS, X.CHK_HIST, cases, shard=12)


def suite_framers(tier):
    """the same kind of histories, but every PDU is framed (socket / RTU / ASCII ADU built by hand) and the
    request object that the real framer's processIncomingPacket delivers is the one executed"""
    r = common.rng("C04.framers")
    cases = []
    n = 60 if tier == "quick" else 3000
    for i in range(n):
        L = X.gen_layout(r)
        cases.append(run_history(r, L, r.choice([3, 6, 12, 24]), i, kind="framed", framers=True))
    return Suite("framers", X.IMPORTS, X.CHK_HIST, cases, shard=15)


def suite_bitreads(tier):
    """FC1/FC2 reads of 9..24 bits over mixed ON/OFF patterns (the response BYTES are judged: a partial last
    byte after whole bytes), interleaved with coil writes"""
    r = common.rng("C04.bitreads")
    cases = []
    n = 30 if tier == "quick" else 800
    for i in range(n):
        L = X.gen_layout(r, shared=r.random() < 0.2, start=r.choice([0, 1, 2]), size=r.choice([24, 33, 40]), sparse=False)
        h = X.History(L, i)
        for _ in range(r.choice([6, 12])):
            t = r.choice(["c", "d"])
            cells = [a for a in X.table_cells(L, t) if a >= 0]
            q = min(r.randrange(9, 25), len(cells))
            a = r.choice([cells[0], cells[-1] - q + 1, r.randint(cells[0], cells[-1] - q + 1)])
            k = r.random()
            if k < 0.7:
                h.request(("read", t, a, q))
            elif k < 0.85:
                bc = (q + 7) // 8
                h.request(("wcoils", a, q, bc, [r.choice([0xFF, 0x00, 0xA5, r.randrange(256)]) for _ in range(bc)]))
            else:
                h.request(("wcoil", r.choice(cells), r.choice([0, 0xFF00])))
        h.dump()
        cases.append(h.case(kind="bitreads"))
    return Suite("bitreads", X.IMPORTS, X.CHK_HIST, cases, shard=10)


def sharing_history(r, L, n, fe, kind):
    """writes followed by reads of the SAME addresses in the sibling tables (coil -> discrete input,
    holding -> input register): tables built from separate block objects must not share cells"""
    h = X.History(L, fe)
    for _ in range(n):
        k = r.random()
        if k < 0.25:
            a, _ = X.pick_range(r, L, "c", 1, True)
            h.request(("wcoil", a, 0xFF00 if r.random() < 0.8 else 0))
            h.request(("read", "d", a, 1))
        elif k < 0.5:
            a, _ = X.pick_range(r, L, "h", 1, True)
            h.request(("wreg", a, r.randrange(1, 65536)))
            h.request(("read", "i", a, 1))
        elif k < 0.65:
            a, q = X.pick_range(r, L, "c", 12, True)
            bc = (q + 7) // 8
            h.request(("wcoils", a, q, bc, [0xFF] * bc))
            h.request(("read", "d", a, q))
        elif k < 0.8:
            a, q = X.pick_range(r, L, "h", 6, True)
            h.request(("wregs", a, q, 2 * q, [r.randrange(1, 256) for _ in range(2 * q)]))
            h.request(("read", "i", a, q))
            h.request(("read", "c", a, q))
        else:
            h.request(X.gen_request(r, L, r.choice(X.DATA_FCS), valid=r.random() < 0.8))
    h.dump()
    return h.case(kind=kind)


def suite_sharing(tier):
    """(i) ModbusSlaveContext() with its default create() tables; (ii) every table of two contexts built
    from the same Python list object.  The final dump covers all blocks (digest + touched neighbourhood
    in every table for the 65536-cell defaults; the second context's blocks too)."""
    r = common.rng("C04.sharing")
    cases = []
    reps = 1 if tier == "quick" else 10
    i = 0
    for _ in range(reps):
        for zero in (False, True):
            for _k in range(2):
                cases.append(sharing_history(r, X.default_layout(zero), r.choice([4, 8]), i, "default-tables"))
                i += 1
    for _ in range(14 if tier == "quick" else 300):
        cases.append(sharing_history(r, X.samelist_layout(r), r.choice([4, 8, 12]), i, "same-list-object"))
        i += 1
    return Suite("sharing", X.IMPORTS, X.CHK_HIST, cases, shard=3)


def suites(tier):
    return [suite_histories(tier), suite_layouts(tier), suite_shared_sparse(tier), suite_framers(tier),
            suite_bitreads(tier), suite_sharing(tier)]


def classify(suite, desc):
    return None


def replay_finding(f):
    """True when the witness still fails on the implementation"""
    if f["id"] == "F-C04-maskwrite-formula":
        w = f["witness"]
        L = {"zero": True, "slots": {"c": 0, "d": 1, "h": 2, "i": 3},
             "blocks": [("seq", 0, [0]), ("seq", 0, [0]), ("seq", 0, [w["cur"]]), ("seq", 0, [0])]}
        h = X.History(L)
        h.request(("mask", 0, w["and"], w["or"]))
        got = int(h.fctx.ctx.getValues(3, 0, 1)[0])
        return got != w["spec"]
    return None


def replay_case(suite, desc):
    import json
    from lib import coqrun
    print(json.dumps(desc)[:3000])
    L = desc["layout"]
    L["blocks"] = [tuple([d[0], [tuple(p) for p in d[1]]]) if d[0] == "sp" else tuple(d) for d in L["blocks"]]
    h = X.History(L)
    plan = list(desc.get("plan", []))
    h.fctx.plan = list(plan)
    for it in desc["items"]:
        if "wire" in it:
            h.request(tuple(it["wire"]))
        else:
            h.dump()
    c = h.case(plan=plan)
    res = coqrun.eval_cases("C04_replay", X.IMPORTS, X.CHK_HIST, [c.term])
    print("now:", res)
    return bool(res["propfail"] or res["errors"])


def shrink(suite, desc):
    if suite == "coilwords":
        return None
    return X.shrink_history("C04", desc)
