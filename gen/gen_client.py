"""GenClient.v — the synchronous client transaction (pymodbus/transaction.py, client/sync.py).

Emitted as DATA for the interpreter in coq/theories/Client.v:
  * the retry loop of ModbusTransactionManager.execute as a statement list (`lstmt`): which
    branch breaks, which falls through, where the counter is decremented, the loop guard,
    the `retries += 1` bump, the backoff exponent;
  * `__init__` coercions (`retries or 0`), Defaults.Retries / TransactionId / ReadSize,
    getNextTID as an expression, the `tid=0` fallback, the ASCII `* 2` rule,
    _set_adu_size / _calculate_exception_length / the min_size chain and the 0x80 test of
    _recv, the socket framer's _hsize, the exception tuple caught by _transact,
    whether the RTU framer re-keys the request by its unit id.
Everything around those (the straight-line parts of execute, _transact, _recv, the Dict /
Fifo manager bodies, BaseModbusClient.execute, the `if self.socket: return True` guard of
every connect) must match the exact shapes written below — fail closed otherwise.
"""
import ast
import re
from . import core
from .core import Src, ExprTr, coq_z, coq_list, coq_bool, const_int


class _Clean(ast.NodeTransformer):
    """drop docstrings / logging calls / `if _logger.isEnabledFor(..)` blocks everywhere"""

    def _body(self, stmts):
        out = []
        for s in stmts:
            if core.is_docstring(s) or core.is_log_call(s):
                continue
            if isinstance(s, ast.If) and ast.unparse(s.test).startswith("_logger.isEnabledFor("):
                continue
            out.append(self.visit(s))
        return out or [ast.Pass()]

    def generic_visit(self, node):
        for f in ("body", "orelse", "finalbody"):
            v = getattr(node, f, None)
            if isinstance(v, list) and v and isinstance(v[0], ast.stmt):
                setattr(node, f, self._body(v))
            elif isinstance(v, list) and f == "orelse":
                setattr(node, f, [])
        if isinstance(node, ast.Try):
            for h in node.handlers:
                h.body = self._body(h.body)
        return node


def clean(stmts):
    """list of statement nodes -> normal-form text"""
    import copy
    m = ast.Module(body=[copy.deepcopy(s) for s in stmts], type_ignores=[])
    c = _Clean()
    m.body = c._body(m.body)
    return ast.unparse(ast.fix_missing_locations(m))


def norm(code):
    return clean(ast.parse(code).body)


def expect(src, node, stmts, code, what):
    got = clean(stmts)
    want = norm(code)
    if got != want:
        src.fail(node, "%s has an unrecognised shape:\n%s\n-- expected --\n%s" % (what, got, want))


def expect_template(src, node, stmts, code, what):
    """like expect, but integer literals written as 9001, 9002, … in `code` are holes; returns their values in order"""
    got = clean(stmts)
    want = norm(code)
    holes = sorted(set(re.findall(r"\b90\d\d\b", want)), key=int)
    rx = re.escape(want)
    for h in holes:
        parts = rx.split(h)
        name = "H" + chr(ord("a") + holes.index(h))
        rx = parts[0] + r"(?P<%s>-?\d+)" % name + (r"(?P=%s)" % name).join(parts[1:])
    m = re.fullmatch(rx, got)
    if not m:
        src.fail(node, "%s has an unrecognised shape:\n%s\n-- expected (90xx = any integer) --\n%s" % (what, got, want))
    return [int(m.group("H" + chr(ord("a") + i))) for i in range(len(holes))]


# ------------------------------------------------------------------ the loop

COND_ATOMS = {
    "response": "CResp",
    "request.unit_id in self._no_response_devices": "CInNoResp",
    "request.unit_id not in self._no_response_devices": "(CNot CInNoResp)",
    "self.retry_on_empty": "CRetryEmpty",
    "self.retry_on_invalid": "CRetryInvalid",
    "mbap.get('unit') == request.unit_id": "CUnitMatch",
    "'length' in mbap": "CHasLength",
    "expected_response_length": "CExpLen",
    "mbap.get('length') == expected_response_length": "CLenMatch",
    "self.backoff": "CBackoff",
    "hasattr(self.client, 'state')": "CHasState",
}


def tr_cond(src, n):
    t = ast.unparse(n)
    if t in COND_ATOMS:
        return COND_ATOMS[t]
    if isinstance(n, ast.UnaryOp) and isinstance(n.op, ast.Not):
        return "(CNot %s)" % tr_cond(src, n.operand)
    if isinstance(n, ast.BoolOp):
        ctor = "CAnd" if isinstance(n.op, ast.And) else "COr"
        parts = [tr_cond(src, v) for v in n.values]
        acc = parts[-1]
        for p in reversed(parts[:-1]):
            acc = "(%s %s %s)" % (ctor, p, acc)
        return acc
    src.fail(n, "retry loop: unrecognised condition: %s" % t)


TRANSACT = "response, last_exception = self._transact(request, expected_response_length, full=full, broadcast=broadcast)"


def tr_stmts(src, stmts):
    out = []
    i = 0
    stmts = [s for s in stmts if not (core.is_docstring(s) or core.is_log_call(s))]
    while i < len(stmts):
        s = stmts[i]
        t = ast.unparse(s)
        if t == TRANSACT:
            out.append("LTransact")
        elif t == "self._no_response_devices.append(request.unit_id)":
            out.append("LNoRespAppend")
        elif t == "self._no_response_devices.remove(request.unit_id)":
            out.append("LNoRespRemove")
        elif isinstance(s, ast.Break):
            out.append("LBreak")
        elif isinstance(s, ast.Pass):
            pass
        elif t == "mbap = self.client.framer.decode_data(response)":
            out.append("LDecode")
        elif t == "self.client.state = ModbusTransactionState.IDLE":
            out.append("LStateIdle")
        elif isinstance(s, ast.Assign) and ast.unparse(s.targets[0]) == "delay":
            # delay = 2 ** <e> * self.backoff ; time.sleep(delay)
            v = s.value
            ok = (isinstance(v, ast.BinOp) and isinstance(v.op, ast.Mult) and ast.unparse(v.right) == "self.backoff"
                  and isinstance(v.left, ast.BinOp) and isinstance(v.left.op, ast.Pow)
                  and isinstance(v.left.left, ast.Constant) and v.left.left.value == 2
                  and i + 1 < len(stmts) and ast.unparse(stmts[i + 1]) == "time.sleep(delay)")
            if not ok:
                src.fail(s, "retry loop: expected `delay = 2 ** <e> * self.backoff` followed by `time.sleep(delay)`")
            e = ExprTr(src, {"self.retries", "retries"}).tr(v.left.right)
            out.append("(LSleep %s)" % e)
            i += 1
        elif t in ("full = False", "full = True"):
            out.append("(LSetFull %s)" % coq_bool(t.endswith("True")))
        elif t in ("broadcast = False", "broadcast = True"):
            out.append("(LSetBroadcast %s)" % coq_bool(t.endswith("True")))
        elif isinstance(s, ast.AugAssign) and ast.unparse(s.target) == "retries" and isinstance(s.op, (ast.Sub, ast.Add)):
            k = const_int(src, s.value)
            out.append("(LRetriesSub %s)" % coq_z(k if isinstance(s.op, ast.Sub) else -k))
        elif isinstance(s, ast.If):
            out.append("(LIf %s %s %s)" % (tr_cond(src, s.test), tr_stmts(src, s.body), tr_stmts(src, s.orelse)))
        else:
            src.fail(s, "retry loop: unrecognised statement: %s" % t.split("\n")[0])
        i += 1
    return coq_list(out)


# ------------------------------------------------------------------ expected shapes

PRE = """
retries = self.retries
request.transaction_id = self.getNextTID()
_buffer = hexlify_packets(self.client.framer._buffer)
if _buffer:
    self.client.framer.resetFrame()
broadcast = (self.client.broadcast_enable and request.unit_id == 0)
"""

BCAST = """
self._transact(request, None, broadcast=True)
response = b'Broadcast write sent - no response expected'
"""

ELSE_PRE = """
expected_response_length = None
if not isinstance(self.client.framer, ModbusSocketFramer):
    if hasattr(request, "get_response_pdu_size"):
        response_pdu_size = request.get_response_pdu_size()
        if isinstance(self.client.framer, ModbusAsciiFramer):
            response_pdu_size = response_pdu_size * 9001
        if response_pdu_size:
            expected_response_length = self._calculate_response_length(response_pdu_size)
if request.unit_id in self._no_response_devices:
    full = True
else:
    full = False
c_str = str(self.client)
if "modbusudpclient" in c_str.lower().strip():
    full = True
    if not expected_response_length:
        expected_response_length = Defaults.ReadSize
"""

ELSE_POST = """
addTransaction = partial(self.addTransaction, tid=request.transaction_id)
self.client.framer.processIncomingPacket(response, addTransaction, request.unit_id)
response = self.getTransaction(request.transaction_id)
if not response:
    if len(self.transactions):
        response = self.getTransaction(tid=9001)
    else:
        last_exception = last_exception or ("No Response received from the remote unit/Unable to decode response")
        response = ModbusIOException(last_exception, request.function_code)
if hasattr(self.client, "state"):
    self.client.state = (ModbusTransactionState.TRANSACTION_COMPLETE)
"""

HANDLER = """
self.client.state = ModbusTransactionState.TRANSACTION_COMPLETE
return ex
"""

TRANSACT_BODY = """
last_exception = None
try:
    self.client.connect()
    packet = self.client.framer.buildPacket(packet)
    size = self._send(packet)
    if broadcast:
        if size:
            self.client.state = ModbusTransactionState.TRANSACTION_COMPLETE
        return b'', None
    if size:
        self.client.state = ModbusTransactionState.WAITING_FOR_REPLY
    if hasattr(self.client, "handle_local_echo") and self.client.handle_local_echo is True:
        local_echo_packet = self._recv(size, full)
        if local_echo_packet != packet:
            return b'', "Wrong local echo"
    result = self._recv(response_length, full)
except EXC as msg:
    self.client.close()
    last_exception = msg
    result = b''
return result, last_exception
"""

RECV_BODY = """
total = None
if not full:
    exception_length = self._calculate_exception_length()
    if isinstance(self.client.framer, ModbusSocketFramer):
        min_size = 9001
    elif isinstance(self.client.framer, ModbusRtuFramer):
        min_size = 9002
    elif isinstance(self.client.framer, ModbusAsciiFramer):
        min_size = 9003
    elif isinstance(self.client.framer, ModbusBinaryFramer):
        min_size = 9004
    else:
        min_size = expected_response_length
    read_min = self.client.framer.recvPacket(min_size)
    if len(read_min) != min_size:
        raise InvalidMessageReceivedException("Incomplete message received, expected at least %d bytes (%d received)" % (min_size, len(read_min)))
    if read_min:
        if isinstance(self.client.framer, ModbusSocketFramer):
            func_code = byte2int(read_min[-1])
        elif isinstance(self.client.framer, ModbusRtuFramer):
            func_code = byte2int(read_min[-1])
        elif isinstance(self.client.framer, ModbusAsciiFramer):
            func_code = int(read_min[3:5], 16)
        elif isinstance(self.client.framer, ModbusBinaryFramer):
            func_code = byte2int(read_min[-1])
        else:
            func_code = -1
        if func_code < 9005:
            if isinstance(self.client.framer, ModbusSocketFramer):
                h_size = self.client.framer._hsize
                length = struct.unpack(">H", read_min[4:6])[0] - 1
                expected_response_length = h_size + length
            if expected_response_length is not None:
                expected_response_length -= min_size
                total = expected_response_length + min_size
        else:
            expected_response_length = exception_length - min_size
            total = expected_response_length + min_size
    else:
        total = expected_response_length
else:
    read_min = b''
    total = expected_response_length
result = self.client.framer.recvPacket(expected_response_length)
result = read_min + result
actual = len(result)
if total is not None and actual != total:
    pass
if self.client.state != ModbusTransactionState.PROCESSING_REPLY:
    self.client.state = ModbusTransactionState.PROCESSING_REPLY
return result
"""

ADU = """
if isinstance(self.client.framer, ModbusSocketFramer):
    self.base_adu_size = 9001
elif isinstance(self.client.framer, ModbusRtuFramer):
    self.base_adu_size = 9002
elif isinstance(self.client.framer, ModbusAsciiFramer):
    self.base_adu_size = 9003
elif isinstance(self.client.framer, ModbusBinaryFramer):
    self.base_adu_size = 9004
elif isinstance(self.client.framer, ModbusTlsFramer):
    self.base_adu_size = 9005
else:
    self.base_adu_size = 9006
"""

EXCLEN = """
if isinstance(self.client.framer, (ModbusSocketFramer, ModbusTlsFramer)):
    return self.base_adu_size + 9001
elif isinstance(self.client.framer, ModbusAsciiFramer):
    return self.base_adu_size + 9002
elif isinstance(self.client.framer, (ModbusRtuFramer, ModbusBinaryFramer)):
    return self.base_adu_size + 9003
return None
"""

CALCLEN = """
if self.base_adu_size == -1:
    return None
else:
    return self.base_adu_size + expected_pdu_size
"""

INIT = """
self.tid = Defaults.TransactionId
self.client = client
self.backoff = kwargs.get('backoff', Defaults.Backoff) or BACKOFF
self.retry_on_empty = kwargs.get('retry_on_empty', Defaults.RetryOnEmpty)
self.retry_on_invalid = kwargs.get('retry_on_invalid', Defaults.RetryOnInvalid)
self.retries = kwargs.get('retries', Defaults.Retries) or 9001
self._transaction_lock = RLock()
self._no_response_devices = []
if client:
    self._set_adu_size()
"""

DICT_ADD = "tid = tid if tid != None else request.transaction_id\nself.transactions[tid] = request"
DICT_GET = "return self.transactions.pop(tid, None)"
DICT_DEL = "self.transactions.pop(tid, None)"
FIFO_ADD = "tid = tid if tid is not None else request.transaction_id\nself.transactions.append(request)"
FIFO_GET = "return self.transactions.pop(0) if self.transactions else None"
FIFO_DEL = "if self.transactions:\n    self.transactions.pop(0)"

BASE_EXECUTE = """
if not self.connect():
    raise ConnectionException("Failed to connect[%s]" % (self.__str__()))
return self.transaction.execute(request)
"""

TCP_RECV = """
if not self.socket:
    raise ConnectionException(self.__str__())
self.socket.setblocking(0)
timeout = self.timeout
if size is None:
    recv_size = 1
else:
    recv_size = size
data = []
data_length = 0
time_ = time.time()
end = time_ + timeout
while recv_size > 0:
    ready = select.select([self.socket], [], [], end - time_)
    if ready[0]:
        recv_data = self.socket.recv(recv_size)
        data.append(recv_data)
        data_length += len(recv_data)
    time_ = time.time()
    if size:
        recv_size = size - data_length
    if time_ > end:
        break
return b"".join(data)
"""

EXC_NAMES = {"socket.error": "OtherExc", "OSError": "OtherExc", "ModbusIOException": "ModbusIOExc",
             "InvalidMessageReceivedException": "InvalidMessageExc"}


def defaults_int(cst, name):
    v = cst.class_attr("Defaults", name)
    if v is None:
        cst.fail(cst.cls("Defaults"), "Defaults.%s not found" % name)
    return const_int(cst, v)


def generate():
    tx = Src("pymodbus/transaction.py")
    sy = Src("pymodbus/client/sync.py")
    cst = Src("pymodbus/constants.py")
    D = {}
    TM = "ModbusTransactionManager"

    # ---- __init__ / defaults
    fn = tx.func(TM, "__init__")
    got = clean(fn.body)
    m = re.search(r"self\.backoff = kwargs\.get\('backoff', Defaults\.Backoff\) or ([0-9.eE+-]+)\n", got)
    if not m or float(m.group(1)) <= 0:
        tx.fail(fn, "__init__: expected `self.backoff = kwargs.get('backoff', Defaults.Backoff) or <positive number>`")
    (D["g_retries_or"],) = expect_template(tx, fn, fn.body, INIT.replace("BACKOFF", m.group(1)), "ModbusTransactionManager.__init__")
    D["g_retries_default"] = defaults_int(cst, "Retries")
    D["g_tid_init"] = defaults_int(cst, "TransactionId")
    D["g_read_size"] = defaults_int(cst, "ReadSize")

    # ---- getNextTID
    fn = tx.func(TM, "getNextTID")
    b = [s for s in fn.body if not core.is_docstring(s)]
    if not (len(b) == 2 and isinstance(b[0], ast.Assign) and ast.unparse(b[0].targets[0]) == "self.tid"
            and ast.unparse(b[1]) == "return self.tid"):
        tx.fail(fn, "getNextTID: expected `self.tid = <expr>; return self.tid`")
    D["g_next_tid"] = ExprTr(tx, {"self.tid"}).tr(b[0].value)

    # ---- sizes
    fn = tx.func(TM, "_set_adu_size")
    adu = expect_template(tx, fn, fn.body, ADU, "_set_adu_size")
    fn = tx.func(TM, "_calculate_exception_length")
    exl = expect_template(tx, fn, fn.body, EXCLEN, "_calculate_exception_length")
    fn = tx.func(TM, "_calculate_response_length")
    expect(tx, fn, fn.body, CALCLEN, "_calculate_response_length")
    fn = tx.func(TM, "_recv")
    rv = expect_template(tx, fn, fn.body, RECV_BODY, "_recv")
    D["g_min"] = rv[:4]
    D["g_err_threshold"] = rv[4]
    D["g_base"] = adu[:4]
    D["g_exc"] = [exl[0], exl[2], exl[1], exl[2]]     # tcp, rtu, ascii, binary

    # ---- _transact
    fn = tx.func(TM, "_transact")
    body = [s for s in fn.body if not core.is_docstring(s)]
    tr = [s for s in body if isinstance(s, ast.Try)]
    if len(tr) != 1 or len(tr[0].handlers) != 1 or tr[0].orelse or tr[0].finalbody:
        tx.fail(fn, "_transact: expected exactly one try/except")
    h = tr[0].handlers[0]
    names = [ast.unparse(e) for e in h.type.elts] if isinstance(h.type, ast.Tuple) else [ast.unparse(h.type)]
    for n in names:
        if n not in EXC_NAMES:
            tx.fail(h, "_transact: unexpected exception class caught: %s" % n)
    D["g_caught"] = [EXC_NAMES[n] for n in names]
    expect(tx, fn, fn.body, TRANSACT_BODY.replace("EXC", ast.unparse(h.type) if not isinstance(h.type, ast.Tuple)
                                                  else "(" + ", ".join(names) + ")"), "_transact")
    expect(tx, tx.func(TM, "_send"), tx.func(TM, "_send").body, "return self.client.framer.sendPacket(packet)", "_send")

    # ---- execute
    fn = tx.func(TM, "execute")
    b = [s for s in fn.body if not core.is_docstring(s)]
    if not (len(b) == 1 and isinstance(b[0], ast.With) and len(b[0].items) == 1
            and ast.unparse(b[0].items[0].context_expr) == "self._transaction_lock"
            and len(b[0].body) == 1 and isinstance(b[0].body[0], ast.Try)):
        tx.fail(fn, "execute: expected `with self._transaction_lock: try: …`")
    t = b[0].body[0]
    if not (len(t.handlers) == 1 and ast.unparse(t.handlers[0].type) == "ModbusIOException"
            and t.handlers[0].name == "ex" and not t.orelse and not t.finalbody):
        tx.fail(t, "execute: expected a single `except ModbusIOException as ex`")
    expect(tx, t.handlers[0], [s for s in t.handlers[0].body if ast.unparse(s) != "_logger.exception(ex)"], HANDLER,
           "execute: exception handler")
    tb = [s for s in t.body if not (core.is_docstring(s) or core.is_log_call(s))]
    if len(tb) != 7 or not isinstance(tb[5], ast.If) or ast.unparse(tb[5].test) != "broadcast" \
            or ast.unparse(tb[6]) != "return response":
        tx.fail(t, "execute: unexpected statement sequence in the try body")
    expect(tx, t, tb[:5], PRE, "execute: prologue")
    expect(tx, tb[5], tb[5].body, BCAST, "execute: broadcast branch")
    eb = [s for s in tb[5].orelse if not (core.is_docstring(s) or core.is_log_call(s))]
    wi = [i for i, s in enumerate(eb) if isinstance(s, ast.While)]
    if len(wi) != 1 or wi[0] < 1:
        tx.fail(tb[5], "execute: expected exactly one while loop in the non-broadcast branch")
    w = eb[wi[0]]
    bump = eb[wi[0] - 1]
    if not (isinstance(bump, ast.AugAssign) and ast.unparse(bump.target) == "retries" and isinstance(bump.op, ast.Add)):
        tx.fail(bump, "execute: expected `retries += <k>` right before the loop")
    D["g_retries_bump"] = const_int(tx, bump.value)
    (D["g_ascii_mul"],) = expect_template(tx, tb[5], eb[:wi[0] - 1], ELSE_PRE, "execute: before the retry loop")
    (D["g_fallback_tid"],) = expect_template(tx, tb[5], eb[wi[0] + 1:], ELSE_POST, "execute: after the retry loop")
    if w.orelse:
        tx.fail(w, "execute: while/else")
    D["g_loop_guard"] = ExprTr(tx, {"retries"}).tr_bool(w.test)
    D["g_loop_body"] = tr_stmts(tx, w.body)

    # ---- transaction managers
    DM, FM = "DictTransactionManager", "FifoTransactionManager"
    for cls, name, code in [(DM, "addTransaction", DICT_ADD), (DM, "getTransaction", DICT_GET), (DM, "delTransaction", DICT_DEL),
                            (FM, "addTransaction", FIFO_ADD), (FM, "getTransaction", FIFO_GET), (FM, "delTransaction", FIFO_DEL)]:
        f = tx.func(cls, name)
        expect(tx, f, f.body, code, "%s.%s" % (cls, name))
    f = tx.func(DM, "__init__")
    expect(tx, f, f.body, "self.transactions = {}\nsuper(DictTransactionManager, self).__init__(client, **kwargs)", "DictTransactionManager.__init__")

    # ---- client/sync.py
    f = sy.func("BaseModbusClient", "execute")
    expect(sy, f, f.body, BASE_EXECUTE, "BaseModbusClient.execute")
    f = sy.func("BaseModbusClient", "__init__")
    if "self.transaction = DictTransactionManager(self, **kwargs)" not in clean(f.body):
        sy.fail(f, "BaseModbusClient.__init__: expected a DictTransactionManager")
    for cls in ("ModbusTcpClient", "ModbusUdpClient", "ModbusSerialClient"):
        f = sy.func(cls, "connect")
        b = [s for s in f.body if not (core.is_docstring(s) or isinstance(s, ast.Import))]
        if not b or ast.unparse(b[0]) != "if self.socket:\n    return True":
            sy.fail(f, "%s.connect: expected `if self.socket: return True` first" % cls)
        for name in ("_send", "_recv"):
            f = sy.func(cls, name)
            b = [s for s in f.body if not core.is_docstring(s)]
            if not b or ast.unparse(b[0]) != "if not self.socket:\n    raise ConnectionException(self.__str__())":
                sy.fail(f, "%s.%s: expected the `if not self.socket: raise ConnectionException` guard first" % (cls, name))
    if "(ModbusClientMixin)" not in sy.text or ast.unparse(sy.func("BaseModbusClient", "send").body[-1]) != "return self._send(request)" \
            or ast.unparse(sy.func("BaseModbusClient", "recv").body[-1]) != "return self._recv(size)":
        sy.fail(sy.cls("BaseModbusClient"), "BaseModbusClient.send/recv: unexpected shape")

    # ---- ModbusTcpClient._recv: the deadline loop, pinned statement by statement (hand-modelled: Client.tcp_recv_loop)
    f = sy.func("ModbusTcpClient", "_recv")
    expect(sy, f, f.body, TCP_RECV, "ModbusTcpClient._recv")

    # ---- the decoder never raises: ClientDecoder.decode wraps _helper in try/except Exception and returns None
    #      (the `dec_total` premise of Props/C08_tcp.v / C13_tcp.v)
    fa = Src("pymodbus/factory.py")
    f = fa.func("ClientDecoder", "decode")
    expect(fa, f, f.body, "try:\n    return self._helper(message)\nexcept ModbusException as er:\n    pass\n"
                          "except Exception as ex:\n    pass\nreturn None", "ClientDecoder.decode")

    # ---- framers: _hsize of the socket framer; who re-keys the request
    sf = Src("pymodbus/framer/socket_framer.py")
    hs = None
    for s in ast.walk(sf.func("ModbusSocketFramer", "__init__")):
        if isinstance(s, ast.Assign) and ast.unparse(s.targets[0]) == "self._hsize":
            hs = const_int(sf, s.value)
    if hs is None:
        sf.fail(sf.cls("ModbusSocketFramer"), "_hsize not found")
    D["g_tcp_hsize"] = hs
    rekey = {}
    for rel, cls in [("pymodbus/framer/socket_framer.py", "ModbusSocketFramer"), ("pymodbus/framer/rtu_framer.py", "ModbusRtuFramer"),
                     ("pymodbus/framer/ascii_framer.py", "ModbusAsciiFramer"), ("pymodbus/framer/binary_framer.py", "ModbusBinaryFramer")]:
        s = Src(rel)
        assigns = [ast.unparse(x) for x in ast.walk(s.func(cls, "buildPacket"))
                   if isinstance(x, ast.Assign) and "transaction_id" in ast.unparse(x.targets[0])]
        if assigns not in ([], ["message.transaction_id = message.unit_id"]):
            s.fail(s.func(cls, "buildPacket"), "buildPacket: unexpected assignment to transaction_id: %s" % assigns)
        rekey[cls] = bool(assigns)
    if rekey["ModbusSocketFramer"] or rekey["ModbusAsciiFramer"] or rekey["ModbusBinaryFramer"]:
        tx.fail(None, "a non-RTU framer re-keys the request's transaction id")
    D["g_rtu_tid_is_unit"] = rekey["ModbusRtuFramer"]

    # ---- isError(): pdu.ModbusResponse (by function code) and exceptions.ModbusException (constant), not overridden
    pd = Src("pymodbus/pdu.py")
    f = pd.func("ModbusResponse", "isError")
    b = [x for x in f.body if not core.is_docstring(x)]
    if not (len(b) == 1 and isinstance(b[0], ast.Return)):
        pd.fail(f, "ModbusResponse.isError: expected a single return")
    D["g_is_error_rsp"] = ExprTr(pd, {"self.function_code"}).tr_bool(b[0].value)
    for cls in ("ExceptionResponse", "ModbusPDU"):
        if pd.has_func(cls, "isError"):
            pd.fail(pd.cls(cls), "%s overrides isError" % cls)
    ex = Src("pymodbus/exceptions.py")
    f = ex.func("ModbusException", "isError")
    b = [x for x in f.body if not core.is_docstring(x)]
    if not (len(b) == 1 and isinstance(b[0], ast.Return) and isinstance(b[0].value, ast.Constant)
            and isinstance(b[0].value.value, bool)):
        ex.fail(f, "ModbusException.isError: expected `return True/False`")
    D["g_is_error_exc"] = b[0].value.value
    if ex.has_func("ModbusIOException", "isError"):
        ex.fail(ex.cls("ModbusIOException"), "ModbusIOException overrides isError")

    def by_framing(vals):
        return "(fun fr => match fr with FTcp => %s | FRtu => %s | FAscii => %s | FBin => %s end)" % tuple(coq_z(v) for v in vals)

    text = core.HEADER + "\nFrom PM.theories Require Import Client.\n\nDefinition code : client_code := {|\n"
    fields = [
        ("g_retries_default", coq_z(D["g_retries_default"])),
        ("g_retries_or", coq_z(D["g_retries_or"])),
        ("g_tid_init", coq_z(D["g_tid_init"])),
        ("g_next_tid", D["g_next_tid"]),
        ("g_retries_bump", coq_z(D["g_retries_bump"])),
        ("g_loop_guard", D["g_loop_guard"]),
        ("g_loop_body", D["g_loop_body"]),
        ("g_fallback_tid", coq_z(D["g_fallback_tid"])),
        ("g_read_size", coq_z(D["g_read_size"])),
        ("g_ascii_mul", coq_z(D["g_ascii_mul"])),
        ("g_base_adu", by_framing(D["g_base"])),
        ("g_exc_extra", by_framing(D["g_exc"])),
        ("g_min_size", by_framing(D["g_min"])),
        ("g_err_threshold", coq_z(D["g_err_threshold"])),
        ("g_tcp_hsize", coq_z(D["g_tcp_hsize"])),
        ("g_caught", coq_list(D["g_caught"])),
        ("g_rtu_tid_is_unit", coq_bool(D["g_rtu_tid_is_unit"])),
        ("g_is_error_rsp", D["g_is_error_rsp"]),
        ("g_is_error_exc", coq_bool(D["g_is_error_exc"])),
    ]
    text += ";\n".join("  %s := %s" % kv for kv in fields) + "\n|}.\n"
    return {"GenClient.v": text}
