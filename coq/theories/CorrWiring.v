(* CorrWiring.v — correspondence cases for Wiring.v: the real Start*Server factories (serving
   loop / reactor / event loop stubbed out), the real server constructors and the real Twisted
   client protocol constructor called with marker arguments; what the built object holds is
   compared with the generated tables (model) and judged against "the user's value is served". *)
From PM.theories Require Import Base Ladder Frontends CorrFrontends Wiring.
Open Scope string_scope.
Open Scope list_scope.

Fixpoint find_factory (n : string) (l : list factory) : option factory :=
  match l with [] => None | f :: t => if String.eqb (fa_name f) n then Some f else find_factory n t end.

Record fcase := {
  fc_factory : string;        (* "sync.StartTcpServer" *)
  fc_role : string;           (* context | framer | handler | ignore_missing_slaves | broadcast_enable | identity | custom *)
  fc_given : bool;            (* the factory was handed a marker value for this role *)
  fc_obs_given : bool;        (* the built server holds exactly that marker *)
  fc_obs_default : string }.  (* otherwise: the name of what it holds *)

Definition wdefault (s : wsrc) : string :=
  match s with WOrDefault _ d | WKwDefault _ d => d | WUpdate _ => "no update" | WBuilt d => d end.

Definition chk_factory (F : list factory) (W : list (string * list (string * wsrc))) (c : fcase) : bool * bool :=
  let model :=
    match find_factory (fc_factory c) F with
    | Some f =>
        if String.eqb (fc_role c) "custom" then
          (* registered on the built server's decoder, and nowhere else *)
          if fc_given c then Bool.eqb (fc_obs_given c) (fa_registers f) && String.eqb (fc_obs_default c) "local"
          else true
        else
        match assoc_s (fa_target f) W with
        | Some roles =>
            match assoc_s (fc_role c) roles with
            | Some s =>
                if fc_given c then
                  Bool.eqb (fc_obs_given c)
                    (user_configurable s &&
                     match wparam s with
                     | Some p => match ctor_src f p with Some k => String.eqb k (fc_role c) | None => false end
                     | None => false
                     end)
                else
                  match s with
                  | WUpdate _ => negb (fc_obs_given c)
                  | _ => String.eqb (fc_obs_default c)
                           (if String.eqb (fc_role c) "framer" && negb (String.eqb (fa_framer_default f) "-")
                            then fa_framer_default f else wdefault s)
                  end
            | None => false
            end
        | None => false
        end
    | None => false
    end in
  (* PROPERTY: what the user configured at the entry point is what serves *)
  (model, if fc_given c then fc_obs_given c else true).

(* a value handed to a constructor that user code might consider "empty": an empty multi-unit
   context, a framer instance with an empty buffer, … — it must be kept all the same *)
Record tcase := {
  tc_site : string;           (* "sync.ModbusTcpServer" | "twisted.ModbusClientProtocol" | … *)
  tc_class : string;          (* class of the value handed in *)
  tc_kept : bool }.           (* the built object holds that very value *)

Definition chk_truth (T : list (string * (bool * bool))) (c : tcase) : bool * bool :=
  let model := match assoc_sbb (tc_class c) T with
               | Some (o, _) => Bool.eqb (tc_kept c) (negb o)
               | None => false
               end in
  (model, tc_kept c).
