(* FrB_rtu_client_proofs.v — interface lemmas about the RTU framer model for users that
   instantiate an abstract framer with it (client / transaction theorems):
     - [table_simple]: decoder tables all of whose classes have a prefix-stable size rule
       (fixed size, or byte count at a fixed position); [server_decoder] is one, the response
       table minus ReadFifoQueueResponse and ReadDeviceInformationResponse ([client_simple]) is one;
     - [rtu_inv]: the invariant of every state reachable from [rtu_init] by rtu_recv / resetFrame;
     - [rtu_raises_only_io], [rtu_inv_*], [rtu_whole_frame_any], [rtu_one_frame_clean]. *)
From Coq Require Import ZifyBool.
From PM.theories Require Import Base Expr Struct FrBCode Crc FrBCommon FrRtu FrSpecB.
From PM.Generated Require Import GenFramerB.
From PM.proofs Require Import Struct_proofs Crc_proofs FrB_rtu_proofs.
Open Scope list_scope.
Open Scope Z_scope.

Ltac Zify.zify_post_hook ::= Z.to_euclidean_division_equations.

(* ------------------------------------------------------------------ tables with prefix-stable size rules *)

Definition rule_good_b (r : size_rule) : bool := simple_rule r && rule_ge4 r.

Definition table_simple (dc : decoder_code) : bool :=
  forallb (fun row => rule_good_b (cr_rule row)) (dc_classes dc) && rule_good_b (dc_default dc).

(* the response table without the two classes that override calculateRtuFrameSize *)
Definition client_simple : decoder_code :=
  {| dc_classes := filter (fun row => rule_good_b (cr_rule row)) (dc_classes client_decoder);
     dc_subclasses := dc_subclasses client_decoder;
     dc_default := dc_default client_decoder |}.

Lemma server_simple_ok : table_simple server_decoder = true. Proof. vm_compute. reflexivity. Qed.
Lemma client_simple_ok : table_simple client_simple = true. Proof. vm_compute. reflexivity. Qed.

(* exactly two classes are excluded, and the full response table is NOT simple *)
Lemma client_simple_excludes :
  map cr_name (filter (fun row => negb (rule_good_b (cr_rule row))) (dc_classes client_decoder))
  = ["ReadFifoQueueResponse"%string; "ReadDeviceInformationResponse"%string] /\
  table_simple client_decoder = false.
Proof. split; vm_compute; reflexivity. Qed.

Lemma table_simple_lookup dc fc : table_simple dc = true -> rule_good_b (lookup_rule dc fc) = true.
Proof.
  unfold table_simple. intros H. apply andb_prop in H. destruct H as [H1 H2].
  apply (lookup_rule_P (fun r => rule_good_b r = true)); [|exact H2].
  rewrite forallb_forall in H1. apply Forall_forall. exact H1.
Qed.

Lemma table_simple_rule dc fc : table_simple dc = true -> simple_rule (lookup_rule dc fc) = true.
Proof. intros H. pose proof (table_simple_lookup dc fc H) as G. unfold rule_good_b in G. apply andb_prop in G. tauto. Qed.

Lemma table_simple_known dc : table_simple dc = true -> known_rules dc.
Proof.
  unfold table_simple, known_rules, rows_sem. intros H. apply andb_prop in H. destruct H as [H1 H2].
  split.
  - rewrite forallb_forall in H1. apply Forall_forall. intros row Hin. apply rule_sem_of_bool.
    specialize (H1 row Hin). unfold rule_good_b in H1. apply andb_prop in H1. tauto.
  - apply rule_sem_of_bool. unfold rule_good_b in H2. apply andb_prop in H2. tauto.
Qed.

Lemma py_index_exn {A} (l : list A) i e : py_index l i = Raise e -> e = IndexError.
Proof. unfold py_index. destruct (_ || _)%bool; [congruence|]. destruct (nth_error _ _); congruence. Qed.

Lemma good_rule_exn r data e : rule_good_b r = true -> frame_size r data = Raise e -> e = IndexError.
Proof.
  destruct r as [k|p| | |]; cbn; try discriminate; intros _ H.
  destruct (py_index data p) eqn:E; [discriminate H|]. cbn [bind] in H. inversion H. subst. eapply py_index_exn. exact E.
Qed.

(* away from the two excluded function codes the restricted response table looks up the same rule *)
Lemma lookup_rows_filter (P : class_row -> bool) rows fc :
  (forall row, In row rows -> cr_fc row = fc -> P row = true) ->
  forall acc, lookup_rows (filter P rows) fc acc = lookup_rows rows fc acc.
Proof.
  induction rows as [|row t IH]; intros H acc; [reflexivity|]. cbn [filter lookup_rows].
  destruct (P row) eqn:Ep.
  - cbn [lookup_rows]. apply IH. intros r Hin. apply H. right. exact Hin.
  - destruct (cr_fc row =? fc) eqn:Ef.
    + apply Z.eqb_eq in Ef. rewrite (H row (or_introl eq_refl) Ef) in Ep. discriminate Ep.
    + apply IH. intros r Hin. apply H. right. exact Hin.
Qed.

Lemma client_simple_lookup fc : fc <> 24 -> fc <> 43 -> lookup_rule client_simple fc = lookup_rule client_decoder fc.
Proof.
  intros H24 H43. unfold lookup_rule, client_simple. cbn [dc_classes dc_default].
  rewrite lookup_rows_filter; [reflexivity|].
  assert (B : forallb (fun row => rule_good_b (cr_rule row) || (cr_fc row =? 24) || (cr_fc row =? 43)) (dc_classes client_decoder) = true)
    by (vm_compute; reflexivity).
  rewrite forallb_forall in B. intros row Hin Hfc. specialize (B row Hin). rewrite Hfc in B.
  replace (fc =? 24) with false in B by lia. replace (fc =? 43) with false in B by lia.
  rewrite !orb_false_r in B. exact B.
Qed.

(* ------------------------------------------------------------------ the reachable-state invariant *)

(* the header is {} , the initial dict, or a populated header (uid and len present) over a
   non-empty buffer *)
Definition rtu_inv (st : rstate) : Prop :=
  r_hdr st = hdr_empty \/ r_hdr st = r_hdr rtu_init \/
  (exists u n, h_uid (r_hdr st) = Some u /\ h_len (r_hdr st) = Some n /\ r_buf st <> []).

Lemma rtu_inv_init : rtu_inv rtu_init. Proof. right. left. reflexivity. Qed.
Lemma rtu_inv_reset st : rtu_inv (rtu_reset st). Proof. left. reflexivity. Qed.
Lemma rtu_inv_empty buf : rtu_inv {| r_buf := buf; r_hdr := hdr_empty |}. Proof. left. reflexivity. Qed.

(* with an empty buffer the header left over is one from which any frame is received *)
Lemma rtu_inv_waiting st f : rtu_inv st -> r_buf st = [] -> hdr_waiting f (r_hdr st).
Proof. intros [H|[H|(u & n & _ & _ & H)]] Hb; [left; exact H|right; left; exact H|congruence]. Qed.

(* what processIncomingPacket may let escape: ModbusIOException (decoder returned None) or what
   decoder.decode itself raised *)
Definition exit_ok (cfg : fcfg) (x : fexit) : Prop :=
  x = FOk \/ x = FExn ModbusIOExc \/
  (exists pdu e, cf_dec cfg pdu = DRaise e /\ x = FExn e) \/
  (exists pdu, cf_dec cfg pdu = DMissing /\ x = FMissing).

Lemma validate_some cfg v : exists b, validate_unit cfg (Some v) = Ok b.
Proof. unfold validate_unit. destruct (cf_single cfg); [eexists; reflexivity|]. destruct (_ || _)%bool; eexists; reflexivity. Qed.

Lemma wfb_pyslice l a b : wfb l = true -> wfb (pyslice l a b) = true.
Proof. intros H. unfold pyslice. apply wfb_firstn, wfb_skipn, H. Qed.

(* isFrameReady never raises on such tables and keeps the invariant *)
Lemma rtu_ready_safe cfg st st1 r : table_simple (cf_rules cfg) = true -> rtu_inv st ->
  rtu_ready cfg st = (st1, r) -> (exists b, r = Ok b) /\ r_buf st1 = r_buf st /\ rtu_inv st1.
Proof.
  intros Ht Hi R. pose proof (rtu_ready_buf' _ _ _ _ R) as B1. revert R. unfold rtu_ready. rewrite rc_ready_closed.
  destruct (zlen (r_buf st) >? 1) eqn:L1; [|intros R; inversion R; subst; split; [eexists; reflexivity|split; [reflexivity|exact Hi]]].
  assert (Hne : r_buf st <> []) by (intro E; rewrite E in L1; cbn in L1; discriminate L1).
  destruct (hdr_is_empty (r_hdr st)) eqn:He.
  - unfold rtu_populate.
    destruct (py_index (r_buf st) 0) as [u|e0] eqn:I0.
    2: { apply py_index_exn in I0. subst e0. intros R. inversion R. subst. split; [eexists; reflexivity|]. split; [reflexivity|apply rtu_inv_empty]. }
    destruct (py_index (r_buf st) 1) as [fc|e1] eqn:I1.
    2: { apply py_index_exn in I1. subst e1. intros R. inversion R. subst. split; [eexists; reflexivity|]. split; [reflexivity|apply rtu_inv_empty]. }
    destruct (frame_size (lookup_rule (cf_rules cfg) (zb fc)) (r_buf st)) as [size|e2] eqn:Fs.
    2: { apply (good_rule_exn _ _ _ (table_simple_lookup _ _ Ht)) in Fs. subst e2. intros R. inversion R. subst.
         split; [eexists; reflexivity|]. split; [reflexivity|apply rtu_inv_empty]. }
    cbn [hdr_is_empty h_uid h_len h_crc r_hdr]. intros R. inversion R. subst.
    split; [eexists; reflexivity|]. split; [reflexivity|].
    right. right. exists (zb u), size. cbn [r_hdr r_buf h_uid h_len]. repeat split; try reflexivity. exact Hne.
  - rewrite He. destruct Hi as [Hi|[Hi|(u & n & Hu & Hn & Hb)]].
    + rewrite Hi in He. cbn in He. discriminate He.
    + rewrite Hi, rc_init_hdr. cbn [h_len]. intros R. inversion R. subst.
      split; [eexists; reflexivity|]. split; [reflexivity|right; left; exact Hi].
    + rewrite Hn. intros R. inversion R. subst. split; [eexists; reflexivity|]. split; [reflexivity|].
      right. right. exists u, n. repeat split; assumption.
Qed.

(* checkFrame never raises on such tables *)
Lemma rtu_check_safe cfg st st2 r : table_simple (cf_rules cfg) = true -> wfb (r_buf st) = true ->
  rtu_check cfg st = (st2, r) -> exists b, r = Ok b.
Proof.
  intros Ht Hw. unfold rtu_check, rtu_check_body.
  destruct (rtu_populate cfg st) as [st1 [e|]] eqn:P.
  - assert (e = IndexError).
    { unfold rtu_populate in P.
      destruct (py_index (r_buf st) 0) eqn:I0; [|inversion P; subst; eapply py_index_exn; exact I0].
      destruct (py_index (r_buf st) 1) eqn:I1; [|inversion P; subst; eapply py_index_exn; exact I1].
      destruct (frame_size _ _) eqn:Fs; inversion P. subst.
      exact (good_rule_exn _ _ _ (table_simple_lookup _ _ Ht) Fs). }
    subst e. cbn [caught_by_check]. intros H. inversion H. eexists. reflexivity.
  - pose proof P as P'. apply rtu_populate_ok in P'. destruct P' as (u & fc & size & _ & _ & _ & Hb & _ & Hl). rewrite Hl.
    destruct (py_index _ 0) eqn:C0.
    2: { apply py_index_exn in C0. subst. cbn [caught_by_check]. intros H. inversion H. eexists. reflexivity. }
    destruct (py_index _ 1) eqn:C1.
    2: { apply py_index_exn in C1. subst. cbn [caught_by_check]. intros H. inversion H. eexists. reflexivity. }
    rewrite py_check_crc_spec by (apply wfb_pyslice; rewrite Hb; exact Hw).
    destruct (_ =? _); intros H; inversion H; eexists; reflexivity.
Qed.

(* ------------------------------------------------------------------ the drain loop on simple tables *)

Definition raised_at (b b' : bytes) (new : list delivered) : Prop :=
  exists u p pre rest, b = pre ++ spec_adu_rtu u p ++ rest /\ b' = spec_adu_rtu u p ++ rest /\
                       crc_ok (spec_adu_rtu u p) = true /\ forall d, In d new -> rtu_justified pre d.

Lemma rtu_loop_safe cfg : table_simple (cf_rules cfg) = true -> forall fuel st acc st' ds x,
  wfb (r_buf st) = true -> rtu_inv st -> (length (r_buf st) + 1 <= fuel)%nat ->
  rtu_loop fuel cfg st acc = (st', ds, x) ->
  exit_ok cfg x /\ rtu_inv st' /\ (exists pre, r_buf st = pre ++ r_buf st') /\
  exists new, ds = acc ++ new /\ (x <> FOk -> raised_at (r_buf st) (r_buf st') new).
Proof.
  intros Ht. pose proof (table_simple_known _ Ht) as Hk.
  induction fuel as [|k IH]; intros st acc st' ds x Hw Hi Hf H; [lia|]. cbn [rtu_loop] in H.
  destruct (rtu_ready cfg st) as [st1 r] eqn:R.
  destruct (rtu_ready_safe cfg st st1 r Ht Hi R) as ((b & ->) & B1 & Hi1).
  destruct b.
  2: { inversion H. subst. split; [left; reflexivity|]. split; [exact Hi1|]. split; [exists []; rewrite B1; reflexivity|].
       exists []. split; [rewrite app_nil_r; reflexivity|intros C; congruence]. }
  pose proof (rtu_ready_true_len _ _ _ R) as L2.
  destruct (rtu_check cfg st1) as [st2 r2] eqn:C.
  destruct (rtu_check_safe cfg st1 st2 r2 Ht ltac:(rewrite B1; exact Hw) C) as (b2 & ->).
  destruct b2.
  - pose proof C as C'. apply rtu_check_true in C'; [|exact Hk|rewrite B1; exact Hw].
    destruct C' as (u & body & c0 & c1 & rest & Hsplit & Hb2 & Hu & Hl & Hlen & Hcrc).
    assert (Hb2' : r_buf st2 = (u :: body) ++ [c0; c1] ++ rest) by (rewrite Hb2; exact Hsplit).
    destruct (rtu_process_spec cfg st2 u body c0 c1 rest Hb2' Hu Hl Hlen) as [P A].
    rewrite B1 in Hsplit.
    assert (Hws : (c0 < 256)%N /\ (c1 < 256)%N /\ wfb rest = true).
    { rewrite Hsplit in Hw. rewrite !wfb_app in Hw. apply andb_prop in Hw. destruct Hw as [_ Hw]. apply andb_prop in Hw. destruct Hw as [H2 H3].
      cbn in H2. unfold byteb in H2. repeat split; try assumption; lia. }
    destruct Hws as (H0 & H1 & Hwr).
    destruct (crc_split c0 c1 H0 H1) as [Elo Ehi].
    assert (Espec : spec_adu_rtu u body = (u :: body) ++ [c0; c1]).
    { unfold spec_adu_rtu, with_crc. rewrite Hcrc, Elo, Ehi. reflexivity. }
    assert (Hbuf : r_buf st = spec_adu_rtu u body ++ rest) by (rewrite Hsplit, Espec, <- app_assoc; reflexivity).
    assert (Hok : crc_ok (spec_adu_rtu u body) = true) by (rewrite Espec; apply crc_ok_app; exact Hcrc).
    assert (Hlr : (length rest + 1 <= k)%nat).
    { rewrite Hsplit in Hf. rewrite !app_length in Hf. cbn [length] in Hf. lia. }
    assert (Hi2 : rtu_inv st2).
    { right. right. exists (zb u), (zlen (u :: body) + 2). repeat split; try assumption. rewrite Hb2'. discriminate. }
    (* what happens when the loop goes on with [rest] *)
    assert (Cont : forall d1 : list delivered, (forall d, In d d1 -> d = (body, zb u)) ->
              rtu_loop k cfg {| r_buf := rest; r_hdr := hdr_empty |} (acc ++ d1) = (st', ds, x) ->
              exit_ok cfg x /\ rtu_inv st' /\ (exists pre, r_buf st = pre ++ r_buf st') /\
              exists new, ds = acc ++ new /\ (x <> FOk -> raised_at (r_buf st) (r_buf st') new)).
    { intros d1 Hd1 HL. apply IH in HL; [|exact Hwr|apply rtu_inv_empty|exact Hlr].
      destruct HL as (Hx & Hi' & (pre' & Hpre') & new' & -> & Hr'). cbn [r_buf] in Hpre', Hr'.
      split; [exact Hx|]. split; [exact Hi'|].
      split; [exists (spec_adu_rtu u body ++ pre'); rewrite Hbuf, Hpre', <- app_assoc; reflexivity|].
      exists (d1 ++ new'). split; [rewrite app_assoc; reflexivity|].
      intros Hne. destruct (Hr' Hne) as (u' & p' & pre2 & rest2 & E1 & E2 & Hok2 & Hj).
      exists u', p', (spec_adu_rtu u body ++ pre2), rest2.
      split; [rewrite Hbuf, E1, <- app_assoc; reflexivity|]. split; [exact E2|]. split; [exact Hok2|].
      intros d Hin. apply in_app_or in Hin. destruct Hin as [Hin|Hin].
      - rewrite (Hd1 d Hin). exists u, [], pre2. cbn [fst snd app]. split; [reflexivity|]. split; [reflexivity|].
        split; [exact Hok | rewrite Espec; apply spec_rx_rtu_app; assumption].
      - apply rtu_justified_shift, Hj, Hin. }
    (* what happens when _process raises on this frame *)
    assert (Stop : forall y, exit_ok cfg y -> y <> FOk -> (st2, acc ++ [], y) = (st', ds, x) ->
              exit_ok cfg x /\ rtu_inv st' /\ (exists pre, r_buf st = pre ++ r_buf st') /\
              exists new, ds = acc ++ new /\ (x <> FOk -> raised_at (r_buf st) (r_buf st') new)).
    { intros y Hy _ E. inversion E. subst. split; [exact Hy|]. split; [exact Hi2|].
      split; [exists []; rewrite Hb2, B1; reflexivity|].
      exists []. split; [reflexivity|]. intros _. exists u, body, [], rest.
      split; [exact Hbuf|]. split; [rewrite Hb2, B1; exact Hbuf|]. split; [exact Hok|intros ? []]. }
    rewrite Hu in H. destruct (validate_some cfg (zb u)) as (bv & Ev). rewrite Ev in H. destruct bv.
    + rewrite P in H. destruct (cf_dec cfg body) eqn:D.
      * apply (Cont [(body, zb u)]); [intros d [<-|[]]; reflexivity|exact H].
      * apply (Stop (FExn ModbusIOExc)); [right; left; reflexivity|discriminate|exact H].
      * apply (Stop (FExn e)); [right; right; left; exists body, e; split; [exact D|reflexivity]|discriminate|exact H].
      * apply (Stop FMissing); [right; right; right; exists body; split; [exact D|reflexivity]|discriminate|exact H].
    + rewrite A in H. apply (Cont []); [intros ? []|rewrite app_nil_r; exact H].
  - destruct (r_buf st2) as [|y t] eqn:E2.
    + apply IH in H; [|reflexivity|apply rtu_inv_reset|cbn [rtu_reset r_buf length]; lia].
      destruct H as (Hx & Hi' & (pre' & Hpre') & new' & -> & Hr'). cbn [rtu_reset r_buf] in Hpre', Hr'.
      symmetry in Hpre'. apply app_eq_nil in Hpre'. destruct Hpre' as [_ Hnil].
      split; [exact Hx|]. split; [exact Hi'|]. split; [exists (r_buf st); rewrite Hnil, app_nil_r; reflexivity|].
      exists new'. split; [reflexivity|]. intros Hne. exfalso.
      destruct (Hr' Hne) as (u' & p' & pre2 & rest2 & E1 & _). symmetry in E1.
      apply app_eq_nil in E1. destruct E1 as [_ E1]. apply app_eq_nil in E1. destruct E1 as [E1 _].
      unfold spec_adu_rtu, with_crc in E1. cbn [app] in E1. discriminate E1.
    + inversion H. subst. split; [left; reflexivity|]. split; [apply rtu_inv_empty|].
      split.
      * exists []. cbn [r_buf app].
        destruct (rtu_check_false_resets _ _ _ C) as [[E _] | E]; [rewrite E in E2; discriminate E2|].
        rewrite <- E2, E, B1. reflexivity.
      * exists []. split; [rewrite app_nil_r; reflexivity|intros Cn; congruence].
Qed.

(* ------------------------------------------------------------------ interface theorems *)

(* (1) One rtu_recv call from any state satisfying the reachable-state invariant, on any chunk,
   with a decoder table of prefix-stable size rules: nothing escapes but ModbusIOException
   (decoder returned None) or what decoder.decode itself raised — no struct.error / KeyError /
   IndexError of the framer; the fuel of the model's loop is not exhausted; the invariant holds
   again; the buffer afterwards is a suffix of buffer ++ chunk (it never grows). *)
Theorem rtu_raises_only_io cfg st chunk st' ds x :
  table_simple (cf_rules cfg) = true -> wfb (r_buf st ++ chunk) = true -> rtu_inv st ->
  rtu_recv cfg st chunk = (st', ds, x) ->
  exit_ok cfg x /\ x <> FOutOfFuel /\ rtu_inv st' /\ exists pre, r_buf st ++ chunk = pre ++ r_buf st'.
Proof.
  intros Ht Hw Hi R. unfold rtu_recv in R.
  apply (rtu_loop_safe cfg Ht) in R; [|exact Hw| |cbn [r_buf]; lia].
  - destruct R as (Hx & Hi' & Hpre & _). cbn [r_buf] in Hpre. split; [exact Hx|]. split; [|split; assumption].
    destruct Hx as [->|[->|[(p & e & _ & ->)|(p & _ & ->)]]]; discriminate.
  - destruct Hi as [Hi|[Hi|(u & n & Hu & Hn & Hb)]]; [left; exact Hi|right; left; exact Hi|].
    right. right. exists u, n. cbn [r_hdr r_buf]. repeat split; try assumption.
    intro E. apply app_eq_nil in E. destruct E as [E _]. exact (Hb E).
Qed.

(* with a decoder that never raises (ClientDecoder.decode catches everything) only ModbusIOException is left *)
Corollary rtu_raises_only_io_total cfg st chunk st' ds x :
  table_simple (cf_rules cfg) = true -> wfb (r_buf st ++ chunk) = true -> rtu_inv st ->
  (forall pdu, cf_dec cfg pdu = DMsg \/ cf_dec cfg pdu = DNone) ->
  rtu_recv cfg st chunk = (st', ds, x) -> x = FOk \/ x = FExn ModbusIOExc.
Proof.
  intros Ht Hw Hi Hd R. destruct (rtu_raises_only_io cfg st chunk st' ds x Ht Hw Hi R) as (Hx & _).
  destruct Hx as [->|[->|[(p & e & D & _)|(p & D & _)]]]; [left; reflexivity|right; reflexivity| |];
    destruct (Hd p) as [E|E]; rewrite E in D; discriminate D.
Qed.

(* (2) the invariant: initial state, resetFrame, every rtu_recv call whatever its exit *)
Theorem rtu_inv_recv cfg st chunk st' ds x :
  table_simple (cf_rules cfg) = true -> wfb (r_buf st ++ chunk) = true -> rtu_inv st ->
  rtu_recv cfg st chunk = (st', ds, x) -> rtu_inv st'.
Proof. intros Ht Hw Hi R. exact (proj1 (proj2 (proj2 (rtu_raises_only_io cfg st chunk st' ds x Ht Hw Hi R)))). Qed.

Theorem rtu_empty_buffer_header st f : rtu_inv st -> r_buf st = [] -> hdr_waiting f (r_hdr st).
Proof. exact (rtu_inv_waiting st f). Qed.

(* ... so a whole valid frame handed to ANY reachable state with an empty buffer, whatever header is
   left over, is delivered exactly once and leaves the synchronised state *)
Theorem rtu_whole_frame_any cfg st u pdu : rtu_inv st -> r_buf st = [] -> valid_frame cfg true u pdu ->
  rtu_recv cfg st (spec_adu_rtu u pdu) = ({| r_buf := []; r_hdr := hdr_empty |}, [(pdu, zb u)], FOk).
Proof.
  intros Hi Hb V. unfold rtu_recv. rewrite Hb. cbn [app r_buf].
  rewrite <- (app_nil_r (spec_adu_rtu u pdu)) at 2.
  rewrite (rtu_loop_complete cfg _ (r_hdr st) true u pdu [] [] V); [|apply rtu_inv_waiting; assumption|reflexivity].
  destruct (length (spec_adu_rtu u pdu ++ [])) eqn:L;
    [rewrite app_nil_r in L; unfold spec_adu_rtu, with_crc in L; rewrite app_length in L; cbn in L; lia|].
  apply rtu_loop_empty.
Qed.

(* (3) the bytes contain two CRC-valid frames one behind the other *)
Definition two_frames (b : bytes) : Prop :=
  exists pre u1 p1 mid u2 p2 rest,
    b = pre ++ spec_adu_rtu u1 p1 ++ mid ++ spec_adu_rtu u2 p2 ++ rest /\
    crc_ok (spec_adu_rtu u1 p1) = true /\ crc_ok (spec_adu_rtu u2 p2) = true.

(* a raising call raised on a CRC-valid frame that is now at the head of the buffer, and whatever
   it delivered before lies in front of that frame *)
Theorem rtu_raise_position cfg st chunk st' ds x :
  table_simple (cf_rules cfg) = true -> wfb (r_buf st ++ chunk) = true -> rtu_inv st ->
  rtu_recv cfg st chunk = (st', ds, x) -> x <> FOk -> raised_at (r_buf st ++ chunk) (r_buf st') ds.
Proof.
  intros Ht Hw Hi R Hne. unfold rtu_recv in R.
  apply (rtu_loop_safe cfg Ht) in R; [|exact Hw| |cbn [r_buf]; lia].
  - destruct R as (_ & _ & _ & new & -> & Hr). cbn [r_buf app] in *. exact (Hr Hne).
  - destruct Hi as [Hi|[Hi|(u & n & Hu & Hn & Hb)]]; [left; exact Hi|right; left; exact Hi|].
    right. right. exists u, n. cbn [r_hdr r_buf]. repeat split; try assumption.
    intro E. apply app_eq_nil in E. destruct E as [E _]. exact (Hb E).
Qed.

(* on a read that contains at most one complete (CRC-valid) frame, a raising call has delivered nothing *)
Theorem rtu_one_frame_clean cfg st chunk st' ds x :
  table_simple (cf_rules cfg) = true -> wfb (r_buf st ++ chunk) = true -> rtu_inv st ->
  ~ two_frames (r_buf st ++ chunk) ->
  rtu_recv cfg st chunk = (st', ds, x) -> x <> FOk -> ds = [].
Proof.
  intros Ht Hw Hi H2 R Hne.
  destruct (rtu_raise_position cfg st chunk st' ds x Ht Hw Hi R Hne) as (u & p & pre & rest & E1 & _ & Hok & Hj).
  destruct ds as [|d ds']; [reflexivity|]. exfalso. apply H2.
  destruct (Hj d (or_introl eq_refl)) as (u1 & pre1 & rest1 & Ep & _ & Hok1 & _).
  exists pre1, u1, (fst d), rest1, u, p, rest. split; [|split; assumption].
  rewrite E1, Ep, <- !app_assoc. reflexivity.
Qed.

Example rtu_client_nonvacuous :
  let cfg := {| cf_dec := fun _ => DMsg; cf_rules := client_simple; cf_units := [1]; cf_single := false |} in
  table_simple (cf_rules cfg) = true /\ rtu_inv rtu_init /\ valid_frame cfg true 1 [3; 2; 0; 7]%N /\
  valid_frame cfg true 1 [131; 2]%N /\ ~ two_frames (spec_adu_rtu 1 [131; 2]%N).
Proof.
  cbv zeta. split; [exact client_simple_ok|]. split; [exact rtu_inv_init|]. split; [|split].
  - constructor; try reflexivity; try (intro; reflexivity).
    exists 3%N, [2; 0; 7]%N. repeat split; vm_compute; reflexivity.
  - constructor; try reflexivity; try (intro; reflexivity).
    exists 131%N, [2]%N. repeat split; vm_compute; reflexivity.
  - intros (pre & u1 & p1 & mid & u2 & p2 & rest & E & _).
    apply (f_equal (@length N)) in E. unfold spec_adu_rtu, with_crc in E. rewrite !app_length in E. cbn [length] in E. lia.
Qed.
