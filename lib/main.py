"""./check entry point.

  ./check --setup                      build everything from /repo's current tree
  ./check Cxx [--tier quick|thorough]  decide one property (exit 0 / exit 1 + VIOLATION line)
  ./check Cxx --replay <file>          re-run the input recorded in a replay file
  ./check --update-ref                 refresh coq/GeneratedRef from the current tree (maintenance)
  ./check --manifest                   regenerate MANIFEST.json from props/*.py metadata
"""
import glob
import importlib
import json
import os
import sys
import time
import traceback

from . import common, coqrun
from .common import VERIF, EVIDENCE, REPLAYS, FINDINGS

sys.path.insert(0, VERIF)


class Case:
    """One correspondence/property case.
    term  — Coq term (input + what the implementation returned)
    desc  — JSON-able record from which the case can be re-run (goes to samples / replays)
    kind  — label for the input-distribution histogram
    nontrivial — reaches a non-error path of the component under test
    key   — hashable identity for the distinct count (default: the term)"""

    def __init__(self, term, desc, kind="case", nontrivial=True, key=None):
        self.term, self.desc, self.kind, self.nontrivial = term, desc, kind, nontrivial
        self.key = key if key is not None else term
        common.WATCHDOG.beat(desc)


class Suite:
    def __init__(self, name, imports, chk, cases, shard=300, note=""):
        self.name, self.imports, self.chk, self.cases, self.shard, self.note = name, imports, chk, cases, shard, note


class _Merged:
    """a property module plus its add-on modules props/<pid>_x_*.py (extra Props files, generators,
    suites, findings classification) merged into one object with the same interface"""

    def __init__(self, base, extras):
        self._base, self._extras = base, extras
        for k in dir(base):
            if not k.startswith("__") and not hasattr(_Merged, k):
                setattr(self, k, getattr(base, k))
        allm = [base] + extras
        self.GENERATORS = sorted(set(g for m in allm for g in getattr(m, "GENERATORS", [])))
        self.PROP_FILES = [f for m in allm for f in (getattr(m, "PROP_FILES", None) or
                                                      ([m.PROP_FILE] if hasattr(m, "PROP_FILE") else []))]
        self.PROP_FILE = self.PROP_FILES[0]
        self.CASE_DEPS = sorted(set(d for m in allm for d in getattr(m, "CASE_DEPS", [])))
        self.TRUSTED = [t for m in allm for t in getattr(m, "TRUSTED", [])]
        self.ASSUMPTIONS = [t for m in allm for t in getattr(m, "ASSUMPTIONS", [])]

    def suites(self, tier):
        return [s for m in [self._base] + self._extras for s in m.suites(tier)]

    def classify(self, suite, desc):
        for m in [self._base] + self._extras:
            r = m.classify(suite, desc) if hasattr(m, "classify") else None
            if r is not None:
                return r
        return None

    def replay_finding(self, f):
        for m in [self._base] + self._extras:
            r = m.replay_finding(f) if hasattr(m, "replay_finding") else None
            if r is not None:
                return r
        return None

    def replay_case(self, suite, desc):
        for m in [self._base] + self._extras:
            if hasattr(m, "replay_case"):
                r = m.replay_case(suite, desc)
                if r is not None:
                    return r
        return True

    def extra_checks(self, tier):
        out = {}
        for m in [self._base] + self._extras:
            if hasattr(m, "extra_checks"):
                out.update(m.extra_checks(tier) or {})
        return out

    def shrink(self, suite, desc):
        for m in [self._base] + self._extras:
            if hasattr(m, "shrink"):
                r = m.shrink(suite, desc)
                if r is not None:
                    return r
        return None


def load_prop(pid):
    base = importlib.import_module("props." + pid.lower())
    extras = [importlib.import_module("props." + os.path.basename(p)[:-3])
              for p in sorted(glob.glob(os.path.join(VERIF, "props", pid.lower() + "_x_*.py")))]
    return _Merged(base, extras) if extras else base


def load_findings(pid):
    """findings/<pid>.json and findings/<pid>_*.json (committed; never written at run time)"""
    out = []
    for path in sorted(glob.glob(os.path.join(FINDINGS, pid + ".json")) +
                       glob.glob(os.path.join(FINDINGS, pid + "_*.json"))):
        with open(path) as f:
            out += json.load(f)
    return out


def write_replay(pid, record):
    os.makedirs(os.path.join(REPLAYS, pid), exist_ok=True)
    path = os.path.join(REPLAYS, pid, "%d_%d.json" % (int(time.time()), os.getpid()))
    common.jdump(record, path)
    return path


def setup():
    t = common.Timer()
    with common.build_lock():
        fails, changed = coqrun.regenerate(coqrun.all_generators())
        for f in fails:
            print("setup: translator failure (left to the property checks): %s" % f["error"])
        coqrun.ensure_makefile()
        ok, out, errors = coqrun.make([], timeout=3000, keep_going=True)
        if not ok:
            # a proof broken by the current tree is reported by the property checks, not by setup;
            # setup only fails if the model layer itself does not build
            ok2, out2, errors2 = coqrun.make(["theories/%s.vo" % os.path.basename(p)[:-2]
                                              for p in glob.glob(os.path.join(common.COQ, "theories", "*.v"))],
                                             timeout=1500, keep_going=True)
            for e in errors:
                print("setup: build error in %s (%s): %s" % (e["file"], e["statement"], e["message"][:300]))
            if not ok2:
                print("setup: FAILED to build the model layer")
                return 1
    bad = coqrun.hygiene()
    for b in bad:
        print("setup: hygiene: " + b)
    print("setup: done in %ss" % t.s())
    return 0


def run_property(pid, tier):
    t = common.Timer()
    common.quiet_logging()
    common.assert_repo_import()
    mod = load_prop(pid)
    seed = common.seed()
    broken = []          # ties that no longer check: translator / proof / correspondence / evaluation
    failing = []         # property failures on the implementation not covered by a known finding
    known_hits = {}
    findings = load_findings(pid)

    # 1-2. regenerate and re-prove
    with common.build_lock():
        fails, changed = coqrun.regenerate(mod.GENERATORS)
        for f in fails:
            broken.append({"kind": "translator", "detail": f["error"]})
        prop_files = getattr(mod, "PROP_FILES", None) or [mod.PROP_FILE]
        proof = {"ok": True, "theorems": [], "printed": [], "assumptions": {}, "errors": [], "output": ""}
        for pf in prop_files:
            pr = coqrun.prove(pf)
            proof["ok"] = proof["ok"] and pr["ok"]
            proof["theorems"] += pr["theorems"]
            proof["printed"] += pr["printed"]
            proof["assumptions"].update(pr["assumptions"])
            proof["errors"] += pr["errors"]
        if not proof["ok"]:
            for e in proof["errors"]:
                broken.append({"kind": "proof", "detail": "%s line %s, statement %s: %s" % (
                    e["file"], e["line"], e["statement"], e["message"][:600]),
                    "theorem": e["statement"], "file": e["file"]})
        # supporting model files needed by the case files
        extra = getattr(mod, "CASE_DEPS", [])
        if extra:
            ok, out, errors = coqrun.make(extra, timeout=1500)
            if not ok:
                for e in errors:
                    broken.append({"kind": "model-build", "detail": "%s line %s: %s" % (e["file"], e["line"], e["message"][:600])})
    bad = coqrun.hygiene(prop_files, getattr(mod, "CASE_DEPS", []))
    for b in bad:
        broken.append({"kind": "hygiene", "detail": b})

    # 3. correspondence + property oracle, evaluated inside Coq
    suites_report = {}
    evaluations = 0
    distinct = set()
    hist = {}
    samples = []

    def on_trip(entry):
        # runs inside the signal handler: verdict, replay, evidence, exit (never returns)
        path = write_replay(pid, {"property": pid, "verdict": "no-failing-input-found", "seed": seed, "tier": tier,
                                  "no_longer_checks": broken[:20] + [entry]})
        print("VIOLATION property=%s replay=%s no-failing-input-found" % (pid, path))
        common.jdump({"property_id": pid, "tier": tier, "seed": seed, "level": "proof",
                      "coverage": {"obligations": max(len(proof["printed"]), 1), "discharged_count": 0,
                                   "checker_cmd": "aborted by the progress watchdog", "trusted_base": ["run aborted"],
                                   "evaluations": 0, "distinct_nontrivial": 0, "rule": getattr(mod, "RULE", "see DESIGN.md"),
                                   "samples": [{"note": "run aborted by the progress watchdog", "last_completed_case": entry.get("last_completed_case")}],
                                   "broken_ties": [entry]},
                      "wall_s": t.s(), "violations": 1}, os.path.join(EVIDENCE, pid + ".json"))
        print("%s: tier=%s seed=%d ABORTED by the progress watchdog in phase '%s' wall=%ss" % (pid, tier, seed, entry.get("phase"), t.s()))
        sys.stdout.flush()
        os._exit(1)

    try:
        budget = int(os.environ.get("VERIF_PROGRESS_WATCHDOG_S", "0")) or (600 if tier == "quick" else 7200)
    except ValueError:
        budget = 600
    common.WATCHDOG.start(budget, "suite generation (running the implementation)", on_trip)
    try:
        suites = mod.suites(tier)
    except Exception:
        suites = []
        broken.append({"kind": "harness", "detail": "suite generation crashed:\n" + traceback.format_exc()[-1500:]})
    common.WATCHDOG.stop()
    for s in suites:
        evaluations += len(s.cases)
        for c in s.cases:
            hist[s.name + ":" + c.kind] = hist.get(s.name + ":" + c.kind, 0) + 1
            if c.nontrivial:
                distinct.add((s.name, c.key))
        samples += [{"suite": s.name, "case": c.desc} for c in s.cases[:2]]
        r = coqrun.eval_cases(pid + "_" + s.name, s.imports, s.chk, [c.term for c in s.cases], shard=s.shard)
        rep = {"cases": len(s.cases), "disagreements": len(r["disagree"]),
               "property_failures": len(r["propfail"]), "known": 0, "errors": len(r["errors"])}
        for e in r["errors"]:
            broken.append({"kind": "case-evaluation", "suite": s.name, "detail": e[-800:]})
        for i in r["propfail"]:
            c = s.cases[i]
            fid = mod.classify(s.name, c.desc) if hasattr(mod, "classify") else None
            if fid is not None and any(f["id"] == fid and f.get("status") == "open" for f in findings):
                known_hits[fid] = known_hits.get(fid, 0) + 1
                rep["known"] += 1
            else:
                d = c.desc
                if hasattr(mod, "shrink") and len(failing) < 3:
                    try:
                        d = mod.shrink(s.name, c.desc) or c.desc
                    except Exception:
                        d = c.desc
                failing.append({"suite": s.name, "case": d, "index": i,
                                "how": "property oracle (Coq spec side) rejects what the implementation did"})
        for i in r["disagree"]:
            c = s.cases[i]
            if i in r["propfail"]:
                continue
            broken.append({"kind": "correspondence", "suite": s.name, "index": i, "case": c.desc,
                           "detail": "model and implementation differ on this case"})
        suites_report[s.name] = rep

    # 3b. python-side checks (impl-vs-impl, schedulers, …) where a property module has them
    if hasattr(mod, "extra_checks"):
        common.WATCHDOG.start(budget, "python-side checks (extra_checks)", on_trip)
        try:
            for name, res in mod.extra_checks(tier).items():
                evaluations += res.get("evaluations", 0)
                suites_report[name] = {k: v for k, v in res.items() if k not in ("failures", "samples", "keys")}
                samples += [{"suite": name, "case": c} for c in res.get("samples", [])[:2]]
                for k in res.get("keys", []):
                    distinct.add((name, k))
                for fcase in res.get("failures", []):
                    fid = mod.classify(name, fcase) if hasattr(mod, "classify") else None
                    if fid is not None and any(f["id"] == fid and f.get("status") == "open" for f in findings):
                        known_hits[fid] = known_hits.get(fid, 0) + 1
                    else:
                        failing.append({"suite": name, "case": fcase, "how": "python-side property check"})
                for b in res.get("broken", []):
                    broken.append({"kind": "correspondence", "suite": name, "detail": b})
        except Exception:
            broken.append({"kind": "harness", "detail": "extra_checks crashed:\n" + traceback.format_exc()[-1500:]})
        common.WATCHDOG.stop()

    # 4. known findings: replay each witness on the implementation
    common.WATCHDOG.start(budget, "replaying the witnesses of the known findings", on_trip)
    for f in findings:
        common.WATCHDOG.beat({"finding": f.get("id")})
        still = None
        if hasattr(mod, "replay_finding") and not f.get("witness_py"):
            try:
                still = mod.replay_finding(f)
            except Exception:
                still = None
                broken.append({"kind": "harness", "detail": "replay_finding crashed for %s:\n%s" % (f["id"], traceback.format_exc()[-800:])})
        if still is None and f.get("witness_py"):
            # self-contained witness: python source defining fails() -> bool (True = the defect shows)
            try:
                ns = {}
                exec(f["witness_py"], ns)
                still = bool(ns["fails"]())
            except Exception:
                still = True if f.get("status") == "fixed" else None
                broken.append({"kind": "harness", "detail": "witness_py crashed for %s:\n%s" % (f["id"], traceback.format_exc()[-800:])})
        if f.get("status") == "open":
            if still is False:
                print("NOTE: finding %s no longer reproduces on this tree" % f["id"])
            else:
                print("KNOWN-FINDING: property=%s %s [%s]" % (pid, f["what"], f["id"]))
        elif f.get("status") == "fixed":
            if still:
                failing.append({"suite": "fixed-finding-witness", "case": f.get("witness"),
                                "how": "the witness of fixed finding %s fails again" % f["id"]})

    common.WATCHDOG.stop()

    # 4b. thorough: independent re-check of the property .vo files with coqchk
    coqchk_report = None
    if tier == "thorough" and proof["ok"] and not os.environ.get("VERIF_NO_COQCHK"):
        rcc, outc = common.run(["timeout", "1500", "coqchk", "-silent", "-o", "-R", ".", "PM"] +
                               ["PM.Props.%s" % f for f in prop_files], cwd=common.COQ, timeout=1600)
        coqchk_report = {"rc": rcc, "tail": outc[-3000:]}
        if rcc != 0:
            broken.append({"kind": "coqchk", "detail": outc[-1500:]})

    # 5. decide
    rc = 0
    replay_path = None
    if failing:
        replay_path = write_replay(pid, {"property": pid, "verdict": "failing-input", "seed": seed, "tier": tier,
                                         "failing": failing[:20], "broken": broken[:20]})
        print("VIOLATION property=%s replay=%s" % (pid, replay_path))
        rc = 1
    elif broken:
        replay_path = write_replay(pid, {"property": pid, "verdict": "no-failing-input-found", "seed": seed,
                                         "tier": tier, "no_longer_checks": broken[:40]})
        print("VIOLATION property=%s replay=%s no-failing-input-found" % (pid, replay_path))
        rc = 1

    # 6. evidence
    ass_set = sorted(set(a for a in proof["assumptions"].values() if not a.startswith("Closed under")))
    discharged = len([n for n in proof["printed"] if n in proof["assumptions"]])
    obligations = len(proof["printed"])
    trusted = list(getattr(mod, "TRUSTED", [])) + [
        "Coq 8.16.1 kernel (coqc, full .vo build, vm_compute; no native_compute, no -type-in-type)",
        "translator /verif/gen (fail-closed Python ast shape matching; prints Expr terms / constants)",
        "correspondence harness /verif/props + lib (drives the real classes in-process, prints Coq literals)",
        "Print Assumptions: " + ("every property theorem closed under the global context"
                                 if not ass_set and proof["ok"] else "; ".join(ass_set)[:1500] or "n/a (build failed)"),
    ]
    ev = {
        "property_id": pid, "tier": tier, "seed": seed, "level": "proof",
        "coverage": {
            "obligations": max(obligations, 1), "discharged": discharged,
            "checker_cmd": "make -C /verif/coq %s  (coqc 8.16.1, after regenerating Generated/*.v from /repo)" % " ".join("Props/%s.vo" % f for f in prop_files),
            "trusted_base": trusted,
            "theorems": [{"name": n, "assumptions": proof["assumptions"].get(n, "NOT CHECKED")} for n in proof["printed"]],
            "generated_files_differing_from_reference": coqrun.diff_from_ref(),
            "evaluations": evaluations, "distinct_nontrivial": len(distinct),
            "rule": getattr(mod, "RULE", "see DESIGN.md"),
            "samples": samples[:8] or [{"note": "no cases"}],
            "input_histogram": hist,
            "correspondence": suites_report,
            "known_finding_hits": known_hits,
            "broken_ties": broken[:10],
            "coqchk": coqchk_report,
        },
        "assumptions": list(getattr(mod, "ASSUMPTIONS", [])),
        "wall_s": t.s(),
        "violations": (len(failing) if failing else (1 if broken else 0)),
    }
    if discharged == 0:
        # schema: a proof-level record with discharged=0 is not valid; fall back to the generic keys
        del ev["coverage"]["discharged"]
        ev["coverage"]["discharged_count"] = 0
    common.jdump(ev, os.path.join(EVIDENCE, pid + ".json"))
    print("%s: tier=%s seed=%d theorems=%d/%d cases=%d distinct=%d broken=%d failing=%d known=%s wall=%ss" % (
        pid, tier, seed, discharged, obligations, evaluations, len(distinct), len(broken), len(failing),
        dict(known_hits), t.s()))
    return rc


def replay(pid, path):
    common.quiet_logging()
    common.assert_repo_import()
    mod = load_prop(pid)
    rec = json.load(open(path))
    if rec.get("verdict") == "no-failing-input-found":
        print("replay names ties that no longer check; re-running the quick check instead")
        return run_property(pid, "quick")
    bad = 0
    for f in rec.get("failing", []):
        if hasattr(mod, "replay_case"):
            still = mod.replay_case(f["suite"], f["case"])
            print("replay %s: %s" % (json.dumps(f["case"])[:200], "STILL FAILS" if still else "passes"))
            bad += 1 if still else 0
    if bad:
        print("VIOLATION property=%s replay=%s" % (pid, path))
        return 1
    return 0


def main(argv):
    os.environ.setdefault("PYTHONHASHSEED", "0")
    if not argv or argv[0] in ("-h", "--help"):
        print(__doc__)
        return 0
    if argv[0] == "--setup":
        return setup()
    if argv[0] == "--update-ref":
        with common.build_lock():
            fails, _ = coqrun.regenerate(coqrun.all_generators())
            if fails:
                print(fails)
                return 1
            coqrun.update_ref()
        return 0
    if argv[0] == "--manifest":
        from . import manifest
        return manifest.write()
    pid = argv[0].upper()
    tier = os.environ.get("VERIF_TIER", "quick")
    if "--tier" in argv:
        tier = argv[argv.index("--tier") + 1]
    if tier not in ("quick", "thorough"):
        tier = "quick"
    if "--replay" in argv:
        return replay(pid, argv[argv.index("--replay") + 1])
    return run_property(pid, tier)


if __name__ == "__main__":
    sys.exit(main(sys.argv[1:]))
