(* ExecOther.v — executable model of `request.execute(context)` for the request classes that
   do not touch the datastore: FC 7, 11, 12, 17 (other_message.py), FC 8 with all its
   sub-function classes (diag_message.py), FC 20, 21, 24 (file_message.py).  FC 43/14 is
   DevInfo.v's (C20).

   Requests and responses are objects of the PDU model (Pdu.obj, C01): a decoded request
   object goes in, the response object that the response constructor builds comes out, so
   that this composes with Pdu.py_encode / EndToEnd.  The execute() bodies are scripts
   regenerated from /repo by gen/gen_exec_other.py (Generated/GenExecOther.v); written by
   hand here: the interpreter, what the response constructors do with their arguments
   ([build_rsp]), and the server wrapper (exception -> doException(SlaveFailure)).
   No proofs in this file. *)
From PM.theories Require Import Base Expr Store PduCls Pdu Device Exec.
Open Scope string_scope.
Open Scope list_scope.
Open Scope Z_scope.

(* Python values that occur in these bodies *)
Inductive oval := ONone | OInt (z : Z) | OList (l : list Z) | OBytes (b : bytes) | ORecs (l : list frec).

Inductive dexpr :=
| XNone | XInt (z : Z)                (* None, an integer / True / False literal or named constant *)
| XMsg | XRecords | XValues           (* self.message, self.records, self.values *)
| XEmptyList                          (* [] *)
| XVar (x : string)
| XCounter (name : string)            (* _MCB.Counter.<name> *)
| XSummary                            (* _MCB.Counter.summary() *)
| XEvents                             (* _MCB.getEvents() *)
| XDiagPacked                         (* pack_bitstring(_MCB.getDiagnosticRegister()) *)
| XPlusEncode                         (* _MCB.Plus.encode() *)
| XArith (e : expr)                   (* integer arithmetic; atoms self.message self.address len(self.values) *)
| XList1 (d : dexpr)                  (* [d] *)
| XSlaveId (dflt : bytes).            (* '-'.join(DeviceInformationFactory.get(_MCB).values()).encode() or dflt *)

Inductive sstmt :=
| TAssign (x : string) (d : dexpr)
| TExtend (x : string) (d : dexpr)    (* x += d, both lists *)
| TSetDelimiter (d : dexpr)           (* _MCB.Delimiter = d *)
| TSetListenOnly (d : dexpr)          (* _MCB.ListenOnly = d *)
| TReset                              (* _MCB.reset() *)
| TSetCounter (name : string) (d : dexpr)
| TPlusReset.                         (* _MCB.Plus.reset() *)

Inductive ostmt :=
| TS (s : sstmt)
| TIfEq (a b : dexpr) (th el : list sstmt)              (* if a == b: th else: el *)
| TGuard (c : expr) (code : Z)                          (* if c: return self.doException(code) *)
| TReturn (cls : string) (args : list (string * dexpr)) (* return Cls(a, k=b, …); "" = positional *)
| TRaise (e : pyexn).                                   (* raise … / the class has no execute *)

Record other_code := {
  y_scripts : list (string * list ostmt);   (* request class name -> execute body *)
  y_counter_idx : list (string * nat);      (* ModbusCountersHandler property -> index into __data *)
  y_rsp_sub : list (string * Z);            (* diagnostic response class -> sub_function_code *)
  y_status_on : Z; y_status_off : Z         (* ModbusStatus.On / Off *)
}.

(* what execute reads from `self` *)
Record oself := { s_message : oval; s_address : Z; s_values : list Z; s_records : list frec }.

Definition oval_of_dmsg (m : dmsg) : oval :=
  match m with DNone => ONone | DInt v => OInt v | DList l | DTuple l => OList l | DBytes b => OBytes b end.

Definition self_of (o : obj) : oself :=
  match o with
  | ODiag _ _ m => {| s_message := oval_of_dmsg m; s_address := 0; s_values := []; s_records := [] |}
  | OFileRecs _ rs => {| s_message := ONone; s_address := 0; s_values := []; s_records := rs |}
  | OFixed _ a => {| s_message := ONone;
                     s_address := match Pdu.assoc_str "address" a with Some v => v | None => 0 end;
                     s_values := []; s_records := [] |}      (* ReadFifoQueueRequest.values = [] from __init__ *)
  | _ => {| s_message := ONone; s_address := 0; s_values := []; s_records := [] |}
  end.

Definition olocals := list (string * oval).

Section Run.
Variable X : exec_code.
Variable Y : other_code.

Definition oenv (s : oself) : res env :=
  match s_message s with
  | OInt m => Ok (env_of [("self.message", m); ("self.address", s_address s);
                          ("len(self.values)", Z.of_nat (length (s_values s)))])
  | ONone => Ok (env_of [("self.address", s_address s); ("len(self.values)", Z.of_nat (length (s_values s)))])
  | _ => Raise TypeError                     (* arithmetic on a list / bytes message *)
  end.

Definition recs_val (rs : list frec) : oval := match rs with [] => OList [] | _ => ORecs rs end.

Fixpoint eval_d (dv : device) (s : oself) (lo : olocals) (d : dexpr) : res oval :=
  match d with
  | XNone => Ok ONone
  | XInt z => Ok (OInt z)
  | XMsg => Ok (s_message s)
  | XRecords => Ok (recs_val (s_records s))
  | XValues => Ok (OList (s_values s))
  | XEmptyList => Ok (OList [])
  | XVar x => match Store.assoc_str lo x with Some v => Ok v | None => Raise AttributeError end
  | XCounter n => match Store.assoc_str (y_counter_idx Y) n with
                  | Some i => do v <- counter dv i; Ok (OInt v)
                  | None => Raise AttributeError
                  end
  | XSummary => Ok (OInt (summary dv))
  | XEvents => Ok (OBytes (get_events dv))
  | XDiagPacked => Ok (OBytes (py_pack_bitstring (d_diag dv)))
  | XPlusEncode => do w <- plus_encode dv; Ok (OList w)
  | XArith e => do rho <- oenv s; Ok (OInt (eval rho e))
  | XList1 a => do v <- eval_d dv s lo a;
                match v with OInt z => Ok (OList [z]) | _ => Raise TypeError end
  | XSlaveId dflt => Ok (OBytes (slave_identifier dv dflt))
  end.

Definition truthy_val (v : oval) : bool :=
  match v with
  | ONone => false | OInt z => negb (z =? 0)
  | OList l => negb (Nat.eqb (length l) 0) | OBytes b => negb (Nat.eqb (length b) 0)
  | ORecs l => negb (Nat.eqb (length l) 0)
  end.

Definition oval_eqb (a b : oval) : bool :=
  match a, b with
  | ONone, ONone => true
  | OInt x, OInt y => x =? y
  | OList x, OList y => list_eqb Z.eqb x y
  | OBytes x, OBytes y => list_eqb N.eqb x y
  | _, _ => false
  end.

Definition run_s (dv : device) (s : oself) (lo : olocals) (st : sstmt) : res (device * olocals) :=
  match st with
  | TAssign x d => do v <- eval_d dv s lo d; Ok (dv, (x, v) :: lo)
  | TExtend x d =>
      do v <- eval_d dv s lo d;
      match Store.assoc_str lo x, v with
      | Some (OList a), OList b => Ok (dv, (x, OList (a ++ b)) :: lo)
      | _, _ => Raise TypeError
      end
  | TSetDelimiter d =>
      do v <- eval_d dv s lo d;
      match v with
      | OInt z => if (0 <=? z) && (z <? 256) then Ok (set_delim dv [Z.to_N z], lo) else Raise ValueError
      | OBytes b => Ok (set_delim dv b, lo)
      | _ => Ok (dv, lo)
      end
  | TSetListenOnly d => do v <- eval_d dv s lo d; Ok (set_listen dv (truthy_val v), lo)
  | TReset => Ok (reset dv, lo)
  | TSetCounter n d =>
      do v <- eval_d dv s lo d;
      match Store.assoc_str (y_counter_idx Y) n, v with
      | Some i, OInt z => Ok (set_counter dv i z, lo)
      | _, _ => Raise AttributeError
      end
  | TPlusReset => Ok (plus_reset dv, lo)
  end.

Fixpoint run_ss (dv : device) (s : oself) (lo : olocals) (l : list sstmt) : device * res olocals :=
  match l with
  | [] => (dv, Ok lo)
  | st :: t => match run_s dv s lo st with
               | Ok (dv', lo') => run_ss dv' s lo' t
               | Raise e => (dv, Raise e)
               end
  end.

(* ---- what the response constructors build from their arguments *)
Definition cls_of_name (n : string) : option cls := find (fun c => String.eqb (cls_name c) n) all_cls.

Definition dmsg_of_val (v : oval) : dmsg :=
  match v with ONone => DNone | OInt z => DInt z | OList l => DList l | OBytes b => DBytes b | ORecs _ => DNone end.

Definition arg (k : string) (i : nat) (args : list (string * oval)) : option oval :=
  match Store.assoc_str args k with
  | Some v => Some v
  | None => match nth_error args i with Some (""%string, v) => Some v | _ => None end
  end.

Definition build_rsp (clsn : string) (args : list (string * oval)) : res obj :=
  match cls_of_name clsn with
  | None => Raise AttributeError
  | Some c =>
      if String.eqb clsn "ReadExceptionStatusResponse" then
        match arg "status" 0 args with Some (OInt s) => Ok (OExcStatusRsp s) | _ => Raise TypeError end
      else if String.eqb clsn "GetCommEventCounterResponse" then
        match arg "count" 0 args with Some (OInt n) => Ok (OEvCounterRsp true n) | _ => Raise TypeError end
      else if String.eqb clsn "GetCommEventLogResponse" then
        match Store.assoc_str args "status", Store.assoc_str args "message_count", Store.assoc_str args "event_count",
              Store.assoc_str args "events" with
        | Some st, Some (OInt mc), Some (OInt ec), Some (OBytes ev) =>
            Ok (OEvLogRsp (truthy_val st) mc ec (map Z.of_N ev))
        | _, _, _, _ => Raise TypeError
        end
      else if String.eqb clsn "ReportSlaveIdResponse" then
        match arg "identifier" 0 args with Some (OBytes b) => Ok (OSlaveIdRsp b true None) | _ => Raise TypeError end
      else if String.eqb clsn "ReadFileRecordResponse" || String.eqb clsn "WriteFileRecordResponse" then
        match arg "records" 0 args with
        | Some (ORecs rs) => Ok (OFileRecs c rs)
        | Some (OList []) => Ok (OFileRecs c [])
        | _ => Raise TypeError
        end
      else if String.eqb clsn "ReadFifoQueueResponse" then
        match arg "values" 0 args with Some (OList l) => Ok (OFifoRsp l) | _ => Raise TypeError end
      else
        match Store.assoc_str (y_rsp_sub Y) clsn with
        | None => Raise AttributeError
        | Some sub =>
            if String.eqb clsn "ReturnQueryDataResponse" then
              match arg "message" 0 args with
              | Some (OList l) => Ok (ODiag c sub (DList l))
              | Some (OInt z) => Ok (ODiag c sub (DList [z]))
              | _ => Raise TypeError
              end
            else if String.eqb clsn "RestartCommunicationsOptionResponse" then
              match arg "toggle" 0 args with
              | Some v => Ok (ODiag c sub (DList [if truthy_val v then y_status_on Y else y_status_off Y]))
              | None => Ok (ODiag c sub (DList [y_status_off Y]))
              end
            else if String.eqb clsn "ForceListenOnlyModeResponse" then Ok (ODiag c sub (DList []))
            else (* DiagnosticStatusSimpleResponse(data=0) *)
              match arg "data" 0 args with
              | Some v => Ok (ODiag c sub (dmsg_of_val v))
              | None => Ok (ODiag c sub (DInt 0))
              end
        end
  end.

Fixpoint eval_args (dv : device) (s : oself) (lo : olocals) (l : list (string * dexpr)) : res (list (string * oval)) :=
  match l with
  | [] => Ok []
  | (k, d) :: t => do v <- eval_d dv s lo d; do r <- eval_args dv s lo t; Ok ((k, v) :: r)
  end.

Fixpoint run_o (sc : list ostmt) (fc : Z) (dv : device) (s : oself) (lo : olocals) : device * res obj :=
  match sc with
  | [] => (dv, Raise AttributeError)       (* returns None: no response object *)
  | st :: k =>
      match st with
      | TS a => match run_s dv s lo a with
                | Ok (dv', lo') => run_o k fc dv' s lo'
                | Raise e => (dv, Raise e)
                end
      | TIfEq a b th el =>
          match eval_d dv s lo a, eval_d dv s lo b with
          | Ok va, Ok vb =>
              let '(dv', r) := run_ss dv s lo (if oval_eqb va vb then th else el) in
              match r with Ok lo' => run_o k fc dv' s lo' | Raise e => (dv', Raise e) end
          | Raise e, _ | _, Raise e => (dv, Raise e)
          end
      | TGuard c code =>
          match oenv s with
          | Raise e => (dv, Raise e)
          | Ok rho => if beval rho c then (dv, Ok (OExc fc (exc_fc X fc) code)) else run_o k fc dv s lo
          end
      | TReturn cls args =>
          match eval_args dv s lo args with
          | Raise e => (dv, Raise e)
          | Ok vs => (dv, build_rsp cls vs)
          end
      | TRaise e => (dv, Raise e)
      end
  end.

(* request.execute(context) for a decoded request object of one of these classes;
   None = the class is not one of them (data access: Exec.v; MEI: DevInfo.v) *)
Definition execute_other (dv : device) (o : obj) : option (device * res obj) :=
  match Store.assoc_str (y_scripts Y) (cls_name (class_of o)), obj_fc o with
  | Some sc, Ok fc => Some (run_o sc fc dv (self_of o) [])
  | _, _ => None
  end.

(* the server wrapper: any exception becomes doException(SlaveFailure) *)
Definition serve_other (dv : device) (o : obj) : option (device * obj) :=
  match execute_other dv o, obj_fc o with
  | Some (dv', Ok r), _ => Some (dv', r)
  | Some (dv', Raise _), Ok fc => Some (dv', OExc fc (exc_fc X fc) (x_slave_failure X))
  | _, _ => None
  end.

End Run.
