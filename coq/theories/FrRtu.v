(* FrRtu.v — executable model of pymodbus/framer/rtu_framer.py (ModbusRtuFramer), statement
   by statement: which helper mutates _header when is part of the model.  _header is a dict
   over the keys uid/len/crc: initially all three present (len 0), later {} or partially
   filled when populateHeader raises half-way.  Slice bounds, comparisons and constants are
   the expression trees of Generated/GenFramerB.rtu.  No proofs here. *)
From PM.theories Require Import Base Expr Struct FrBCode Crc FrBCommon.
From PM.Generated Require Import GenFramerB.
Open Scope string_scope.
Open Scope list_scope.
Open Scope Z_scope.

Record rhdr := { h_uid : option Z; h_len : option Z; h_crc : option bytes }.
Record rstate := { r_buf : bytes; r_hdr : rhdr }.

Definition hdr_empty : rhdr := {| h_uid := None; h_len := None; h_crc := None |}.
Definition hdr_is_empty (h : rhdr) : bool :=
  match h_uid h, h_len h, h_crc h with None, None, None => true | _, _, _ => false end.

(* __init__ *)
Definition rtu_init : rstate :=
  {| r_buf := [];
     r_hdr := {| h_uid := Some (rc_init_uid rtu); h_len := Some (rc_init_len rtu);
                 h_crc := Some (map Z.to_N (rc_init_crc rtu)) |} |}.

(* resetFrame *)
Definition rtu_reset (st : rstate) : rstate := {| r_buf := []; r_hdr := hdr_empty |}.

(* populateHeader: the header is updated key by key; an exception leaves the keys set so far *)
Definition rtu_populate (cfg : fcfg) (st : rstate) : rstate * option pyexn :=
  let data := r_buf st in
  let h := r_hdr st in
  match py_index data 0 with
  | Raise e => (st, Some e)
  | Ok u =>
      let h1 := {| h_uid := Some (zb u); h_len := h_len h; h_crc := h_crc h |} in
      match py_index data 1 with
      | Raise e => ({| r_buf := data; r_hdr := h1 |}, Some e)
      | Ok fc =>
          match frame_size (lookup_rule (cf_rules cfg) (zb fc)) data with
          | Raise e => ({| r_buf := data; r_hdr := h1 |}, Some e)
          | Ok size =>
              let crc := pyslice data (Some (e1 "size" size (rc_pop_crc_lo rtu)))
                                      (Some (e1 "size" size (rc_pop_crc_hi rtu))) in
              ({| r_buf := data; r_hdr := {| h_uid := Some (zb u); h_len := Some size; h_crc := Some crc |} |}, None)
          end
      end
  end.

(* isFrameReady *)
Definition rtu_ready (cfg : fcfg) (st : rstate) : rstate * res bool :=
  let blen := zlen (r_buf st) in
  if beval (env_of [("len(self._buffer)", blen); ("self._hsize", rc_hsize rtu)]) (rc_ready rtu) then
    let '(st1, stop) :=
      if hdr_is_empty (r_hdr st) then
        match rtu_populate cfg st with
        | (st', Some IndexError) => ({| r_buf := r_buf st'; r_hdr := hdr_empty |}, Some (Ok false))
        | (st', Some e) => (st', Some (Raise e))
        | (st', None) => (st', None)
        end
      else (st, None) in
    match stop with
    | Some r => (st1, r)
    | None =>
        (* return self._header and len(self._buffer) >= self._header['len'] *)
        if hdr_is_empty (r_hdr st1) then (st1, Ok false)
        else match h_len (r_hdr st1) with
             | None => (st1, Raise KeyError)
             | Some l => (st1, Ok (beval (env_of [("len(self._buffer)", blen); ("self._header['len']", l)])
                                         (rc_ready2 rtu)))
             end
    end
  else (st, Ok false).

Definition caught_by_check (e : pyexn) : bool :=
  match e with IndexError | KeyError | StructError => true | _ => false end.

(* body of the try block of checkFrame *)
Definition rtu_check_body (cfg : fcfg) (st : rstate) : rstate * res bool :=
  match rtu_populate cfg st with
  | (st1, Some e) => (st1, Raise e)
  | (st1, None) =>
      match h_len (r_hdr st1) with
      | None => (st1, Raise KeyError)
      | Some fsz =>
          let buf := r_buf st1 in
          let data := pyslice buf None (Some (e1 "frame_size" fsz (rc_chk_data_hi rtu))) in
          let crc := pyslice buf (Some (e1 "frame_size" fsz (rc_chk_crc_lo rtu)))
                                 (Some (e1 "frame_size" fsz (rc_chk_crc_hi rtu))) in
          match py_index crc 0 with
          | Raise e => (st1, Raise e)
          | Ok c0 =>
              match py_index crc 1 with
              | Raise e => (st1, Raise e)
              | Ok c1 =>
                  let crc_val := eval (env_of [("byte2int(crc[0])", zb c0); ("byte2int(crc[1])", zb c1)])
                                      (rc_chk_crc_val rtu) in
                  match py_check_crc data crc_val with
                  | Raise e => (st1, Raise e)
                  | Ok true => (st1, Ok true)
                  | Ok false => (rtu_reset st1, Ok false)
                  end
              end
          end
      end
  end.

(* checkFrame: except (IndexError, KeyError, struct.error): return False *)
Definition rtu_check (cfg : fcfg) (st : rstate) : rstate * res bool :=
  match rtu_check_body cfg st with
  | (st1, Raise e) => if caught_by_check e then (st1, Ok false) else (st1, Raise e)
  | r => r
  end.

(* getFrame *)
Definition rtu_get_frame (st : rstate) : res bytes :=
  match h_len (r_hdr st) with
  | None => Raise KeyError
  | Some l =>
      let start := e1 "self._hsize" (rc_hsize rtu) (rc_get_start rtu) in
      let end_ := e1 "self._header['len']" l (rc_get_end rtu) in
      let buffer := pyslice (r_buf st) (Some start) (Some end_) in
      Ok (if beval (env_of [("end", end_)]) (rc_get_cond rtu) then buffer else [])
  end.

(* advanceFrame *)
Definition rtu_advance (st : rstate) : rstate :=
  match h_len (r_hdr st) with
  | Some l => {| r_buf := pyslice (r_buf st) (Some (e1 "self._header['len']" l (rc_adv rtu))) None;
                 r_hdr := hdr_empty |}
  | None => {| r_buf := []; r_hdr := hdr_empty |}     (* except KeyError: resetFrame() *)
  end.

(* _process(callback), error=False *)
Definition rtu_process (cfg : fcfg) (st : rstate) : rstate * list delivered * fexit :=
  match rtu_get_frame st with
  | Raise e => (st, [], FExn e)
  | Ok data =>
      match cf_dec cfg data with
      | DNone => (st, [], FExn ModbusIOExc)
      | DRaise e => (st, [], FExn e)
      | DMissing => (st, [], FMissing)
      | DMsg =>
          match h_uid (r_hdr st) with
          | None => (st, [], FExn KeyError)
          | Some u => (rtu_advance st, [(data, u)], FOk)
          end
      end
  end.

(* the while loop of processIncomingPacket:
     while self.isFrameReady():
         if self.checkFrame():
             if self._validate_unit_id(unit, single): self._process(callback)
             else: self.advanceFrame()
         elif self._buffer: self._header = {}; break
         else: self.resetFrame()
   Recursion on fuel; [FOutOfFuel] is proved unreachable for the regenerated decoder tables
   (every iteration that continues consumes at least 4 bytes or empties the buffer). *)
Fixpoint rtu_loop (fuel : nat) (cfg : fcfg) (st : rstate) (acc : list delivered)
  : rstate * list delivered * fexit :=
  match fuel with
  | O => (st, acc, FOutOfFuel)
  | S k =>
      match rtu_ready cfg st with
      | (st1, Raise e) => (st1, acc, FExn e)
      | (st1, Ok false) => (st1, acc, FOk)
      | (st1, Ok true) =>
          match rtu_check cfg st1 with
          | (st2, Raise e) => (st2, acc, FExn e)
          | (st2, Ok true) =>
              match validate_unit cfg (h_uid (r_hdr st2)) with
              | Raise e => (st2, acc, FExn e)
              | Ok true =>
                  match rtu_process cfg st2 with
                  | (st3, ds, FOk) => rtu_loop k cfg st3 (acc ++ ds)
                  | (st3, ds, x) => (st3, acc ++ ds, x)
                  end
              | Ok false => rtu_loop k cfg (rtu_advance st2) acc
              end
          | (st2, Ok false) =>
              match r_buf st2 with
              | _ :: _ => ({| r_buf := r_buf st2; r_hdr := hdr_empty |}, acc, FOk)
              | [] => rtu_loop k cfg (rtu_reset st2) acc
              end
          end
      end
  end.

(* processIncomingPacket(data, callback, unit, single=…) *)
Definition rtu_recv (cfg : fcfg) (st : rstate) (chunk : bytes) : rstate * list delivered * fexit :=
  let st0 := {| r_buf := r_buf st ++ chunk; r_hdr := r_hdr st |} in
  rtu_loop (S (S (length (r_buf st0)))) cfg st0 [].

(* buildPacket: message = (unit_id, function_code, message.encode()) *)
Definition rtu_build (uid fc : Z) (data : bytes) : res bytes :=
  do hd <- pack_s (rc_hdr_fmt rtu) [uid; fc];
  let packet := hd ++ data in
  do c <- py_crc packet;
  do tl <- pack_s (rc_crc_fmt rtu) [c];
  Ok (packet ++ tl).

Definition rtu_obs_hdr (st : rstate) : ohdr :=
  (h_uid (r_hdr st), h_len (r_hdr st), option_map (map zb) (h_crc (r_hdr st))).
