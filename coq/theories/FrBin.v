(* FrBin.v — executable model of pymodbus/framer/binary_framer.py (ModbusBinaryFramer),
   statement by statement.  _header always has the three keys crc/len/uid.  checkFrame
   mutates _buffer (drops bytes before the first '{') and _header key by key; the slice bounds
   are the regenerated expressions (since the /repo repair d8b2fbf the CRC span no longer
   depends on the stale pre-trim `start`; advanceFrame drops len + 1 bytes since 7ea2a54).  The while loop is recursion on
   fuel S(length buffer); [FOutOfFuel] is proved unreachable in proofs/FrB_bin_proofs.v.
   No proofs here. *)
From PM.theories Require Import Base Expr Struct FrBCode Crc FrBCommon.
From PM.Generated Require Import GenFramerB.
Open Scope string_scope.
Open Scope list_scope.
Open Scope Z_scope.

Record bhdr := { b_uid : Z; b_len : Z; b_crc : Z }.
Record bstate := { b_buf : bytes; b_hdr : bhdr }.

Definition bin_hdr0 : bhdr := {| b_uid := bc_init_uid bin; b_len := bc_init_len bin; b_crc := bc_init_crc bin |}.
Definition bin_init : bstate := {| b_buf := []; b_hdr := bin_hdr0 |}.
Definition bin_reset (st : bstate) : bstate := bin_init.

Definition bin_start : N := Z.to_N (bc_start bin).
Definition bin_end : N := Z.to_N (bc_end bin).

Definition env_se (start end_ : Z) : env := env_of [("start", start); ("end", end_)].

(* checkFrame *)
Definition bin_check (st : bstate) : bstate * res bool :=
  let start := find_byte bin_start (b_buf st) in
  if start =? -1 then (st, Ok false)
  else
    let buf := if start >? 0 then pyslice (b_buf st) (Some start) None else b_buf st in
    let h := b_hdr st in
    let end_ := find_byte bin_end buf in
    if negb (end_ =? -1) then
      let h1 := {| b_uid := b_uid h; b_len := end_; b_crc := b_crc h |} in
      match unpack_s ">B" (pyslice buf (Some (bc_uid_lo bin)) (Some (bc_uid_hi bin))) with
      | Raise e => ({| b_buf := buf; b_hdr := h1 |}, Raise e)
      | Ok [u] =>
          let h2 := {| b_uid := u; b_len := end_; b_crc := b_crc h |} in
          match unpack_s ">H" (pyslice buf (Some (eval (env_se start end_) (bc_crc_lo bin)))
                                           (Some (eval (env_se start end_) (bc_crc_hi bin)))) with
          | Raise e => ({| b_buf := buf; b_hdr := h2 |}, Raise e)
          | Ok [c] =>
              let h3 := {| b_uid := u; b_len := end_; b_crc := c |} in
              let data := pyslice buf (Some (eval (env_se start end_) (bc_data_lo bin)))
                                      (Some (eval (env_se start end_) (bc_data_hi bin))) in
              match py_check_crc data c with
              | Raise e => ({| b_buf := buf; b_hdr := h3 |}, Raise e)
              | Ok b => ({| b_buf := buf; b_hdr := h3 |}, Ok b)
              end
          | Ok _ => ({| b_buf := buf; b_hdr := h2 |}, Raise StructError)
          end
      | Ok _ => ({| b_buf := buf; b_hdr := h1 |}, Raise StructError)
      end
    else ({| b_buf := buf; b_hdr := h |}, Ok false).

(* getFrame *)
Definition bin_get_frame (st : bstate) : bytes :=
  let start := e1 "self._hsize" (bc_hsize bin) (bc_get_start bin) in
  let end_ := e1 "self._header['len']" (b_len (b_hdr st)) (bc_get_end bin) in
  let buffer := pyslice (b_buf st) (Some start) (Some end_) in
  if beval (env_of [("end", end_)]) (bc_get_cond bin) then buffer else [].

(* advanceFrame *)
Definition bin_advance (st : bstate) : bstate :=
  {| b_buf := pyslice (b_buf st) (Some (e1 "self._header['len']" (b_len (b_hdr st)) (bc_adv bin))) None;
     b_hdr := bin_hdr0 |}.

(* isFrameReady *)
Definition bin_ready (st : bstate) : bool :=
  beval (env_of [("len(self._buffer)", zlen (b_buf st))]) (bc_ready bin).

(* the while loop of processIncomingPacket *)
Fixpoint bin_loop (fuel : nat) (cfg : fcfg) (st : bstate) (acc : list delivered)
  : bstate * list delivered * fexit :=
  match fuel with
  | O => (st, acc, FOutOfFuel)
  | S k =>
      if bin_ready st then
        match bin_check st with
        | (st1, Raise e) => (st1, acc, FExn e)
        | (st1, Ok true) =>
            match validate_unit cfg (Some (b_uid (b_hdr st1))) with
            | Raise e => (st1, acc, FExn e)
            | Ok true =>
                let data := bin_get_frame st1 in
                match cf_dec cfg data with
                | DNone => (st1, acc, FExn ModbusIOExc)
                | DRaise e => (st1, acc, FExn e)
                | DMissing => (st1, acc, FMissing)
                | DMsg => bin_loop k cfg (bin_advance st1) (acc ++ [(data, b_uid (b_hdr st1))])
                end
            | Ok false => (bin_reset st1, acc, FOk)
            end
        | (st1, Ok false) => (bin_reset st1, acc, FOk)
        end
      else (st, acc, FOk)
  end.

(* processIncomingPacket *)
Definition bin_recv (cfg : fcfg) (st : bstate) (chunk : bytes) : bstate * list delivered * fexit :=
  let st0 := {| b_buf := b_buf st ++ chunk; b_hdr := b_hdr st |} in
  bin_loop (S (length (b_buf st0))) cfg st0 [].

(* _preflight: bytes equal to a delimiter are doubled *)
Fixpoint bin_preflight (data : bytes) : bytes :=
  match data with
  | [] => []
  | d :: t => if existsb (Z.eqb (zb d)) (bc_repeat bin) then d :: d :: bin_preflight t
              else d :: bin_preflight t
  end.

(* buildPacket *)
Definition bin_build (uid fc : Z) (data : bytes) : res bytes :=
  let data' := bin_preflight data in
  do hd <- pack_s (bc_hdr_fmt bin) [uid; fc];
  let packet := hd ++ data' in
  do c <- py_crc packet;
  do tl <- pack_s (bc_crc_fmt bin) [c];
  Ok ([bin_start] ++ (packet ++ tl) ++ [bin_end]).

Definition bin_obs_hdr (st : bstate) : ohdr :=
  (Some (b_uid (b_hdr st)), Some (b_len (b_hdr st)), Some [b_crc (b_hdr st)]).
