(* C16 add-on — the Twisted client protocol keeps the framer INSTANCE the user supplies
   (`self.framer = framer or ModbusSocketFramer(ClientDecoder())`, pinned by gen_async): no framer
   class defines __bool__ or __len__, so an instance with an empty buffer is not taken for "no
   framer".  The pairing theorems of C16 are about the protocol's own framer and decoder; a
   substituted default framer would not know custom response classes and would pair FIFO. *)
From Coq Require Import List String.
From PM.theories Require Import Base Ladder Frontends CorrFrontends Wiring.
From PM.Generated Require Import GenFrontends GenWiring.
From PM.proofs Require Import FrontendsC12_proofs Wiring_proofs.
Import ListNotations.
Open Scope string_scope.
Open Scope list_scope.

Theorem C16_cfg_supplied_framer_instance_kept : forall F, In F framer_classes ->
  kind_overrides truth_facts (VInstance F) = false /\
  forall V (user_truth : V -> bool) (x d : V),
    configured_t (WOrDefault "framer" "ModbusSocketFramer(ClientDecoder())")
                 (py_truthy (kind_overrides truth_facts (VInstance F)) user_truth) (Some x) d = x.
Proof. exact supplied_framer_instance_kept. Qed.
Print Assumptions C16_cfg_supplied_framer_instance_kept.

Example C16_cfg_nonvacuous : In "ModbusSocketFramer" framer_classes /\ length truth_facts = 11%nat.
Proof. split; [left; reflexivity | vm_compute; reflexivity]. Qed.
Print Assumptions C16_cfg_nonvacuous.
