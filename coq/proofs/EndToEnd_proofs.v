(* EndToEnd_proofs.v — the COMPOSITION proof of Props/C09_e2e.v.

   One delivered request ([handle_one_spec]):
       C01_decode_conforms  (+ adapter A)   the PDU decodes to the request object / attributes
       C04_refines                          Exec.serve = ExecSpec.spec_exec up to the abstraction
       adapter B, C01_encode_conforms, C03_build_tcp (adapter C)
                                            the response packet is the specified ADU
       Server_proofs.respond_spec (the C09 skeleton lemma, one case per GENERATED front-end)
                                            exactly one response, ids copied from the request
   A delivery list ([handle_all_spec]): induction, the hosted set is stable (C10_hosted_set_stable).
   The serving loop ([run_feed]): one framer call per read = FrBaseA.feed, deliveries handled in order.
   Framing ([C06_tcp]): EVERY division of the stream into reads delivers exactly the request frames. *)
From PM.theories Require Import Base Expr Struct FrBaseA FrTcp FrSpecA PduCls PduSpec Pdu CorrPdu Store Exec ExecSpec ExecView Server EndToEnd CorrE2E.
From PM.Generated Require Import GenFramerA GenPdu.
From PM.Generated Require GenStore GenExec GenServer.
From PM.proofs Require Import Pdu_proofs Exec_proofs Exec_req_proofs Exec_hist_proofs Server_proofs
                              EndToEnd_adapt_proofs EndToEnd_spec_proofs.
From PM.Props Require C01 C03_tcpascii C04 C06_tcpascii C09 C10.
From Coq Require Import ZifyBool.
Open Scope string_scope.
Open Scope list_scope.
Open Scope Z_scope.
Ltac Zify.zify_post_hook ::= Z.to_euclidean_division_equations.

Notation abs := Exec_proofs.abs.
Notation SV := GenServer.code.

(* the three Modbus/TCP front-ends (threaded, asyncio, Twisted) *)
Definition tcp_fes : list skel := [GenServer.sync_tcp; GenServer.aio_tcp; GenServer.tw_tcp].

Lemma tcp_fes_all sk : In sk tcp_fes -> In sk all_fes.
Proof. intros H. cbv [tcp_fes] in H. cbv [all_fes GenServer.frontends map snd]. cbn [In] in *. tauto. Qed.

(* what the composition needs of a front-end skeleton: it is one of the generated ones and its
   send() tests should_respond *)
Definition fe_ok (sk : skel) : Prop := In sk all_fes /\ gated sk = true.

Lemma tcp_fe_ok sk : In sk tcp_fes -> fe_ok sk.
Proof.
  intros H. split; [now apply tcp_fes_all|].
  cbv [tcp_fes] in H; cbn [In] in H; destruct H as [<-|[<-|[<-|[]]]]; reflexivity.
Qed.

(* ================================================================== model stores vs abstract states *)
Definition unit_rel (c : slavectx) (s : astate) : Prop := inv c /\ aeq (abs c) s /\ cells_ok s.

Inductive units_rel : units slavectx -> sunits -> Prop :=
| ur_nil : units_rel [] []
| ur_cons u c s l su : unit_rel c s -> units_rel l su -> units_rel ((u, c) :: l) ((u, s) :: su).

Lemma units_rel_keys l su : units_rel l su -> u_keys slavectx l = map fst su.
Proof. induction 1; cbn; [reflexivity|]. now f_equal. Qed.

Lemma units_rel_get l su k c : units_rel l su -> u_get slavectx l k = Some c ->
  exists s, su_get su k = Some s /\ unit_rel c s.
Proof.
  induction 1 as [|u c0 s0 l su Hr Hl IH]; cbn [u_get su_get]; [discriminate|].
  destruct (u =? k); [|exact IH]. intros H. injection H as <-. eauto.
Qed.

Lemma units_rel_set l su k c s : units_rel l su -> unit_rel c s ->
  units_rel (u_set slavectx l k c) (su_set su k s).
Proof.
  intros H Hcs. induction H as [|u c0 s0 l su Hr Hl IH]; cbn [u_set su_set]; [constructor|].
  destruct (u =? k); constructor; assumption.
Qed.

(* ================================================================== hypotheses on a request *)
(* the request is executed on a hosted unit and answered: not a broadcast, and the context it is
   routed to exists (single mode routes every unit id to the context stored under 0) *)
Definition served (sk : skel) (cfg : scfg) (hosted : list Z) (uid : Z) : Prop :=
  has_bcast sk && cf_bcast cfg && (uid =? 0) = false /\ In (spec_key (cf_single cfg) uid) hosted.

Definition req_ok (sk : skel) (cfg : scfg) (hosted : list Z) (q : e2e_req) : Prop :=
  0 <= q_tid q < 65536 /\ 0 <= q_pid q < 65536 /\ 0 <= q_uid q < 256 /\
  (exists w, body_ok (q_body q) w) /\
  served sk cfg hosted (q_uid q).

Definition frame_of (q : e2e_req) : frame :=
  {| f_tid := q_tid q; f_pid := q_pid q; f_uid := q_uid q; f_pdu := sreq_pdu (q_body q) |}.

Lemma frame_adu q : spec_adu KTcp (frame_of q) = req_adu q.
Proof. reflexivity. Qed.

Definition delivery_of (q : e2e_req) : delivery := spec_delivery KTcp (frame_of q).

Lemma ctx_key_spec cfg u : ctx_key SV cfg u = spec_key (cf_single cfg) u.
Proof. reflexivity. Qed.

(* the ids a frame can carry *)
Definition wire_ids (q : e2e_req) : Prop :=
  0 <= q_tid q < 65536 /\ 0 <= q_pid q < 65536 /\ 0 <= q_uid q < 256.

(* a framing, as the composition sees it: [dl q] is what the framer hands to the callback for
   request q; [pk] builds the packet of a response; [adu] is the specified ADU of a response *)
Definition pk_ok (pk : packer) (adu : adu_fn) (dl : e2e_req -> delivery) : Prop :=
  (forall q, d_pdu (dl q) = sreq_pdu (q_body q) /\ d_uid (dl q) = q_uid q) /\
  (forall q o ro m, wire_ids q -> o_tid o = d_tid (dl q) -> o_uid o = q_uid q ->
     CorrPdu.abs ro = Some m -> CorrPdu.mem_cls (class_of ro) CorrPdu.conforming_encode = true ->
     (length (spec_pdu m) <= 300)%nat -> wfb (spec_pdu m) = true ->
     pk o ro = Ok (adu q (spec_pdu m))).

Lemma in_region_msg m w : wreq_of_msg m = Some w -> in_region w /\ other_ok w.
Proof.
  destruct m; unfold wreq_of_msg; intros H; try discriminate H; injection H as <-; cbn [in_region other_ok]; try tauto.
  - split; [destruct on; tauto|exact I].
  - split; [|exact I]. unfold zbytes. rewrite map_length.
    destruct (C01.C01_bitpack_shape coils) as (_ & Hl & _). unfold len in *. rewrite Hl. unfold bit_byte_count. lia.
Qed.

Lemma body_region b w : body_ok b w -> in_region w /\ other_ok w.
Proof.
  destruct b as [m|fc rest]; cbn [body_ok].
  - intros [Hw _]. exact (in_region_msg m w Hw).
  - intros (-> & _ & Hu & _). cbn [in_region other_ok]. split; [exact I|].
    unfold unassigned in Hu. apply negb_true_iff in Hu. exact Hu.
Qed.

(* ================================================================== one delivered request *)

Lemma py_pdu_fc ro p : py_pdu ro = Ok p -> exists fc, obj_fc ro = Ok fc.
Proof. unfold py_pdu. destruct (obj_fc ro) as [fc|e]; [eauto|discriminate]. Qed.

Lemma exc_obj_canon ro m c : exc_code_of ro = Some c -> CorrPdu.abs ro = Some m ->
  forall fc, obj_fc ro = Ok fc -> ro = OExc (fc - 128) fc c.
Proof.
  intros Hc Ha fc Hfc. destruct ro; cbn [exc_code_of] in Hc; try discriminate Hc. injection Hc as ->.
  cbn [obj_fc] in Hfc. injection Hfc as ->.
  apply abs_some in Ha as [Ha _]. cbn [abs_raw] in Ha.
  destruct (fc =? original_code + 128) eqn:E; [|discriminate Ha]. f_equal. lia.
Qed.

Theorem handle_one_spec_g pk adu dl sk cfg l su q :
  pk_ok pk adu dl -> fe_ok sk -> units_rel l su -> req_ok sk cfg (u_keys slavectx l) q ->
  exists s s' b l',
    su_get su (spec_key (cf_single cfg) (q_uid q)) = Some s /\
    spec_answer_g adu s q = Some (s', b) /\
    handle_one pk sk cfg l (dl q) = Ok (l', b) /\
    units_rel l' (su_set su (spec_key (cf_single cfg) (q_uid q)) s') /\
    u_keys slavectx l' = u_keys slavectx l.
Proof.
  intros [Hdl Hpk] [Hsk Hg] Hrel (Htid & Hpid & Huid & (w & Hbody) & Hbc & Hin).
  destruct (Hdl q) as [Hdp Hdu].
  set (k := spec_key (cf_single cfg) (q_uid q)) in *.
  (* the addressed context *)
  destruct (u_get slavectx l k) as [c|] eqn:Ec.
  2: { exfalso. apply (proj2 (u_get_in_keys slavectx l k)) in Hin. contradiction. }
  destruct (units_rel_get l su k c Hrel Ec) as (s & Hs & Hinv & Haeq & Hcells).
  (* C01 + adapter A: the request object and its attributes *)
  destruct (decode_body _ w Hbody) as (o & r & Hdec & Hofc & Hreq & Hattrs).
  (* C04: execution refines the data model *)
  destruct (body_region _ w Hbody) as [Hreg Hoth].
  destruct (C04.C04_refines c w r Hinv Hattrs Hoth Hreg) as (c' & rp & Hserve & Hinv' & Haeq' & Hvw & _).
  destruct (spec_exec_aeq (abs c) s w Haeq) as [Hst Hrs].
  rewrite Hrs in Hvw.
  (* adapter B + C01 encode: the response object *)
  destruct (body_response_wf _ w s Hbody Hcells) as [Hrwf Hcells'].
  destruct (response_object rp _ Hvw Hrwf) as (ro & Hro & Hroabs & Hroc & Hcode).
  pose proof (C01.C01_encode_conforms ro _ Hroc Hroabs) as Hpdu.
  destruct (py_pdu_fc ro _ Hpdu) as [rfc Hrfc].
  (* the abstract answer *)
  exists s, (fst (spec_exec s w)).
  exists (adu q (spec_pdu (spec_response_msg (snd (spec_exec s w))))).
  exists (u_set slavectx l k c').
  split; [exact Hs|]. split.
  { unfold spec_answer_g. rewrite (body_wreq _ w Hbody). destruct (spec_exec s w). reflexivity. }
  split.
  { unfold handle_one. rewrite Hdp, Hdec. cbn [bind]. rewrite Hofc. cbn [bind]. rewrite Hreq.
    (* the skeleton of the front-end: C09 *)
    rewrite (respond_spec slavectx sk Hsk).
    unfold spec_respond, sp_bcast. cbn [dreq_of rq_uid]. rewrite Hdu, Hbc.
    unfold exec_on. cbn [rq_exec dreq_of rq_uid]. rewrite ?Hdu, ctx_key_spec. fold k. rewrite Ec.
    unfold exec_effect at 1. unfold e_serve, e_std.
    change (Exec.serve GenExec.code (std_ops GenStore.code) c r) with (Exec.serve XC std c r). rewrite Hserve, Hro, Hrfc.
    unfold send_of. rewrite Hg. cbn [rsp_summary rs_respond negb andb].
    cbn [packets_of]. unfold response_obj, the_out. cbn [o_code o_fc rs_code rs_fc rsp_summary rq_tid rq_uid dreq_of].
    rewrite ?Hdu.
    assert (Hobj : match (match ro with OExc _ _ code => Some code | _ => None end) with
                   | Some code => Ok (OExc (rfc - 128) rfc code)
                   | None => match u_get slavectx l (ctx_key SV cfg (q_uid q)) with
                             | None => Raise NoSuchSlaveExc
                             | Some s0 => match obj_of_rsp (snd (e_serve s0 r)) with Some ro0 => Ok ro0 | None => Raise NotImplementedExc end
                             end
                   end = Ok ro).
    { destruct (exc_code_of ro) as [code|] eqn:Ex.
      - rewrite (exc_obj_canon ro _ code Ex Hroabs rfc Hrfc). reflexivity.
      - change (match ro with OExc _ _ code => Some code | _ => None end) with (exc_code_of ro). rewrite Ex.
        rewrite ctx_key_spec. fold k. rewrite Ec. unfold e_serve, e_std.
        change (Exec.serve GenExec.code (std_ops GenStore.code) c r) with (Exec.serve XC std c r). rewrite Hserve. cbn [snd].
        rewrite Hro. reflexivity. }
    rewrite Hobj. cbn [bind].
    match goal with |- context [pk ?o ro] =>
      rewrite (Hpk q o ro _ (conj Htid (conj Hpid Huid)) eq_refl eq_refl Hroabs Hroc
                   (response_pdu_length _ Hrwf) (response_pdu_wfb _ Hrwf)) end.
    cbn [bind]. rewrite app_nil_r. reflexivity. }
  split.
  { apply units_rel_set; [exact Hrel|]. split; [exact Hinv'|]. split.
    - eapply aeq_trans; [exact Haeq'|exact Hst].
    - exact Hcells'. }
  apply u_keys_set.
Qed.

(* ================================================================== a list of delivered requests *)
Theorem handle_all_spec_g pk adu dl sk cfg qs : pk_ok pk adu dl -> fe_ok sk -> forall l su,
  units_rel l su -> Forall (req_ok sk cfg (u_keys slavectx l)) qs ->
  exists l', handle_all pk sk cfg l (map dl qs) = (l', snd (spec_run_g adu (cf_single cfg) su qs), None) /\
             units_rel l' (fst (spec_run_g adu (cf_single cfg) su qs)) /\ u_keys slavectx l' = u_keys slavectx l.
Proof.
  intros Hpk Hsk. induction qs as [|q t IH]; intros l su Hrel Hok.
  - exists l. cbn. auto.
  - inversion Hok as [|? ? Hq Ht]; subst.
    destruct (handle_one_spec_g pk adu dl sk cfg l su q Hpk Hsk Hrel Hq) as (s & s' & b & l1 & Hs & Hans & Hone & Hrel1 & Hk1).
    rewrite <- Hk1 in Ht.
    destruct (IH l1 _ Hrel1 Ht) as (l' & Hall & Hrel' & Hk').
    exists l'. cbn [map handle_all spec_run_g]. rewrite Hone, Hall, Hs, Hans.
    destruct (spec_run_g adu (cf_single cfg) (su_set su (spec_key (cf_single cfg) (q_uid q)) s') t) as [su2 b2] eqn:E.
    cbn [fst snd] in *. split; [reflexivity|]. split; [exact Hrel'|]. congruence.
Qed.

(* ================================================================== the serving loop *)
Lemma handle_one_keys pk sk cfg l d l' b : In sk all_fes ->
  handle_one pk sk cfg l d = Ok (l', b) -> u_keys slavectx l' = u_keys slavectx l.
Proof.
  intros Hsk. unfold handle_one.
  destruct (py_decode true (d_pdu d)) as [o|e]; cbn [bind]; [|discriminate].
  destruct (obj_fc o) as [fc|e]; cbn [bind]; [|discriminate].
  destruct (req_of_obj o) as [r|]; [|discriminate].
  pose proof (C10.C10_hosted_set_stable slavectx sk Hsk cfg l (dreq_of d fc r)) as Hk.
  destruct (respond slavectx SV sk cfg l (dreq_of d fc r)) as [[l1 outs] exn]. cbn [fst] in Hk.
  destruct exn; [discriminate|].
  destruct (packets_of pk cfg l d r outs); cbn [bind]; [|discriminate].
  intros H. injection H as <- _. exact Hk.
Qed.

Lemma handle_all_app pk sk cfg d1 : forall l d2 l' b,
  handle_all pk sk cfg l (d1 ++ d2) = (l', b, None) ->
  exists l1 b1 b2, handle_all pk sk cfg l d1 = (l1, b1, None) /\ handle_all pk sk cfg l1 d2 = (l', b2, None) /\ b = b1 ++ b2.
Proof.
  induction d1 as [|d t IH]; intros l d2 l' b H.
  - exists l, [], b. cbn in *. auto.
  - cbn [app handle_all] in *. destruct (handle_one pk sk cfg l d) as [[la ba]|e]; [|discriminate H].
    destruct (handle_all pk sk cfg la (t ++ d2)) as [[lb bb] eb] eqn:E. injection H as <- <- ->.
    destruct (IH la d2 lb bb E) as (l1 & b1 & b2 & H1 & H2 & ->).
    exists l1, (ba ++ b1), b2. rewrite H1. split; [reflexivity|]. split; [exact H2|]. now rewrite app_assoc.
Qed.

Lemma handle_all_keys pk sk cfg ds : In sk all_fes -> forall l l' b,
  handle_all pk sk cfg l ds = (l', b, None) -> u_keys slavectx l' = u_keys slavectx l.
Proof.
  intros Hsk. induction ds as [|d t IH]; intros l l' b H; cbn [handle_all] in H.
  - now injection H as <- _.
  - destruct (handle_one pk sk cfg l d) as [[la ba]|e] eqn:E1; [|discriminate H].
    destruct (handle_all pk sk cfg la t) as [[lb bb] eb] eqn:E. injection H as <- _ ->.
    rewrite (IH la lb bb E). exact (handle_one_keys pk sk cfg l d la ba Hsk E1).
Qed.

Lemma framer_cfg_keys sk cfg l l' : u_keys slavectx l' = u_keys slavectx l -> framer_cfg sk cfg l' = framer_cfg sk cfg l.
Proof. intros H. unfold framer_cfg, unit_cfg. now rewrite H. Qed.

Definition result {ST FS} (l : ST) (b : bytes) (st : FS) : e2e_result ST FS :=
  {| e_units := l; e_out := b; e_framer := st; e_stop := None; e_fault := None |}.

(* ---- the Modbus/TCP instance ---------------------------------------------------------------- *)
Lemma tcp_pk_ok : pk_ok packet_of tcp_adu delivery_of.
Proof.
  split; [intros q; split; reflexivity|].
  intros q o ro m (Ht & _ & Hu) Eo Eu Ha Hc Hl _. unfold tcp_adu.
  change (d_tid (delivery_of q)) with (q_tid q) in Eo. rewrite <- Eo, <- Eu.
  apply packet_spec; try assumption; lia.
Qed.

Theorem handle_one_spec sk cfg l su q :
  In sk tcp_fes -> units_rel l su -> req_ok sk cfg (u_keys slavectx l) q ->
  exists s s' b l',
    su_get su (spec_key (cf_single cfg) (q_uid q)) = Some s /\
    spec_answer s q = Some (s', b) /\
    handle_one packet_of sk cfg l (delivery_of q) = Ok (l', b) /\
    units_rel l' (su_set su (spec_key (cf_single cfg) (q_uid q)) s') /\
    u_keys slavectx l' = u_keys slavectx l.
Proof. intros Hsk. exact (handle_one_spec_g packet_of tcp_adu delivery_of sk cfg l su q tcp_pk_ok (tcp_fe_ok sk Hsk)). Qed.

Theorem handle_all_spec sk cfg qs : In sk tcp_fes -> forall l su,
  units_rel l su -> Forall (req_ok sk cfg (u_keys slavectx l)) qs ->
  exists l', handle_all packet_of sk cfg l (map delivery_of qs) = (l', snd (spec_run (cf_single cfg) su qs), None) /\
             units_rel l' (fst (spec_run (cf_single cfg) su qs)) /\ u_keys slavectx l' = u_keys slavectx l.
Proof. intros Hsk. exact (handle_all_spec_g packet_of tcp_adu delivery_of sk cfg qs tcp_pk_ok (tcp_fe_ok sk Hsk)). Qed.

(* ---- the handler loops, generic in the server state and the framing --------------------------- *)
Definition nonempty (c : bytes) : bool := match c with [] => false | _ => true end.

Lemma filter_nonempty_all chunks : Forall (fun c => c <> []) (filter nonempty chunks).
Proof. apply Forall_forall. intros c Hc. apply filter_In in Hc as [_ Hc]. destruct c; discriminate. Qed.

Lemma concat_filter_nonempty chunks : concat (filter nonempty chunks) = concat chunks.
Proof. induction chunks as [|c cs IH]; [reflexivity|]. destruct c; cbn [filter nonempty concat app]; [exact IH|now rewrite IH]. Qed.

Section LoopLemmas.
Context {ST FS : Type}.
Variable keys : ST -> list Z.
Variable hall : ST -> list delivery -> ST * bytes * option pyexn.
Variable recv : FrBaseA.cfg -> FS -> bytes -> FS * list delivery * outc.
Variable sk : skel.
Variable cfg : scfg.
Hypothesis hall_nil : forall s, hall s [] = (s, [], None).
Hypothesis hall_app : forall d1 s d2 s' b, hall s (d1 ++ d2) = (s', b, None) ->
  exists s1 b1 b2, hall s d1 = (s1, b1, None) /\ hall s1 d2 = (s', b2, None) /\ b = b1 ++ b2.
Hypothesis hall_keys : forall ds s s' b, hall s ds = (s', b, None) -> keys s' = keys s.

Lemma run_feed_g : forall chunks st l st' ds l' b,
  feed (recv (unit_cfg sk cfg (keys l))) st chunks = (st', ds, true) ->
  hall l ds = (l', b, None) ->
  run_reads_g keys hall recv sk cfg false st l chunks = result l' b st'.
Proof.
  induction chunks as [|c cs IH]; intros st l st' ds l' b Hf Hh.
  - cbn in Hf. injection Hf as <- <-. rewrite hall_nil in Hh. injection Hh as <- <-. reflexivity.
  - cbn [feed] in Hf. cbn [run_reads_g andb].
    destruct (recv (unit_cfg sk cfg (keys l)) st c) as [[s1 d1] o].
    destruct (feed (recv (unit_cfg sk cfg (keys l))) s1 cs) as [[s2 d2] ok] eqn:Ef.
    injection Hf as <- <- Hflag.
    destruct (hall_app d1 l d2 l' b Hh) as (l1 & b1 & b2 & H1 & H2 & ->).
    rewrite H1. destruct o; try discriminate Hflag. subst ok.
    rewrite <- (hall_keys d1 l l1 b1 H1) in Ef.
    rewrite (IH s1 l1 s2 d2 l' b2 Ef H2). reflexivity.
Qed.

Lemma run_eff_g eof : forall chunks st l,
  run_reads_g keys hall recv sk cfg eof st l chunks = run_reads_g keys hall recv sk cfg false st l (eff_chunks eof chunks).
Proof.
  induction chunks as [|c cs IH]; intros st l; [reflexivity|].
  cbn [run_reads_g eff_chunks]. destruct (eof && match c with [] => true | _ :: _ => false end); [reflexivity|].
  cbn [run_reads_g andb].
  destruct (recv (unit_cfg sk cfg (keys l)) st c) as [[s1 d1] o].
  destruct (hall l d1) as [[l1 b1] flt]. destruct flt; [reflexivity|].
  destruct o; try reflexivity. now rewrite IH.
Qed.

Lemma run_serial_feed_g : forall chunks st l st' ds l' b,
  Forall (fun c => c <> []) chunks ->
  feed (recv (unit_cfg sk cfg (keys l))) st chunks = (st', ds, true) ->
  hall l ds = (l', b, None) ->
  run_serial_g keys hall recv sk cfg st l chunks = result l' b st'.
Proof.
  induction chunks as [|c cs IH]; intros st l st' ds l' b Hne Hf Hh.
  - cbn in Hf. injection Hf as <- <-. rewrite hall_nil in Hh. injection Hh as <- <-. reflexivity.
  - inversion Hne as [|? ? Hc Hcs]; subst. cbn [feed] in Hf. cbn [run_serial_g].
    destruct c as [|x c']; [contradiction|].
    destruct (recv (unit_cfg sk cfg (keys l)) st (x :: c')) as [[s1 d1] o].
    destruct (feed (recv (unit_cfg sk cfg (keys l))) s1 cs) as [[s2 d2] ok] eqn:Ef.
    injection Hf as <- <- Hflag.
    destruct (hall_app d1 l d2 l' b Hh) as (l1 & b1 & b2 & H1 & H2 & ->).
    rewrite H1. destruct o; try discriminate Hflag. subst ok.
    rewrite <- (hall_keys d1 l l1 b1 H1) in Ef.
    rewrite (IH s1 l1 s2 d2 l' b2 Hcs Ef H2). reflexivity.
Qed.

Lemma run_serial_filter_g : forall chunks st l,
  run_serial_g keys hall recv sk cfg st l chunks = run_serial_g keys hall recv sk cfg st l (filter nonempty chunks).
Proof.
  induction chunks as [|c cs IH]; intros st l; [reflexivity|].
  destruct c as [|x c']; cbn [filter nonempty run_serial_g]; [apply IH|].
  destruct (recv (unit_cfg sk cfg (keys l)) st (x :: c')) as [[s1 d1] o].
  destruct (hall l d1) as [[l1 b1] flt]. destruct flt; [reflexivity|].
  destruct o; try reflexivity; now rewrite IH.
Qed.
End LoopLemmas.

Lemma handle_all_nil pk sk cfg l : handle_all pk sk cfg l [] = (l, [], None).
Proof. reflexivity. Qed.

Lemma run_feed sk cfg : In sk tcp_fes -> forall chunks st l st' ds l' b,
  feed (t_recv base tcp e2e_dec (framer_cfg sk cfg l)) st chunks = (st', ds, true) ->
  handle_all packet_of sk cfg l ds = (l', b, None) ->
  run_reads sk cfg false st l chunks = result l' b st'.
Proof.
  intros Hsk chunks st l st' ds l' b. unfold run_reads, framer_cfg.
  apply (run_feed_g (u_keys slavectx) (handle_all packet_of sk cfg) (t_recv base tcp e2e_dec) sk cfg
           (handle_all_nil packet_of sk cfg) (fun d1 s d2 s' b0 => handle_all_app packet_of sk cfg d1 s d2 s' b0)
           (fun ds0 => handle_all_keys packet_of sk cfg ds0 (tcp_fes_all sk Hsk))).
Qed.

Lemma run_eff sk cfg eof : forall chunks st l,
  run_reads sk cfg eof st l chunks = run_reads sk cfg false st l (eff_chunks eof chunks).
Proof. intros. unfold run_reads. apply run_eff_g. Qed.

(* ================================================================== framing: C06_tcp *)
Lemma request_pdu_length m w : wreq_of_msg m = Some w -> spec_wf m = true ->
  (1 <= length (spec_pdu m) <= 300)%nat.
Proof.
  intros Hw Hwf. destruct m; unfold wreq_of_msg in Hw; try discriminate Hw; clear Hw;
    cbn [spec_pdu]; rewrite ?app_length; cbn [length u8 u16].
  1-4: lia.
  - destruct on; cbn [on_word length]; lia.
  - lia.
  - cbn [spec_wf] in Hwf. split_andb Hwf. destruct (C01.C01_bitpack_shape coils) as (_ & Hl & _).
    unfold is_u8, len in *. lia.
  - cbn [spec_wf] in Hwf. split_andb Hwf. rewrite words_length. unfold is_u8, len in *. lia.
  - lia.
  - cbn [spec_wf] in Hwf. split_andb Hwf. rewrite words_length. unfold is_u8, len in *. lia.
Qed.

Lemma body_pdu_length b w : body_ok b w -> (1 <= length (sreq_pdu b) <= 300)%nat.
Proof.
  destruct b as [m|fc rest]; cbn [body_ok sreq_pdu].
  - intros [Hw Hwf]. exact (request_pdu_length m w Hw Hwf).
  - intros (_ & _ & _ & Hl). cbn [length]. lia.
Qed.

Lemma dec_body_msg b w : body_ok b w -> is_msg (e2e_dec (sreq_pdu b)) = true.
Proof.
  intros Hb. destruct (decode_body b w Hb) as (o & r & Hdec & Hfc & _).
  unfold e2e_dec, py_decode_wrapper. rewrite Hdec, Hfc. reflexivity.
Qed.

Lemma zmem_in k l : In k l -> FrBaseA.zmem k l = true.
Proof. intros H. unfold FrBaseA.zmem. apply existsb_exists. exists k. split; [exact H|apply Z.eqb_refl]. Qed.

Lemma served_accepted sk cfg l uid : served sk cfg (u_keys slavectx l) uid ->
  spec_accepts KTcp (framer_cfg sk cfg l) uid = true.
Proof.
  intros [_ Hin]. unfold spec_accepts, FrSpecA.spec_single, framer_cfg, unit_cfg. cbn [c_single c_units].
  destruct (cf_single cfg) eqn:Es; [reflexivity|]. cbn [spec_key] in Hin. cbn [orb].
  assert (Hz : FrBaseA.zmem uid (unit_list sk cfg (u_keys slavectx l)) = true).
  { apply zmem_in. unfold unit_list. destruct (ceval _ _); [apply in_or_app; left|]; exact Hin. }
  rewrite Hz. now rewrite !orb_true_r.
Qed.

Lemma request_frames sk cfg l qs : Forall (req_ok sk cfg (u_keys slavectx l)) qs ->
  Forall (stream_frame KTcp e2e_dec (framer_cfg sk cfg l)) (map frame_of qs) /\
  ref_deliveries KTcp (framer_cfg sk cfg l) (map frame_of qs) = map delivery_of qs.
Proof.
  induction 1 as [|q t Hq Ht [IH1 IH2]]; [split; [constructor|reflexivity]|].
  destruct Hq as (Htid & Hpid & Huid & (w & Hbody) & Hserved).
  pose proof (body_pdu_length _ w Hbody) as Hlen.
  pose proof (served_accepted sk cfg l _ Hserved) as Hacc.
  split.
  - cbn [map]. constructor; [|exact IH1]. split.
    + cbn [frame_wf]. unfold tcp_wf, frame_of. cbn [f_tid f_pid f_uid f_pdu]. lia.
    + intros _. unfold frame_of. cbn [f_pdu]. exact (dec_body_msg _ w Hbody).
  - unfold ref_deliveries in *. cbn [map filter]. change (f_uid (frame_of q)) with (q_uid q). rewrite Hacc.
    cbn [map]. now rewrite IH2.
Qed.

(* ================================================================== the end-to-end theorem *)
Theorem e2e_tcp sk cfg eof l su qs chunks :
  In sk tcp_fes -> units_rel l su -> Forall (req_ok sk cfg (u_keys slavectx l)) qs ->
  concat (eff_chunks eof chunks) = concat (map req_adu qs) ->
  exists l' st',
    tcp_server_run sk cfg eof l chunks = result l' (snd (spec_run (cf_single cfg) su qs)) st' /\
    units_rel l' (fst (spec_run (cf_single cfg) su qs)).
Proof.
  intros Hsk Hrel Hok Hcat.
  destruct (request_frames sk cfg l qs Hok) as [Hframes Hdel].
  destruct (handle_all_spec sk cfg qs Hsk l su Hrel Hok) as (l' & Hall & Hrel' & _).
  assert (Hcat' : concat (eff_chunks eof chunks) = concat (map (spec_adu KTcp) (map frame_of qs))).
  { rewrite Hcat, map_map. reflexivity. }
  destruct (C06_tcpascii.C06_tcp e2e_dec (framer_cfg sk cfg l) (map frame_of qs) (eff_chunks eof chunks) Hframes Hcat')
    as (st' & Hfeed).
  rewrite Hdel in Hfeed.
  exists l', st'. split; [|exact Hrel'].
  unfold tcp_server_run. rewrite run_eff. exact (run_feed sk cfg Hsk _ _ _ _ _ _ _ Hfeed Hall).
Qed.

(* ================================================================== establishing the hypotheses *)
Definition block_u16 (b : block) : Prop :=
  match b with
  | BSeq s => Forall u16v (sb_vals s)
  | BSp s => Forall (fun kv => u16v (snd kv)) (sp_vals s)
  end.

Lemma d_get_in d k v : d_get d k = Some v -> exists k', In (k', v) d.
Proof.
  induction d as [|[k0 v0] t IH]; cbn [d_get]; [discriminate|].
  destruct (k0 =? k).
  - intros H. injection H as ->. exists k0. now left.
  - intros H. destruct (IH H) as [k' Hk]. exists k'. now right.
Qed.

Lemma cells_ok_abs c : Forall block_u16 (cx_blocks c) -> cells_ok (abs c).
Proof.
  intros H b k v. unfold abs. cbn [a_cell]. unfold nth_block.
  destruct (Nat.lt_ge_cases b (length (cx_blocks c))) as [Hlt|Hge].
  - pose proof (nth_In (cx_blocks c) (BSeq {| sb_addr := 0; sb_vals := []; sb_def := 0 |}) Hlt) as Hin.
    rewrite Forall_forall in H. specialize (H _ Hin).
    destruct (nth b (cx_blocks c) _) as [sq|sp]; cbn [blk_cell block_u16] in *.
    + unfold Store_proofs.seq_cell. destruct (_ && _); [|discriminate]. intros E. apply nth_error_In in E.
      rewrite Forall_forall in H. exact (H _ E).
    + unfold Store_proofs.sp_cell. intros E. destruct (d_get_in _ _ _ E) as [k' Hk].
      rewrite Forall_forall in H. exact (H _ Hk).
  - rewrite nth_overflow by exact Hge. cbn [blk_cell]. unfold Store_proofs.seq_cell. cbn [sb_vals sb_addr].
    destruct (_ && _); [|discriminate]. destruct (Z.to_nat _); discriminate.
Qed.

(* the abstract states of a list of hosted datastores *)
Definition abs_units (l : units slavectx) : sunits := map (fun p => (fst p, abs (snd p))) l.

Definition store_ok (c : slavectx) : Prop := inv c /\ Forall block_u16 (cx_blocks c).

Lemma units_rel_abs l : Forall (fun p => store_ok (snd p)) l -> units_rel l (abs_units l).
Proof.
  induction 1 as [|[u c] t [Hi Hb] Ht IH]; [constructor|]. cbn [abs_units map fst snd].
  constructor; [|exact IH]. split; [exact Hi|]. split; [apply aeq_refl|now apply cells_ok_abs].
Qed.

Theorem e2e_tcp_abs sk cfg eof l qs chunks :
  In sk tcp_fes -> Forall (fun p => store_ok (snd p)) l -> Forall (req_ok sk cfg (u_keys slavectx l)) qs ->
  concat (eff_chunks eof chunks) = concat (map req_adu qs) ->
  exists l' st',
    tcp_server_run sk cfg eof l chunks = result l' (snd (spec_run (cf_single cfg) (abs_units l) qs)) st' /\
    units_rel l' (fst (spec_run (cf_single cfg) (abs_units l) qs)).
Proof. intros Hsk Hl. apply e2e_tcp; [exact Hsk|now apply units_rel_abs]. Qed.
