(* Pdu_size_proofs.v — the length of every specification PDU, and the 253-byte limit. *)
From PM.theories Require Import Base Struct PduCls PduSpec Pdu CorrPdu.
From PM.proofs Require Import Pdu_bits_proofs.
From Coq Require Import ZifyBool.
Open Scope list_scope.
Open Scope Z_scope.
Ltac Zify.zify_post_hook ::= Z.to_euclidean_division_equations.

Lemma len_app' {A} (a b : list A) : len (a ++ b) = len a + len b.
Proof. unfold len. rewrite app_length. lia. Qed.
Lemma len_cons {A} (x : A) (l : list A) : len (x :: l) = 1 + len l.
Proof. unfold len. cbn [length]. lia. Qed.
Lemma len_nil {A} : len (@nil A) = 0.
Proof. reflexivity. Qed.
Lemma len_u16 v : len (u16 v) = 2.
Proof. reflexivity. Qed.
Lemma len_u8 v : len (u8 v) = 1.
Proof. reflexivity. Qed.
Lemma len_words l : len (words l) = 2 * len l.
Proof.
  induction l as [|v t IH]; [reflexivity|]. unfold words in *. cbn [flat_map]. rewrite len_app', len_u16, IH, len_cons. lia.
Qed.
Lemma len_pack cs : len (spec_pack_bits cs) = bit_byte_count (len cs).
Proof. apply spec_pack_bits_length. Qed.
Lemma len_on b : len (on_word b) = 2.
Proof. destruct b; reflexivity. Qed.
Lemma len_busy b : len (busy_word b) = 2.
Proof. destruct b; reflexivity. Qed.
Lemma len_flat_u8 l : len (flat_map u8 l) = len l.
Proof. induction l as [|v t IH]; [reflexivity|]. cbn [flat_map]. rewrite len_app', len_u8, IH, len_cons. lia. Qed.
Lemma len_sub_reads ss : len (flat_map sub_read_bytes ss) = 7 * len ss.
Proof.
  induction ss as [|s t IH]; [reflexivity|]. cbn [flat_map]. rewrite len_app', IH, len_cons.
  change (len (sub_read_bytes s)) with 7. lia.
Qed.
Lemma len_sub_writes ss : len (flat_map sub_write_bytes ss) = PduSpec.zsum (map sub_write_size ss).
Proof.
  induction ss as [|s t IH]; [reflexivity|]. cbn [flat_map map PduSpec.zsum fold_right]. fold (PduSpec.zsum (map sub_write_size t)).
  rewrite len_app', IH. unfold sub_write_bytes, sub_write_size. rewrite !len_app', !len_u16, len_words, len_cons, len_nil. lia.
Qed.
Lemma len_sub_resps ds : len (flat_map sub_resp_bytes ds) = PduSpec.zsum (map sub_resp_size ds).
Proof.
  induction ds as [|d t IH]; [reflexivity|]. cbn [flat_map map PduSpec.zsum fold_right]. fold (PduSpec.zsum (map sub_resp_size t)).
  rewrite len_app', IH. unfold sub_resp_bytes, sub_resp_size. rewrite !len_app', len_u8, len_words, len_cons, len_nil. lia.
Qed.
Lemma len_objects objs : len (flat_map object_bytes objs) = PduSpec.zsum (map (fun o => 2 + len (snd o)) objs).
Proof.
  induction objs as [|o t IH]; [reflexivity|]. cbn [flat_map map PduSpec.zsum fold_right].
  fold (PduSpec.zsum (map (fun o => 2 + len (snd o)) t)). rewrite len_app', IH. unfold object_bytes. rewrite !len_app', !len_u8. replace (1 + (1 + len (snd o))) with (2 + len (snd o)) by lia. reflexivity.
Qed.

Theorem spec_pdu_length m : len (spec_pdu m) = pdu_size m.
Proof.
  destruct m; cbn [spec_pdu pdu_size];
    rewrite ?len_app', ?len_cons, ?len_nil, ?len_u16, ?len_u8, ?len_words, ?len_pack, ?len_on, ?len_busy, ?len_flat_u8,
            ?len_sub_reads, ?len_sub_writes, ?len_sub_resps, ?len_objects; lia.
Qed.

Theorem spec_pdu_limit m : spec_limits m = true -> 1 <= len (spec_pdu m) <= 253.
Proof.
  rewrite spec_pdu_length. intros H.
  assert (Hn : forall A (l : list A), 0 <= len l) by (intros; unfold len; lia).
  destruct m; cbn [spec_limits pdu_size] in *; unfold within, bit_byte_count in *;
    repeat match goal with |- context [len ?l] => lazymatch goal with | _ : 0 <= len l |- _ => fail | _ => pose proof (Hn _ l) end end;
    lia.
Qed.

(* the limit is attained: PDUs of exactly 253 bytes exist within the limits (one request, one response) *)
Theorem spec_pdu_max_attained :
  (exists m, msg_is_request m = true /\ spec_limits m = true /\ spec_wf m = true /\ len (spec_pdu m) = 253) /\
  (exists m, msg_is_request m = false /\ spec_limits m = true /\ spec_wf m = true /\ len (spec_pdu m) = 253).
Proof.
  split.
  - exists (MDiagReq 0 (repeat 0 125)). repeat split; vm_compute; reflexivity.
  - exists (MReportSlaveIdRsp (repeat 0%N 250) true). repeat split; vm_compute; reflexivity.
Qed.

(* well-formedness alone (every field fits its width) bounds the kinds whose variable part is governed
   by an 8-bit byte count: they can exceed 253 but never 264 bytes *)
Definition byte_counted (m : msg) : bool :=
  match m with
  | MDiagReq _ _ | MDiagRsp _ _ | MReadFifoRsp _ | MReadDevIdRsp _ _ _ _ _ => false
  | _ => true
  end.

Theorem spec_pdu_wf_bound m : spec_wf m = true -> byte_counted m = true -> len (spec_pdu m) <= 264.
Proof.
  rewrite spec_pdu_length. intros H Hb.
  assert (Hn : forall A (l : list A), 0 <= len l) by (intros; unfold len; lia).
  destruct m; try discriminate Hb; cbn [spec_wf pdu_size] in *; unfold is_u8, is_u16, bit_byte_count in *;
    repeat match goal with |- context [len ?l] => lazymatch goal with | _ : 0 <= len l |- _ => fail | _ => pose proof (Hn _ l) end end;
    lia.
Qed.
