#!/bin/bash
# tools/seedrun.sh Cxx n [props…]  — run the seeded change /tmp/seed_Cxx/out/n (or /verif/seeded/Cxx-n) against the given checks (default: Cxx), log to /tmp/seedres
p="$1"; n="$2"; shift 2; props="${*:-$p}"
src="${SEEDROOT:-/tmp/seed}_$p/out/$n"; [ -d "$src" ] || src="/verif/seeded/$p-$n"
tag="$p-${SEEDTAG:-$n}"
mkdir -p /tmp/seedres
/verif/tools/seedtest.sh "$src/patch.diff" $props > "/tmp/seedres/$tag.txt" 2>&1
grep -E "^== |^VIOLATION|^C[0-9]+:|exit=|verdict" "/tmp/seedres/$tag.txt" | cut -c1-260
