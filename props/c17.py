"""C17 — All server front-ends are behaviourally interchangeable.

The same request bytes go, with the same chunking and the same interleaving of 1-3 connections,
through the real threaded, asyncio and Twisted stream front-ends (and, one datagram per request,
through the threaded and asyncio datagram front-ends); response byte streams per connection and
final datastores are compared front-end against front-end and against a SERIAL reference (all
requests, in the order in which they complete, one per read on a single connection).  After every
step the framer state of every OTHER connection is compared with its state before the step.
Front-end drivers: props/lib_frontends.py (see props/c12.py for how the loops are entered).
"""
import itertools

from lib import common
from lib.coqrun import zlist, boolean, lst
from lib.main import Case, Suite
from props import lib_frontends as L
from props.c12 import valid_pdu, watchdog

ID = "C17"
GENERATORS = ["frontends"]
PROP_FILE = "C17"
CASE_DEPS = ["theories/CorrFrontends.vo", "Generated/GenFrontends.vo"]
RULE = ("sessions = (framer, single/multi-unit context, ignore_missing_slaves, 1-3 connections each with 1-3 "
        "requests drawn from FC1-6/15/16/22/23/43-14 incl. illegal addresses and missing units, unique "
        "transaction ids); chunking: whole frames, two frames per chunk (socket/RTU/ASCII, served and foreign "
        "units mixed), or a frame split at any offset (MBAP framing), at most 6 chunks; EVERY interleaving of the chunks (all of them up to 30, else 30 "
        "sampled); one case per (session, interleaving): the three stream front-ends (resp. the two live datagram "
        "front-ends), plus the serial reference; distinct = distinct (traffic, interleaving)")
TRUSTED = [
    "generated from source on every run: execute/send skeletons and loop skeletons of all front-ends (GenFrontends.v)",
    "hand-written interpreter Frontends.v; C17_equiv is proved for an arbitrary framer/execution, so the tie that "
    "matters is that the generated skeletons are what the code does — checked by running the three real front-ends "
    "on identical traffic and diffing bytes and datastores directly (and by the C12 ladder suite)",
]
ASSUMPTIONS = ["common features only: broadcast_enable off (Twisted has no such option), ListenOnly never set, no "
               "diagnostic counter reads (only Twisted increments Counter.BusMessage), traffic on which no handler "
               "raises (the exception policies differ: listed differences, open findings)",
               "interleaving granularity is one read/chunk: each front-end processes a chunk to completion before "
               "the next one (true of the asyncio loop and the reactor; the threaded server runs handlers on "
               "threads and request execution is not locked — outside this model, see DESIGN.md section 11)"]

IMPORTS = ("From PM.theories Require Import Base Ladder Frontends CorrFrontends.\n"
           "From PM.Generated Require Import GenFrontends.")

STREAM = ["SyncTcp", "AioTcp", "TwTcp"]
DGRAM = ["SyncUdp", "AioUdp", "TwUdp"]     # the Twisted datagram protocol is alive since /repo b36db33
KINDS = ["r1", "r2", "r3", "r4", "w5", "w6", "w15", "w16", "w22", "w23", "dev", "poison"]
# poison: FC22 on the last holding register, which holds a float (spec["poison"]): execute() raises TypeError -> 04
# (device-id read code 0 used to do this; since /repo 9a34217 it is refused with exception 03 without raising)


def interleavings(counts, cap, r):
    """all orders of connection ids preserving per-connection order; capped by sampling"""
    total = 1
    n = 0
    for c in counts:
        for i in range(1, c + 1):
            n += 1
            total = total * n // i
    base = [k for k, c in enumerate(counts) for _ in range(c)]
    if total <= cap:
        return sorted(set(itertools.permutations(base)))
    out = set()
    while len(out) < cap:
        b = list(base)
        r.shuffle(b)
        out.add(tuple(b))
    return sorted(out)


def make_session(r, framer, dgram):
    multi = r.random() < 0.5
    # hosted sets containing 0 let every unit id through the framer's unit filter, so that requests
    # for a missing unit reach execute() (NoSuchSlave -> exception 0x0B or silence)
    spec = {"single": not multi, "units": r.choice([[1], [1, 2], [0, 3], [0, 3], [2, 17]]) if multi else [0], "size": 16,
            "poison": True}
    cfg = {"broadcast_enable": False, "ignore_missing_slaves": r.random() < 0.4}
    nconn = r.choice([1, 2, 2, 3, 3])
    tid = r.randrange(1, 60000)
    conns = []
    budget = 6
    for k in range(nconn):
        nreq = r.choice([1, 2, 2, 3]) if not dgram else r.choice([1, 2])
        nreq = max(1, min(nreq, budget - (nconn - k - 1)))
        frames, foreign = [], []
        for _ in range(nreq):
            hosted = spec["units"] if multi else [1, 7]
            uid = r.choice(hosted + hosted + ([9, 9] if multi else []))   # 9: a unit nobody hosts
            kind = r.choice(KINDS)
            pdu = valid_pdu(r, kind, spec["size"]) if kind != "poison" else L.pdu_mask(spec["size"] - 1, 0x00FF, 0x1200)
            if r.random() < 0.15:       # illegal data address -> exception response 02
                pdu = pdu[:1] + b"\x00\x64" + pdu[3:] if pdu[0] != 0x2B else pdu
            tid += 1
            frames.append(L.frame(framer, tid, uid, pdu))
            foreign.append(multi and uid not in spec["units"])
        # chunking: list of (bytes, frames completed by this chunk)
        chunks = []
        i = 0
        while i < len(frames):
            f = frames[i]
            k2 = r.random()
            # pipelined reads (socket, RTU, ASCII): since /repo 4358708 the RTU framer handles every frame of a
            # read and since 9138241 a frame for a unit nobody hosts is skipped without dropping the frames
            # behind it, so served and foreign units are mixed freely; the binary framer still resets on a
            # foreign unit (finding #19, C09/C10) and stays one frame per read
            if framer in ("socket", "rtu", "ascii") and not dgram and k2 < 0.3 and i + 1 < len(frames):
                chunks.append((f + frames[i + 1], [f, frames[i + 1]]))
                i += 2
                continue
            if framer == "socket" and not dgram and k2 < 0.55 and budget - len(chunks) > 1:
                cut = r.randrange(1, len(f))      # any offset: since /repo 8e57b39 a short chunk just waits
                chunks.append((f[:cut], []))
                chunks.append((f[cut:], [f]))
            else:
                chunks.append((f, [f]))
            i += 1
        budget -= len(chunks)
        conns.append(chunks)
        if budget <= 0:
            conns = conns[:k + 1]
            break
    return spec, cfg, conns


def run_interleaved(fe, framer, spec, cfg, conns, order):
    """-> (per-connection list of frames sent, flattened final store, privacy violations, any raise)"""
    run = L.Run(fe, framer, spec, cfg)
    bad_private, raised = [], []
    try:
        for k in range(len(conns)):
            run.open(k)
        pos = [0] * len(conns)
        for k in order:
            ch = conns[k][pos[k]][0]
            pos[k] += 1
            before = {j: L.framer_snapshot(c.framer) for j, c in run.conns.items()
                      if j != k and c.framer is not None and c.framer is not run.conns[k].framer}
            obs = run.feed(k, ch)
            for j, snap in before.items():
                if L.framer_snapshot(run.conns[j].framer) != snap:
                    bad_private.append((k, j))
            if obs.raised is not None or obs.escaped is not None:
                raised.append((k, obs.raised or obs.escaped))
        outs = [[bytes(x) for x in run.conns[k].rec.sent] for k in range(len(conns))]
        return outs, flat(run._dump()), bad_private, raised
    finally:
        run.close()


def run_dgram(fe, framer, spec, cfg, conns, order):
    run = L.Run(fe, framer, spec, cfg)
    raised = []
    try:
        for k in range(len(conns)):
            run.open(k)
        pos = [0] * len(conns)
        outs = [[] for _ in conns]
        for k in order:
            ch = conns[k][pos[k]][0]
            pos[k] += 1
            obs = run.feed(k, ch)
            outs[k] += [bytes(x) for x in obs.out]
            if obs.raised is not None or obs.escaped is not None:
                raised.append((k, obs.raised or obs.escaped))
        return outs, flat(run._dump()), [], raised
    finally:
        run.close()


def run_serial(fe, framer, spec, cfg, conns, order):
    """all requests in completion order, one per read, on ONE connection; responses handed back to
    the connection whose request it was"""
    run = L.Run(fe, framer, spec, cfg)
    try:
        run.open(0)
        pos = [0] * len(conns)
        outs = [[] for _ in conns]
        for k in order:
            done = conns[k][pos[k]][1]
            pos[k] += 1
            for f in done:
                obs = run.feed(0, f)
                outs[k] += [bytes(x) for x in obs.out]
        return outs, flat(run._dump())
    finally:
        run.close()


def flat(dump):
    out = []
    for u in sorted(dump):
        for t in L.TABLES:
            out += dump[u][t]
    return out


def frames_term(frs):
    return lst(zlist(list(f)) for f in frs)


def conns_term(cs):
    return lst(frames_term(c) for c in cs)


def split_frames(framer, blobs):
    """a connection's sent blobs as a list of frames (the handlers send one frame per write)"""
    return [b for b in blobs]


def rand_frame(r, framer, tid, kind=None):
    a = r.randrange(0, 10)
    k = kind if kind is not None else r.choice(["r", "r", "r", "w6", "w6", "w16", "w15"])
    if k == "r":
        pdu = L.pdu_read(r.choice([1, 3, 4]), a, r.randrange(1, 4))
    elif k == "w6":
        pdu = L.pdu_write_reg(a, r.randrange(65536))
    elif isinstance(k, tuple) and k[0] == "w16":
        pdu = L.pdu_write_regs(a, [r.randrange(65536) for _ in range(k[1])])
    elif isinstance(k, tuple) and k[0] == "w15":
        pdu = L.pdu_write_coils(a, [r.randrange(2) for _ in range(k[1])])
    elif k == "w16":
        pdu = L.pdu_write_regs(a, [r.randrange(65536) for _ in range(r.randrange(1, 4))])
    else:
        pdu = L.pdu_write_coils(a, [r.randrange(2) for _ in range(r.randrange(1, 12))])
    return L.frame(framer, tid & 0xFFFF, 1, pdu)


MENU = ["r", "w6", ("w16", 1), ("w16", 2), ("w16", 3), ("w15", 3), ("w15", 11), ("w15", 20)]


def exact_fill(r, framer, need, tid):
    """<= 5 frames whose lengths add up to exactly `need` (None if impossible)"""
    lens = {}
    for k in MENU:
        lens.setdefault(len(rand_frame(r, framer, 0, k)), k)
    best = {0: []}
    for _ in range(5):
        nxt = dict(best)
        for tot, ks in best.items():
            for ln, k in lens.items():
                if tot + ln <= need and tot + ln not in nxt:
                    nxt[tot + ln] = ks + [k]
        best = nxt
        if need in best:
            return [rand_frame(r, framer, tid + i, k) for i, k in enumerate(best[need])]
    return None


def burst(r, framer, lo, hi, boundary, want):
    """a pipelined burst of lo..hi bytes (reads and small writes, unit 1) such that byte `boundary` — where a
    recv(1024) of the threaded handlers ends — falls at offset `want` of a frame ("crlf": between the CR
    and the LF of an ASCII frame); constructed, the server is not involved"""
    for _ in range(500):
        tid = r.randrange(1, 20000)
        strad = rand_frame(r, framer, tid + 500)
        j = len(strad) - 1 if want == "crlf" else want
        if j >= len(strad):
            continue
        prefix_len = boundary - j
        frames, total = [], 0
        while prefix_len - total > 70:
            frames.append(rand_frame(r, framer, tid + len(frames)))
            total += len(frames[-1])
        fill = exact_fill(r, framer, prefix_len - total, tid + 200)
        if fill is None:
            continue
        frames += fill
        total = sum(len(f) for f in frames)
        if j > 0 or total + len(strad) <= hi:      # offset 0 = the read ends exactly between two frames
            frames.append(strad)
            total += len(strad)
        elif total < lo:
            continue
        while total < lo:
            frames.append(rand_frame(r, framer, tid + 600 + len(frames)))
            total += len(frames[-1])
        if total <= hi:
            return frames
    raise RuntimeError("no burst found for %r" % ((framer, lo, hi, boundary, want),))


BURSTS = {"quick": {"ascii": [(1000, 1100, 1024, w) for w in list(range(0, 17)) + ["crlf", "crlf"]] +
                             [(2040, 2060, 2048, w) for w in (0, 9, "crlf")] + [(2040, 2060, 1024, "crlf")],
                    "socket": [(1000, 1100, 1024, w) for w in range(0, 12)] + [(2040, 2060, 2048, w) for w in (0, 3, 7, 11)]}}
BURSTS["thorough"] = {k: v * 4 for k, v in BURSTS["quick"].items()}


def foreign_sessions(framer):
    """multi-unit contexts hosting neither 0 nor 0xFF, requests for a unit nobody hosts (with and without
    ignore_missing_slaves): alone, in front of and behind a served request, pipelined and one per read"""
    out = []
    f9 = L.frame(framer, 0x1111, 9, L.pdu_read(3, 0, 2))
    f1 = L.frame(framer, 0x1112, 1, L.pdu_read(3, 1, 1))
    w9 = L.frame(framer, 0x1113, 9, L.pdu_write_reg(2, 0x0BAD))
    f2 = L.frame(framer, 0x1114, 2, L.pdu_read(3, 2, 1))
    for units in ([1, 2], [1], [2, 17]):
        spec = {"single": False, "units": units, "size": 16}
        for ign in (False, True):
            cfg = {"broadcast_enable": False, "ignore_missing_slaves": ign}
            out.append((spec, cfg, [[(f9, [f9])]]))
            out.append((spec, cfg, [[(f9, [f9]), (f1, [f1])], [(w9, [w9]), (f2, [f2])]]))
            if framer != "binary":
                out.append((spec, cfg, [[(f9 + f1 + w9, [f9, f1, w9])], [(f2, [f2])]]))
    # contexts hosting 0 or 0xFF let every unit id through the framers' filter: requests for a unit nobody hosts then
    # reach execute().  The SAME missing unit twice in a row, behind a request to a hosted unit, on one connection: the
    # second one must be treated exactly like the first (nothing remembered from the failed lookup or the request before)
    w1 = L.frame(framer, 0x1121, 1, L.pdu_write_reg(5, 0x0A01))
    m9a = L.frame(framer, 0x1122, 9, L.pdu_write_reg(5, 0x0BAD))
    m9b = L.frame(framer, 0x1123, 9, L.pdu_write_reg(5, 0x0BAE))
    r9 = L.frame(framer, 0x1124, 9, L.pdu_read(3, 5, 1))
    r1 = L.frame(framer, 0x1125, 1, L.pdu_read(3, 5, 1))
    for units in ([0, 1], [1, 255]):
        spec = {"single": False, "units": units, "size": 16}
        for ign in (False, True):
            cfg = {"broadcast_enable": False, "ignore_missing_slaves": ign}
            out.append((spec, cfg, [[(w1, [w1]), (m9a, [m9a]), (m9b, [m9b]), (r9, [r9]), (r1, [r1])]]))
            if framer != "binary":
                out.append((spec, cfg, [[(w1 + m9a + m9b, [w1, m9a, m9b]), (r9 + r1, [r9, r1])]]))
    # a SINGLE context hosts every unit id, the non-significant 0xFF and the reserved 248..254 included: all three
    # front-ends must serve them alike (write, then read back)
    sp = {"single": True, "units": [0], "size": 16}
    # (transaction ids at the ends of the 16-bit range ride along: every front-end echoes them unchanged)
    for uid, (t1, t2) in zip((255, 248, 254, 247), ((0xFFFF, 0x0000), (0xFFFE, 0xFFFF), (0x0000, 0x0001), (0x8000, 0x7FFF))):
        w = L.frame(framer, t1, uid, L.pdu_write_reg(3, 0x0C00 + uid))
        rd = L.frame(framer, t2, uid, L.pdu_read(3, 3, 1))
        for ign in (False, True):
            out.append((sp, {"broadcast_enable": False, "ignore_missing_slaves": ign}, [[(w, [w]), (rd, [rd])]]))
    return out


_CACHE = {}


def build(tier):
    if tier in _CACHE:
        return _CACHE[tier]
    r = common.rng("C17.sessions")
    nsess = 8 if tier == "quick" else 80
    cap = 30 if tier == "quick" else 90
    cases = {"stream": [], "dgram": []}
    py_fail, keys = [], []
    for dgram in (False, True):
        fes = DGRAM if dgram else STREAM
        for framer in ["socket", "rtu", "ascii", "binary"]:
            sessions = [make_session(r, framer, dgram) for _ in range(nsess if framer == "socket" else max(2, nsess // 3))]
            if not dgram:
                sessions += foreign_sessions(framer)
                if framer in ("socket", "ascii"):
                    # a large request split across two reads whose second read also carries another large one
                    # (partial frame + chunk well over one maximum ADU): nothing buffered may be thrown away
                    big = [L.frame(framer, 0x2200 + i, 1, L.pdu_write_regs(a, [r.randrange(65536) for _ in range(120)]))
                           for i, a in enumerate((0, 60))]
                    cut = r.randrange(8, 40)
                    sessions.append(({"single": True, "units": [0], "size": 200},
                                     {"broadcast_enable": False, "ignore_missing_slaves": False},
                                     [[(big[0][:cut], []), (big[0][cut:] + big[1], big)]]))
                # long pipelined bursts, delivered the way each front-end really reads: the threaded handlers
                # recv(1024) at a time, asyncio/Twisted get the burst whole
                for (lo, hi, boundary, want) in BURSTS[tier].get(framer, []):
                    frames = burst(r, framer, lo, hi, boundary, want)
                    sessions.append(({"single": True, "units": [0], "size": 16},
                                     {"broadcast_enable": False, "ignore_missing_slaves": False},
                                     [[(b"".join(frames), frames)]]))
            for spec, cfg, conns in sessions:
                for order in interleavings([len(c) for c in conns], cap, r):
                    res = {}
                    with watchdog("C17", {"framer": framer, "ctx": spec, "cfg": cfg, "dgram": dgram, "order": list(order),
                                          "conns": [[c[0].hex() for c in ch] for ch in conns],
                                          "done": [[[f.hex() for f in c[1]] for c in ch] for ch in conns]}):
                        for fe in fes:
                            res[fe] = (run_dgram if dgram else run_interleaved)(fe, framer, spec, cfg, conns, order)
                        ser = run_serial(fes[0], framer, spec, cfg, conns, order)
                    desc = {"framer": framer, "ctx": spec, "cfg": cfg, "dgram": dgram,
                            "conns": [[c[0].hex() for c in ch] for ch in conns],
                            "done": [[[f.hex() for f in c[1]] for c in ch] for ch in conns], "order": list(order),
                            "outs": {fe: [[x.hex() for x in c] for c in res[fe][0]] for fe in fes},
                            "serial": [[x.hex() for x in c] for c in ser[0]]}
                    any_raise = any(res[fe][3] for fe in fes)
                    desc["raised"] = {fe: [list(map(str, x)) for x in res[fe][3]] for fe in fes if res[fe][3]}
                    # outside the common features only when EVERY front-end saw an exception on this
                    # traffic (same framer, same cause: the listed exception-policy difference); an
                    # exception in some front-ends only is a divergence and is judged
                    common_ok = not all(res[fe][3] for fe in fes)
                    term = ("{| ec_common := %s; ec_outs := %s; ec_stores := %s; ec_serial_outs := %s; ec_serial_store := %s |}" % (
                        boolean(common_ok), lst(conns_term(res[fe][0]) for fe in fes),
                        lst(zlist(res[fe][1]) for fe in fes), conns_term(ser[0]), zlist(ser[1])))
                    answered = any(any(c for c in res[fe][0]) for fe in fes)
                    cases["dgram" if dgram else "stream"].append(
                        Case(term, desc, kind="%s/%dconn/%s" % (framer, len(conns), "dgram" if dgram else "stream"),
                             nontrivial=answered and common_ok))
                    for fe in fes:
                        for (k, j) in res[fe][2]:
                            py_fail.append(dict(desc, what="step on connection %d changed the framer of connection %d" % (k, j), fe=fe))
                        keys.append((fe, framer, tuple(order), desc["conns"].__repr__()))
    _CACHE[tier] = (cases, py_fail, keys)
    return _CACHE[tier]


def suites(tier):
    cases, _, _ = build(tier)
    return [Suite("stream", IMPORTS, "chk_equiv code [SyncTcp; AioTcp; TwTcp]", cases["stream"], shard=60),
            Suite("dgram", IMPORTS, "chk_equiv code [SyncUdp; AioUdp; TwUdp]", cases["dgram"], shard=60)]


def extra_checks(tier):
    _, py_fail, keys = build(tier)
    from props import c09
    # the datagram servers answer the PEER a datagram came from, also when two peers' datagrams are queued before the
    # serving coroutine runs (sync and Twisted UDP handle one datagram per call; asyncio must pair them all the same)
    bu = c09.udp_burst(tier, common.rng("C17.udp.burst"))
    bu["keys"] = [repr(k) for k in bu["keys"]]
    return {"conn_private": {"evaluations": len(keys), "failures": py_fail, "broken": [], "samples": py_fail[:2],
                             "keys": [repr(k) for k in keys]},
            "udp-burst": bu}


def classify(suite, desc):
    # listed differences: a handler raised (exception policies differ) — only where that is what happened
    fes = DGRAM if desc.get("dgram") else STREAM
    if desc.get("raised") and all(fe in desc["raised"] for fe in fes):
        return "F-C17-exception-policy"
    return None


SPEC1 = {"single": True, "units": [0], "size": 16}


def replay_finding(f):
    import logging
    logging.disable(logging.CRITICAL)
    w = f.get("witness", {})
    if f["id"] == "F-C17-exception-policy":
        acts = []
        for fe in STREAM:
            run = L.Run(fe, "socket", SPEC1, {})
            try:
                run.open(0)
                acts.append(run.feed(0, bytes.fromhex(w["chunk"])).action())
            finally:
                run.close()
        return acts == w["actions"]
    if f["id"] == "F-C17-twisted-udp-dead":      # fixed: all three datagram front-ends answer alike
        outs = []
        for fe in DGRAM:
            run = L.Run(fe, "socket", SPEC1, {})
            try:
                run.open(0)
                o = run.feed(0, bytes.fromhex(w["datagram"]))
                outs.append(None if o.escaped is not None else [x.hex() for x in o.out])
            finally:
                run.close()
        return not (outs[0] == outs[1] == outs[2] == [w["expected"]])
    if f["id"] == "F-C17-twisted-udp-should-respond":
        outs = []
        for fe in DGRAM:
            run = L.Run(fe, "socket", SPEC1, {})
            try:
                run.open(0)
                outs.append([x.hex() for x in run.feed(0, bytes.fromhex(w["datagram"])).out])
            finally:
                run.close()
        return outs[0] == [] and outs[1] == [] and outs[2] != []
    if f["id"] == "F-C17-udp-shared-framer":
        differ = []
        for first in (w["datagram1"], w.get("short_datagram1", w["datagram1"])):
            outs = []
            for fe in ("SyncUdp", "AioUdp", "TwUdp"):
                run = L.Run(fe, "socket", SPEC1, {})
                try:
                    run.open(0)
                    run.feed(0, bytes.fromhex(first))
                    run.open(1)
                    outs.append([x.hex() for x in run.feed(1, bytes.fromhex(w["datagram2"])).out])
                finally:
                    run.close()
            differ.append(outs[0] != outs[1] and outs[0] != outs[2])
        return all(differ)
    if f["id"] == "F-C17-foreign-unit-drops-read":
        still = False
        for framer, frames in w["frames"].items():
            fr = [bytes.fromhex(x) for x in frames]
            for fe in STREAM:
                res = []
                for chunks in ([b"".join(fr)], fr):
                    run = L.Run(fe, framer, w["ctx"], {})
                    try:
                        run.open(0)
                        for ch in chunks:
                            run.feed(0, ch)
                        res.append([x.hex() for x in run.conns[0].rec.sent])
                    finally:
                        run.close()
                still = still or res[0] != res[1] or not res[0]
        return still
    if f["id"] == "F-C17-bus-message-counter":
        outs = []
        for fe in STREAM:
            run = L.Run(fe, "socket", SPEC1, {})
            try:
                run.open(0)
                run.feed(0, bytes.fromhex(w["first"]))
                outs.append([x.hex() for x in run.feed(0, bytes.fromhex(w["read_counter"])).out])
            finally:
                run.close()
        return outs[0] == outs[1] and outs[2] != outs[0]
    if f["id"] == "F-C17-twisted-no-broadcast":
        outs = []
        for fe in STREAM:
            run = L.Run(fe, "socket", {"single": False, "units": [1, 2], "size": 16}, {"broadcast_enable": True})
            try:
                run.open(0)
                o = run.feed(0, bytes.fromhex(w["chunk"]))
                outs.append(([x.hex() for x in o.out], run._dump()[1]["hr"][3], run._dump()[2]["hr"][3]))
            finally:
                run.close()
        return outs[0] == outs[1] and outs[2] != outs[0]
    return None


def feed_script(desc):
    """re-run one recorded session (child process, watchdog replays)"""
    conns = [[(bytes.fromhex(c), [bytes.fromhex(f) for f in d]) for c, d in zip(ch, dn)]
             for ch, dn in zip(desc["conns"], desc["done"])]
    fes = DGRAM if desc["dgram"] else STREAM
    for fe in fes:
        (run_dgram if desc["dgram"] else run_interleaved)(fe, desc["framer"], desc["ctx"], desc["cfg"], conns, desc["order"])
    run_serial(fes[0], desc["framer"], desc["ctx"], desc["cfg"], conns, desc["order"])


def replay_case(suite, desc):
    import json
    print(json.dumps(desc)[:3000])
    if suite == "watchdog":
        from props.c12 import replay_hang
        return replay_hang("c17", desc)
    if suite == "udp-burst":
        from props import c09
        return bool(c09.replay_case("udp-sender-isolation", desc))
    if "conns" not in desc:
        return True
    conns = [[(bytes.fromhex(c), [bytes.fromhex(f) for f in d]) for c, d in zip(ch, dn)]
             for ch, dn in zip(desc["conns"], desc["done"])]
    fes = DGRAM if desc["dgram"] else STREAM
    res = {fe: (run_dgram if desc["dgram"] else run_interleaved)(fe, desc["framer"], desc["ctx"], desc["cfg"], conns, desc["order"])
           for fe in fes}
    ser = run_serial(fes[0], desc["framer"], desc["ctx"], desc["cfg"], conns, desc["order"])
    for fe in fes:
        print(fe, [[x.hex() for x in c] for c in res[fe][0]], res[fe][2], res[fe][3])
    print("serial", [[x.hex() for x in c] for c in ser[0]])
    first = res[fes[0]]
    return any(res[fe][0] != first[0] or res[fe][1] != first[1] for fe in fes) or first[0] != ser[0] or first[1] != ser[1] \
        or any(res[fe][2] for fe in fes)


MANIFEST = {
    "text": ("Coq theorems (Props/C17.v, closed under the global context) over the execute/send and loop skeletons of the "
             "three server implementations regenerated from source on every run, for an ARBITRARY framer and request "
             "execution: under the stated common features the three copies of execute/send are one function "
             "(C17_callback_equiv), one chunk yields the same world and byte-identical output in the sync, asyncio and "
             "Twisted stream front-ends (C17_step_equiv) and a whole connection is the same function of (world, chunk "
             "list) as long as nothing is raised (C17_equiv); a step on one connection leaves every other "
             "connection's framer state alone (C17_conn_private) and any interleaving of any number of connections "
             "gives each connection exactly what it produces alone against the worlds it observed (C17_interleave). "
             "What is not common is itself a theorem about the generated skeletons (C17_listed_differences) with two "
             "refutation witnesses. No test compares the three copies or opens two connections."),
    "note": ("Trusted: Coq kernel; translator shape matching; the interpreter; the tie is the impl-vs-impl harness: "
             "identical bytes, chunkings and every interleaving of <= 6 chunks through the three real front-ends, "
             "responses and datastores diffed directly, against each other and against a serial single-connection "
             "reference, comparison evaluated in Coq; framer snapshots of the other connections compared around every step."),
    "design_ref": "DESIGN.md section 8 (C17)",
}
