(* Pdu_bits_proofs.v — utilities.pack_bitstring / unpack_bitstring (modelled literally in Pdu.v)
   equal the specification's LSB-first packing with zero padding, for bit lists and byte strings
   of every length: induction over 8-bit chunks. *)
From PM.theories Require Import Base PduSpec Pdu.
Open Scope list_scope.
Open Scope Z_scope.

(* ---- unpack ------------------------------------------------------------------------- *)

Lemma land1_testbit0 a : (N.land a 1 =? 1)%N = N.testbit a 0.
Proof.
  rewrite N.bit0_eqb. change 1%N with (N.ones 1) at 1. rewrite N.land_ones. reflexivity.
Qed.

Lemma byte_bits_loop_8 v : byte_bits_loop 8 v = byte_bits v.
Proof.
  unfold byte_bits. cbn [byte_bits_loop].
  rewrite !N.shiftr_shiftr. rewrite !land1_testbit0.
  rewrite !N.shiftr_spec'. reflexivity.
Qed.

Theorem py_unpack_spec bs : py_unpack_bitstring bs = spec_unpack_bits bs.
Proof.
  unfold py_unpack_bitstring, spec_unpack_bits.
  induction bs as [|b t IH]; [reflexivity|].
  cbn [flat_map]. rewrite IH, byte_bits_loop_8. reflexivity.
Qed.

(* ---- pack --------------------------------------------------------------------------- *)

Definition fin (st : bytes * N * N) : bytes :=
  let '(ret, i, packed) := st in
  if ((0 <? i) && (i <? 8))%N then ret ++ [N.shiftr packed (7 - i)] else ret.

Lemma py_pack_bitstring_fin bits : py_pack_bitstring bits = fin (py_pack_loop bits [] 0%N 0%N).
Proof. reflexivity. Qed.

Ltac all_bools := repeat match goal with b : bool |- _ => destruct b end.

(* eight loop iterations emit exactly the byte the specification assigns to the group *)
Lemma chunk8 b0 b1 b2 b3 b4 b5 b6 b7 t ret :
  py_pack_loop (b0 :: b1 :: b2 :: b3 :: b4 :: b5 :: b6 :: b7 :: t) ret 0%N 0%N =
  py_pack_loop t (ret ++ [bits_value [b0; b1; b2; b3; b4; b5; b6; b7]]) 0%N 0%N.
Proof. all_bools; reflexivity. Qed.

Lemma pack_loop_spec n : forall t ret, (length t <= n)%nat ->
  fin (py_pack_loop t ret 0%N 0%N) = ret ++ spec_pack_bits t.
Proof.
  induction n as [|n IH]; intros t ret Hn.
  - destruct t; [|cbn in Hn; lia]. cbn. now rewrite app_nil_r.
  - destruct t as [|b0 [|b1 [|b2 [|b3 [|b4 [|b5 [|b6 [|b7 t]]]]]]]].
    + cbn. now rewrite app_nil_r.
    + all_bools; reflexivity.
    + all_bools; reflexivity.
    + all_bools; reflexivity.
    + all_bools; reflexivity.
    + all_bools; reflexivity.
    + all_bools; reflexivity.
    + all_bools; reflexivity.
    + rewrite chunk8. rewrite IH by (cbn in Hn; lia).
      cbn [spec_pack_bits]. rewrite <- app_assoc. reflexivity.
Qed.

Theorem py_pack_spec bits : py_pack_bitstring bits = spec_pack_bits bits.
Proof.
  rewrite py_pack_bitstring_fin. rewrite (pack_loop_spec (length bits)) by lia. reflexivity.
Qed.

(* ---- facts about the specification's packing ------------------------------------------ *)

Lemma byte_bits_chunk b0 b1 b2 b3 b4 b5 b6 b7 :
  byte_bits (bits_value [b0; b1; b2; b3; b4; b5; b6; b7]) = [b0; b1; b2; b3; b4; b5; b6; b7].
Proof. all_bools; reflexivity. Qed.

(* unpacking a packed list gives the list back followed by fewer than 8 zero bits *)
Lemma unpack_pack_pad n : forall t, (length t <= n)%nat ->
  exists pad, spec_unpack_bits (spec_pack_bits t) = t ++ pad /\ (length pad < 8)%nat /\ forallb negb pad = true.
Proof.
  induction n as [|n IH]; intros t Hn.
  - destruct t; [|cbn in Hn; lia]. exists []. repeat split; cbn; lia.
  - destruct t as [|b0 [|b1 [|b2 [|b3 [|b4 [|b5 [|b6 [|b7 t]]]]]]]].
    + exists []. repeat split; cbn; lia.
    + exists (repeat false 7). all_bools; repeat split; cbn; lia.
    + exists (repeat false 6). all_bools; repeat split; cbn; lia.
    + exists (repeat false 5). all_bools; repeat split; cbn; lia.
    + exists (repeat false 4). all_bools; repeat split; cbn; lia.
    + exists (repeat false 3). all_bools; repeat split; cbn; lia.
    + exists (repeat false 2). all_bools; repeat split; cbn; lia.
    + exists (repeat false 1). all_bools; repeat split; cbn; lia.
    + destruct (IH t) as (pad & Hp & Hl & Hz); [cbn in Hn; lia|].
      exists pad. repeat split; [|exact Hl|exact Hz].
      cbn [spec_pack_bits]. unfold spec_unpack_bits in *. cbn [flat_map].
      rewrite byte_bits_chunk, Hp. reflexivity.
Qed.

Lemma bits_upto_pad_app t pad :
  (length pad < 8)%nat -> forallb negb pad = true -> bits_upto_pad t (t ++ pad) = true.
Proof.
  intros Hl Hz. induction t as [|x t IH]; cbn [bits_upto_pad app].
  - destruct pad; cbn [bits_upto_pad]; rewrite ?Hz; rewrite ?andb_true_r.
    + reflexivity.
    + apply Nat.ltb_lt. exact Hl.
  - rewrite IH. unfold beqb. rewrite Bool.eqb_reflx. reflexivity.
Qed.

Theorem unpack_pack_upto_pad t : bits_upto_pad t (spec_unpack_bits (spec_pack_bits t)) = true.
Proof.
  destruct (unpack_pack_pad (length t) t) as (pad & Hp & Hl & Hz); [lia|].
  rewrite Hp. apply bits_upto_pad_app; assumption.
Qed.

Theorem firstn_unpack_pack t : firstn (length t) (spec_unpack_bits (spec_pack_bits t)) = t.
Proof.
  destruct (unpack_pack_pad (length t) t) as (pad & Hp & _ & _); [lia|].
  rewrite Hp. rewrite firstn_app, Nat.sub_diag, firstn_all. cbn. now rewrite app_nil_r.
Qed.

(* the packed string has ceil(n/8) bytes, each below 256 *)
Lemma bits_value_lt bs : (length bs <= 8)%nat -> (bits_value bs < 256)%N.
Proof.
  intros H.
  assert (G : forall k l, (length l <= k)%nat -> (bits_value l < 2 ^ N.of_nat k)%N).
  { induction k as [|k IH]; intros l Hl.
    - destruct l; [cbn; lia|cbn in Hl; lia].
    - destruct l as [|b l]; [cbn [bits_value]; apply N.neq_0_lt_0, N.pow_nonzero; lia|].
      cbn [bits_value]. rewrite Nat2N.inj_succ, N.pow_succ_r'.
      specialize (IH l ltac:(cbn in Hl; lia)). destruct b; lia. }
  apply (G 8%nat bs H).
Qed.

Lemma spec_pack_bits_props n : forall t, (length t <= n)%nat ->
  wfb (spec_pack_bits t) = true /\ Z.of_nat (length (spec_pack_bits t)) = bit_byte_count (Z.of_nat (length t)).
Proof.
  unfold bit_byte_count.
  induction n as [|n IH]; intros t Hn.
  - destruct t; [|cbn in Hn; lia]. split; reflexivity.
  - destruct t as [|b0 [|b1 [|b2 [|b3 [|b4 [|b5 [|b6 [|b7 t]]]]]]]];
      try (split; [cbn [spec_pack_bits wfb forallb]; rewrite andb_true_r; unfold byteb; apply N.ltb_lt, bits_value_lt; cbn; lia
                  | reflexivity]).
    + split; reflexivity.
    + destruct (IH t) as (Hw & Hl); [cbn in Hn; lia|].
      cbn [spec_pack_bits]. split.
      * cbn [wfb forallb]. fold (wfb (spec_pack_bits t)). rewrite Hw, andb_true_r.
        unfold byteb. apply N.ltb_lt, bits_value_lt. cbn; lia.
      * cbn [length]. rewrite !Nat2Z.inj_succ. rewrite Hl.
        replace (Z.succ (Z.succ (Z.succ (Z.succ (Z.succ (Z.succ (Z.succ (Z.succ (Z.of_nat (length t))))))))) + 7)
          with ((Z.of_nat (length t) + 7) + 1 * 8) by lia.
        rewrite Z.div_add by lia. lia.
Qed.

Theorem spec_pack_bits_wfb t : wfb (spec_pack_bits t) = true.
Proof. apply (spec_pack_bits_props (length t)); lia. Qed.

Theorem spec_pack_bits_length t :
  Z.of_nat (length (spec_pack_bits t)) = bit_byte_count (Z.of_nat (length t)).
Proof. apply (spec_pack_bits_props (length t)); lia. Qed.
