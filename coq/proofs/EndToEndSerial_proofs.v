(* EndToEndSerial_proofs.v — composition proofs for the SERIAL server path.
   Framing-independent: [stream_spec_g] (a stream of served requests with frames for units the filter
   rejects interleaved: the reference deliveries of C06 are handled exactly as the abstract server
   prescribes, the rejected frames change nothing) and [run_serial_feed] (the serial handler loop =
   FrBaseA.feed + the callback, empty reads skipped, resetFrame never triggered).
   ASCII: [ascii_pk_ok] (C01_encode_conforms + C03_build_ascii), [e2e_ascii] (C06_ascii). *)
From PM.theories Require Import Base Expr Struct FrBaseA FrTcp FrSpecA Lrc FrAscii PduCls PduSpec Pdu CorrPdu Store Exec ExecSpec ExecView Server
                                EndToEnd EndToEndSerial CorrE2E CorrE2ESerial.
From PM.Generated Require Import GenFramerA GenPdu.
From PM.Generated Require GenStore GenExec GenServer.
From PM.proofs Require Import Pdu_proofs Exec_proofs Exec_req_proofs Server_proofs
                              EndToEnd_adapt_proofs EndToEnd_spec_proofs EndToEnd_proofs.
From PM.Props Require C01 C03_tcpascii C06_tcpascii C10.
From Coq Require Import ZifyBool.
Open Scope string_scope.
Open Scope list_scope.
Open Scope Z_scope.

(* the serial front-end (threaded ModbusSingleRequestHandler) *)
Definition serial_fes : list skel := [GenServer.sync_serial].

Lemma serial_fe_ok sk : In sk serial_fes -> fe_ok sk.
Proof.
  intros [<-|[]]. split; [|reflexivity]. cbv [all_fes GenServer.frontends map snd]. cbn [In]. tauto.
Qed.

(* ================================================================== streams with rejected frames *)
(* an item of the stream: a request to a served unit whose PDU consists of bytes, or any well-formed
   frame that the framer's unit filter rejects (a frame for somebody else on the bus) *)
Definition item_ok (k : kind) (sk : skel) (cfg : scfg) (hosted : list Z) (fc : FrBaseA.cfg) (q : e2e_req) : Prop :=
  (req_ok sk cfg hosted q /\ wfb (sreq_pdu (q_body q)) = true) \/
  (frame_wf k (frame_of q) /\ spec_accepts k fc (q_uid q) = false).

Lemma zmem_false_notin k l : FrBaseA.zmem k l = false -> ~ In k l.
Proof. intros H Hin. rewrite (zmem_in k l Hin) in H. discriminate. Qed.

Lemma su_get_notin su k : ~ In k (map fst su) -> su_get su k = None.
Proof.
  induction su as [|[u s] t IH]; cbn [su_get map fst In]; [reflexivity|]. intros H.
  destruct (u =? k) eqn:E; [exfalso; apply H; left; lia|]. apply IH. tauto.
Qed.

Lemma rejected_not_hosted k sk cfg l uid :
  spec_accepts k (framer_cfg sk cfg l) uid = false ->
  ~ In (spec_key (cf_single cfg) uid) (u_keys slavectx l).
Proof.
  unfold spec_accepts, FrSpecA.spec_single, framer_cfg, unit_cfg. cbn [c_single c_units]. intros H.
  apply orb_false_elim in H as [H Hu]. apply orb_false_elim in H as [H _]. apply orb_false_elim in H as [Hs _].
  rewrite Hs. cbn [spec_key]. apply zmem_false_notin in Hu. intros Hin. apply Hu.
  unfold unit_list. destruct (ceval _ _); [apply in_or_app; left|]; exact Hin.
Qed.

Section Stream.
Variable k : kind.
Variable pk : packer.
Variable adu : adu_fn.
Hypothesis Hpk : pk_ok pk adu (fun q => spec_delivery k (frame_of q)).
Variable sk : skel.
Variable cfg : scfg.
Hypothesis Hsk : fe_ok sk.

Lemma served_accepted_k l uid : served sk cfg (u_keys slavectx l) uid -> k <> KTls ->
  spec_accepts k (framer_cfg sk cfg l) uid = true.
Proof.
  intros [_ Hin] Hk. unfold spec_accepts, FrSpecA.spec_single, framer_cfg, unit_cfg. cbn [c_single c_units].
  destruct (cf_single cfg) eqn:Es; [reflexivity|]. cbn [spec_key] in Hin. cbn [orb].
  assert (Hz : FrBaseA.zmem uid (unit_list sk cfg (u_keys slavectx l)) = true).
  { apply zmem_in. unfold unit_list. destruct (ceval _ _); [apply in_or_app; left|]; exact Hin. }
  rewrite Hz. now rewrite !orb_true_r.
Qed.

Theorem stream_spec_g qs : k <> KTls -> forall l su l0,
  u_keys slavectx l = u_keys slavectx l0 ->
  units_rel l su -> Forall (item_ok k sk cfg (u_keys slavectx l0) (framer_cfg sk cfg l0)) qs ->
  exists l', handle_all pk sk cfg l (ref_deliveries k (framer_cfg sk cfg l0) (map frame_of qs))
               = (l', snd (spec_run_g adu (cf_single cfg) su qs), None) /\
             units_rel l' (fst (spec_run_g adu (cf_single cfg) su qs)) /\ u_keys slavectx l' = u_keys slavectx l0.
Proof.
  intros Hk. induction qs as [|q t IH]; intros l su l0 Hkeys Hrel Hok.
  - exists l. cbn. auto.
  - inversion Hok as [|? ? Hq Ht]; subst. unfold ref_deliveries in *. cbn [map filter].
    change (f_uid (frame_of q)) with (q_uid q).
    destruct Hq as [[Hq _]|[_ Hrej]].
    + pose proof Hq as Hq'. rewrite <- Hkeys in Hq'.
      assert (Hacc : spec_accepts k (framer_cfg sk cfg l0) (q_uid q) = true).
      { apply served_accepted_k; [|exact Hk]. destruct Hq as (_ & _ & _ & _ & Hs). exact Hs. }
      rewrite Hacc. cbn [map handle_all].
      destruct (handle_one_spec_g pk adu _ sk cfg l su q Hpk Hsk Hrel Hq') as (s & s' & b & l1 & Hs & Hans & Hone & Hrel1 & Hk1).
      destruct (IH l1 _ l0 (eq_trans Hk1 Hkeys) Hrel1 Ht) as (l' & Hall & Hrel' & Hk').
      exists l'. cbn [spec_run_g]. rewrite Hone, Hall, Hs, Hans.
      destruct (spec_run_g adu (cf_single cfg) (su_set su (spec_key (cf_single cfg) (q_uid q)) s') t) as [su2 b2].
      cbn [fst snd] in *. auto.
    + rewrite Hrej.
      destruct (IH l su l0 Hkeys Hrel Ht) as (l' & Hall & Hrel' & Hk').
      exists l'. cbn [spec_run_g].
      rewrite (su_get_notin su _) by (rewrite <- (units_rel_keys l su Hrel), Hkeys; exact (rejected_not_hosted k sk cfg l0 _ Hrej)).
      auto.
Qed.
End Stream.

(* ================================================================== the serial handler loop *)
Lemma run_serial_feed {FS} (recv : FrBaseA.cfg -> FS -> bytes -> FS * list delivery * outc) pk sk cfg :
  In sk all_fes -> forall chunks st l st' ds l' b,
  Forall (fun c => c <> []) chunks ->
  feed (recv (framer_cfg sk cfg l)) st chunks = (st', ds, true) ->
  handle_all pk sk cfg l ds = (l', b, None) ->
  run_serial recv pk sk cfg st l chunks = result l' b st'.
Proof.
  intros Hsk chunks st l st' ds l' b. unfold run_serial, framer_cfg.
  apply (run_serial_feed_g (u_keys slavectx) (handle_all pk sk cfg) recv sk cfg
           (handle_all_nil pk sk cfg) (fun d1 s d2 s' b0 => handle_all_app pk sk cfg d1 s d2 s' b0)
           (fun ds0 => handle_all_keys pk sk cfg ds0 Hsk)).
Qed.

Lemma run_serial_filter {FS} (recv : FrBaseA.cfg -> FS -> bytes -> FS * list delivery * outc) pk sk cfg : forall chunks st l,
  run_serial recv pk sk cfg st l chunks = run_serial recv pk sk cfg st l (filter nonempty chunks).
Proof. intros. unfold run_serial. apply run_serial_filter_g. Qed.

(* a handler that resets the frame when the framer raises behaves like the bare framer as long as
   nothing is raised *)
Lemma feed_reset_h {FS} (recv : FS -> bytes -> FS * list delivery * outc) (reset : FS -> FS) :
  forall chunks st st' ds,
  feed recv st chunks = (st', ds, true) ->
  feed (fun s c => match recv s c with (s', d, FrBaseA.Exc e) => (reset s', d, FrBaseA.Exc e) | r => r end) st chunks = (st', ds, true).
Proof.
  induction chunks as [|c cs IH]; intros st st' ds H; [exact H|].
  cbn [feed] in *. destruct (recv st c) as [[s1 d1] o].
  destruct (feed recv s1 cs) as [[s2 d2] ok] eqn:Ef. injection H as <- <- Hflag.
  destruct o; try discriminate Hflag. subst ok. now rewrite (IH s1 s2 d2 Ef).
Qed.

(* ================================================================== ASCII *)
Lemma py_pdu_parts ro p : py_pdu ro = Ok p ->
  exists fc data, obj_fc ro = Ok fc /\ 0 <= fc < 256 /\ py_encode ro = Ok data /\ p = Z.to_N fc :: data.
Proof.
  unfold py_pdu. destruct (obj_fc ro) as [fc|e]; cbn [bind]; [|discriminate].
  unfold fc_byte. destruct ((0 <=? fc) && (fc <? 256)) eqn:E; cbn [bind]; [|discriminate].
  destruct (py_encode ro) as [data|e]; cbn [bind]; [|discriminate].
  intros H. injection H as <-. exists fc, data. repeat split; try reflexivity; lia.
Qed.

Lemma ascii_pk_ok : pk_ok packet_ascii ascii_adu (fun q => spec_delivery KAscii (frame_of q)).
Proof.
  split; [intros q; split; reflexivity|].
  intros q o ro m (_ & _ & Hu) _ Eu Ha Hc _ Hw. unfold ascii_adu, packet_ascii.
  destruct (py_pdu_parts ro _ (C01.C01_encode_conforms ro m Hc Ha)) as (fc & data & Hfc & Hr & Hd & Hp).
  rewrite Hfc, Hd. cbn [bind]. rewrite Hp in *. cbn [wfb forallb] in Hw. apply andb_true_iff in Hw as [_ Hw].
  rewrite Eu. apply C03_tcpascii.C03_build_ascii; [lia|lia|exact Hw].
Qed.

Lemma ascii_frames sk cfg l qs :
  Forall (item_ok KAscii sk cfg (u_keys slavectx l) (framer_cfg sk cfg l)) qs ->
  Forall (stream_frame KAscii e2e_dec (framer_cfg sk cfg l)) (map frame_of qs).
Proof.
  induction 1 as [|q t Hq Ht IH]; [constructor|]. cbn [map]. constructor; [|exact IH].
  destruct Hq as [[(Htid & Hpid & Huid & (w & Hbody) & Hserved) Hwfb]|[Hwf Hrej]].
  - split.
    + cbn [frame_wf]. unfold ascii_wf, frame_of. cbn [f_uid f_pdu]. pose proof (body_pdu_length _ w Hbody). repeat split; try lia; exact Hwfb.
    + intros _. unfold frame_of. cbn [f_pdu]. exact (dec_body_msg _ w Hbody).
  - split; [exact Hwf|]. intros Hacc. change (f_uid (frame_of q)) with (q_uid q) in Hacc. rewrite Hrej in Hacc. discriminate.
Qed.

Theorem e2e_ascii sk cfg l su qs chunks :
  In sk serial_fes -> units_rel l su ->
  Forall (item_ok KAscii sk cfg (u_keys slavectx l) (framer_cfg sk cfg l)) qs ->
  concat chunks = concat (map req_adu_ascii qs) ->
  exists l' st',
    ascii_server_run sk cfg l chunks = result l' (snd (spec_run_g ascii_adu (cf_single cfg) su qs)) st' /\
    units_rel l' (fst (spec_run_g ascii_adu (cf_single cfg) su qs)).
Proof.
  intros Hsk Hrel Hok Hcat. pose proof (serial_fe_ok sk Hsk) as Hfe.
  destruct (stream_spec_g KAscii packet_ascii ascii_adu ascii_pk_ok sk cfg Hfe qs ltac:(discriminate) l su l eq_refl Hrel Hok)
    as (l' & Hall & Hrel' & _).
  assert (Hcat' : concat (filter nonempty chunks) = concat (map (spec_adu KAscii) (map frame_of qs))).
  { rewrite concat_filter_nonempty, Hcat, map_map. reflexivity. }
  destruct (C06_tcpascii.C06_ascii e2e_dec (framer_cfg sk cfg l) (map frame_of qs) (filter nonempty chunks)
              (ascii_frames sk cfg l qs Hok) Hcat') as (st' & Hfeed).
  exists l', st'. split; [|exact Hrel'].
  unfold ascii_server_run. rewrite run_serial_filter.
  eapply (run_serial_feed _ packet_ascii); [exact (proj1 Hfe)|apply filter_nonempty_all| |exact Hall].
  exact (feed_reset_h (a_recv base lrc ascii e2e_dec (framer_cfg sk cfg l)) (a_reset ascii) _ _ _ _ Hfeed).
Qed.
