(* CorrClient.v — harness side of the correspondence check for the synchronous client:
   the table-driven framer instance (transitions recorded from the real framer), the case
   type, the comparison of the model's run with what the real client did, and the two
   PROPERTY oracles (C08 pairing / conformant reply; C13 bounded transmissions / result kind /
   retry options honoured / recovery).  The oracles look ONLY at what the implementation did
   and at the scripted peer behaviour — never at the model.  No proofs here. *)
From PM.theories Require Import Base Expr Client.
Open Scope list_scope.
Open Scope Z_scope.

Definition bytes_eqb (a b : bytes) : bool := list_eqb N.eqb a b.

(* ---------------------------------------------------------------- recorded framer *)

Record ftable := {
  ft_nonempty : list (Z * bool);
  ft_reset : list (Z * Z);
  ft_process : list (Z * bytes * Z * (Z * list msg * option pyexn));
  ft_build : list (Z * Z * bytes)          (* request id, transaction id, packet *)
}.

Definition stuck_state : Z := -1.

Fixpoint lk_nonempty (l : list (Z * bool)) (s : Z) : bool :=
  match l with [] => false | (k, v) :: t => if k =? s then v else lk_nonempty t s end.
Fixpoint lk_reset (l : list (Z * Z)) (s : Z) : Z :=
  match l with [] => stuck_state | (k, v) :: t => if k =? s then v else lk_reset t s end.
Fixpoint lk_process (l : list (Z * bytes * Z * (Z * list msg * option pyexn))) (s : Z) (d : bytes) (u : Z)
  : Z * list msg * option pyexn :=
  match l with
  | [] => (stuck_state, [], Some ZeroDivisionError)      (* not recorded: the model left the real run *)
  | (k, kd, ku, v) :: t => if (k =? s) && bytes_eqb kd d && (ku =? u) then v else lk_process t s d u
  end.
Fixpoint lk_build (l : list (Z * Z * bytes)) (i tid : Z) : bytes :=
  match l with [] => [] | (k, kt, v) :: t => if (k =? i) && (kt =? tid) then v else lk_build t i tid end.

Definition table_framer (T : ftable) : framer Z := {|
  f_nonempty := lk_nonempty (ft_nonempty T);
  f_reset := lk_reset (ft_reset T);
  f_build := fun rq tid => lk_build (ft_build T) (r_id rq) tid;
  f_process := lk_process (ft_process T)
|}.

(* ---------------------------------------------------------------- cases *)

Inductive beh := BFull | BExc | BNothing | BPartial | BGarbage | BWrongUnit | BStale | BLate | BOSError | BClose | BOther
| BSlow            (* the correct reply, arriving in two bursts a few tens of milliseconds apart *)
| BWrongThenOwn.   (* a complete frame of another unit, then the own exception reply, in the same burst *)

Record txn := {
  x_req : req; x_script : list tev;
  (* what the implementation did *)
  x_calls : list call; x_result : result; x_sleeps : list Z;
  x_fs_exit : Z; x_noresp_exit : list Z; x_tid_exit : Z; x_ntx_exit : Z; x_conn_exit : bool;
  (* spec side: the scripted peer *)
  x_want_tid : Z; x_behs : list beh; x_exp_full : Z; x_exp_exc : Z; x_delivered : list msg; x_refused : bool;
  x_is_error : option bool;     (* result.isError() as observed (None: the result has no isError) *)
  x_timeout : Z;                (* the client's configured timeout, in 1/64 s *)
  x_elapsed : Z;                (* virtual time the call took, in 1/64 s (rounded up) *)
  x_max_wait : Z                (* the largest timeout handed to select / a blocking read during the call, 1/64 s *)
}.

Record tcase := { k_cfg : cfg; k_table : ftable; k_tid0 : Z; k_fs0 : Z; k_txs : list txn }.

Definition opt_eqb (a b : option Z) : bool := option_eqb Z.eqb a b.

Definition result_eqb (a b : result) : bool :=
  match a, b with
  | RReply x, RReply y => msg_eqb x y
  | RErr x, RErr y => opt_eqb x y
  | RBroadcast, RBroadcast | RNone, RNone => true
  | RRaise x, RRaise y => pyexn_eqb x y
  | _, _ => false
  end.

Definition call_eqb (a b : call) : bool :=
  match a, b with
  | CConnect, CConnect => true
  | CSend x, CSend y => bytes_eqb x y
  | CRecv x, CRecv y => opt_eqb x y
  | _, _ => false
  end.

Section WithCode.
Variable C : client_code.

Definition agree_txn (T : ftable) (c : cfg) (st : cstate Z) (x : txn) : cstate Z * bool :=
  let '(st', o) := execute C Z (table_framer T) c st (x_req x) (x_script x) in
  (st',
   result_eqb (o_res o) (x_result x)
   && list_eqb call_eqb (o_calls o) (x_calls x)
   && list_eqb Z.eqb (o_sleeps o) (x_sleeps x)
   && (s_fs st' =? x_fs_exit x)
   && list_eqb Z.eqb (s_noresp st') (x_noresp_exit x)
   && (s_tid st' =? x_tid_exit x)
   && (zlen (s_tx st') =? x_ntx_exit x)
   && Bool.eqb (s_conn st') (x_conn_exit x)
   && option_eqb Bool.eqb (is_error_of C (o_res o)) (x_is_error x)).

Fixpoint agree_all (T : ftable) (c : cfg) (st : cstate Z) (xs : list txn) : bool :=
  match xs with
  | [] => true
  | x :: t => let '(st', ok) := agree_txn T c st x in ok && agree_all T c st' t
  end.

Definition agree (k : tcase) : bool :=
  agree_all (k_table k) (k_cfg k)
            (Build_cstate (k_tid0 k) [] (k_fs0 k) [] false) (k_txs k).

End WithCode.

(* ---------------------------------------------------------------- property oracles (spec side) *)

Definition n_sends (cs : list call) : Z :=
  zlen (filter (fun c => match c with CSend _ => true | _ => false end) cs).

(* the documented default of the retries option *)
Definition retries_spec (c : cfg) : Z := match c_retries_kw c with Some r => r | None => 3 end.

Definition serial_framing (fr : framing) : bool := match fr with FTcp => false | _ => true end.

(* the reply answers the request: ids match *)
Definition paired (c : cfg) (x : txn) (m : msg) : bool :=
  (if serial_framing (c_framing c) then m_uid m =? r_unit (x_req x) else m_tid m =? x_want_tid x)
  && ((m_fc m =? r_fc (x_req x)) || (m_fc m =? Z.lor (r_fc (x_req x)) 128)).

(* which answer the scripted peer behaviour entitles the caller to:
   Some true = the normal reply, Some false = the exception reply, None = not constrained *)
Fixpoint spec_answer (budget : nat) (roe roi : bool) (bs : list beh) : option bool :=
  match bs with
  | [] => Some true                              (* script exhausted: the peer is healthy *)
  | BFull :: _ => Some true
  | BSlow :: _ => Some true
  | BExc :: _ => Some false
  | BNothing :: t => if roe then match budget with S k => spec_answer k roe roi t | O => None end else None
  | BLate :: t =>
      (* the late (normal) reply of this transmission may legitimately be picked up by a later attempt *)
      if roe then match budget with
                  | S k => match spec_answer k roe roi t with Some true => Some true | _ => None end
                  | O => None end
      else None
  | BWrongUnit :: t => if roi then match budget with S k => spec_answer k roe roi t | O => None end else None
  | BWrongThenOwn :: _ => if roi then None else Some false   (* with retry_on_invalid the client may also retransmit *)
  | _ :: _ => None
  end.

Definition expected_ok (c : cfg) (x : txn) (want : option bool) : bool :=
  match want with
  | None => true
  | Some b =>
      match x_result x with
      | RReply m => (m_id m =? (if b then x_exp_full x else x_exp_exc x)) && paired c x m
      | _ => false
      end
  end.

(* what callers use to tell the three kinds of result apart: an error object and an exception response
   (function code of the request + 0x80, i.e. 129..255) answer isError() = True, a normal response False *)
Definition spec_is_error (r : result) : option bool :=
  match r with
  | RReply m => Some (129 <=? m_fc m)
  | RErr _ => Some true
  | _ => None
  end.
Definition is_error_ok (x : txn) : bool := option_eqb Bool.eqb (x_is_error x) (spec_is_error (x_result x)).

(* bounded time: no single wait is longer than the configured timeout, and the whole call takes no longer than
   (transmissions + 2) attempts of at most four timeouts each (connect/idle wait, two reads, polling) plus the backoff
   sleeps (units of backoff/2 = 0.15 s, i.e. < 10/64 s each) plus two seconds of slack for clock ticks *)
Definition time_ok (x : txn) : bool :=
  (x_max_wait x <=? x_timeout x)
  && (x_elapsed x <=? (n_sends (x_calls x) + 2) * 4 * x_timeout x + 10 * fold_right Z.add 0 (x_sleeps x) + 128).

Definition is_bcast (c : cfg) (x : txn) : bool := c_bcast c && (r_unit (x_req x) =? 0).

(* C08 on one transaction *)
Definition c08_txn (c : cfg) (x : txn) : bool :=
  is_error_ok x &&
  if is_bcast c x || x_refused x then true else
  match x_result x with
  | RReply m => paired c x m && existsb (msg_eqb m) (x_delivered x)
  | _ => true
  end
  && expected_ok c x (match x_behs x with [] => Some true | BFull :: _ => Some true | BSlow :: _ => Some true | BExc :: _ => Some false
                               | BWrongThenOwn :: _ => if c_roi c then None else Some false | _ => None end).

(* C13 on one transaction *)
Definition c13_txn (c : cfg) (x : txn) : bool :=
  is_error_ok x && time_ok x && (n_sends (x_calls x) <=? 1 + retries_spec c)
  && match x_result x with
     | RReply _ | RErr _ => true
     | RBroadcast => is_bcast c x
     | RRaise ConnectionExc => x_refused x
     | _ => false
     end
  && (if is_bcast c x || x_refused x then true
      else expected_ok c x (spec_answer (Z.to_nat (retries_spec c)) (c_roe c) (c_roi c) (x_behs x))).

Section Chk.
Variable C : client_code.
Definition chk_c08 (k : tcase) : bool * bool := (agree C k, forallb (c08_txn (k_cfg k)) (k_txs k)).
Definition chk_c13 (k : tcase) : bool * bool := (agree C k, forallb (c13_txn (k_cfg k)) (k_txs k)).
End Chk.

(* ---------------------------------------------------------------- small suites for the hand-modelled pieces *)

(* int(bs, 16) on at most two bytes: (input, Some value | None = ValueError) *)
Definition chk_int16 (k : bytes * option Z) : bool * bool :=
  (match py_int16 (fst k), snd k with
   | Ok v, Some w => v =? w
   | Raise ValueError, None => true
   | _, _ => false
   end, true).

(* ModbusTcpClient._recv deadline loop: (size, timeout, ticks, what the real loop returned).
   Times are in units of the harness clock's resolution. *)
Definition chk_tcp_recv (k : option Z * Z * list tick * bytes) : bool * bool :=
  let '(size, timeout, ticks, got) := k in
  (match tcp_recv size 0 timeout ticks with Some r => bytes_eqb r got | None => false end,
   match size with Some s => zlen got <=? Z.max s 0 | None => true end).
