(* Props/C08_e2e.v — "returned decoded with the values the server sent", END TO END for the TCP client:
   transaction model (generated retry skeleton) + concrete socket framer (FrTcp) + the client PDU decoder model
   (Pdu.py_decode_client behind the ClientDecoder.decode wrapper) versus the SPECIFICATION of the response PDU.
   For every response message m of the specification (normal response of any function code with a proved decoder —
   in particular FC 1-6, 15, 16, 22, 23 — or exception response) that is well-formed and within the protocol limits:
   if a healthy transport serves the MBAP frame spec_adu_tcp tid 0 unit (spec_pdu m), execute returns the object
   py_decode_client (spec_pdu m), whose class is the specified one and whose fields are m's (abs / msg_matches). *)
From PM.theories Require Import Base Struct PduCls PduSpec Pdu CorrPdu.
From PM.Generated Require Import GenPdu.
From PM.theories Require Import Expr FrBaseA FrTcp FrSpecA.
From PM.Generated Require Import GenFramerA GenClient.
From PM.theories Require Import Client CorrClient ClientTcp.
From PM.proofs Require Import Client_proofs ClientTcp_proofs ClientE2E_proofs.
Open Scope list_scope.
Open Scope Z_scope.

Theorem C08_e2e_tcp : forall (m : PduSpec.msg) tid c st rq rest,
  msg_is_request m = false -> spec_wf m = true -> conforming_decode m = true -> spec_limits m = true ->
  c_framing c = FTcp -> c_udp c = false -> s_tx st = [] -> c_bcast c && (r_unit rq =? 0) = false ->
  0 <= retries_given c -> 0 <= tid < 65536 -> 0 <= r_unit rq < 256 ->
  let f := {| f_tid := tid; f_pid := 0; f_uid := r_unit rq; f_pdu := spec_pdu m |} in
  exists st' o ob d,
    execute code tstate (tcp_framer pdu_dec) c st rq
      ((if s_conn st then [] else [Nothing])
         ++ attempt true (tcp_script (full_of tstate c st rq) (spec_adu KTcp f)) ++ rest) = (st', o)
    /\ o_res o = RReply {| m_tid := tid; m_uid := r_unit rq;
                           m_fc := match obj_fc ob with Ok fc => fc | Raise _ => 0 end;
                           m_id := pdu_id (spec_pdu m) |}
    /\ py_decode_client (spec_pdu m) = Ok ob
    /\ class_of ob = spec_class m /\ abs ob = Some d /\ msg_matches m d = true
    /\ s_tx st' = [] /\ s_tid st' = next_tid code (s_tid st).
Proof. exact e2e_tcp. Qed.
Print Assumptions C08_e2e_tcp.

(* the decoder premise of Props/C08_tcp.v / C13_tcp.v holds of the PDU decoder model: ClientDecoder.decode never raises *)
Theorem C08_decoder_never_raises : forall p e, pdu_dec p <> FrBaseA.DRaise e.
Proof. exact pdu_dec_total. Qed.
Print Assumptions C08_decoder_never_raises.

Example C08_e2e_nonvacuous :
  exists st' o, execute code tstate (tcp_framer pdu_dec) cfg_tcp_demo (Build_cstate 65535 [] (t_init tcp) [] false) rq_rh
      ([Nothing] ++ attempt true (tcp_script false
          (spec_adu KTcp {| f_tid := 0; f_pid := 0; f_uid := 5; f_pdu := spec_pdu (MReadHoldingRsp [7; 65535]) |})) ++ []) = (st', o)
    /\ exists r, o_res o = RReply r /\ m_tid r = 0 /\ m_uid r = 5 /\ m_fc r = 3.
Proof.
  destruct (e2e_tcp (MReadHoldingRsp [7; 65535]) 0 cfg_tcp_demo (Build_cstate 65535 [] (t_init tcp) [] false) rq_rh [])
    as (st' & o & ob & d & A & B & Cc & _); try reflexivity; try (cbn; lia).
  exists st', o. split; [exact A|]. eexists. split; [exact B|]. cbn [m_tid m_uid m_fc]. repeat split.
  vm_compute in Cc. inversion Cc; subst. reflexivity.
Qed.
Print Assumptions C08_e2e_nonvacuous.
