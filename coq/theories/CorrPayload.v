(* CorrPayload.v — harness side of the correspondence check for the payload model:
   case types, comparison of the model with what the real classes returned, and the
   PROPERTY oracle (value identity + the conventional register image), which is written
   against the spec-side definitions of Payload.v only (net_bytes / image / words16),
   never against the code-shaped model. *)
From PM.theories Require Import Base Struct Payload.
Open Scope list_scope.
Open Scope Z_scope.

Definition kind_eqb (a b : kind) : bool :=
  match a, b with
  | KU8, KU8 | KU16, KU16 | KU32, KU32 | KU64, KU64 | KI8, KI8 | KI16, KI16 | KI32, KI32 | KI64, KI64
  | KF16, KF16 | KF32, KF32 | KF64, KF64 => true
  | _, _ => false
  end.

Definition bytes_eqb : bytes -> bytes -> bool := list_eqb N.eqb.

(* A decoded NaN reaches the harness as a Python float whose payload bits cannot be read
   back without struct: every NaN pattern of a float kind is compared as the canonical
   quiet NaN (the generators never put a NaN in; NaNs only come out of a decoder that was
   handed the bytes in the wrong order). *)
Definition canon_nan (k : kind) (x : Z) : Z :=
  let '(eb, mb) := match k with KF16 => (5, 10) | KF32 => (8, 23) | KF64 => (11, 52) | _ => (0, 0) end in
  if eb =? 0 then x else
  let emax := 2 ^ eb - 1 in
  if ((x / 2 ^ mb) mod 2 ^ eb =? emax) && negb (x mod 2 ^ mb =? 0)
  then emax * 2 ^ mb + 2 ^ (mb - 1) else x.

Definition value_eqb (a b : value) : bool :=
  match a, b with
  | VNum k x, VNum k' y => kind_eqb k k' && (canon_nan k x =? canon_nan k y)
  | VBits x, VBits y => list_eqb Bool.eqb x y
  | VStr x, VStr y => bytes_eqb x y
  | _, _ => false
  end.

Definition values_eqb : list value -> list value -> bool := list_eqb value_eqb.

(* One build/decode case.  Everything after [pc_vs] is what the implementation returned:
   to_string(), to_registers(), the decode calls on BinaryPayloadDecoder(to_string()),
   on fromRegisters(to_registers()), to_coils(), and on fromCoils(to_coils()). *)
Record pcase := PC {
  pc_bo : endian; pc_wo : endian; pc_repack : bool; pc_vs : list value;
  i_bytes : res bytes;
  i_regs : res (list Z);
  i_dec_raw : res (list value);
  i_dec_regs : res (list value);
  i_coils : res (list bool);
  i_dec_coils : res (list value)
}.

Definition vals_of (r : res (list value * nat)) : res (list value) :=
  do '(v, _) <- r; Ok v.

(* ---- spec side ------------------------------------------------------------------ *)

(* what a decoder can possibly return for a bit group: whole bytes, zero padded *)
Definition canon_value (v : value) : value :=
  match v with
  | VBits b => VBits (b ++ repeat false (Nat.modulo (8 - Nat.modulo (length b) 8) 8))
  | _ => v
  end.

(* values over the full range of their types; bit lists of any length *)
Definition in_domain (v : value) : bool :=
  match v with
  | VNum k x => in_kind_range k x
  | VBits _ => true
  | VStr s => wfb s
  end.

Definition spec_len (v : value) : nat :=
  match v with
  | VNum k _ => kind_width k
  | VBits b => Nat.div (length b + 7) 8
  | VStr s => length s
  end.

(* the payload is the concatenation of the per-value images; the image of a numeric
   value of two or more bytes is the conventional one; 8-bit values, bit groups and
   strings are only required to occupy the right number of bytes here (their content is
   judged by value identity) *)
Fixpoint image_ok (bo wo : endian) (vs : list value) (b : bytes) : bool :=
  match vs with
  | [] => match b with [] => true | _ => false end
  | v :: t =>
      let n := spec_len v in
      let seg := firstn n b in
      Nat.eqb (length seg) n &&
      match v with
      | VNum k x => if Nat.leb 2 (kind_width k) then bytes_eqb seg (image bo wo (net_bytes k x)) else true
      | _ => true
      end && image_ok bo wo t (skipn n b)
  end.

(* registers = big-endian 16-bit words of the payload, one zero byte appended if odd *)
Definition spec_regs (b : bytes) : list Z :=
  let b' := if Nat.odd (length b) then b ++ [0%N] else b in
  map (fun w => match w with [hi; lo] => rd_be16 hi lo | _ => 0 end) (words16 b').

Definition prop_payload (c : pcase) : bool :=
  if forallb in_domain (pc_vs c) && negb (pc_repack c) then
    let want := Ok (map canon_value (pc_vs c)) in
    match i_bytes c with
    | Ok b =>
        image_ok (pc_bo c) (pc_wo c) (pc_vs c) b &&
        res_eqb (list_eqb Z.eqb) (i_regs c) (Ok (spec_regs b))
    | Raise _ => false
    end &&
    res_eqb values_eqb (i_dec_raw c) want &&
    res_eqb values_eqb (i_dec_regs c) want
  else true.

(* ---- model side ----------------------------------------------------------------- *)

Section WithCode.
Variable C : payload_code.

Definition m_bytes (c : pcase) := to_string C (pc_bo c) (pc_wo c) (pc_vs c).
Definition m_regs (c : pcase) := do s <- m_bytes c; to_registers C (pc_bo c) (pc_repack c) s.
Definition m_dec_raw (c : pcase) :=
  do s <- m_bytes c; vals_of (decode_seq C (pc_bo c) (pc_wo c) (types (pc_vs c)) s).
Definition m_dec_regs (c : pcase) :=
  do r <- m_regs c; do p <- from_registers C r;
  vals_of (decode_seq C (pc_bo c) (pc_wo c) (types (pc_vs c)) p).
Definition m_coils (c : pcase) := do r <- m_regs c; Ok (to_coils C r).
Definition m_dec_coils (c : pcase) :=
  do cs <- m_coils c; do p <- from_coils C cs;
  vals_of (decode_seq C (pc_bo c) (from_coils_wordorder C (pc_wo c)) (types (pc_vs c)) p).

Definition agree_payload (c : pcase) : bool :=
  res_eqb bytes_eqb (m_bytes c) (i_bytes c) &&
  res_eqb (list_eqb Z.eqb) (m_regs c) (i_regs c) &&
  res_eqb values_eqb (m_dec_raw c) (i_dec_raw c) &&
  res_eqb values_eqb (m_dec_regs c) (i_dec_regs c) &&
  res_eqb (list_eqb Bool.eqb) (m_coils c) (i_coils c) &&
  res_eqb values_eqb (m_dec_coils c) (i_dec_coils c).

Definition chk_payload (c : pcase) : bool * bool := (agree_payload c, prop_payload c).

(* Decoder alone on arbitrary bytes (runs past the end, wrong widths): model agreement
   only; the property does not constrain these. *)
Record dcase := DC {
  dc_bo : endian; dc_wo : endian; dc_tys : list ty; dc_payload : bytes;
  dc_result : res (list value)
}.

Definition chk_decode (c : dcase) : bool * bool :=
  (res_eqb values_eqb (vals_of (decode_seq C (dc_bo c) (dc_wo c) (dc_tys c) (dc_payload c))) (dc_result c), true).

End WithCode.

(* printing helper for the harness: bytes written as a Z list *)
Definition bz (l : list Z) : bytes := map Z.to_N l.
