(* AsyncClient.v — C16: the Twisted ModbusClientProtocol with its transaction manager.
   Executable model, NO proofs (see proofs/Async_proofs.v).

   Deferreds are identified by the ALLOCATION INDEX of the tid that was taken for them
   (1 for the first getNextTID() of the connection, 2 for the second, ...; [Skip n] stands for
   n further allocations by transactions that are not part of the history).  The generated
   part (Generated/GenAsync.v: counter arithmetic, which guard/loop each method has, which
   exception it uses) enters as the record [async_code]. *)
From PM.theories Require Import Base.
Open Scope list_scope.
Open Scope N_scope.

Inductive variant := VDict | VFifo.      (* socket framer -> dict keyed by tid; else FIFO *)

Record async_code := {
  ac_tid_init : N;                (* Defaults.TransactionId *)
  ac_tid_inc : N;                 (* getNextTID: self.tid + 1 *)
  ac_tid_mask : N;                (*             & 0xffff *)
  ac_init_connected : bool;       (* __init__: self._connected = False *)
  ac_made_connected : bool;       (* connectionMade: self._connected = True *)
  ac_build_guard : bool;          (* _buildResponse: if not self._connected: return defer.fail(...) *)
  ac_build_exn : pyexn;           (*   ... ConnectionException *)
  ac_handle_by_reply_tid : bool;  (* _handleResponse: getTransaction(reply.transaction_id) *)
  ac_lost_clears : bool;          (* connectionLost: self._connected = False *)
  ac_lost_clear_first : bool;     (*   ... BEFORE the errback loop *)
  ac_lost_loop : bool;            (* connectionLost: for tid in list(self.transaction): ...errback *)
  ac_lost_exn : pyexn;            (*   ... ConnectionException *)
  ac_close_clears : bool;         (* close(): self._connected = False *)
  ac_unit_default : N;            (* dataReceived: decode_data(data).get("unit", 0) *)
  ac_unit_wild : list N;          (* _validate_unit_id: the wildcard unit ids 0 and 0xFF ... *)
  ac_unit_wild_on_frame : bool }. (* ... tested on the EXPECTED units (false) or on the frame's own id (true) *)

Inductive outcome := OCb (tid rid : N) | OErr (e : pyexn).

Definition outcome_eqb (a b : outcome) : bool :=
  match a, b with
  | OCb t r, OCb t' r' => N.eqb t t' && N.eqb r r'
  | OErr e, OErr e' => pyexn_eqb e e'
  | _, _ => false
  end.

Record astate := {
  a_tid : N;                        (* transaction.tid: the last tid handed out *)
  a_alloc : N;                      (* ghost: how many tids have been handed out *)
  a_pending : list (N * N);         (* transactions: (tid it was filed under, deferred) in insertion order *)
  a_conn : bool;                    (* _connected *)
  a_fired : list (N * outcome);     (* (deferred, how it fired), oldest first *)
  a_sent : list (N * N);            (* (deferred, tid written to the transport), oldest first *)
  a_lost : list N;                  (* ghost: deferreds whose table slot was overwritten *)
  a_rerr : list N;                  (* deferreds whose ERRBACK calls protocol.execute again *)
  a_rcb : list N }.                 (* deferreds whose CALLBACK calls protocol.execute again *)

Inductive aop :=
| Execute                              (* protocol.execute(request) *)
| ExecuteE                             (* the same; the caller's errback re-issues a (plain) request *)
| ExecuteC                             (* the same; the caller's callback re-issues a (plain) request *)
| Segment (frames : list (N * N * N))  (* dataReceived(one segment of whole frames: unit, tid, reply id) *)
| Lost                                 (* connectionLost *)
| Made                                 (* connectionMade *)
| Close                                (* protocol.close(): the user closes the client *)
| Skip (n : N).                        (* n x getNextTID() by transactions outside the history *)

Definition Reply (tid rid : N) : aop := Segment [(1, tid, rid)].

(* ---- the two transaction managers --------------------------------------------------------- *)

(* self.transactions[tid] = d : in place when the key exists (returns the displaced deferred) *)
Fixpoint dset (p : list (N * N)) (k d : N) : list (N * N) * option N :=
  match p with
  | [] => ([(k, d)], None)
  | (k', d') :: r => if N.eqb k' k then ((k, d) :: r, Some d')
                     else let '(r', o) := dset r k d in ((k', d') :: r', o)
  end.

(* self.transactions.pop(tid, None) *)
Fixpoint dpop (p : list (N * N)) (k : N) : option (N * list (N * N)) :=
  match p with
  | [] => None
  | (k', d') :: r => if N.eqb k' k then Some (d', r)
                     else match dpop r k with Some (d, r') => Some (d, (k', d') :: r') | None => None end
  end.

Definition add_tx (v : variant) (p : list (N * N)) (k d : N) : list (N * N) * option N :=
  match v with VDict => dset p k d | VFifo => (p ++ [(k, d)], None) end.

Definition get_tx (v : variant) (p : list (N * N)) (k : N) : option (N * list (N * N)) :=
  match v with
  | VDict => dpop p k
  | VFifo => match p with (_, d) :: r => Some (d, r) | [] => None end
  end.

Definition memN (d : N) (l : list N) : bool := existsb (N.eqb d) l.

Section WithCode.
Variable C : async_code.

Definition next_tid (t : N) : N := N.land (t + ac_tid_inc C) (ac_tid_mask C).

Definition init_state : astate :=
  {| a_tid := ac_tid_init C; a_alloc := 0; a_pending := []; a_conn := ac_init_connected C;
     a_fired := []; a_sent := []; a_lost := []; a_rerr := []; a_rcb := [] |}.

Definition set_conn (σ : astate) (b : bool) : astate :=
  {| a_tid := a_tid σ; a_alloc := a_alloc σ; a_pending := a_pending σ; a_conn := b; a_fired := a_fired σ;
     a_sent := a_sent σ; a_lost := a_lost σ; a_rerr := a_rerr σ; a_rcb := a_rcb σ |}.

Definition register (σ : astate) (d : N) (re rc : bool) : astate :=
  {| a_tid := a_tid σ; a_alloc := a_alloc σ; a_pending := a_pending σ; a_conn := a_conn σ; a_fired := a_fired σ;
     a_sent := a_sent σ; a_lost := a_lost σ;
     a_rerr := if re then a_rerr σ ++ [d] else a_rerr σ;
     a_rcb := if rc then a_rcb σ ++ [d] else a_rcb σ |}.

(* pending entry removed, its deferred fired *)
Definition move_fired (σ : astate) (p' : list (N * N)) (d : N) (o : outcome) : astate :=
  {| a_tid := a_tid σ; a_alloc := a_alloc σ; a_pending := p'; a_conn := a_conn σ;
     a_fired := a_fired σ ++ [(d, o)]; a_sent := a_sent σ; a_lost := a_lost σ;
     a_rerr := a_rerr σ; a_rcb := a_rcb σ |}.

(* execute() while not connected: tid taken and written, the deferred fails at once *)
Definition issue_failed (σ : astate) : astate :=
  let t := next_tid (a_tid σ) in
  let d := a_alloc σ + 1 in
  {| a_tid := t; a_alloc := d; a_pending := a_pending σ; a_conn := a_conn σ;
     a_fired := a_fired σ ++ [(d, OErr (ac_build_exn C))];
     a_sent := a_sent σ ++ [(d, t)]; a_lost := a_lost σ; a_rerr := a_rerr σ; a_rcb := a_rcb σ |}.

(* execute() while connected: tid taken and written, the deferred filed under it *)
Definition issue_pending (v : variant) (σ : astate) : astate :=
  let t := next_tid (a_tid σ) in
  let d := a_alloc σ + 1 in
  let '(p', o) := add_tx v (a_pending σ) t d in
  {| a_tid := t; a_alloc := d; a_pending := p'; a_conn := a_conn σ; a_fired := a_fired σ;
     a_sent := a_sent σ ++ [(d, t)];
     a_lost := match o with Some x => a_lost σ ++ [x] | None => a_lost σ end;
     a_rerr := a_rerr σ; a_rcb := a_rcb σ |}.

Definition guard_fails (σ : astate) : bool := ac_build_guard C && negb (a_conn σ).

(* a plain execute(): the caller's callback/errback do not touch the protocol *)
Definition do_execute (v : variant) (σ : astate) : astate :=
  if guard_fails σ then issue_failed σ else issue_pending v σ.


(* the user code attached to deferred d runs after it fired with outcome o *)
Definition react (v : variant) (σ : astate) (d : N) (o : outcome) : astate :=
  if match o with OErr _ => memN d (a_rerr σ) | OCb _ _ => memN d (a_rcb σ) end
  then do_execute v σ else σ.

(* execute() by a caller whose errback (re) / callback (rc) re-issues a plain request *)
Definition do_execute_k (v : variant) (σ : astate) (re rc : bool) : astate :=
  let d := a_alloc σ + 1 in
  let σ1 := register σ d re rc in
  if guard_fails σ1 then react v (issue_failed σ1) d (OErr (ac_build_exn C)) else issue_pending v σ1.

(* _handleResponse for one decoded frame *)
Definition handle (v : variant) (σ : astate) (tid rid : N) : astate :=
  match get_tx v (a_pending σ) (if ac_handle_by_reply_tid C then tid else 0) with
  | Some (d, p') => react v (move_fired σ p' d (OCb tid rid)) d (OCb tid rid)
  | None => σ
  end.

(* framer._validate_unit_id(units=[u0], single=False) on a frame for unit u: u0 is the unit the
   Twisted client took from the first frame of the segment *)
Definition unit_ok (u0 u : N) : bool :=
  existsb (N.eqb (if ac_unit_wild_on_frame C then u else u0)) (ac_unit_wild C) || N.eqb u u0.

(* processIncomingPacket over the whole frames of one segment: a frame for another unit than
   the first frame's is skipped (advanceFrame), the frames behind it are still processed *)
Fixpoint seg_loop (v : variant) (u0 : N) (frames : list (N * N * N)) (σ : astate) : astate :=
  match frames with
  | [] => σ
  | (u, tid, rid) :: r => seg_loop v u0 r (if unit_ok u0 u then handle v σ tid rid else σ)
  end.

Definition do_segment (v : variant) (σ : astate) (frames : list (N * N * N)) : astate :=
  let u0 := match frames with (u, _, _) :: _ => u | [] => ac_unit_default C end in
  seg_loop v u0 frames σ.

(* for tid in list(self.transaction): self.transaction.getTransaction(tid).errback(...) *)
Fixpoint lost_loop (v : variant) (keys : list N) (σ : astate) : astate :=
  match keys with
  | [] => σ
  | k :: r => match get_tx v (a_pending σ) k with
              | Some (d, p') => lost_loop v r (react v (move_fired σ p' d (OErr (ac_lost_exn C))) d (OErr (ac_lost_exn C)))
              | None => σ            (* None.errback: AttributeError escapes, loop abandoned *)
              end
  end.

Definition do_lost (v : variant) (σ : astate) : astate :=
  let σ0 := if ac_lost_clears C && ac_lost_clear_first C then set_conn σ false else σ in
  let σ1 := if ac_lost_loop C then lost_loop v (map fst (a_pending σ0)) σ0 else σ0 in
  if ac_lost_clears C && negb (ac_lost_clear_first C) then set_conn σ1 false else σ1.

Definition do_made (σ : astate) : astate := if ac_made_connected C then set_conn σ true else σ.

Definition do_close (σ : astate) : astate := if ac_close_clears C then set_conn σ false else σ.

Definition do_skip (σ : astate) (n : N) : astate :=
  {| a_tid := N.iter n next_tid (a_tid σ); a_alloc := a_alloc σ + n; a_pending := a_pending σ;
     a_conn := a_conn σ; a_fired := a_fired σ; a_sent := a_sent σ; a_lost := a_lost σ;
     a_rerr := a_rerr σ; a_rcb := a_rcb σ |}.

Definition astep (v : variant) (σ : astate) (o : aop) : astate :=
  match o with
  | Execute => do_execute v σ
  | ExecuteE => do_execute_k v σ true false
  | ExecuteC => do_execute_k v σ false true
  | Segment fr => do_segment v σ fr
  | Lost => do_lost v σ
  | Made => do_made σ
  | Close => do_close σ
  | Skip n => do_skip σ n
  end.

Definition arun (v : variant) (ops : list aop) (σ : astate) : astate := fold_left (astep v) ops σ.

(* the window hypothesis, checked along a history: when a tid is taken for a new request, fewer
   than 65536 tids have been handed out since every still-registered request was issued *)
Definition exec_safe (σ : astate) : bool :=
  forallb (fun p => (a_alloc σ + 1 - snd p <? 65536)) (a_pending σ).

Fixpoint safe_run (v : variant) (ops : list aop) (σ : astate) : bool :=
  match ops with
  | [] => true
  | o :: r => (match o with Execute => exec_safe σ | _ => true end) && safe_run v r (astep v σ o)
  end.

(* histories whose callbacks / errbacks never call back into the protocol *)
Definition plain (ops : list aop) : bool :=
  forallb (fun o => match o with ExecuteE | ExecuteC => false | _ => true end) ops.

End WithCode.

(* ---- observations ------------------------------------------------------------------------- *)

Definition pending_dids (σ : astate) : list N := map snd (a_pending σ).
Definition fired_dids (σ : astate) : list N := map fst (a_fired σ).
Definition issued (σ : astate) : list N := map fst (a_sent σ).
(* registered and never fired: still in the table, or pushed out of it *)
Definition outstanding (σ : astate) : list N := pending_dids σ ++ a_lost σ.

Fixpoint sent_tid (sent : list (N * N)) (d : N) : option N :=
  match sent with
  | [] => None
  | (d', t) :: r => if N.eqb d' d then Some t else sent_tid r d
  end.

(* what the translator must find in the unmodified source *)
Definition good_code (C : async_code) : Prop :=
  ac_tid_inc C = 1 /\ ac_tid_mask C = 65535 /\ ac_tid_init C < 65536 /\
  ac_init_connected C = false /\ ac_made_connected C = true /\
  ac_build_guard C = true /\ ac_build_exn C = ConnectionExc /\ ac_handle_by_reply_tid C = true /\
  ac_lost_clears C = true /\ ac_lost_loop C = true /\ ac_lost_exn C = ConnectionExc /\
  ac_lost_clear_first C = true /\ ac_unit_wild C = [0; 255] /\ ac_unit_wild_on_frame C = false /\
  ac_close_clears C = true /\ ac_unit_default C = 0.
