(* ClientTcp_proofs.v — the abstract framer hypotheses of proofs/Client_proofs.v discharged for the concrete
   socket-framer model (ClientTcp.tcp_framer), from the lemmas of proofs/FrA_tcp_proofs.v / FrA_tcp_gate_proofs.v. *)
From Coq Require Import ZifyBool.
From PM.theories Require Import Base Expr Struct FrBaseA FrTcp FrSpecA.
From PM.Generated Require Import GenFramerA GenClient.
From PM.proofs Require Import Struct_proofs FrA_stream_proofs FrA_tcp_proofs FrA_tcp_gate_proofs.
From PM.theories Require Import Client CorrClient ClientTcp.
From PM.proofs Require Import Client_proofs.
Open Scope list_scope.
Open Scope Z_scope.

Section Tcp.
Variable dec : bytes -> dres.
(* ClientDecoder.decode catches every exception and returns None (shape-checked by gen/gen_client.py) *)
Hypothesis dec_total : forall p e, dec p <> DRaise e.

Notation loop := (t_loop base tcp dec).

Lemma advance_shorter st1 : 2 <= h_len (t_hdr st1) -> (7 < length (t_buf st1))%nat ->
  (length (t_buf (t_advance tcp st1)) < length (t_buf st1))%nat.
Proof.
  intros Hl Hb. rewrite advance_eq. cbn [t_buf]. rewrite pyfrom_nonneg by lia. rewrite skipn_length. lia.
Qed.

(* the fuel S(|buffer|) is never exhausted, the only exception is ModbusIOException, the buffer never grows *)
Lemma tcp_loop_facts units single : forall fuel st st' ds o,
  (length (t_buf st) < fuel)%nat -> loop fuel units single st = (st', ds, o) ->
  o <> OutOfFuel /\ (forall e, o = Exc e -> e = ModbusIOExc) /\ (length (t_buf st') <= length (t_buf st))%nat.
Proof.
  induction fuel as [|f IH]; intros st st' ds o Hf H; [lia|].
  cbn [t_loop] in H. rewrite ready_eq in H.
  destruct (Z.of_nat (length (t_buf st)) >? 7) eqn:Hr.
  2:{ inversion H; subst. repeat split; try discriminate; lia. }
  rewrite check_ready in H by lia. cbv zeta in H.
  remember (hdr_of (firstn 7 (t_buf st))) as h eqn:Hh.
  destruct (h_len h <? 2) eqn:E2.
  - (* short length field: advanceFrame inside checkFrame, then resetFrame *)
    rewrite wait_eq in H. rewrite advance_eq in H. cbn [t_hdr h_len hdr0] in H.
    change (0 >=? 2) with false in H. rewrite reset_eq in H.
    destruct f as [|f']; [lia|]. cbn [t_loop] in H. rewrite ready_eq in H. cbn [t_buf length] in H.
    change (Z.of_nat 0 >? 7) with false in H. inversion H; subst. cbn [t_buf length].
    repeat split; try discriminate. apply Nat.le_0_l.
  - destruct (Z.of_nat (length (t_buf st)) - 7 + 1 >=? h_len h) eqn:Ec.
    + remember {| t_buf := t_buf st; t_hdr := h |} as st1 eqn:Hst1.
      assert (Hadv : (length (t_buf (t_advance tcp st1)) < length (t_buf st))%nat).
      { subst st1. apply (advance_shorter {| t_buf := t_buf st; t_hdr := h |}); cbn [t_hdr t_buf]; lia. }
      rewrite validate_spec in H.
      destruct (single || FrBaseA.zmem 0 units || FrBaseA.zmem 255 units || FrBaseA.zmem (h_uid (t_hdr st1)) units).
      * unfold t_process in H. cbv beta iota zeta in H.
        destruct (dec (t_getframe tcp st1)) as [fc| |e] eqn:Hd.
        -- cbn [andb] in H.
           destruct (loop f units single (t_advance tcp st1)) as [[s2 d2] o2] eqn:Er.
           cbn [cons_d] in H. inversion H; subst.
           apply IH in Er; [|lia]. destruct Er as (A & B & Cc). repeat split; try assumption. lia.
        -- inversion H; subst. repeat split; try discriminate; try (cbn [t_buf]; lia).
           intros e He. inversion He. reflexivity.
        -- exfalso. eapply dec_total. exact Hd.
      * apply IH in H; [|lia]. destruct H as (A & B & Cc). repeat split; try assumption. lia.
    + rewrite wait_eq in H. cbn [t_hdr] in H. replace (h_len h >=? 2) with true in H by lia.
      inversion H; subst. cbn [t_buf]. repeat split; try discriminate; lia.
Qed.

Lemma tcp_recv_facts c st data st' ds o :
  FrTcp.t_recv base tcp dec c st data = (st', ds, o) ->
  o <> OutOfFuel /\ (forall e, o = Exc e -> e = ModbusIOExc).
Proof.
  unfold FrTcp.t_recv. intro H. apply tcp_loop_facts in H; [|cbn [t_buf]; lia].
  destruct H as (A & B & _). split; assumption.
Qed.

(* ---- framer_raises_io, reset_empties for the concrete framer *)
Lemma tcp_framer_raises_io : framer_raises_io tstate (tcp_framer dec).
Proof.
  intros fs d u fs' ms e H. cbn [tcp_framer f_process] in H.
  destruct (FrTcp.t_recv base tcp dec (unit_cfg u) fs d) as [[s2 ds] o] eqn:Hr.
  apply tcp_recv_facts in Hr. destruct Hr as (A & B).
  inversion H; subst. destruct o; cbn [exc_of] in *; try discriminate.
  - inversion H3; subst. apply B. reflexivity.
  - congruence.
Qed.

Lemma tcp_reset_empties : reset_empties tstate (tcp_framer dec).
Proof. intro fs. reflexivity. Qed.

(* ---- conformant_frame: a valid spec ADU for the request's unit, processed from ANY state with an empty buffer
   (whatever the header fields left over), is delivered as exactly one message and nothing is raised *)
Lemma tcp_conformant_frame u f :
  valid_frame KTcp dec (unit_cfg u) f ->
  conformant_frame tstate (tcp_framer dec) (spec_adu KTcp f) u (msg_of dec (spec_delivery KTcp f)).
Proof.
  intros Hv fs Hne. cbn [tcp_framer f_nonempty] in Hne.
  destruct fs as [buf h]. cbn [t_buf] in Hne. destruct buf; [|discriminate].
  cbn [tcp_framer f_process]. unfold FrTcp.t_recv. cbn [t_buf t_hdr app].
  pose proof (adu_tcp_length f) as HL.
  rewrite HL. cbn [Nat.add]. rewrite <- (app_nil_r (spec_adu KTcp f)).
  rewrite loop_frame by (apply (valid_good dec (unit_cfg u)), Hv).
  cbn [t_loop]. rewrite ready_eq. cbn [t_buf length]. change (Z.of_nat 0 >? 7) with false.
  cbn [cons_d map exc_of]. eexists. reflexivity.
Qed.

(* ---- serves: the TCP transport that hands the frame to _recv: header + function code first, then the rest *)
Definition tcp_script (full : bool) (reply : bytes) : list tev :=
  if full then [Data reply] else [Data (firstn 8 reply); Data (skipn 8 reply)].

Lemma of_to_N a : 0 <= a -> Z.of_N (Z.to_N a) = a.
Proof. lia. Qed.

Lemma serves_tcp tid pid uid fcb data full :
  0 <= Z.of_nat (length data) + 2 < 65536 ->
  (128 <= Z.of_N fcb -> length data = 1%nat) ->
  serves FTcp None full (spec_adu_tcp tid pid uid (fcb :: data)) (tcp_script full (spec_adu_tcp tid pid uid (fcb :: data))).
Proof.
  intros Hlen Hexc w rest Hw. unfold tcp_script in Hw.
  unfold spec_adu_tcp in *. cbn [be16 app length] in *.
  unfold recv_model. destruct full.
  - cbn [app] in Hw. destruct (pop_script w (CRecv None) _ _ Hw) as (w1 & Hp & H1).
    unfold Client.t_recv. rewrite Hp. cbn [clip]. exists w1. split; [reflexivity|exact H1].
  - cbn [firstn skipn app] in Hw. cbn [g_min_size code].
    destruct (pop_script w (CRecv (Some 8)) _ _ Hw) as (w1 & Hp & H1).
    unfold Client.t_recv at 1. rewrite Hp. cbn [clip]. change (Z.to_nat 8) with 8%nat. cbn [firstn].
    unfold zlen at 1. cbn [length]. change (Z.of_nat 8 =? 8) with true. cbn [negb].
    unfold func_code. cbn [last]. cbn [g_err_threshold g_tcp_hsize code exception_length g_base_adu g_exc_extra].
    set (L := Z.of_nat (S (length data)) + 1) in *.
    assert (HL : nthb [Z.to_N (tid / 256 mod 256); Z.to_N (tid mod 256); Z.to_N (pid / 256 mod 256); Z.to_N (pid mod 256);
                      Z.to_N (L / 256 mod 256); Z.to_N (L mod 256); Z.to_N uid; fcb] 4 * 256 +
                 nthb [Z.to_N (tid / 256 mod 256); Z.to_N (tid mod 256); Z.to_N (pid / 256 mod 256); Z.to_N (pid mod 256);
                      Z.to_N (L / 256 mod 256); Z.to_N (L mod 256); Z.to_N uid; fcb] 5 = L).
    { unfold nthb. cbn [nth]. rewrite !of_to_N by (subst L; lia). subst L. lia. }
    destruct (Z.of_N fcb <? 128) eqn:Hfc.
    + rewrite HL.
      match goal with |- context [Client.t_recv w1 ?sz] => destruct (pop_script w1 (CRecv sz) _ _ H1) as (w2 & Hp2 & H2) end.
      unfold Client.t_recv. rewrite Hp2. cbn [clip].
      replace (Z.to_nat (7 + (L - 1) - 8)) with (length data) by (subst L; lia).
      rewrite firstn_all. exists w2. split; [reflexivity|exact H2].
    + match goal with |- context [Client.t_recv w1 ?sz] => destruct (pop_script w1 (CRecv sz) _ _ H1) as (w2 & Hp2 & H2) end.
      unfold Client.t_recv. rewrite Hp2. cbn [clip].
      change (Z.to_nat (exception_length code FTcp - 8)) with 1%nat. rewrite <- (Hexc ltac:(lia)). rewrite firstn_all.
      exists w2. split; [reflexivity|exact H2].
Qed.

(* ---- provenance: whatever the framer hands over for a read is an MBAP frame lying in that read *)
Lemma tcp_delivered_justified fs resp u fs' ms ex m :
  t_buf fs = [] -> wfb resp = true ->
  f_process (tcp_framer dec) fs resp u = (fs', ms, ex) -> In m ms ->
  exists d, m = msg_of dec d /\ tcp_justified resp d.
Proof.
  intros Hb Hw H Hin. cbn [tcp_framer f_process] in H.
  destruct (FrTcp.t_recv base tcp dec (unit_cfg u) fs resp) as [[s2 ds] o] eqn:Hr.
  inversion H; subst. apply in_map_iff in Hin. destruct Hin as (d & Hd & Hin).
  exists d. split; [symmetry; exact Hd|].
  apply tcp_recv_gate in Hr; [|rewrite Hb; reflexivity|exact Hw].
  rewrite Hb in Hr. cbn [app] in Hr. rewrite Forall_forall in Hr. apply Hr. exact Hin.
Qed.
End Tcp.

(* ------------------------------------------------------------------ hypothesis-free corollaries for the TCP client *)
Section TcpClient.
Variable dec : bytes -> dres.
Hypothesis dec_total : forall p e, dec p <> DRaise e.
Notation F := (tcp_framer dec).

Theorem no_raise_tcp c st rq sc st' o :
  c_framing c = FTcp -> s_tx st = [] -> execute code tstate F c st rq sc = (st', o) ->
  match o_res o with
  | RReply _ | RErr _ | RBroadcast => True
  | RRaise e => e = ConnectionExc /\ s_conn st' = false
  | RNone | RStuck => False
  end.
Proof.
  intros Hfr Htx H. eapply execute_no_raise; try eassumption.
  - rewrite Hfr. discriminate.
  - exact (tcp_framer_raises_io dec dec_total).
Qed.

Theorem from_this_call_tcp c st rq sc st' o m :
  s_tx st = [] -> execute code tstate F c st rq sc = (st', o) -> o_res o = RReply m ->
  exists resp d, m = msg_of dec d /\ (wfb resp = true -> tcp_justified resp d).
Proof.
  intros Htx H Hr.
  destruct (execute_from_this_call tstate F c st rq sc st' o m Htx H Hr) as (fs & resp & fs' & ms & Hfs & Hne & Hp & Hin).
  assert (Hb : t_buf fs = []).
  { destruct (f_nonempty F (s_fs st)) eqn:Hq.
    - rewrite (Hne eq_refl). reflexivity.
    - destruct Hfs as [-> | ->]; [|reflexivity]. cbn [tcp_framer f_nonempty] in Hq.
      destruct (t_buf (s_fs st)); [reflexivity|discriminate]. }
  cbn [tcp_framer f_process] in Hp.
  destruct (FrTcp.t_recv base tcp dec (unit_cfg (r_unit rq)) fs resp) as [[s2 ds] o2] eqn:Hrecv.
  inversion Hp; subst. apply in_map_iff in Hin. destruct Hin as (d & Hd & Hin).
  exists resp, d. split; [symmetry; exact Hd|]. intro Hw.
  apply tcp_recv_gate in Hrecv; [|rewrite Hb; reflexivity|exact Hw].
  rewrite Hb in Hrecv. cbn [app] in Hrecv. rewrite Forall_forall in Hrecv. apply Hrecv. exact Hin.
Qed.

Lemma decode_data_tcp tid pid uid pdu : 0 <= uid < 256 -> (1 <= length pdu)%nat ->
  exists mb, decode_data 7 FTcp (spec_adu_tcp tid pid uid pdu) = Ok mb /\ mb_unit mb = Some uid.
Proof.
  intros Hu Hp. unfold decode_data, spec_adu_tcp. cbn [be16 app].
  destruct pdu as [|b t]; [cbn in Hp; lia|].
  unfold zlen. cbn [length]. replace (Z.of_nat (S (S (S (S (S (S (S (S (length t))))))))) >? 7) with true by lia.
  eexists. split; [reflexivity|]. cbn [mb_unit]. unfold nthb. cbn [nth]. f_equal. lia.
Qed.

Theorem conformant_reply_tcp c st rq f fcb data rest :
  c_framing c = FTcp -> c_udp c = false -> s_tx st = [] -> c_bcast c && (r_unit rq =? 0) = false ->
  0 <= retries_given c ->
  f_uid f = r_unit rq -> valid_frame KTcp dec (unit_cfg (r_unit rq)) f ->
  f_pdu f = fcb :: data -> (128 <= Z.of_N fcb -> length data = 1%nat) ->
  exists st' o,
    execute code tstate F c st rq
      ((if s_conn st then [] else [Nothing])
         ++ attempt true (tcp_script (full_of tstate c st rq) (spec_adu KTcp f)) ++ rest) = (st', o)
    /\ o_res o = RReply (msg_of dec (spec_delivery KTcp f)) /\ s_tx st' = [] /\ s_tid st' = next_tid code (s_tid st).
Proof.
  intros Hfr Hudp Htx Hb Hr Hu Hv Hpdu Hexc.
  pose proof Hv as ((Ht & Hp & Huid & Hl1 & Hl2) & _ & _).
  assert (Hexp : exp_of c rq = None).
  { unfold exp_of. rewrite Hudp. unfold expected_length. rewrite Hfr. reflexivity. }
  apply (execute_empties_then_reply tstate F c st rq (spec_adu KTcp f)
           (tcp_script (full_of tstate c st rq) (spec_adu KTcp f)) rest (msg_of dec (spec_delivery KTcp f)) 0%nat);
    try assumption.
  - left; reflexivity.
  - apply tcp_adu_ne.
  - intros _. rewrite Hfr. cbn [spec_adu]. rewrite <- Hu. apply decode_data_tcp; assumption.
  - exact (tcp_reset_empties dec).
  - apply (tcp_conformant_frame dec). exact Hv.
  - rewrite Hfr, Hexp. cbn [after_empties snd spec_adu]. rewrite Hpdu.
    apply (serves_tcp dec dec_total); [|exact Hexc]. rewrite Hpdu in Hl2. cbn [length] in Hl2. lia.
Qed.
End TcpClient.

(* ------------------------------------------------------------------ the TCP client reads at most one frame per
   two-phase _recv, so processIncomingPacket never "delivers and then raises" on what it is given *)
Definition lenf (bs : bytes) : Z := h_len (hdr_of (firstn 7 bs)).
Definition tcp_bounded (bs : bytes) : Prop :=
  (8 <= length bs)%nat /\ (2 <= lenf bs -> Z.of_nat (length bs) <= 7 + lenf bs - 1 + 7).
Definition one_frame (bs : bytes) : Prop := bs = [] \/ tcp_bounded bs.

Lemma lenf_8 b0 b1 b2 b3 b4 b5 b6 b7 rest :
  lenf ([b0; b1; b2; b3; b4; b5; b6; b7] ++ rest) = Z.of_N b4 * 256 + Z.of_N b5.
Proof.
  unfold lenf, hdr_of. cbn [app firstn unpack_go fwidth skipn h_len].
  unfold unpack1, of_unsigned. cbn [fsigned andb rev app le_value]. lia.
Qed.

Lemma clip_len sz (x : bytes) n : sz = Some n -> Z.of_nat (length (clip sz x)) <= Z.max 0 n.
Proof. intros ->. cbn [clip]. rewrite firstn_length. lia. Qed.

Lemma recv_model_tcp_bounded w exp w' bs :
  recv_model code FTcp w exp false = (w', Ok bs) -> tcp_bounded bs.
Proof.
  unfold recv_model. cbn [g_min_size code].
  destruct (Client.t_recv w (Some 8)) as [w1 r1] eqn:H1. destruct r1 as [rm|e]; [|discriminate].
  destruct (negb (zlen rm =? 8)) eqn:Hz; [discriminate|].
  apply negb_false_iff, Z.eqb_eq in Hz. unfold zlen in Hz.
  destruct rm as [|b0 [|b1 [|b2 [|b3 [|b4 [|b5 [|b6 [|b7 [|b8 t]]]]]]]]]; cbn [length] in Hz; try lia.
  unfold func_code. cbn [last]. cbn [g_err_threshold g_tcp_hsize code exception_length g_base_adu g_exc_extra].
  unfold nthb. cbn [nth]. change (exception_length code FTcp) with 9.
  assert (G : forall n w2 r2, (let '(w2, r2) := Client.t_recv w1 (Some n) in
              match r2 with Raise e => (w2, Raise e) | Ok rest => (w2, Ok ([b0; b1; b2; b3; b4; b5; b6; b7] ++ rest)) end)
              = (w2, Ok r2) -> exists rest, r2 = [b0; b1; b2; b3; b4; b5; b6; b7] ++ rest /\ Z.of_nat (length rest) <= Z.max 0 n).
  { intros n w2 r2. unfold Client.t_recv. destruct (pop w1 (CRecv (Some n))) as [ev w3].
    destruct ev; intro H; inversion H; subst; eexists; (split; [reflexivity|]);
      try (cbn [length]; lia). apply (clip_len (Some n) bs0 n eq_refl). }
  destruct (Z.of_N b7 <? 128) eqn:Hfc; intro H; apply G in H; destruct H as (rest & -> & Hl);
    (split; [rewrite app_length; cbn [length]; lia|]); rewrite lenf_8; intro H2;
    rewrite app_length; cbn [length].
  all: clear - Hl H2; lia.
Qed.

Section TcpReady.
Variable dec : bytes -> dres.
Hypothesis dec_total : forall p e, dec p <> DRaise e.
Notation F := (tcp_framer dec).
Notation loopF := (t_loop base tcp dec).

Lemma loop_short units single f st : (0 < f)%nat -> (length (t_buf st) <= 7)%nat -> loopF f units single st = (st, [], Done).
Proof.
  intros Hf H. destruct f as [|f]; [lia|]. cbn [t_loop]. rewrite ready_eq.
  replace (Z.of_nat (length (t_buf st)) >? 7) with false by lia. reflexivity.
Qed.

(* Lemma A: on a read of at most one frame, a raising processIncomingPacket has delivered nothing *)
Lemma tcp_proc_clean_one_frame fs resp u fs' ms e :
  t_buf fs = [] -> one_frame resp -> f_process F fs resp u = (fs', ms, Some e) -> ms = [].
Proof.
  intros Hb Hone H. cbn [tcp_framer f_process] in H.
  destruct (FrTcp.t_recv base tcp dec (unit_cfg u) fs resp) as [[s2 ds] o] eqn:Hr.
  inversion H; subst. clear H. unfold FrTcp.t_recv in Hr. rewrite Hb in Hr. cbn [app t_buf] in Hr.
  remember {| t_buf := resp; t_hdr := t_hdr fs |} as st0 eqn:Hst0.
  assert (Hb0 : t_buf st0 = resp) by (subst st0; reflexivity).
  destruct Hone as [-> | (H8 & Hbound)].
  - subst st0. cbn in Hr. inversion Hr; subst. discriminate.
  - cbn [t_loop] in Hr. rewrite ready_eq, Hb0 in Hr.
    replace (Z.of_nat (length resp) >? 7) with true in Hr by lia.
    rewrite check_ready in Hr by (rewrite Hb0; lia). cbv zeta in Hr. rewrite Hb0 in Hr.
    remember (hdr_of (firstn 7 resp)) as h eqn:Hh.
    assert (Hlf : lenf resp = h_len h) by (subst h; reflexivity).
    destruct (h_len h <? 2) eqn:E2.
    + rewrite wait_eq in Hr. rewrite advance_eq in Hr. cbn [t_hdr h_len hdr0] in Hr. change (0 >=? 2) with false in Hr.
      rewrite reset_eq in Hr.
      rewrite loop_short in Hr by (cbn [t_buf length]; lia). inversion Hr; subst. discriminate.
    + destruct (Z.of_nat (length resp) - 7 + 1 >=? h_len h) eqn:Ec.
      * remember {| t_buf := resp; t_hdr := h |} as st1 eqn:Hst1.
        assert (Hadv : (length (t_buf (t_advance tcp st1)) <= 7)%nat).
        { subst st1. rewrite advance_eq. cbn [t_buf t_hdr]. rewrite pyfrom_nonneg by lia. rewrite skipn_length.
          specialize (Hbound ltac:(lia)). clear - Hbound Hlf E2. lia. }
        rewrite validate_spec in Hr.
        match type of Hr with context [if ?c then _ else _] => destruct c end.
        -- unfold t_process in Hr. cbv beta iota zeta in Hr.
           destruct (dec (t_getframe tcp st1)) as [fc| |e0] eqn:Hd.
           ++ cbn [andb] in Hr. rewrite loop_short in Hr by (try exact Hadv; lia). cbn [cons_d] in Hr. inversion Hr; subst. discriminate.
           ++ inversion Hr; subst. reflexivity.
           ++ exfalso. eapply dec_total. exact Hd.
        -- rewrite loop_short in Hr by (try exact Hadv; lia). inversion Hr; subst. discriminate.
      * rewrite wait_eq in Hr. cbn [t_hdr] in Hr. replace (h_len h >=? 2) with true in Hr by lia.
        inversion Hr; subst. discriminate.
Qed.
End TcpReady.

(* ------------------------------------------------------------------ the table invariant and readiness for the TCP client *)
Section TcpInv.
Variable dec : bytes -> dres.
Hypothesis dec_total : forall p e, dec p <> DRaise e.
Notation F := (tcp_framer dec).

Lemma transact_one_frame w conn rq tid exp bc w' conn' bs :
  transact code tstate F FTcp w conn rq tid exp false bc = (w', conn', Ok bs) -> one_frame bs.
Proof.
  unfold transact. destruct (t_connect w conn) as [w1 c1]. destruct (negb c1); [discriminate|].
  destruct (t_send w1 _) as [w2 rs]. destruct rs as [u|e].
  - destruct bc; [intro H; inversion H; left; reflexivity|].
    destruct (recv_model code FTcp w2 exp false) as [w3 rr] eqn:Hr. destruct rr as [b|e].
    + intro H; inversion H; subst. right. eapply recv_model_tcp_bounded. exact Hr.
    + destruct (caught code e); intro H; inversion H. left; reflexivity.
  - destruct (caught code e); intro H; inversion H. left; reflexivity.
Qed.

Lemma step_one_frame E st st' f :
  c_framing (e_cfg E) = FTcp -> l_full st = false -> step tstate F E st = (st', f) ->
  one_frame (l_resp st') /\ (f = FNext -> l_full st' = false).
Proof.
  intros Hfr Hfull. unfold step. rewrite Hfr, Hfull.
  destruct (transact code tstate F FTcp _ _ _ _ _ _ _) as [[w conn] r] eqn:Ht.
  destruct r as [bs|e].
  - apply transact_one_frame in Ht.
    pose proof (nr_update_same E (set_resp st w conn bs)) as (_ & _ & _ & D & Fu & _).
    cbn [set_resp l_resp l_full] in D, Fu.
    assert (G : forall s2 f2, retry_tail E (nr_update E (set_resp st w conn bs)) = (s2, f2) ->
              one_frame (l_resp s2) /\ (f2 = FNext -> l_full s2 = false)).
    { intros s2 f2 H2. apply retry_tail_props in H2. destruct H2 as (_ & _ & A & _ & B & _).
      rewrite A, D. split; [exact Ht|]. intro X. apply (B X). }
    destruct bs; [destruct (c_roe (e_cfg E))|destruct (c_roi (e_cfg E))]; try apply G;
      intro H; inversion H; subst; rewrite D; (split; [exact Ht|discriminate]).
  - intro H; inversion H; subst. cbn [set_resp l_resp]. split; [left; reflexivity|discriminate].
Qed.

Lemma loop_one_frame E : c_framing (e_cfg E) = FTcp ->
  forall fuel st st' fin, l_full st = false -> one_frame (l_resp st) ->
  loop code tstate F E fuel st = (st', fin) -> one_frame (l_resp st').
Proof.
  intros Hfr. induction fuel as [|k IH]; intros st st' fin Hfull Hone H; cbn [loop] in H.
  - inversion H; subst; exact Hone.
  - destruct (guard code (l_retries st)); [|inversion H; subst; exact Hone].
    rewrite body_is_step in H. destruct (step tstate F E st) as [st1 f] eqn:Hs.
    apply step_one_frame in Hs; try assumption. destruct Hs as (A & B).
    destruct f.
    + eapply IH; [apply B; reflexivity|exact A|exact H].
    + inversion H; subst; exact A.
    + inversion H; subst; exact A.
Qed.

(* the table stays empty for the TCP client, without any framer hypothesis — provided the unit is not flagged as
   not responding (then _recv reads without a size bound and a second, undecodable frame can be in the read) *)
Theorem execute_tx_tcp c st rq sc st' o :
  c_framing c = FTcp -> c_udp c = false -> zmem (r_unit rq) (s_noresp st) = false ->
  s_tx st = [] -> execute code tstate F c st rq sc = (st', o) -> s_tx st' = [].
Proof.
  intros Hfr Hudp Hnr Htx H. unfold execute in H. rewrite Htx, Hudp, Hnr in H.
  destruct (t_connect _ (s_conn st)) as [w1 conn1]. destruct (negb conn1); [inversion H; reflexivity|].
  destruct (c_bcast c && (r_unit rq =? 0)).
  { destruct (transact _ _ _ _ _ _ _ _ _ _ _) as [[w2 conn2] r]. inversion H; reflexivity. }
  destruct (loop _ _ _ _ _ _) as [l1 fin] eqn:Hl.
  apply loop_one_frame in Hl; [|exact Hfr|reflexivity|left; reflexivity].
  destruct fin; [|inversion H; reflexivity|inversion H; reflexivity].
  destruct (f_process F _ _ _) as [[fs2 ms] ex] eqn:Hp.
  rewrite add_all_nil in H.
  destruct ex as [e|].
  - assert (Hms : ms = []).
    { eapply (tcp_proc_clean_one_frame dec dec_total); [|exact Hl|exact Hp].
      destruct (f_nonempty F (s_fs st)) eqn:Hq; [reflexivity|].
      cbn [tcp_framer f_nonempty] in Hq. destruct (t_buf (s_fs st)); [reflexivity|discriminate]. }
    subst ms. destruct e; inversion H; reflexivity.
  - destruct ms as [|a t].
    + cbn [d_pop] in H. inversion H; reflexivity.
    + cbn [d_pop] in H. rewrite Z.eqb_refl in H. inversion H; reflexivity.
Qed.

(* after ANY script the TCP client returns the own reply of the next call over a healthy transport *)
Theorem ready_tcp c st rq1 faults st1 o1 rq f fcb data rest :
  c_framing c = FTcp -> c_udp c = false -> zmem (r_unit rq1) (s_noresp st) = false -> s_tx st = [] ->
  execute code tstate F c st rq1 faults = (st1, o1) ->
  c_bcast c && (r_unit rq =? 0) = false -> 0 <= retries_given c ->
  f_uid f = r_unit rq -> valid_frame KTcp dec (unit_cfg (r_unit rq)) f ->
  f_pdu f = fcb :: data -> (128 <= Z.of_N fcb -> length data = 1%nat) ->
  exists st2 o2,
    execute code tstate F c st1 rq
      ((if s_conn st1 then [] else [Nothing])
         ++ attempt true (tcp_script (full_of tstate c st1 rq) (spec_adu KTcp f)) ++ rest) = (st2, o2)
    /\ o_res o2 = RReply (msg_of dec (spec_delivery KTcp f)) /\ s_tx st2 = [] /\ s_tid st2 = next_tid code (s_tid st1).
Proof.
  intros Hfr Hudp Hnr Htx H1 Hb Hr Hu Hv Hpdu Hexc.
  pose proof (execute_tx_tcp c st rq1 faults st1 o1 Hfr Hudp Hnr Htx H1) as Htx1.
  exact (conformant_reply_tcp dec dec_total c st1 rq f fcb data rest Hfr Hudp Htx1 Hb Hr Hu Hv Hpdu Hexc).
Qed.
End TcpInv.

(* ------------------------------------------------------------------ the hypotheses are satisfiable *)
Definition demo_dec (p : bytes) : dres := match p with [] => DNone | b :: _ => DMsg (Z.of_N b) end.
Lemma demo_dec_total : forall p e, demo_dec p <> DRaise e.
Proof. intros [|b t] e; discriminate. Qed.
Definition demo_frame : frame := {| f_tid := 78; f_pid := 0; f_uid := 5; f_pdu := [3; 2; 0; 7]%N |}.
Definition cfg_tcp_demo : Client.cfg :=
  {| c_framing := FTcp; c_udp := false; c_retries_kw := Some 1; c_roe := true; c_roi := true; c_bcast := false |}.

Lemma tcp_example :
  exists st' o,
    execute code tstate (tcp_framer demo_dec) cfg_tcp_demo (Build_cstate 65535 [] (t_init tcp) [] false) rq_rh
      ([Nothing] ++ attempt true (tcp_script false (spec_adu KTcp demo_frame)) ++ []) = (st', o)
    /\ o_res o = RReply (msg_of demo_dec (spec_delivery KTcp demo_frame)) /\ s_tx st' = [] /\ s_tid st' = 0.
Proof.
  destruct (conformant_reply_tcp demo_dec demo_dec_total cfg_tcp_demo (Build_cstate 65535 [] (t_init tcp) [] false) rq_rh
              demo_frame 3%N [2; 0; 7]%N []) as (st' & o & A & B & Cc & D); try reflexivity.
  - cbn; lia.
  - repeat split; cbn; lia.
  - cbn. lia.
  - exists st', o. repeat split; assumption.
Qed.
