(* Bits.v — utilities.pack_bitstring / unpack_bitstring over their generated constants
   (Generated/GenBits.v).  Pdu.v holds the literal model (py_pack_bitstring, py_unpack_bitstring)
   that all PDU theorems use; proofs/Bits_proofs.v shows the two agree when the generated constants
   are the ones written in the source today, so a changed constant breaks the bridge. *)
From PM.theories Require Import Base.
Open Scope N_scope.

Record bitscode := {
  pb_add : N;          (* if bit: packed += 128 *)
  pb_group : N;        (* if i == 8 *)
  pb_shift : N;        (* else: packed >>= 1 *)
  pb_tail_limit : N;   (* if 0 < i < 8 *)
  pb_tail_base : N;    (* packed >>= (7 - i) *)
  ub_bits : nat;       (* for _ in range(8) *)
  ub_mask : N;         (* (value & 1) *)
  ub_eq : N;           (* == 1 *)
  ub_shift : N }.      (* value >>= 1 *)

Fixpoint pack_loop_g (C : bitscode) (bits : list bool) (ret : bytes) (i packed : N) : bytes * N * N :=
  match bits with
  | [] => (ret, i, packed)
  | b :: t =>
      let packed := if b then packed + pb_add C else packed in
      let i := i + 1 in
      if i =? pb_group C then pack_loop_g C t (ret ++ [packed]) 0 0
      else pack_loop_g C t ret i (N.shiftr packed (pb_shift C))
  end.

Definition pack_g (C : bitscode) (bits : list bool) : bytes :=
  let '(ret, i, packed) := pack_loop_g C bits [] 0 0 in
  if (0 <? i) && (i <? pb_tail_limit C) then ret ++ [N.shiftr packed (pb_tail_base C - i)] else ret.

Fixpoint byte_bits_g (C : bitscode) (n : nat) (value : N) : list bool :=
  match n with
  | O => []
  | S k => (N.land value (ub_mask C) =? ub_eq C) :: byte_bits_g C k (N.shiftr value (ub_shift C))
  end.

Definition unpack_g (C : bitscode) (s : bytes) : list bool := flat_map (byte_bits_g C (ub_bits C)) s.

Definition spec_bits_code : bitscode :=
  {| pb_add := 128; pb_group := 8; pb_shift := 1; pb_tail_limit := 8; pb_tail_base := 7;
     ub_bits := 8%nat; ub_mask := 1; ub_eq := 1; ub_shift := 1 |}.
