(* Client_proofs.v — lemmas about the client transaction model (placeholder header, filled below) *)
From PM.theories Require Import Base Expr Client.
From PM.Generated Require Import GenClient.
Open Scope list_scope.
Open Scope Z_scope.

Lemma next_tid_mod : forall t, 0 <= t -> next_tid code t = (t + 1) mod 65536.
Proof.
  intros t Ht. unfold next_tid. cbn [code g_next_tid eval env_of eval_bin String.eqb].
  cbn. change 65535 with (Z.ones 16). rewrite Z.land_ones by lia. reflexivity.
Qed.
