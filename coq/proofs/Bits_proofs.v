(* Bits_proofs.v — the generated bit-packing code is the literal model of Pdu.v, hence the
   specification's LSB-first packing with zero padding. *)
From PM.theories Require Import Base Bits PduSpec Pdu.
From PM.Generated Require Import GenBits.
From PM.proofs Require Import Pdu_bits_proofs.
Open Scope N_scope.

Lemma bits_code_is_spec : GenBits.code = spec_bits_code.
Proof. reflexivity. Qed.

Lemma pack_loop_g_literal : forall bits ret i packed,
  pack_loop_g spec_bits_code bits ret i packed = py_pack_loop bits ret i packed.
Proof.
  induction bits as [|b t IH]; intros ret i packed; [reflexivity|].
  cbn [pack_loop_g py_pack_loop pb_add pb_group pb_shift spec_bits_code].
  destruct (i + 1 =? 8); apply IH.
Qed.

Lemma pack_g_literal : forall bits, pack_g spec_bits_code bits = py_pack_bitstring bits.
Proof.
  intros bits. unfold pack_g, py_pack_bitstring. rewrite pack_loop_g_literal.
  destruct (py_pack_loop bits [] 0 0) as [[ret i] packed]. reflexivity.
Qed.

Lemma byte_bits_g_literal : forall n v, byte_bits_g spec_bits_code n v = byte_bits_loop n v.
Proof. induction n as [|n IH]; intros v; [reflexivity|]. cbn. rewrite IH. reflexivity. Qed.

Lemma unpack_g_literal : forall s, unpack_g spec_bits_code s = py_unpack_bitstring s.
Proof.
  intros s. unfold unpack_g, py_unpack_bitstring. cbn [ub_bits spec_bits_code].
  induction s as [|x t IH]; [reflexivity|]. cbn [flat_map]. rewrite byte_bits_g_literal, IH. reflexivity.
Qed.

Theorem pack_generated_is_spec : forall bits, pack_g GenBits.code bits = spec_pack_bits bits.
Proof. intros bits. rewrite bits_code_is_spec, pack_g_literal. apply py_pack_spec. Qed.

Theorem unpack_generated_is_spec : forall bs, unpack_g GenBits.code bs = spec_unpack_bits bs.
Proof. intros bs. rewrite bits_code_is_spec, unpack_g_literal. apply py_unpack_spec. Qed.
