"""Drivers for the three server front-ends (sync threaded, asyncio, Twisted), in-process.

Shared by props/c09.py and props/c10.py.  Nothing here judges anything: `run` feeds byte
chunks / datagrams to a REAL handler object and records

  * which requests the framer DELIVERED to the handler callback (tid, uid, fc, sender),
  * for each delivered request, on which unit contexts `request.execute` was called and what
    it returned (function code, should_respond, exception code, encoded body) or raised,
  * every message handed to `send` that reached `framer.buildPacket` (tid, uid, fc) together
    with the bytes written to the transport and their destination,
  * a dump of every unit's four tables before and after,
  * exceptions that escaped the front-end's entry point.
"""
import asyncio
import struct
import types
import warnings

FRONTENDS = ["sync_tcp", "sync_udp", "sync_serial", "aio_tcp", "aio_udp", "tw_tcp", "tw_udp"]
DATAGRAM = {"sync_udp", "aio_udp", "tw_udp"}
NREG = 10


def reset_mcb():
    from pymodbus.device import ModbusControlBlock
    mcb = ModbusControlBlock()
    mcb.reset()
    mcb._ModbusControlBlock__listen_only = False
    mcb._ModbusControlBlock__mode = 'ASCII'
    mcb._ModbusControlBlock__delimiter = '\r'
    mcb._ModbusControlBlock__diagnostic = [False] * 16
    try:
        mcb.clearEvents()
    except Exception:  # noqa: BLE001
        pass


# ----------------------------------------------------------------------------- stores

_RAISE_ROT = [0]


def mk_slave(kind):
    """kind: 'ok' | 'raise' (datastore raises RuntimeError) | 'noslave' (datastore raises
    NoSuchSlaveException from inside request.execute)"""
    from pymodbus.datastore import ModbusSlaveContext, ModbusSequentialDataBlock
    from pymodbus.exceptions import NoSuchSlaveException

    _RAISE_ROT[0] += 1

    class Raising(ModbusSlaveContext):
        # rotates over what a failing datastore naturally raises; all are "the datastore raised", none "no such unit"
        exc = [RuntimeError, KeyError, IndexError, ValueError, AttributeError, TypeError, OSError][_RAISE_ROT[0] % 7]

        def validate(self, fx, address, count=1):
            raise self.exc("datastore failure")

    class RaisingNoSlave(Raising):
        exc = NoSuchSlaveException

    cls = {"ok": ModbusSlaveContext, "raise": Raising, "noslave": RaisingNoSlave}[kind]
    return cls(di=ModbusSequentialDataBlock(0, [0] * NREG), co=ModbusSequentialDataBlock(0, [0] * NREG),
               hr=ModbusSequentialDataBlock(0, [0] * NREG), ir=ModbusSequentialDataBlock(0, [0] * NREG),
               zero_mode=True)


def dump(slave):
    """the four tables 'd','c','i','h' of a slave context; a sparse block dumps as sorted (address, value) pairs"""
    out = []
    for k in "dcih":
        v = slave.store[k].values
        if isinstance(v, dict):
            out.append(tuple(sorted((int(a), int(x)) for a, x in v.items())))
        else:
            out.append(tuple(int(x) for x in v))
    return tuple(out)


def mk_context(single, hosted):
    """hosted: [(uid, kind)] in dict insertion order (single: exactly one entry, uid ignored)"""
    from pymodbus.datastore import ModbusServerContext
    if single:
        s = mk_slave(hosted[0][1])
        return ModbusServerContext(slaves=s, single=True), [(0, s)]
    d = {}
    for u, kind in hosted:
        d[u] = mk_slave(kind)
    return ModbusServerContext(slaves=d, single=False), list(d.items())


# ----------------------------------------------------------------------------- frames

def crc16(data):
    crc = 0xFFFF
    for b in data:
        crc ^= b
        for _ in range(8):
            crc = (crc >> 1) ^ 0xA001 if crc & 1 else crc >> 1
    return bytes([crc & 0xFF, crc >> 8])      # low byte first on the wire


def adu(framer, tid, uid, pdu):
    if framer == "socket":
        return struct.pack(">HHHB", tid, 0, len(pdu) + 1, uid) + pdu
    if framer == "rtu":
        body = bytes([uid]) + pdu
        return body + crc16(body)
    if framer == "ascii":
        body = bytes([uid]) + pdu
        return b":" + (body + bytes([(-sum(body)) & 0xFF])).hex().upper().encode() + b"\r\n"
    if framer == "binary":
        body = bytes([uid]) + pdu
        return b"{" + body + crc16(body) + b"}"
    if framer == "tls":
        return pdu                      # no unit id, no transaction id, no check: one PDU per TLS record
    raise ValueError(framer)


def binary_clean(uid, pdu):
    """the binary framer neither un-escapes payload nor escapes uid/crc (open C03/C06 findings): the harness only sends
    frames whose bytes between the delimiters contain neither '{' nor '}'"""
    inner = adu("binary", 0, uid, pdu)[1:-1]
    return 0x7B not in inner and 0x7D not in inner


def split_adus(framer, data):
    """independent splitter for what the server wrote: -> [(tid|None, uid, fc, body)] or None if malformed"""
    out = []
    if framer == "socket":
        while data:
            if len(data) < 8:
                return None
            tid, pid, ln, uid, fc = struct.unpack(">HHHBB", data[:8])
            if pid != 0 or ln < 2 or len(data) < 6 + ln:
                return None
            out.append((tid, uid, fc, data[8:6 + ln]))
            data = data[6 + ln:]
        return out
    if framer == "rtu":   # one write == one frame for the server side
        if len(data) < 4 or crc16(data[:-2]) != data[-2:]:
            return None
        return [(None, data[0], data[1], data[2:-2])]
    if framer == "ascii":
        while data:
            end = data.find(b"\r\n")
            if not data.startswith(b":") or end < 0:
                return None
            try:
                raw = bytes.fromhex(data[1:end].decode())
            except ValueError:
                return None
            if len(raw) < 3 or (sum(raw[:-1]) + raw[-1]) & 0xFF != 0:
                return None
            out.append((None, raw[0], raw[1], raw[2:-1]))
            data = data[end + 2:]
        return out
    if framer == "binary":   # one write == one frame; the body may hold doubled delimiters (not compared)
        if len(data) < 6 or data[:1] != b"{" or data[-1:] != b"}":
            return None
        return [(None, data[1], data[2], data[3:-3])]
    if framer == "tls":      # one write == one PDU
        if len(data) < 1:
            return None
        return [(None, None, data[0], data[1:])]
    raise ValueError(framer)


def framer_class(framer):
    from pymodbus.transaction import ModbusSocketFramer, ModbusRtuFramer, ModbusAsciiFramer, ModbusBinaryFramer
    from pymodbus.framer.tls_framer import ModbusTlsFramer
    return {"socket": ModbusSocketFramer, "rtu": ModbusRtuFramer, "ascii": ModbusAsciiFramer,
            "binary": ModbusBinaryFramer, "tls": ModbusTlsFramer}[framer]


# ----------------------------------------------------------------------------- recording

class Rec:
    def __init__(self, units):
        self.units = units                     # [(uid, slavectx)]
        self.ctx_uid = {id(s): u for u, s in units}
        self.delivered = []
        self.sent = []                         # {"for": tag, tid, uid, fc, code, dest, bytes}
        self.raw = []                          # (bytes, dest) of every transport write
        self.escaped = []                      # exception class names escaping the entry point, per read
        self.cur = None
        self.cur_dest = 0
        self.closed = 0
        self.timeline = []                     # ("req", delivered-dict) | ("del", uid) | ("set", uid), in real order
        self.obj_log = {id(s): [] for _, s in units}   # per slave-context OBJECT: tags executed on it
        self.objs = list(units)                # keeps every slave context alive (ids stay unique)
        self.born = {id(s): dump(s) for _, s in units}
        self.context = None
        self.edits = []
        self.read_no = 0

    def before_read(self):
        """apply the hosted-set edits scheduled before the next read, on the LIVE server context"""
        i = self.read_no
        self.read_no += 1
        for e in self.edits:
            if e["before_read"] != i:
                continue
            if e["op"] == "del":
                del self.context[e["uid"]]
                self.timeline.append(("del", e["uid"]))
            else:
                s = mk_slave(e["kind"])
                self.objs.append((e["uid"], s))
                self.ctx_uid[id(s)] = e["uid"]
                self.obj_log[id(s)] = []
                self.born[id(s)] = dump(s)
                self.context[e["uid"]] = s
                self.timeline.append(("set", e["uid"]))

    def hook_execute(self, obj, name):
        """instance-level wrapper around handler.execute / protocol._execute"""
        real = getattr(type(obj), name)
        rec = self

        def wrapper(request, *addr):
            tag = len(rec.delivered)
            d = {"tag": tag, "tid": int(request.transaction_id), "uid": int(request.unit_id),
                 "fc": int(request.function_code), "cls": type(request).__name__,
                 "dest": rec.cur_dest, "results": [], "write": write_of(request), "escaped": None}
            rec.delivered.append(d)
            rec.timeline.append(("req", d))
            real_exec = request.execute

            def exec_wrapper(context, *a):
                u = rec.ctx_uid.get(id(context), -1)
                rec.obj_log.setdefault(id(context), []).append(tag)
                try:
                    resp = real_exec(context, *a)
                except Exception as e:  # noqa: BLE001 — observation, re-raised unchanged
                    from lib.pyx import pyexn
                    d["results"].append((u, ("raise", pyexn(e))))
                    raise
                try:
                    body = bytes(resp.encode())
                except Exception:  # noqa: BLE001
                    body = None
                d["results"].append((u, ("ok", int(resp.function_code), bool(resp.should_respond),
                                         getattr(resp, "exception_code", None) if int(resp.function_code) >= 0x80 else None,
                                         body)))
                return resp
            request.execute = exec_wrapper
            prev = rec.cur
            rec.cur = tag
            try:
                return real(obj, request, *addr)
            except Exception as e:  # noqa: BLE001 — observation, re-raised unchanged
                d["escaped"] = type(e).__name__
                raise
            finally:
                rec.cur = prev
        setattr(obj, name, wrapper)

    def hook_framer(self, framer):
        real = framer.buildPacket
        rec = self

        def build(message):
            # ids as handed over by send(): the RTU framer's buildPacket overwrites transaction_id with the unit id
            s = {"for": rec.cur, "tid": int(message.transaction_id), "uid": int(message.unit_id),
                 "fc": int(message.function_code),
                 "code": getattr(message, "exception_code", None) if int(message.function_code) >= 0x80 else None,
                 "dest": None}
            pdu = real(message)
            s["bytes"] = bytes(pdu)
            rec.sent.append(s)
            return pdu
        framer.buildPacket = build

    def wrote(self, data, dest):
        self.raw.append((bytes(data), dest))
        if self.sent and self.sent[-1]["dest"] is None and self.sent[-1]["bytes"] == bytes(data):
            self.sent[-1]["dest"] = dest


def write_of(request):
    """(table letter, address, values) for the write requests the harness uses, else None"""
    cn = type(request).__name__
    try:
        if cn == "WriteSingleRegisterRequest":
            return ("h", int(request.address), [int(request.value)])
        if cn == "WriteMultipleRegistersRequest":
            return ("h", int(request.address), [int(v) for v in request.values])
        if cn == "WriteSingleCoilRequest":
            return ("c", int(request.address), [1 if request.value else 0])
    except Exception:  # noqa: BLE001
        return None
    return None


def addr_of(i):
    return ("10.0.0.%d" % i, 1000 + i)


def idx_of(addr):
    try:
        return int(addr[1]) - 1000
    except Exception:  # noqa: BLE001
        return -1


# ----------------------------------------------------------------------------- front-ends

def _server_ns(context, framer, cfg):
    from pymodbus.factory import ServerDecoder
    return types.SimpleNamespace(context=context, framer=framer_class(framer), decoder=ServerDecoder(),
                                 threads=[], ignore_missing_slaves=cfg["ignore"],
                                 broadcast_enable=cfg["bcast"], active_connections={})


def _run_sync_stream(cls, rec, server, reads):
    h = cls.__new__(cls)

    class Sock:
        def __init__(self):
            self.chunks = list(reads)

        def recv(self, n):
            if self.chunks:
                rec.before_read()
                return self.chunks.pop(0)
            h.running = False
            return b""

        def send(self, data):
            rec.wrote(data, 0)
            return len(data)
    h.request = Sock()
    h.client_address = ("127.0.0.1", 5020)
    h.server = server
    h.setup()
    rec.hook_execute(h, "execute")
    rec.hook_framer(h.framer)
    try:
        h.handle()
    except Exception as e:  # noqa: BLE001
        rec.escaped.append(type(e).__name__)
    h.finish()


def _run_sync_udp(cls, rec, server, reads):
    class USock:
        def sendto(self, data, addr):
            rec.wrote(data, idx_of(addr))
            return len(data)
    for data, sender in reads:
        rec.before_read()
        h = cls.__new__(cls)
        h.request = (data, USock())
        h.client_address = addr_of(sender)
        h.server = server
        h.setup()
        rec.cur_dest = sender
        rec.hook_execute(h, "execute")
        rec.hook_framer(h.framer)
        try:
            h.handle()
        except Exception as e:  # noqa: BLE001
            rec.escaped.append(type(e).__name__)
        h.finish()


def _run_aio(rec, server, reads, datagram):
    from pymodbus.server import async_io as aio

    class T:
        def get_extra_info(self, k):
            return ("127.0.0.1", 5020)

        def write(self, data):
            rec.wrote(data, 0)

        def sendto(self, data, addr=None):
            rec.wrote(data, idx_of(addr))

        def close(self):
            rec.closed += 1

    async def main():
        with warnings.catch_warnings():
            warnings.simplefilter("ignore")
            h = (aio.ModbusDisconnectedRequestHandler if datagram else aio.ModbusConnectedRequestHandler)(server)
            h.connection_made(T())
        rec.hook_execute(h, "execute")
        rec.hook_framer(h.framer)
        for r in reads:
            rec.before_read()
            burst = False
            if datagram:
                data, sender = r[0], r[1]
                burst = len(r) > 2 and r[2] == "burst"     # the next datagram arrives before the handler task runs
                rec.cur_dest = sender
                h.datagram_received(data, addr_of(sender))
            else:
                if isinstance(r, tuple):          # (bytes, "burst"): the next read arrives before the handler task runs
                    burst = len(r) > 1 and r[1] == "burst"
                    r = r[0]
                h.data_received(r)
            if burst:
                continue
            for _ in range(4):
                await asyncio.sleep(0)
        alive = h.handler_task is not None and not h.handler_task.done()
        if not alive:     # the handle() coroutine must survive every request (its ladder catches everything)
            rec.escaped.append("handler-task-ended")
        h.connection_lost(None)
        await asyncio.sleep(0)
        if h.handler_task is not None and h.handler_task.done() and not h.handler_task.cancelled():
            h.handler_task.exception()      # teardown path (cancellation arm) is not part of the request path: retrieve, ignore
    asyncio.run(main())


def _run_tw_tcp(rec, context, framer, cfg, reads):
    from pymodbus.server.asynchronous import ModbusServerFactory

    class T:
        def getHost(self):
            return "host"

        def write(self, data):
            rec.wrote(data, 0)
    f = ModbusServerFactory(context, framer_class(framer), ignore_missing_slaves=cfg["ignore"])
    p = f.buildProtocol(None)
    p.transport = T()
    p.connectionMade()
    rec.hook_execute(p, "_execute")
    rec.hook_framer(p.framer)
    for r in reads:
        rec.before_read()
        try:
            p.dataReceived(r)
        except Exception as e:  # noqa: BLE001
            rec.escaped.append(type(e).__name__)


def tw_udp_protocol(rec, context, framer, cfg):
    from pymodbus.server.asynchronous import ModbusUdpProtocol

    class T:
        def write(self, data, addr=None):
            rec.wrote(data, idx_of(addr))
    p = ModbusUdpProtocol(context, framer_class(framer), ignore_missing_slaves=cfg["ignore"])
    p.transport = T()
    rec.hook_execute(p, "_execute")
    rec.hook_framer(p.framer)
    return p


def _run_tw_udp(rec, context, framer, cfg, reads, direct):
    """direct=False: through datagramReceived (the default since /repo b36db33 revived that entry point; before, it
    raised TypeError on its first log line and every suite used direct=True).
    direct=True: every frame of the datagram is decoded by the harness and handed to the REAL
    `_execute(request, addr)`, so that `_execute`/`_send` are still tied."""
    p = tw_udp_protocol(rec, context, framer, cfg)
    for data, sender in reads:
        rec.before_read()
        rec.cur_dest = sender
        if not direct:
            try:
                p.datagramReceived(data, addr_of(sender))
            except Exception as e:  # noqa: BLE001
                rec.escaped.append(type(e).__name__)
            continue
        for tid, uid, fc, body in split_adus(framer, data) or []:
            req = p.decoder.decode(bytes([fc]) + body)
            if req is None:
                continue
            req.transaction_id, req.unit_id = tid or 0, uid
            try:
                p._execute(req, addr_of(sender))
            except Exception as e:  # noqa: BLE001
                rec.escaped.append(type(e).__name__)


def run(frontend, framer, cfg, hosted, reads, direct=False, edits=None, make_context=None):
    """cfg: {"single","bcast","ignore"}; hosted: [(uid, kind)];
    reads: stream: [bytes]; datagram: [(bytes, sender_index)];
    edits: [{"before_read": i, "op": "del"|"set", "uid": u, "kind": k}] applied to the live ModbusServerContext
    (`del context[u]` / `context[u] = <new slave context>`) just before read i is handed to the front-end"""
    from pymodbus.server import sync
    reset_mcb()
    # make_context: () -> (ModbusServerContext, [(uid, slave context)]) for checks that build the datastore themselves
    context, units = make_context() if make_context else mk_context(cfg["single"], hosted)
    rec = Rec(units)
    rec.context = context
    rec.edits = list(edits or [])
    try:
        if frontend == "sync_tcp":
            _run_sync_stream(sync.ModbusConnectedRequestHandler, rec, _server_ns(context, framer, cfg), reads)
        elif frontend == "sync_serial":
            _run_sync_stream(sync.ModbusSingleRequestHandler, rec, _server_ns(context, framer, cfg), reads)
        elif frontend == "sync_udp":
            _run_sync_udp(sync.ModbusDisconnectedRequestHandler, rec, _server_ns(context, framer, cfg), reads)
        elif frontend == "aio_tcp":
            _run_aio(rec, _server_ns(context, framer, cfg), reads, False)
        elif frontend == "aio_udp":
            _run_aio(rec, _server_ns(context, framer, cfg), reads, True)
        elif frontend == "tw_tcp":
            _run_tw_tcp(rec, context, framer, cfg, reads)
        elif frontend == "tw_udp":
            _run_tw_udp(rec, context, framer, cfg, reads, direct)
        else:
            raise ValueError(frontend)
    finally:
        reset_mcb()
    rec.initial_units = list(units)
    # the hosted set NOW, through the public iteration API (dict order), not through slaves()
    rec.units = [(0, units[0][1])] if cfg["single"] else [(int(u), s) for u, s in context]
    rec.after = {u: dump(s) for u, s in rec.units}
    rec.before = {u: rec.born.get(id(s)) for u, s in rec.units}
    rec.changed = [u for u, _ in rec.units if rec.after[u] != rec.before[u]]
    rec.logs = {u: list(rec.obj_log.get(id(s), [])) for u, s in rec.units}
    return rec


# ----------------------------------------------------------------------------- case generation (shared by C09 / C10)

COMBOS = [(fe, "socket") for fe in FRONTENDS] + [("sync_serial", "rtu"), ("sync_tcp", "rtu"), ("aio_tcp", "rtu"), ("tw_tcp", "rtu"),
                                                  ("sync_serial", "ascii"), ("aio_tcp", "ascii"),
                                                  ("sync_tcp", "binary"), ("tw_tcp", "binary")]
UIDS = [0, 1, 2, 17, 247, 255]
TIDS = [0, 1, 0x1234, 65535]
HOSTED = [[1], [1, 2], [0], [0, 1], [1, 2, 247], [17], [247], [2, 1, 17], [255], [0, 247], [1, 255], [3, 2, 1, 0]]


def pdu_menu(r, framer):
    """-> (label, pdu bytes, listen_only)"""
    a = r.choice([0, 1, NREG - 1, NREG - 1, r.randrange(NREG), 50])
    v = r.choice([0, 1, 0xFFFF, r.randrange(65536)])
    k = r.random()
    if k < 0.30:
        return "w6", bytes([6]) + struct.pack(">HH", a, v), False
    if k < 0.42:
        n = r.choice([1, 2, 3])
        a2 = r.choice([0, 1, NREG - n, 50])
        vals = [r.randrange(65536) for _ in range(n)]
        return "w16", bytes([16]) + struct.pack(">HHB", a2, n, 2 * n) + b"".join(struct.pack(">H", x) for x in vals), False
    if k < 0.52:
        return "w5", bytes([5]) + struct.pack(">HH", a, r.choice([0xFF00, 0x0000])), False
    if k < 0.70:
        return "r3", bytes([3]) + struct.pack(">HH", a, r.choice([1, 2, NREG])), False
    if k < 0.76:
        return "r1", bytes([r.choice([1, 2])]) + struct.pack(">HH", a, 1), False
    if k < 0.80:
        return "r4", bytes([4]) + struct.pack(">HH", a, 1), False
    if k < 0.86:
        return "echo", bytes([8]) + struct.pack(">HH", 0, v), False
    if k < 0.93:
        return "listen", bytes([8]) + struct.pack(">HH", 4, 0), True
    if k < 0.97 or framer != "socket":
        return "slaveid", bytes([17]), False
    return "illegal", bytes([0x55, 1, 2]), False


def clean_pdu(framer, uid, make):
    """first pdu of make(0), make(1), ... acceptable for the framing (binary: no '{' '}' inside)"""
    for i in range(64):
        pdu = make(i)
        if framer != "binary" or binary_clean(uid, pdu):
            return pdu
    raise RuntimeError("no clean frame")


def edit_histories(fe, framer):
    """enumerated histories that EDIT the hosted set of the live server object between reads: at least one request is
    handled before the edit (any cache of the hosted set is warm), then broadcast and unicast requests follow.
    hosted {1,2,3}; one request per read; after every edit one harmless read lets front-ends that fetch the unit list
    before blocking in recv catch up."""
    tw = fe.startswith("tw_")
    out = []

    def w6(uid, n):
        return {"label": "w6", "uid": uid, "tid": 0x100 + n, "listen": False,
                "pdu": clean_pdu(framer, uid, lambda i: bytes([6]) + struct.pack(">HH", (n + i) % NREG, 0x0101 * (n + 1) + i)).hex()}

    def r3(uid, n):
        return {"label": "r3", "uid": uid, "tid": 0x200 + n, "listen": False,
                "pdu": clean_pdu(framer, uid, lambda i: bytes([3]) + struct.pack(">HH", i % NREG, 1)).hex()}

    H = {
        "delete": ([w6(1, 0), r3(3, 1), w6(0, 2), w6(3, 3), r3(2, 4), w6(1, 5)],
                   [{"before_read": 1, "op": "del", "uid": 2, "kind": "ok"}]),
        "add": ([w6(1, 0), r3(1, 1), w6(5, 2), w6(0, 3), r3(5, 4), w6(3, 5)],
                [{"before_read": 1, "op": "set", "uid": 5, "kind": "ok"}]),
        "reregister": ([w6(2, 0), r3(1, 1), r3(2, 2), r3(3, 3), w6(2, 4), w6(0, 5), w6(3, 6)],
                       [{"before_read": 1, "op": "del", "uid": 2, "kind": "ok"},
                        {"before_read": 3, "op": "set", "uid": 2, "kind": "ok"}]),
        "replace": ([w6(2, 0), r3(1, 1), r3(2, 2), w6(0, 3), w6(2, 4)],
                    [{"before_read": 1, "op": "set", "uid": 2, "kind": "ok"}]),
        "delete-first-add-last": ([w6(0, 0), r3(2, 1), w6(0, 2), w6(1, 3), r3(7, 4), w6(7, 5), w6(0, 6)],
                                  [{"before_read": 1, "op": "del", "uid": 1, "kind": "ok"},
                                   {"before_read": 4, "op": "set", "uid": 7, "kind": "ok"}]),
    }
    for name, (reqs, edits) in H.items():
        for bcast in ((False,) if tw else (True, False)):
            for ignore in (False, True):
                out.append({"fe": fe, "framer": framer, "cfg": {"single": False, "bcast": bcast, "ignore": ignore},
                            "hosted": [[1, "ok"], [2, "ok"], [3, "ok"]], "reqs": [dict(q) for q in reqs],
                            "groups": [[i] for i in range(len(reqs))], "mode": "edit:" + name,
                            "direct": False, "edits": [dict(e) for e in edits]})
    return out


def add_random_edits(r, sc):
    """turn a multi-unit scenario into a history with 1-3 hosted-set edits between reads (never before the first read)"""
    n = len(sc["reqs"])
    if sc["cfg"]["single"] or n < 3:
        return sc
    sc["groups"] = [[i] for i in range(n)]
    sc["mode"] = "edit:random"
    cur = [u for u, _ in sc["hosted"]]
    gone = []
    edits = []
    pos = sorted(r.sample(range(1, n), min(n - 1, r.choice([1, 1, 2, 3]))))
    for p_ in pos:
        k = r.random()
        deletable = [u for u in cur if 0 <= u <= 247]
        if k < 0.45 and len(deletable) > 0:
            u = r.choice(deletable)
            cur.remove(u)
            gone.append(u)
            edits.append({"before_read": p_, "op": "del", "uid": u, "kind": "ok"})
        elif k < 0.65 and gone:
            u = gone.pop(r.randrange(len(gone)))
            cur.append(u)
            edits.append({"before_read": p_, "op": "set", "uid": u, "kind": "ok"})
        elif k < 0.8 and deletable:
            u = r.choice(deletable)       # replace the slave object in place
            edits.append({"before_read": p_, "op": "set", "uid": u, "kind": r.choice(["ok", "ok", "raise"])})
        else:
            u = r.choice([x for x in (0, 3, 5, 9, 100, 246, 247) if x not in cur] or [r.randrange(1, 247)])
            if u in cur:
                continue
            cur.append(u)
            edits.append({"before_read": p_, "op": "set", "uid": u, "kind": "ok"})
        # aim the following requests at the edited id, the ids after it, and broadcast
        for i in range(p_, n):
            if r.random() < 0.6:
                q = sc["reqs"][i]
                uid = r.choice([0, u, u] + cur)
                if sc["framer"] != "binary" or binary_clean(uid, bytes.fromhex(q["pdu"])):
                    q["uid"] = uid
    sc["edits"] = edits
    return sc


def gen_scenario(r, fe, framer, multi_bias=0.6, max_reqs=6):
    tw = fe.startswith("tw_")
    single = r.random() > multi_bias
    cfg = {"single": single, "bcast": (not tw) and r.random() < 0.5, "ignore": r.random() < 0.5}
    if single:
        hosted = [(0, r.choice(["ok"] * 8 + ["raise", "noslave"]))]
    else:
        ids = list(r.choice(HOSTED))
        if r.random() < 0.15:
            ids = r.sample(range(0, 248), r.choice([1, 2, 4]))
        hosted = [(u, r.choice(["ok"] * 10 + ["raise", "noslave"])) for u in ids]
    n = r.choice([1, 1, 2, 3, 4, 5, 6][:max_reqs + 1])
    reqs = []
    for _ in range(n):
        label, pdu, lo = pdu_menu(r, framer)
        k = r.random()
        if k < 0.45:
            uid = r.choice([u for u, _ in hosted])
        elif k < 0.85:
            uid = r.choice(UIDS)
        else:
            uid = r.randrange(256)
        tid = r.choice(TIDS + [r.randrange(65536)])
        while framer == "binary" and not binary_clean(uid, pdu):
            label, pdu, lo = pdu_menu(r, framer)
            uid = r.choice([u for u, _ in hosted] + UIDS)
        reqs.append({"label": label, "pdu": pdu.hex(), "uid": uid, "tid": tid, "listen": lo})
    mode = r.choice(["one-per-read", "pipelined", "grouped"])
    groups = []
    if mode == "one-per-read":
        groups = [[i] for i in range(n)]
    elif mode == "pipelined":
        groups = [list(range(n))]
    else:
        cur = []
        for i in range(n):
            cur.append(i)
            if r.random() < 0.5:
                groups.append(cur)
                cur = []
        if cur:
            groups.append(cur)
    if fe in DATAGRAM and r.random() < 0.8:
        groups = [[i] for i in range(n)]
        mode = "one-per-read"
    return {"fe": fe, "framer": framer, "cfg": cfg, "hosted": [list(h) for h in hosted], "reqs": reqs,
            "groups": groups, "mode": mode, "direct": False}


def reads_of(sc):
    fe, fr = sc["fe"], sc["framer"]
    reads = []
    for gi, g in enumerate(sc["groups"]):
        data = b"".join(adu(fr, sc["reqs"][i]["tid"], sc["reqs"][i]["uid"], bytes.fromhex(sc["reqs"][i]["pdu"])) for i in g)
        reads.append((data, gi + 1) if fe in DATAGRAM else data)
    return reads


def run_scenario(sc):
    return run(sc["fe"], sc["framer"], sc["cfg"], [tuple(h) for h in sc["hosted"]], reads_of(sc),
               direct=sc.get("direct", False), edits=sc.get("edits"))


def _z(n):
    n = int(n)
    return "(%d)" % n if n < 0 else "%d" % n


def _optz(v):
    return "None" if v is None else "(Some %s)" % _z(v)


def _b(v):
    return "true" if v else "false"


def _l(items):
    return "[" + "; ".join(items) + "]"


def cfg_term(cfg):
    return "{| cf_single := %s; cf_bcast := %s; cf_ignore := %s |}" % (_b(cfg["single"]), _b(cfg["bcast"]), _b(cfg["ignore"]))


def case_term(sc, rec):
    evs = []
    for kind, d in rec.timeline:
        if kind == "del":
            evs.append("EvDel %s" % _z(d))
            continue
        if kind == "set":
            evs.append("EvSet %s" % _z(d))
            continue
        res = []
        for u, rr in d["results"]:
            if rr[0] == "ok":
                res.append("(%s, ROk %s %s %s)" % (_z(u), _z(rr[1]), _b(rr[2]), _optz(rr[3])))
            else:
                res.append("(%s, RRaise %s)" % (_z(u), rr[1]))
        evs.append("EvReq {| c_tag := %s; c_tid := %s; c_uid := %s; c_fc := %s; c_dest := %s; c_results := %s |}" % (
            _z(d["tag"]), _z(d["tid"]), _z(d["uid"]), _z(d["fc"]), _z(d["dest"]), _l(res)))
    outs = []
    for s in rec.sent:
        outs.append("{| oo_for := %s; oo_out := {| o_tid := %s; o_uid := %s; o_fc := %s; o_code := %s; o_dest := %s |} |}" % (
            _z(-1 if s["for"] is None else s["for"]), _z(s["tid"]), _z(s["uid"]), _z(s["fc"]), _optz(s["code"]),
            _z(-1 if s["dest"] is None else s["dest"])))
    hosted = [u for u, _ in rec.initial_units]
    logs = ["(%s, %s)" % (_z(u), _l(_z(t) for t in rec.logs[u])) for u, _ in rec.units]
    escaped = any(d["escaped"] for d in rec.delivered)
    return ('{| k_fe := "%s"%%string; k_cfg := %s; k_hosted := %s; k_evs := %s; k_outs := %s; k_logs := %s; '
            'k_changed := %s; k_escaped := %s |}') % (
        sc["fe"], cfg_term(sc["cfg"]), _l(_z(u) for u in hosted), _l(evs), _l(outs), _l(logs),
        _l(_z(u) for u in rec.changed), _b(escaped))


def observation(rec):
    """JSON-able summary for samples / replays"""
    return {"delivered": [{k: (v if k != "results" else [[u, list(x[:4])] for u, x in v]) for k, v in d.items()}
                          for d in rec.delivered],
            "sent": [{k: (v.hex() if isinstance(v, bytes) else v) for k, v in s.items()} for s in rec.sent],
            "logs": {str(u): t for u, t in rec.logs.items()}, "changed": rec.changed, "escaped": rec.escaped,
            "timeline": [[k, (d["tag"] if k == "req" else d)] for k, d in rec.timeline],
            "hosted_now": [u for u, _ in rec.units],
            # units whose tables changed although no request was ever executed on that slave object
            "changed_unaddressed": [u for u in rec.changed if not rec.logs.get(u)]}


def sanity(rec):
    """harness-level facts that must hold for the case term to mean what it says"""
    bad = []
    if len(rec.raw) != len(rec.sent) or any(s["dest"] is None for s in rec.sent):
        bad.append("bytes were written that did not come from buildPacket (or a built packet was not written)")
    if any(u == -1 for d in rec.delivered for u, _ in d["results"]):
        bad.append("request.execute was called on a context that is not one of the hosted units")
    return bad
