(* PduCls.v — the enumeration of pymodbus message classes that the two decoder factories
   (pymodbus/factory.py) can produce, by their Python class names.  Pure data: the constructor
   names are exactly `type(o).__name__`, so the generated tables (Generated/GenPdu.v) and the
   harness can refer to classes by name and a class unknown to this list fails the build
   (fail closed).  No proofs. *)
From PM.theories Require Import Base.
Open Scope string_scope.
Open Scope list_scope.

Inductive cls :=
| ReadHoldingRegistersRequest
| ReadDiscreteInputsRequest
| ReadInputRegistersRequest
| ReadCoilsRequest
| WriteMultipleCoilsRequest
| WriteMultipleRegistersRequest
| WriteSingleRegisterRequest
| WriteSingleCoilRequest
| ReadWriteMultipleRegistersRequest
| DiagnosticStatusRequest
| ReadExceptionStatusRequest
| GetCommEventCounterRequest
| GetCommEventLogRequest
| ReportSlaveIdRequest
| ReadFileRecordRequest
| WriteFileRecordRequest
| MaskWriteRegisterRequest
| ReadFifoQueueRequest
| ReadDeviceInformationRequest
| ReturnQueryDataRequest
| RestartCommunicationsOptionRequest
| ReturnDiagnosticRegisterRequest
| ChangeAsciiInputDelimiterRequest
| ForceListenOnlyModeRequest
| ClearCountersRequest
| ReturnBusMessageCountRequest
| ReturnBusCommunicationErrorCountRequest
| ReturnBusExceptionErrorCountRequest
| ReturnSlaveMessageCountRequest
| ReturnSlaveNoResponseCountRequest
| ReturnSlaveNAKCountRequest
| ReturnSlaveBusyCountRequest
| ReturnSlaveBusCharacterOverrunCountRequest
| ReturnIopOverrunCountRequest
| ClearOverrunCountRequest
| GetClearModbusPlusRequest
| IllegalFunctionRequest
| ReadHoldingRegistersResponse
| ReadDiscreteInputsResponse
| ReadInputRegistersResponse
| ReadCoilsResponse
| WriteMultipleCoilsResponse
| WriteMultipleRegistersResponse
| WriteSingleRegisterResponse
| WriteSingleCoilResponse
| ReadWriteMultipleRegistersResponse
| DiagnosticStatusResponse
| ReadExceptionStatusResponse
| GetCommEventCounterResponse
| GetCommEventLogResponse
| ReportSlaveIdResponse
| ReadFileRecordResponse
| WriteFileRecordResponse
| MaskWriteRegisterResponse
| ReadFifoQueueResponse
| ReadDeviceInformationResponse
| ReturnQueryDataResponse
| RestartCommunicationsOptionResponse
| ReturnDiagnosticRegisterResponse
| ChangeAsciiInputDelimiterResponse
| ForceListenOnlyModeResponse
| ClearCountersResponse
| ReturnBusMessageCountResponse
| ReturnBusCommunicationErrorCountResponse
| ReturnBusExceptionErrorCountResponse
| ReturnSlaveMessageCountResponse
| ReturnSlaveNoReponseCountResponse
| ReturnSlaveNAKCountResponse
| ReturnSlaveBusyCountResponse
| ReturnSlaveBusCharacterOverrunCountResponse
| ReturnIopOverrunCountResponse
| ClearOverrunCountResponse
| GetClearModbusPlusResponse
| ExceptionResponse.

Definition cls_idx (c : cls) : N :=
  match c with
  | ReadHoldingRegistersRequest => 0
  | ReadDiscreteInputsRequest => 1
  | ReadInputRegistersRequest => 2
  | ReadCoilsRequest => 3
  | WriteMultipleCoilsRequest => 4
  | WriteMultipleRegistersRequest => 5
  | WriteSingleRegisterRequest => 6
  | WriteSingleCoilRequest => 7
  | ReadWriteMultipleRegistersRequest => 8
  | DiagnosticStatusRequest => 9
  | ReadExceptionStatusRequest => 10
  | GetCommEventCounterRequest => 11
  | GetCommEventLogRequest => 12
  | ReportSlaveIdRequest => 13
  | ReadFileRecordRequest => 14
  | WriteFileRecordRequest => 15
  | MaskWriteRegisterRequest => 16
  | ReadFifoQueueRequest => 17
  | ReadDeviceInformationRequest => 18
  | ReturnQueryDataRequest => 19
  | RestartCommunicationsOptionRequest => 20
  | ReturnDiagnosticRegisterRequest => 21
  | ChangeAsciiInputDelimiterRequest => 22
  | ForceListenOnlyModeRequest => 23
  | ClearCountersRequest => 24
  | ReturnBusMessageCountRequest => 25
  | ReturnBusCommunicationErrorCountRequest => 26
  | ReturnBusExceptionErrorCountRequest => 27
  | ReturnSlaveMessageCountRequest => 28
  | ReturnSlaveNoResponseCountRequest => 29
  | ReturnSlaveNAKCountRequest => 30
  | ReturnSlaveBusyCountRequest => 31
  | ReturnSlaveBusCharacterOverrunCountRequest => 32
  | ReturnIopOverrunCountRequest => 33
  | ClearOverrunCountRequest => 34
  | GetClearModbusPlusRequest => 35
  | IllegalFunctionRequest => 36
  | ReadHoldingRegistersResponse => 37
  | ReadDiscreteInputsResponse => 38
  | ReadInputRegistersResponse => 39
  | ReadCoilsResponse => 40
  | WriteMultipleCoilsResponse => 41
  | WriteMultipleRegistersResponse => 42
  | WriteSingleRegisterResponse => 43
  | WriteSingleCoilResponse => 44
  | ReadWriteMultipleRegistersResponse => 45
  | DiagnosticStatusResponse => 46
  | ReadExceptionStatusResponse => 47
  | GetCommEventCounterResponse => 48
  | GetCommEventLogResponse => 49
  | ReportSlaveIdResponse => 50
  | ReadFileRecordResponse => 51
  | WriteFileRecordResponse => 52
  | MaskWriteRegisterResponse => 53
  | ReadFifoQueueResponse => 54
  | ReadDeviceInformationResponse => 55
  | ReturnQueryDataResponse => 56
  | RestartCommunicationsOptionResponse => 57
  | ReturnDiagnosticRegisterResponse => 58
  | ChangeAsciiInputDelimiterResponse => 59
  | ForceListenOnlyModeResponse => 60
  | ClearCountersResponse => 61
  | ReturnBusMessageCountResponse => 62
  | ReturnBusCommunicationErrorCountResponse => 63
  | ReturnBusExceptionErrorCountResponse => 64
  | ReturnSlaveMessageCountResponse => 65
  | ReturnSlaveNoReponseCountResponse => 66
  | ReturnSlaveNAKCountResponse => 67
  | ReturnSlaveBusyCountResponse => 68
  | ReturnSlaveBusCharacterOverrunCountResponse => 69
  | ReturnIopOverrunCountResponse => 70
  | ClearOverrunCountResponse => 71
  | GetClearModbusPlusResponse => 72
  | ExceptionResponse => 73
  end%N.

Definition cls_eqb (a b : cls) : bool := N.eqb (cls_idx a) (cls_idx b).

Definition cls_name (c : cls) : string :=
  match c with
  | ReadHoldingRegistersRequest => "ReadHoldingRegistersRequest"
  | ReadDiscreteInputsRequest => "ReadDiscreteInputsRequest"
  | ReadInputRegistersRequest => "ReadInputRegistersRequest"
  | ReadCoilsRequest => "ReadCoilsRequest"
  | WriteMultipleCoilsRequest => "WriteMultipleCoilsRequest"
  | WriteMultipleRegistersRequest => "WriteMultipleRegistersRequest"
  | WriteSingleRegisterRequest => "WriteSingleRegisterRequest"
  | WriteSingleCoilRequest => "WriteSingleCoilRequest"
  | ReadWriteMultipleRegistersRequest => "ReadWriteMultipleRegistersRequest"
  | DiagnosticStatusRequest => "DiagnosticStatusRequest"
  | ReadExceptionStatusRequest => "ReadExceptionStatusRequest"
  | GetCommEventCounterRequest => "GetCommEventCounterRequest"
  | GetCommEventLogRequest => "GetCommEventLogRequest"
  | ReportSlaveIdRequest => "ReportSlaveIdRequest"
  | ReadFileRecordRequest => "ReadFileRecordRequest"
  | WriteFileRecordRequest => "WriteFileRecordRequest"
  | MaskWriteRegisterRequest => "MaskWriteRegisterRequest"
  | ReadFifoQueueRequest => "ReadFifoQueueRequest"
  | ReadDeviceInformationRequest => "ReadDeviceInformationRequest"
  | ReturnQueryDataRequest => "ReturnQueryDataRequest"
  | RestartCommunicationsOptionRequest => "RestartCommunicationsOptionRequest"
  | ReturnDiagnosticRegisterRequest => "ReturnDiagnosticRegisterRequest"
  | ChangeAsciiInputDelimiterRequest => "ChangeAsciiInputDelimiterRequest"
  | ForceListenOnlyModeRequest => "ForceListenOnlyModeRequest"
  | ClearCountersRequest => "ClearCountersRequest"
  | ReturnBusMessageCountRequest => "ReturnBusMessageCountRequest"
  | ReturnBusCommunicationErrorCountRequest => "ReturnBusCommunicationErrorCountRequest"
  | ReturnBusExceptionErrorCountRequest => "ReturnBusExceptionErrorCountRequest"
  | ReturnSlaveMessageCountRequest => "ReturnSlaveMessageCountRequest"
  | ReturnSlaveNoResponseCountRequest => "ReturnSlaveNoResponseCountRequest"
  | ReturnSlaveNAKCountRequest => "ReturnSlaveNAKCountRequest"
  | ReturnSlaveBusyCountRequest => "ReturnSlaveBusyCountRequest"
  | ReturnSlaveBusCharacterOverrunCountRequest => "ReturnSlaveBusCharacterOverrunCountRequest"
  | ReturnIopOverrunCountRequest => "ReturnIopOverrunCountRequest"
  | ClearOverrunCountRequest => "ClearOverrunCountRequest"
  | GetClearModbusPlusRequest => "GetClearModbusPlusRequest"
  | IllegalFunctionRequest => "IllegalFunctionRequest"
  | ReadHoldingRegistersResponse => "ReadHoldingRegistersResponse"
  | ReadDiscreteInputsResponse => "ReadDiscreteInputsResponse"
  | ReadInputRegistersResponse => "ReadInputRegistersResponse"
  | ReadCoilsResponse => "ReadCoilsResponse"
  | WriteMultipleCoilsResponse => "WriteMultipleCoilsResponse"
  | WriteMultipleRegistersResponse => "WriteMultipleRegistersResponse"
  | WriteSingleRegisterResponse => "WriteSingleRegisterResponse"
  | WriteSingleCoilResponse => "WriteSingleCoilResponse"
  | ReadWriteMultipleRegistersResponse => "ReadWriteMultipleRegistersResponse"
  | DiagnosticStatusResponse => "DiagnosticStatusResponse"
  | ReadExceptionStatusResponse => "ReadExceptionStatusResponse"
  | GetCommEventCounterResponse => "GetCommEventCounterResponse"
  | GetCommEventLogResponse => "GetCommEventLogResponse"
  | ReportSlaveIdResponse => "ReportSlaveIdResponse"
  | ReadFileRecordResponse => "ReadFileRecordResponse"
  | WriteFileRecordResponse => "WriteFileRecordResponse"
  | MaskWriteRegisterResponse => "MaskWriteRegisterResponse"
  | ReadFifoQueueResponse => "ReadFifoQueueResponse"
  | ReadDeviceInformationResponse => "ReadDeviceInformationResponse"
  | ReturnQueryDataResponse => "ReturnQueryDataResponse"
  | RestartCommunicationsOptionResponse => "RestartCommunicationsOptionResponse"
  | ReturnDiagnosticRegisterResponse => "ReturnDiagnosticRegisterResponse"
  | ChangeAsciiInputDelimiterResponse => "ChangeAsciiInputDelimiterResponse"
  | ForceListenOnlyModeResponse => "ForceListenOnlyModeResponse"
  | ClearCountersResponse => "ClearCountersResponse"
  | ReturnBusMessageCountResponse => "ReturnBusMessageCountResponse"
  | ReturnBusCommunicationErrorCountResponse => "ReturnBusCommunicationErrorCountResponse"
  | ReturnBusExceptionErrorCountResponse => "ReturnBusExceptionErrorCountResponse"
  | ReturnSlaveMessageCountResponse => "ReturnSlaveMessageCountResponse"
  | ReturnSlaveNoReponseCountResponse => "ReturnSlaveNoReponseCountResponse"
  | ReturnSlaveNAKCountResponse => "ReturnSlaveNAKCountResponse"
  | ReturnSlaveBusyCountResponse => "ReturnSlaveBusyCountResponse"
  | ReturnSlaveBusCharacterOverrunCountResponse => "ReturnSlaveBusCharacterOverrunCountResponse"
  | ReturnIopOverrunCountResponse => "ReturnIopOverrunCountResponse"
  | ClearOverrunCountResponse => "ClearOverrunCountResponse"
  | GetClearModbusPlusResponse => "GetClearModbusPlusResponse"
  | ExceptionResponse => "ExceptionResponse"
  end.

Definition all_cls : list cls :=
  [ReadHoldingRegistersRequest;
   ReadDiscreteInputsRequest;
   ReadInputRegistersRequest;
   ReadCoilsRequest;
   WriteMultipleCoilsRequest;
   WriteMultipleRegistersRequest;
   WriteSingleRegisterRequest;
   WriteSingleCoilRequest;
   ReadWriteMultipleRegistersRequest;
   DiagnosticStatusRequest;
   ReadExceptionStatusRequest;
   GetCommEventCounterRequest;
   GetCommEventLogRequest;
   ReportSlaveIdRequest;
   ReadFileRecordRequest;
   WriteFileRecordRequest;
   MaskWriteRegisterRequest;
   ReadFifoQueueRequest;
   ReadDeviceInformationRequest;
   ReturnQueryDataRequest;
   RestartCommunicationsOptionRequest;
   ReturnDiagnosticRegisterRequest;
   ChangeAsciiInputDelimiterRequest;
   ForceListenOnlyModeRequest;
   ClearCountersRequest;
   ReturnBusMessageCountRequest;
   ReturnBusCommunicationErrorCountRequest;
   ReturnBusExceptionErrorCountRequest;
   ReturnSlaveMessageCountRequest;
   ReturnSlaveNoResponseCountRequest;
   ReturnSlaveNAKCountRequest;
   ReturnSlaveBusyCountRequest;
   ReturnSlaveBusCharacterOverrunCountRequest;
   ReturnIopOverrunCountRequest;
   ClearOverrunCountRequest;
   GetClearModbusPlusRequest;
   IllegalFunctionRequest;
   ReadHoldingRegistersResponse;
   ReadDiscreteInputsResponse;
   ReadInputRegistersResponse;
   ReadCoilsResponse;
   WriteMultipleCoilsResponse;
   WriteMultipleRegistersResponse;
   WriteSingleRegisterResponse;
   WriteSingleCoilResponse;
   ReadWriteMultipleRegistersResponse;
   DiagnosticStatusResponse;
   ReadExceptionStatusResponse;
   GetCommEventCounterResponse;
   GetCommEventLogResponse;
   ReportSlaveIdResponse;
   ReadFileRecordResponse;
   WriteFileRecordResponse;
   MaskWriteRegisterResponse;
   ReadFifoQueueResponse;
   ReadDeviceInformationResponse;
   ReturnQueryDataResponse;
   RestartCommunicationsOptionResponse;
   ReturnDiagnosticRegisterResponse;
   ChangeAsciiInputDelimiterResponse;
   ForceListenOnlyModeResponse;
   ClearCountersResponse;
   ReturnBusMessageCountResponse;
   ReturnBusCommunicationErrorCountResponse;
   ReturnBusExceptionErrorCountResponse;
   ReturnSlaveMessageCountResponse;
   ReturnSlaveNoReponseCountResponse;
   ReturnSlaveNAKCountResponse;
   ReturnSlaveBusyCountResponse;
   ReturnSlaveBusCharacterOverrunCountResponse;
   ReturnIopOverrunCountResponse;
   ClearOverrunCountResponse;
   GetClearModbusPlusResponse;
   ExceptionResponse].

(* direction of a class: true = request (server decoder), false = response (client decoder) *)
Definition is_request (c : cls) : bool :=
  match c with
  | ReadHoldingRegistersRequest
  | ReadDiscreteInputsRequest
  | ReadInputRegistersRequest
  | ReadCoilsRequest
  | WriteMultipleCoilsRequest
  | WriteMultipleRegistersRequest
  | WriteSingleRegisterRequest
  | WriteSingleCoilRequest
  | ReadWriteMultipleRegistersRequest
  | DiagnosticStatusRequest
  | ReadExceptionStatusRequest
  | GetCommEventCounterRequest
  | GetCommEventLogRequest
  | ReportSlaveIdRequest
  | ReadFileRecordRequest
  | WriteFileRecordRequest
  | MaskWriteRegisterRequest
  | ReadFifoQueueRequest
  | ReadDeviceInformationRequest
  | ReturnQueryDataRequest
  | RestartCommunicationsOptionRequest
  | ReturnDiagnosticRegisterRequest
  | ChangeAsciiInputDelimiterRequest
  | ForceListenOnlyModeRequest
  | ClearCountersRequest
  | ReturnBusMessageCountRequest
  | ReturnBusCommunicationErrorCountRequest
  | ReturnBusExceptionErrorCountRequest
  | ReturnSlaveMessageCountRequest
  | ReturnSlaveNoResponseCountRequest
  | ReturnSlaveNAKCountRequest
  | ReturnSlaveBusyCountRequest
  | ReturnSlaveBusCharacterOverrunCountRequest
  | ReturnIopOverrunCountRequest
  | ClearOverrunCountRequest
  | GetClearModbusPlusRequest
  | IllegalFunctionRequest => true
  | _ => false
  end.
