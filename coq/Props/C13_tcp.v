(* Props/C13_tcp.v — C13 for the TCP client with the CONCRETE socket-framer model: the abstract framer of Props/C13.v is
   instantiated with [tcp_framer dec] (theories/ClientTcp.v: FrTcp.t_recv / t_reset over the records regenerated from
   pymodbus/framer/socket_framer.py) and the framer hypotheses of Props/C13.v are PROVED for it
   (proofs/ClientTcp_proofs.v, from proofs/FrA_tcp_proofs.v / FrA_tcp_gate_proofs.v).  What remains assumed is only
   the decoder oracle: [dec] never raises (ClientDecoder.decode catches everything; shape-checked by gen_client). *)
From PM.theories Require Import Base Expr Struct FrBaseA FrTcp FrSpecA.
From PM.Generated Require Import GenFramerA GenClient.
From PM.theories Require Import Client CorrClient ClientTcp.
From PM.proofs Require Import FrA_tcp_proofs FrA_tcp_gate_proofs Client_proofs ClientTcp_proofs.
Open Scope list_scope.
Open Scope Z_scope.

(* no exception escapes the TCP client, whatever the transport does and whatever bytes arrive:
   a reply, an error object, the broadcast literal — or ConnectionException with the client left unconnected *)
Theorem C13_no_raise_tcp : forall (dec : bytes -> dres), (forall p e, dec p <> DRaise e) ->
  forall c st rq sc st' o,
  c_framing c = FTcp -> s_tx st = [] -> execute code tstate (tcp_framer dec) c st rq sc = (st', o) ->
  match o_res o with
  | RReply _ | RErr _ | RBroadcast => True
  | RRaise e => e = ConnectionExc /\ s_conn st' = false
  | RNone | RStuck => False
  end.
Proof. exact no_raise_tcp. Qed.
Print Assumptions C13_no_raise_tcp.

(* the transaction table is empty again after every call — no framer hypothesis; the precondition on
   _no_response_devices is real: for a flagged unit _recv reads without a size bound *)
Theorem C13_inv_tcp : forall (dec : bytes -> dres), (forall p e, dec p <> DRaise e) ->
  forall c st rq sc st' o,
  c_framing c = FTcp -> c_udp c = false -> Client.zmem (r_unit rq) (s_noresp st) = false ->
  s_tx st = [] -> execute code tstate (tcp_framer dec) c st rq sc = (st', o) -> s_tx st' = [].
Proof. exact execute_tx_tcp. Qed.
Print Assumptions C13_inv_tcp.

(* after ANY script the next call over a healthy TCP transport (header + function code, then the rest; or the whole
   frame when the unit is flagged) returns its own reply: the spec ADU of any valid frame for the request's unit *)
Theorem C13_ready_tcp : forall (dec : bytes -> dres), (forall p e, dec p <> DRaise e) ->
  forall c st rq1 faults st1 o1 rq f fcb data rest,
  c_framing c = FTcp -> c_udp c = false -> Client.zmem (r_unit rq1) (s_noresp st) = false -> s_tx st = [] ->
  execute code tstate (tcp_framer dec) c st rq1 faults = (st1, o1) ->
  c_bcast c && (r_unit rq =? 0) = false -> 0 <= retries_given c ->
  f_uid f = r_unit rq -> valid_frame KTcp dec (unit_cfg (r_unit rq)) f ->
  f_pdu f = fcb :: data -> (128 <= Z.of_N fcb -> length data = 1%nat) ->
  exists st2 o2,
    execute code tstate (tcp_framer dec) c st1 rq
      ((if s_conn st1 then [] else [Nothing])
         ++ attempt true (tcp_script (full_of tstate c st1 rq) (spec_adu KTcp f)) ++ rest) = (st2, o2)
    /\ o_res o2 = RReply (msg_of dec (spec_delivery KTcp f)) /\ s_tx st2 = [] /\ s_tid st2 = next_tid code (s_tid st1).
Proof. exact ready_tcp. Qed.
Print Assumptions C13_ready_tcp.

(* the socket framer's loop needs no more fuel than |buffer| + 1, raises nothing but ModbusIOException and never
   grows its buffer — from ANY state (this lemma did not exist in the framer development) *)
Theorem C13_tcp_framer_total : forall (dec : bytes -> dres), (forall p e, dec p <> DRaise e) ->
  forall c st data st' ds o, FrTcp.t_recv base tcp dec c st data = (st', ds, o) ->
  o <> OutOfFuel /\ (forall e, o = Exc e -> e = ModbusIOExc).
Proof. exact tcp_recv_facts. Qed.
Print Assumptions C13_tcp_framer_total.

Example C13_tcp_nonvacuous :
  exists st' o,
    execute code tstate (tcp_framer demo_dec) cfg_tcp_demo (Build_cstate 65535 [] (t_init tcp) [] false) rq_rh
      ([Nothing] ++ attempt true (tcp_script false (spec_adu KTcp demo_frame)) ++ []) = (st', o)
    /\ o_res o = RReply (msg_of demo_dec (spec_delivery KTcp demo_frame)) /\ s_tx st' = [] /\ s_tid st' = 0.
Proof. exact tcp_example. Qed.
Print Assumptions C13_tcp_nonvacuous.
