(* Props/C03_tcpascii.v — C03 (framing builds the spec ADU and round-trips), half for the
   socket (TCP/MBAP), ASCII and TLS framers and the LRC.  ONLY statements; proofs are in
   proofs/FrA_*_proofs.v.  [lrc], [tcp], [ascii], [tls], [base] are the records regenerated from
   pymodbus/utilities.py and pymodbus/framer/*.py on every run (Generated/GenFramerA.v). *)
From PM.theories Require Import Base Expr Struct FrBaseA Lrc FrTcp FrAscii FrTls FrSpecA.
From PM.Generated Require Import GenFramerA.
From PM.proofs Require Import FrA_lrc_proofs.
Open Scope list_scope.
Open Scope Z_scope.

(* computeLRC is the two's complement of the byte sum modulo 256, for every byte string *)
Theorem C03_lrc : forall bs : bytes,
  py_lrc lrc bs = (256 - (bsum bs) mod 256) mod 256.
Proof. exact py_lrc_spec. Qed.
Print Assumptions C03_lrc.

Theorem C03_check_lrc : forall (data : bytes) (check : Z),
  py_check_lrc lrc data check = (spec_lrc data =? check).
Proof. exact py_check_lrc_spec. Qed.
Print Assumptions C03_check_lrc.

Example C03_nonvacuous : py_lrc lrc [1%N; 3%N; 0%N; 0%N; 0%N; 2%N] = 250.
Proof. reflexivity. Qed.
