(* FrA_ascii_resync_proofs.v — C11 for the ASCII framer: recovery from an ARBITRARY state
   (any buffered garbage, any header) by one read of valid frames.  Builds on
   FrA_ascii_proofs.v (model instantiated with the generated code). *)
From PM.theories Require Import Base Expr Struct FrBaseA Lrc FrAscii FrSpecA.
From PM.Generated Require Import GenFramerA.
From PM.proofs Require Import Struct_proofs FrA_lrc_proofs FrA_stream_proofs FrA_ascii_proofs.
From Coq Require Import ZifyBool.
Open Scope list_scope.
Open Scope Z_scope.
Ltac Zify.zify_post_hook ::= Z.to_euclidean_division_equations.

(* ---- find over a concatenation ---- *)
Lemma find_colon_app X t :
  exists s, find_sub [COLON] (X ++ COLON :: t) = Some s /\ (s <= length X)%nat /\
            skipn s (X ++ COLON :: t) = skipn s X ++ COLON :: t /\
            (skipn s X = [] \/ exists X2, skipn s X = COLON :: X2).
Proof.
  induction X as [|x X IH].
  - exists 0%nat. cbn. repeat split; auto.
  - cbn [app find_sub prefix_eqb]. destruct (N.eqb COLON x) eqn:E.
    + apply N.eqb_eq in E. subst x. exists 0%nat. cbn [andb skipn length]. repeat split; try lia. right. now exists X.
    + cbn [andb]. destruct IH as (s & Hs & Hl & Hk & Hd). rewrite Hs. exists (S s). cbn [skipn length].
      repeat split; try assumption; lia.
Qed.

Lemma find_colon_zero t : find_sub [COLON] (COLON :: t) = Some 0%nat.
Proof. reflexivity. Qed.

(* checkFrame only looks at the buffer from its first ':' on *)
Lemma check_clean_trim l h s :
  find_sub [COLON] l = Some s ->
  check_clean {| a_buf := l; a_hdr := h |} = check_clean {| a_buf := skipn s l; a_hdr := h |}.
Proof.
  intros Hs. pose proof (find_sub_prefix _ _ _ Hs) as P.
  unfold check_clean. cbn [a_buf a_hdr]. rewrite Hs.
  destruct (skipn s l) as [|c t] eqn:E; [discriminate|].
  cbn [prefix_eqb] in P. rewrite andb_true_r in P. apply N.eqb_eq in P. subst c.
  rewrite find_colon_zero. cbn [skipn]. reflexivity.
Qed.

(* a loop iteration depends on the state only through isFrameReady and checkFrame *)
Lemma a_loop_same dec units single f st st2 :
  a_isready ascii st = a_isready ascii st2 -> (a_isready ascii st = false -> st = st2) ->
  a_check lrc ascii st = a_check lrc ascii st2 ->
  a_loop base lrc ascii dec (S f) units single st = a_loop base lrc ascii dec (S f) units single st2.
Proof.
  intros Hr Hn Hc. cbn [a_loop]. rewrite <- Hr, <- Hc. destruct (a_isready ascii st); [reflexivity|].
  now rewrite (Hn eq_refl).
Qed.

Lemma find_crlf_app A B c :
  c <> LF ->
  find_sub [CR; LF] (A ++ c :: B) =
  match find_sub [CR; LF] A with
  | Some e => Some e
  | None => match find_sub [CR; LF] (c :: B) with Some e => Some (length A + e)%nat | None => None end
  end.
Proof.
  intros Hc. remember (find_sub [CR; LF] (c :: B)) as fB eqn:HfB.
  induction A as [|a A IH]; [cbn [app length Nat.add]; change (find_sub [CR; LF] []) with (@None nat); rewrite <- HfB; destruct fB; reflexivity|].
  cbn [app length]. change (find_sub [CR; LF] (a :: A ++ c :: B)) with
    (if prefix_eqb [CR; LF] (a :: A ++ c :: B) then Some 0%nat
     else match find_sub [CR; LF] (A ++ c :: B) with Some i => Some (S i) | None => None end).
  change (find_sub [CR; LF] (a :: A)) with
    (if prefix_eqb [CR; LF] (a :: A) then Some 0%nat
     else match find_sub [CR; LF] A with Some i => Some (S i) | None => None end).
  assert (Hp : prefix_eqb [CR; LF] (a :: A ++ c :: B) = prefix_eqb [CR; LF] (a :: A)).
  { cbn [prefix_eqb]. destruct A as [|a2 A]; cbn [app prefix_eqb].
    - replace (N.eqb LF c) with false by (symmetry; apply N.eqb_neq; congruence). now rewrite !andb_false_r.
    - reflexivity. }
  rewrite Hp. destruct (prefix_eqb [CR; LF] (a :: A)); [reflexivity|].
  rewrite IH. destruct (find_sub [CR; LF] A); [reflexivity|].
  destruct fB; reflexivity.
Qed.

(* ':' is not a hex character: a2b_hex of anything containing it fails *)
Lemma a2b_hex_colon : forall n A B, (length A <= n)%nat -> forall data, a2b_hex (A ++ COLON :: B) <> Ok data.
Proof.
  induction n as [|n IH]; intros A B HL data.
  - destruct A; [|cbn in HL; lia]. cbn [app a2b_hex]. destruct B; [discriminate|].
    change (hexval COLON) with (@None Z). discriminate.
  - destruct A as [|a [|b A]].
    + cbn [app a2b_hex]. destruct B; [discriminate|]. change (hexval COLON) with (@None Z). discriminate.
    + cbn [app a2b_hex]. change (hexval COLON) with (@None Z). destruct (hexval a); discriminate.
    + cbn [app a2b_hex]. destruct (hexval a); [|discriminate]. destruct (hexval b); [|discriminate].
      specialize (IH A B ltac:(cbn in HL; lia)).
      destruct (a2b_hex (A ++ COLON :: B)) as [r|]; [|discriminate]. exfalso. now apply (IH r).
Qed.

Lemma try_clean_data_raise buf h e :
  (forall data, a2b_hex (pyslice buf (0 + 1) (e - 2)) <> Ok data) ->
  exists h' x, try_clean buf h e = (h', Raise x) /\ a_len h' = a_len h.
Proof.
  intros Hd. unfold try_clean.
  destruct (int_hex2 _); [|eauto].
  destruct (a2b_hex (pyslice buf (e - 2) e)) as [[|b l]|]; cbn [a_len]; eauto.
  destruct (a2b_hex (pyslice buf (0 + 1) (e - 2))) as [data|x] eqn:E; [exfalso; now apply (Hd data)|].
  eauto.
Qed.

Lemma try_clean_len buf h e : a_len (fst (try_clean buf h e)) = a_len h.
Proof.
  unfold try_clean. destruct (int_hex2 _); [|reflexivity].
  destruct (a2b_hex (pyslice buf (e - 2) e)) as [[|b l]|]; reflexivity.
Qed.

Section Recover.
Variable dec : bytes -> dres.
Variable units : list Z.
Variable single : bool.
Notation loop := (a_loop base lrc ascii dec).
Notation good := (ascii_good dec units single).

Variable v : frame.
Variable vs : list frame.
Hypothesis Hv : good v.
Hypothesis Hvs : Forall good vs.

Definition Wrest : bytes := stream frame (spec_adu KAscii) vs.
Definition W : bytes := spec_adu KAscii v ++ Wrest.

Lemma W_shape : W = COLON :: fH v ++ CR :: LF :: Wrest.
Proof. unfold W. rewrite adu_ascii_shape. fold (fH v). cbn [app]. now rewrite <- app_assoc. Qed.

Lemma W_len : (9 <= length W)%nat.
Proof. destruct Hv as ((_ & _ & Hp) & _). unfold W. rewrite app_length, adu_ascii_length. lia. Qed.

Lemma W_find_crlf : find_sub [CR; LF] W = Some (S (length (fH v))).
Proof.
  rewrite W_shape. change (COLON :: fH v ++ CR :: LF :: Wrest) with ((COLON :: fH v) ++ CR :: LF :: Wrest).
  rewrite find_crlf_skip; [reflexivity|]. constructor; [discriminate|].
  eapply Forall_impl; [|apply fH_hex, Hv]. apply hexchar_not_cr.
Qed.

Lemma good_acc f : good f -> a_acc units single (f_uid f) = true.
Proof. intros (_ & _ & Hval). rewrite a_validate_spec in Hval. now injection Hval. Qed.

Lemma good_sf f : good f -> ascii_sf dec units single f.
Proof. intros Hg. pose proof Hg as (Hwf & Hm & _). split; [exact Hwf|]. intros _. exact Hm. Qed.

Lemma good_dls fs : Forall good fs -> flat_map (ascii_dls units single) fs = map (spec_delivery KAscii) fs.
Proof.
  induction 1 as [|f fs Hf _ IH]; [reflexivity|]. cbn [flat_map map]. unfold ascii_dls at 1.
  rewrite (good_acc f Hf), IH. reflexivity.
Qed.

(* the valid traffic alone: everything is delivered, the receiver ends synchronised *)
Lemma loop_W fuel h : (length W < fuel)%nat ->
  loop fuel units single {| a_buf := W; a_hdr := h |} =
  ({| a_buf := []; a_hdr := ahdr0 |}, map (spec_delivery KAscii) (v :: vs), Done).
Proof.
  intros Hf. destruct fuel as [|n]; [lia|]. unfold W in *.
  rewrite a_loop_frame by exact Hv.
  pose proof (adu_ascii_length v) as HL. rewrite app_length, HL in Hf.
  destruct n as [|n]; [lia|].
  rewrite <- (app_nil_r Wrest). unfold Wrest.
  rewrite (a_loop_stream dec units single vs n [] []); [rewrite good_dls by exact Hvs; reflexivity| | | |].
  - eapply Forall_impl; [|exact Hvs]. apply good_sf.
  - constructor.
  - pose proof (a_stream_length_ge vs). unfold Wrest in Hf. lia.
  - now left.
Qed.

Lemma ready_XW X h : a_isready ascii {| a_buf := X ++ W; a_hdr := h |} = true.
Proof. rewrite a_ready_eq. cbn [a_buf]. rewrite app_length. pose proof W_len. lia. Qed.

Theorem recover_loop : forall fuel X h st' ds o,
  (length (X ++ W) < fuel)%nat ->
  loop fuel units single {| a_buf := X ++ W; a_hdr := h |} = (st', ds, o) ->
  o = Done -> (a_buf st' = [] /\ a_hdr st' = ahdr0) /\ exists ds0, ds = ds0 ++ map (spec_delivery KAscii) (v :: vs).
Proof.
  induction fuel as [|f IH]; intros X h st' ds o Hlen Hrun Hdone; [lia|].
  (* 1. only the part from the first ':' on matters *)
  destruct (find_colon_app X (fH v ++ CR :: LF :: Wrest)) as (s & Hs & Hsl & Hsk & Hshape).
  rewrite <- W_shape in Hs, Hsk.
  assert (Hsame : loop (S f) units single {| a_buf := X ++ W; a_hdr := h |} =
                  loop (S f) units single {| a_buf := skipn s X ++ W; a_hdr := h |}).
  { apply a_loop_same.
    - now rewrite !ready_XW.
    - rewrite ready_XW. discriminate.
    - rewrite !a_check_eq. rewrite (check_clean_trim _ _ _ Hs), Hsk.
      destruct Hshape as [E|(X2 & E)]; rewrite E.
      + cbn [app]. symmetry. apply (check_clean_trim W h 0). rewrite W_shape. reflexivity.
      + symmetry. apply (check_clean_trim ((COLON :: X2) ++ W) h 0). reflexivity. }
  rewrite Hsame in Hrun.
  assert (Hlen1 : (length (skipn s X ++ W) < S f)%nat).
  { rewrite app_length, skipn_length. rewrite app_length in Hlen. lia. }
  destruct Hshape as [E|(X2 & E)]; rewrite E in *; clear Hsame.
  { (* 2. the valid traffic is at the head *)
    cbn [app] in *. rewrite (loop_W (S f) h Hlen1) in Hrun.
    injection Hrun as <- <- _. split; [split; reflexivity|]. exists []. reflexivity. }
  (* 3. the buffer is ':' X2 ++ W *)
  clear E Hs Hsk Hsl.
  cbn [a_loop] in Hrun. rewrite ready_XW in Hrun. rewrite a_check_eq in Hrun.
  unfold check_clean in Hrun. cbn [a_buf a_hdr] in Hrun.
  change ((COLON :: X2) ++ W) with (COLON :: X2 ++ W) in Hrun. rewrite find_colon_zero in Hrun. cbn [skipn] in Hrun.
  change (COLON :: X2 ++ W) with ((COLON :: X2) ++ W) in Hrun.
  assert (Hfind : find_sub [CR; LF] ((COLON :: X2) ++ W) =
                  match find_sub [CR; LF] (COLON :: X2) with
                  | Some e => Some e
                  | None => Some (length (COLON :: X2) + S (length (fH v)))%nat
                  end).
  { rewrite W_shape. rewrite find_crlf_app by discriminate. rewrite <- W_shape, W_find_crlf. reflexivity. }
  rewrite Hfind in Hrun. clear Hfind.
  set (buf := (COLON :: X2) ++ W) in *.
  assert (Hdrop : forall h', loop f units single (a_dropone ascii {| a_buf := buf; a_hdr := h' |}) = (st', ds, o) ->
                  (a_buf st' = [] /\ a_hdr st' = ahdr0) /\ exists ds0, ds = ds0 ++ map (spec_delivery KAscii) (v :: vs)).
  { intros h' Hr. rewrite a_dropone_eq in Hr. cbn [a_buf] in Hr. rewrite pyfrom_nn in Hr by lia.
    change (Z.to_nat 1) with 1%nat in Hr. unfold buf in Hr. cbn [app skipn] in Hr.
    eapply (IH X2 ahdr0); [|exact Hr|exact Hdone]. unfold buf in Hlen1. cbn [app length] in Hlen1. lia. }
  destruct (find_sub [CR; LF] (COLON :: X2)) as [e|] eqn:Ee.
  - (* 3a. a CR LF inside the garbage *)
    pose proof (find_sub_prefix _ _ _ Ee) as Pe.
    assert (He0 : e <> 0%nat) by (intros ->; cbn in Pe; discriminate).
    assert (He2 : (e + 2 <= length (COLON :: X2))%nat).
    { assert (2 <= length (skipn e (COLON :: X2)))%nat.
      { destruct (skipn e (COLON :: X2)) as [|a [|b t]]; cbn in Pe; try discriminate.
        - rewrite andb_false_r in Pe. discriminate.
        - cbn. lia. }
      rewrite skipn_length in H. lia. }
    pose proof (try_clean_len buf {| a_lrc := a_lrc h; a_len := Z.of_nat e; a_uid := a_uid h |} (Z.of_nat e)) as HL.
    destruct (try_clean buf _ (Z.of_nat e)) as [h' [data|x]]; cbn [fst a_len] in HL.
    + destruct (spec_lrc data =? match a_lrc h' with Some v0 => v0 | None => -1 end).
      * (* accepted span inside the garbage *)
        cbn [a_hdr] in Hrun.
        destruct (validate_unit base units single (Some (a_uid h'))) as [[|]|x].
        -- destruct (a_getframe ascii {| a_buf := buf; a_hdr := h' |}) as [frame|x]; [|injection Hrun as _ _ <-; discriminate].
           destruct (dec frame); try (injection Hrun as _ _ <-; discriminate).
           destruct (loop f units single (a_advance ascii {| a_buf := buf; a_hdr := h' |})) as [[s2 d2] o2] eqn:Er.
           cbn [cons_da] in Hrun. injection Hrun as <- <- <-.
           rewrite a_advance_eq in Er. cbn [a_buf a_hdr] in Er. rewrite HL in Er. rewrite pyfrom_nn in Er by lia.
           replace (Z.to_nat (Z.of_nat e + 2)) with (e + 2)%nat in Er by lia.
           unfold buf in Er. rewrite skipn_app in Er.
           replace (e + 2 - length (COLON :: X2))%nat with 0%nat in Er by lia. cbn [skipn] in Er.
           destruct (IH (skipn (e + 2) (COLON :: X2)) ahdr0 _ _ _ ltac:(rewrite app_length, skipn_length; unfold buf in Hlen1; rewrite app_length in Hlen1; lia) Er Hdone)
             as (Hsync & ds0 & Hds).
           split; [exact Hsync|]. eexists (_ :: ds0). rewrite Hds. reflexivity.
        -- (* unit not served: advanceFrame, scanning goes on behind the span *)
           rewrite a_advance_eq in Hrun. cbn [a_buf a_hdr] in Hrun. rewrite HL in Hrun. rewrite pyfrom_nn in Hrun by lia.
           replace (Z.to_nat (Z.of_nat e + 2)) with (e + 2)%nat in Hrun by lia.
           unfold buf in Hrun. rewrite skipn_app in Hrun.
           replace (e + 2 - length (COLON :: X2))%nat with 0%nat in Hrun by lia. cbn [skipn] in Hrun.
           eapply (IH (skipn (e + 2) (COLON :: X2)) ahdr0); [|exact Hrun|exact Hdone].
           rewrite app_length, skipn_length. unfold buf in Hlen1. rewrite app_length in Hlen1. lia.
        -- injection Hrun as _ _ <-. discriminate.
      * rewrite a_droptest_eq in Hrun. cbn [a_hdr] in Hrun. rewrite HL in Hrun.
        replace (Z.of_nat e =? 0) with false in Hrun by lia. cbn [negb] in Hrun. exact (Hdrop h' Hrun).
    + rewrite a_droptest_eq in Hrun. cbn [a_hdr] in Hrun. rewrite HL in Hrun.
      replace (Z.of_nat e =? 0) with false in Hrun by lia. cbn [negb] in Hrun. exact (Hdrop h' Hrun).
  - (* 3b. the first CR LF is the one of the first valid frame: the span contains its ':' *)
    set (e := (length (COLON :: X2) + S (length (fH v)))%nat) in *.
    pose proof (fH_length v) as HfH.
    destruct (try_clean_data_raise buf {| a_lrc := a_lrc h; a_len := Z.of_nat e; a_uid := a_uid h |} (Z.of_nat e))
      as (h' & x & Htry & HL).
    { intros data. rewrite pyslice_nn by lia. change (Z.to_nat (0 + 1)) with 1%nat.
      unfold buf. cbn [app skipn]. rewrite W_shape.
      rewrite firstn_app.
      assert (H1 : firstn (Z.to_nat (Z.of_nat e - 2) - 1)%nat X2 = X2).
      { apply firstn_all2. unfold e. cbn [length]. lia. }
      assert (H2 : (Z.to_nat (Z.of_nat e - 2) - 1 - length X2)%nat = S (length (fH v) - 2)).
      { unfold e. cbn [length]. lia. }
      rewrite H1, H2.
      cbn [firstn]. apply (a2b_hex_colon (length X2) X2). lia. }
    rewrite Htry in Hrun. rewrite a_droptest_eq in Hrun. cbn [a_hdr a_len] in Hrun. cbn [a_len] in HL. rewrite HL in Hrun.
    replace (Z.of_nat e =? 0) with false in Hrun by (unfold e; cbn [length]; lia). cbn [negb] in Hrun.
    exact (Hdrop h' Hrun).
Qed.

End Recover.

(* ---- receive-call level ---- *)
Theorem ascii_recover dec c st (vs : list frame) st' ds o :
  vs <> [] -> Forall (valid_frame KAscii dec c) vs ->
  a_recv base lrc ascii dec c st (concat (map (spec_adu KAscii) vs)) = (st', ds, o) ->
  o = Done -> a_sync st' /\ exists ds0, ds = ds0 ++ map (spec_delivery KAscii) vs.
Proof.
  intros Hne Hv Hrun Hdone. destruct vs as [|v vs]; [now elim Hne|].
  assert (Hg : Forall (ascii_good dec (c_units c) (single_of (a_single_default ascii) c)) (v :: vs)).
  { eapply Forall_impl; [|exact Hv]. intros f. apply a_valid_good. }
  unfold a_recv in Hrun. cbn [a_buf a_hdr map concat] in Hrun.
  change (spec_adu KAscii v ++ concat (map (spec_adu KAscii) vs)) with (W v vs) in Hrun.
  unfold a_sync.
  eapply (recover_loop dec _ _ v vs (Forall_inv Hg) (Forall_inv_tail Hg)); [|exact Hrun|exact Hdone]. lia.
Qed.

(* with the serial handlers' reset-on-exception: ALWAYS synchronised after one read of valid frames *)
Theorem ascii_recover_handler dec c st (vs : list frame) :
  vs <> [] -> Forall (valid_frame KAscii dec c) vs ->
  a_sync (fst (fst (a_recv_h base lrc ascii dec c st (concat (map (spec_adu KAscii) vs))))).
Proof.
  intros Hne Hv. unfold a_recv_h.
  destruct (a_recv base lrc ascii dec c st (concat (map (spec_adu KAscii) vs))) as [[s1 d1] o] eqn:E.
  destruct o.
  - cbn [fst]. eapply ascii_recover; eauto.
  - cbn [fst]. split; reflexivity.
  - exfalso. eapply ascii_recv_no_fuel_out; [exact E|reflexivity].
Qed.
