(* C09 add-on — the two flags that decide when the server stays silent (broadcast_enable,
   ignore_missing_slaves) reach the handlers from every documented entry point.  C09_silence_*
   are stated over the flags the handlers read; this ties those to what the user passed to a
   Start*Server factory (a factory forwarding only a fixed list of keywords would run the server
   with broadcast disabled and answer requests to unit 0). *)
From Coq Require Import List String.
From PM.theories Require Import Base Ladder Frontends CorrFrontends Wiring.
From PM.Generated Require Import GenFrontends GenWiring.
From PM.proofs Require Import FrontendsC12_proofs Wiring_proofs.
Import ListNotations.
Open Scope string_scope.
Open Scope list_scope.

Theorem C09_cfg_flags_served : forall f fe flag,
  In f factories -> In (fa_target f, fe) servers ->
  (flag = "ignore_missing_slaves" \/ (flag = "broadcast_enable" /\ fe <> TwTcp /\ fe <> TwUdp)) ->
  exists roles s p, assoc_s (fa_target f) server_wiring = Some roles /\ assoc_s flag roles = Some s /\
    wparam s = Some p /\
    forall V (env : string -> option V) (x d : V),
      (env flag = Some x -> configured s (ctor_sees f env p) d = x) /\
      (env flag = None -> configured s (ctor_sees f env p) d = d).
Proof. exact flags_served. Qed.
Print Assumptions C09_cfg_flags_served.

Example C09_cfg_nonvacuous :
  exists f, In f factories /\ In (fa_target f, SyncTcp) servers /\
    ctor_sees f (fun k => if String.eqb k "broadcast_enable" then Some true else None) "broadcast_enable" = Some true.
Proof. eexists. split; [left; reflexivity|]. split; [vm_compute; tauto | reflexivity]. Qed.
Print Assumptions C09_cfg_nonvacuous.
