(* FrBaseA.v — shared vocabulary of the socket/ASCII/TLS framer models (half "A" of the
   framer properties C03/C06/C07/C11): decoder oracle, deliveries, receive outcome, the unit
   filter of framer/__init__.py, Python slicing with negative indices, hex helpers
   (binascii.a2b_hex / b2a_hex, '%02x', bytes.upper, int(two bytes, 16)) and the small
   skeleton ADT the translator emits for processIncomingPacket.  No proofs. *)
From PM.theories Require Import Base Expr Struct.
Open Scope string_scope.
Open Scope list_scope.
Open Scope Z_scope.

(* decoder.decode(pdu): a message (we keep its function_code), None, or an exception *)
Inductive dres := DMsg (fc : Z) | DNone | DRaise (e : pyexn).

(* what the callback receives: the PDU bytes the message was decoded from and the header
   fields populateResult copied onto it (fields never copied keep the object default 0) *)
Record delivery := { d_pdu : bytes; d_tid : Z; d_pid : Z; d_uid : Z }.

Inductive outc := Done | Exc (e : pyexn) | OutOfFuel.

(* processIncomingPacket(data, callback, unit, single=?) *)
Record cfg := { c_units : list Z; c_single : option bool }.

(* ---- ModbusFramer._validate_unit_id ------------------------------------------------ *)
Record base_code := { v_any : list Z }.     (* the literals of `0 in units or 0xFF in units` *)

Definition zmem (x : Z) (l : list Z) : bool := existsb (Z.eqb x) l.

Definition validate_unit (B : base_code) (units : list Z) (single : bool) (uid : option Z) : res bool :=
  if single then Ok true
  else if existsb (fun k => zmem k units) (v_any B) then Ok true
  else match uid with Some u => Ok (zmem u units) | None => Raise KeyError end.

Definition single_of (dflt : bool) (c : cfg) : bool :=
  match c_single c with Some b => b | None => dflt end.

(* ---- Python slicing of bytes, data[lo:hi] / data[lo:], negative indices included ---- *)
Definition norm_idx (n : nat) (i : Z) : nat :=
  if i <? 0 then Z.to_nat (Z.max 0 (Z.of_nat n + i)) else Nat.min (Z.to_nat i) n.
Definition pyslice (bs : bytes) (lo hi : Z) : bytes :=
  let n := length bs in bslice bs (norm_idx n lo) (norm_idx n hi).
Definition pyfrom (bs : bytes) (lo : Z) : bytes := skipn (norm_idx (length bs) lo) bs.

(* ---- bytes.find ------------------------------------------------------------------- *)
Fixpoint prefix_eqb (p l : bytes) : bool :=
  match p, l with
  | [], _ => true
  | a :: p', b :: l' => N.eqb a b && prefix_eqb p' l'
  | _ :: _, [] => false
  end.
(* index of the first occurrence of the (non-empty) pattern, None = -1 *)
Fixpoint find_sub (p l : bytes) : option nat :=
  match l with
  | [] => None
  | _ :: t => if prefix_eqb p l then Some O
              else match find_sub p t with Some i => Some (S i) | None => None end
  end.
Definition find_z (p l : bytes) : Z := match find_sub p l with Some i => Z.of_nat i | None => -1 end.

(* ---- hex ----------------------------------------------------------------------------- *)
Definition hexval (b : N) : option Z :=
  if (48 <=? b)%N && (b <=? 57)%N then Some (Z.of_N b - 48)
  else if (65 <=? b)%N && (b <=? 70)%N then Some (Z.of_N b - 55)
  else if (97 <=? b)%N && (b <=? 102)%N then Some (Z.of_N b - 87)
  else None.

(* binascii.a2b_hex: odd length or a non-hex character -> binascii.Error (a ValueError) *)
Fixpoint a2b_hex (bs : bytes) : res bytes :=
  match bs with
  | [] => Ok []
  | [_] => Raise BinasciiError
  | a :: b :: t =>
      match hexval a, hexval b with
      | Some x, Some y => do r <- a2b_hex t; Ok (Z.to_N (16 * x + y) :: r)
      | _, _ => Raise BinasciiError
      end
  end.

Definition hexdig (v : Z) : N := Z.to_N (if v <? 10 then 48 + v else 87 + v).   (* lower case *)
Definition fmt02x (v : Z) : bytes := [hexdig (v / 16); hexdig (v mod 16)].        (* '%02x' % v, 0 <= v < 256 *)
Definition b2a_hex (bs : bytes) : bytes := flat_map (fun b => fmt02x (Z.of_N b)) bs.
Definition upper_b (b : N) : N := if (97 <=? b)%N && (b <=? 122)%N then (b - 32)%N else b.
Definition upper (bs : bytes) : bytes := map upper_b bs.

(* int(s, 16) for a two-byte s: ASCII whitespace is stripped, a sign is accepted *)
Definition is_ws (b : N) : bool := ((9 <=? b)%N && (b <=? 13)%N) || (b =? 32)%N.
Definition int_hex2 (s : bytes) : res Z :=
  match s with
  | [a; b] =>
      match hexval a, hexval b with
      | Some x, Some y => Ok (16 * x + y)
      | Some x, None => if is_ws b then Ok x else Raise ValueError
      | None, Some y => if is_ws a || (a =? 43)%N then Ok y
                        else if (a =? 45)%N then Ok (- y) else Raise ValueError
      | None, None => Raise ValueError
      end
  | _ => Raise ValueError
  end.

(* ---- skeleton of processIncomingPacket, as read by the translator -------------------- *)
Inductive pcond := PReady | PCheck | PUnit | PBufNonEmpty | PHdr (tag : string).
Inductive pstmt :=
| PIf (c : pcond) (t e : list pstmt)
| PProcess (err : bool) | PReset | PAdvance | PBreak | PDeliverInline | PDropOne.
Inductive ploop := LWhileTrue | LWhileReady | LOnce.
Record pskel := { sk_loop : ploop; sk_body : list pstmt }.

(* association lists keyed by attribute / header-key names *)
Fixpoint sassoc {A} (k : string) (l : list (string * A)) : option A :=
  match l with
  | [] => None
  | (k', v) :: t => if String.eqb k k' then Some v else sassoc k t
  end.

Definition delivery_eqb (a b : delivery) : bool :=
  list_eqb N.eqb (d_pdu a) (d_pdu b) && (d_tid a =? d_tid b) && (d_pid a =? d_pid b) && (d_uid a =? d_uid b).

Definition outc_eqb (a b : outc) : bool :=
  match a, b with
  | Done, Done => true | Exc e, Exc f => pyexn_eqb e f | OutOfFuel, OutOfFuel => true
  | _, _ => false
  end.

Definition bsum (bs : bytes) : Z := fold_right (fun b a => Z.of_N b + a) 0 bs.

(* ---- feeding a receiver a list of reads -------------------------------------------------
   [feed recv s chunks] = (final state, all deliveries in order, true iff every call returned
   normally (no exception escaped, fuel not exhausted)) *)
Section Feed.
Context {S : Type}.
Variable recv : S -> bytes -> S * list delivery * outc.
Fixpoint feed (s : S) (chunks : list bytes) : S * list delivery * bool :=
  match chunks with
  | [] => (s, [], true)
  | c :: cs =>
      let '(s1, ds, o) := recv s c in
      let '(s2, ds2, ok) := feed s1 cs in
      (s2, ds ++ ds2, match o with Done => ok | _ => false end)
  end.
End Feed.

(* position n of the concatenation of [adus] lies k bytes inside one of them (0 < k < its length) *)
Definition cut_inside (adus : list bytes) (n k : nat) : Prop :=
  exists a f b, adus = a ++ f :: b /\ n = (length (concat a) + k)%nat /\ (0 < k < length f)%nat.
