(* Struct.v — model of Python's struct.pack / struct.unpack for the format characters
   pymodbus uses with an explicit byte order ('>' / '<' / '!'; never native '@'):
   B b H h I i Q q  (floats e f d travel as their IEEE bit patterns through I/H/Q-like
   unsigned fields of the same width and are handled in Payload.v).
   pack raises StructError when a value is out of range for its field or the argument
   count is wrong; unpack raises StructError when the buffer length differs from the
   format size.  Bytes are [N] < 256.  No proofs here (see proofs/Struct_proofs.v). *)
From PM.theories Require Import Base.
Open Scope list_scope.
Open Scope Z_scope.

Inductive fmtc := FB | Fb | FH | Fh | FI | Fi | FQ | Fq.

Definition fwidth (c : fmtc) : nat :=
  match c with FB | Fb => 1 | FH | Fh => 2 | FI | Fi => 4 | FQ | Fq => 8 end%nat.

Definition fsigned (c : fmtc) : bool :=
  match c with Fb | Fh | Fi | Fq => true | _ => false end.

Definition fmt_size (fs : list fmtc) : nat := fold_right (fun c n => (fwidth c + n)%nat) O fs.

(* little-endian bytes of a non-negative integer, exactly w bytes (value taken mod 256^w) *)
Fixpoint le_bytes (w : nat) (v : Z) : bytes :=
  match w with
  | O => []
  | S k => Z.to_N (v mod 256) :: le_bytes k (v / 256)
  end.

Fixpoint le_value (bs : bytes) : Z :=
  match bs with
  | [] => 0
  | b :: t => Z.of_N b + 256 * le_value t
  end.

Definition pow256 (w : nat) : Z := 256 ^ Z.of_nat w.

Definition in_range (c : fmtc) (v : Z) : bool :=
  let m := pow256 (fwidth c) in
  if fsigned c then (- (m / 2) <=? v) && (v <? m / 2) else (0 <=? v) && (v <? m).

(* two's complement *)
Definition to_unsigned (c : fmtc) (v : Z) : Z := if v <? 0 then v + pow256 (fwidth c) else v.
Definition of_unsigned (c : fmtc) (u : Z) : Z :=
  if fsigned c && (pow256 (fwidth c) / 2 <=? u) then u - pow256 (fwidth c) else u.

Definition pack1 (big : bool) (c : fmtc) (v : Z) : res bytes :=
  if in_range c v then
    let le := le_bytes (fwidth c) (to_unsigned c v) in
    Ok (if big then rev le else le)
  else Raise StructError.

Definition unpack1 (big : bool) (c : fmtc) (bs : bytes) : Z :=
  of_unsigned c (le_value (if big then rev bs else bs)).

Fixpoint pack (big : bool) (fs : list fmtc) (vs : list Z) : res bytes :=
  match fs, vs with
  | [], [] => Ok []
  | c :: fs', v :: vs' =>
      do b <- pack1 big c v;
      do r <- pack big fs' vs';
      Ok (b ++ r)
  | _, _ => Raise StructError
  end.

Fixpoint unpack_go (big : bool) (fs : list fmtc) (bs : bytes) : list Z :=
  match fs with
  | [] => []
  | c :: fs' => unpack1 big c (firstn (fwidth c) bs) :: unpack_go big fs' (skipn (fwidth c) bs)
  end.

Definition unpack (big : bool) (fs : list fmtc) (bs : bytes) : res (list Z) :=
  if Nat.eqb (length bs) (fmt_size fs) then Ok (unpack_go big fs bs) else Raise StructError.

(* frequent special cases, big-endian *)
Definition be16 (v : Z) : bytes := [Z.to_N (v / 256 mod 256); Z.to_N (v mod 256)].
Definition rd_be16 (hi lo : N) : Z := Z.of_N hi * 256 + Z.of_N lo.

(* Python slicing of bytes, data[a:b] with 0 <= a <= b (no negative indices) *)
Definition bslice (bs : bytes) (a b : nat) : bytes := firstn (b - a) (skipn a bs).

(* data[i] (byte2int) — IndexError when out of range *)
Definition byte_at (bs : bytes) (i : nat) : res N :=
  match nth_error bs i with Some b => Ok b | None => Raise IndexError end.
